// Package harness is the common frame of every property check: case
// representation (literal, replayable), the worker loop, minimisation, and the
// reset of sentinel's process-global state between simulated runs.
package harness

import (
	"encoding/json"
	"fmt"
	"sort"

	"verif/sim"
)

// Op is one generated operation. A single flat shape for every property keeps
// shrinking and replay generic; each property documents which fields it uses.
type Op struct {
	K string   `json:"k"`           // kind
	R int      `json:"r,omitempty"` // resource / object index
	N uint64   `json:"n,omitempty"` // batch, amount, delta-t ...
	M uint64   `json:"m,omitempty"` // second numeric argument
	E int      `json:"e,omitempty"` // entry reference / event kind
	F bool     `json:"f,omitempty"` // flag (error, inbound, ...)
	S string   `json:"s,omitempty"` // string argument
	V float64  `json:"v,omitempty"`
	A []string `json:"a,omitempty"` // encoded argument list
}

type SchedSpec struct {
	Policy   int      `json:"policy"`
	StayProb float64  `json:"stay,omitempty"`
	TickProb float64  `json:"tickp,omitempty"`
	PCTDepth int      `json:"pct_d,omitempty"`
	EstSteps int      `json:"est,omitempty"`
	Ticks    []uint64 `json:"ticks,omitempty"` // tick plan in ns
	MaxSteps int      `json:"max_steps,omitempty"`
	Replay   []int    `json:"replay,omitempty"` // literal schedule; nil = draw from the run's PRNG
	Literal  bool     `json:"literal,omitempty"`
	PostLoad bool     `json:"post_load,omitempty"` // scheduling point after every atomic load too
}

type PoolSpec struct {
	Mode     int     `json:"mode"`
	MissRate float64 `json:"miss,omitempty"`
	Replay   []int   `json:"replay,omitempty"`
	Literal  bool    `json:"literal,omitempty"`
}

type Violation struct {
	Inv  string `json:"invariant"`
	Msg  string `json:"message"`
	Step int    `json:"step"`
	Key  string `json:"finding_key,omitempty"` // trigger class, see known_findings.json
}

type Case struct {
	Prop   string `json:"property"`
	Engine string `json:"engine"`
	Seed   uint64 `json:"seed"`
	Run    int    `json:"run"`
	Tier   string `json:"tier"`
	Tree   string `json:"tree,omitempty"`
	// Arch: the GOARCH the worker that ran the case was built for, when it is not the machine's own (the replay
	// builds its worker for it)
	Arch      string          `json:"goarch,omitempty"`
	Cfg       json.RawMessage `json:"config"`
	Callers   [][]Op          `json:"callers"`
	Sched     *SchedSpec      `json:"sched,omitempty"`
	Pool      *PoolSpec       `json:"pool,omitempty"`
	Violation *Violation      `json:"violation,omitempty"`
	Minimised bool            `json:"minimised,omitempty"`
	// Flaky: the violation depends on a source of nondeterminism inside the implementation that the
	// simulator does not own (Go map iteration order); replay retries until it reproduces.
	Flaky string `json:"flaky,omitempty"`
	// OpenKeys: the open known-finding keys that were tolerated when the violation was recorded (a replay tolerates
	// exactly these, whatever known_findings.json says by then).
	OpenKeys []string `json:"tolerated_known_findings,omitempty"`
}

func (c *Case) Clone() *Case {
	b, _ := json.Marshal(c)
	var d Case
	_ = json.Unmarshal(b, &d)
	return &d
}

func (c *Case) NumOps() int {
	n := 0
	for _, l := range c.Callers {
		n += len(l)
	}
	return n
}

// SchedRng / PoolRng: streams used when the case is not literal.
func (c *Case) StreamRng(stream string) *sim.Rng {
	return sim.NewRng(c.Seed, sim.HashString(c.Prop), uint64(c.Run), sim.HashString(stream))
}

type Outcome struct {
	V          *Violation
	Probes     map[string]int
	Faults     map[string]int
	Nontrivial bool
	OpHash     uint64
	SchedHash  uint64
	SimMs      uint64
	Steps      int
	Schedule   []int
	PoolLog    []int
	Ambiguous  int
	Infra      string // non-empty: infrastructure problem (exit 2), never a violation
	// Known: manifestations of recorded findings that the run tolerated and
	// continued past (the model adapted). If the key is not an open entry of
	// known_findings.json the first of them becomes the run's violation.
	Known []*Violation
}

// KnownHit records a tolerated manifestation of a recorded finding.
func (o *Outcome) KnownHit(key, inv string, step int, format string, a ...any) {
	o.Known = append(o.Known, &Violation{Inv: inv, Msg: fmt.Sprintf(format, a...), Step: step, Key: key})
}

func NewOutcome() *Outcome {
	return &Outcome{Probes: map[string]int{}, Faults: map[string]int{}}
}

func (o *Outcome) Probe(name string)         { o.Probes[name]++ }
func (o *Outcome) ProbeN(name string, n int) { o.Probes[name] += n }
func (o *Outcome) Fault(name string)         { o.Faults[name]++ }

// Fail records the first violation of a run.
func (o *Outcome) Fail(inv string, step int, format string, a ...any) {
	if o.V == nil {
		o.V = &Violation{Inv: inv, Msg: fmt.Sprintf(format, a...), Step: step}
	}
}

func (o *Outcome) Failed() bool { return o.V != nil }

// Prop is one property check.
type Prop interface {
	ID() string
	Engine() string
	// Gen draws a case from rng. It must not touch sentinel.
	Gen(rng *sim.Rng, tier string) *Case
	// Exec runs a case. It must be a deterministic function of the case.
	Exec(c *Case) *Outcome
	// Describe returns static evidence text.
	Describe() Description
}

// Classifier is optional: maps a minimised violating case to a finding key.
type Classifier interface {
	Classify(c *Case, v *Violation) string
}

// Witnesser is optional: literal cases for open known findings, by key.
type Witnesser interface {
	Witnesses() map[string]*Case
}

type Description struct {
	Rule         string
	Assumptions  []string
	Real         []string
	Stub         []string
	Level        string // exploration | fault_enumeration
	Exhaustive   bool
	ZeroProbesOK []string
	// MustHit: probes / fault kinds that must fire at least once per batch; a batch in which one of
	// them stays at zero explored nothing of that kind and is an infrastructure failure (exit 2).
	MustHit []string
}

var registry = map[string]Prop{}

func Register(p Prop) { registry[p.ID()] = p }

func Lookup(id string) Prop { return registry[id] }

func IDs() []string {
	var ids []string
	for k := range registry {
		ids = append(ids, k)
	}
	sort.Strings(ids)
	return ids
}

func MustJSON(v any) json.RawMessage {
	b, err := json.Marshal(v)
	if err != nil {
		panic(err)
	}
	return b
}

// HashOps hashes the literal operation lists and config of a case.
func HashOps(c *Case) uint64 {
	b, _ := json.Marshal(c.Callers)
	h := sim.HashString(string(b))
	return sim.HashAdd(h, sim.HashString(string(c.Cfg)))
}
