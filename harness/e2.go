package harness

import (
	"fmt"
	"runtime/debug"

	"verif/sim"
	"verif/sim/simsync"
)

// GenSched draws scheduler parameters for an E2 run.
func GenSched(rng *sim.Rng, ticks []uint64, est int) *SchedSpec {
	s := &SchedSpec{Ticks: ticks, EstSteps: est}
	switch rng.Intn(3) {
	case 0:
		s.Policy = sim.PolPCT
		s.PCTDepth = rng.Range(1, 4)
	default:
		s.Policy = sim.PolWalk
		s.StayProb = []float64{0, 0.3, 0.6, 0.85, 0.95}[rng.Intn(5)]
	}
	if len(ticks) > 0 {
		s.TickProb = []float64{0.01, 0.03, 0.1, 0.3}[rng.Intn(4)]
	}
	return s
}

func GenPool(rng *sim.Rng) *PoolSpec {
	p := &PoolSpec{Mode: rng.Intn(3)}
	if rng.Chance(0.3) {
		p.MissRate = []float64{0.1, 0.5}[rng.Intn(2)]
	}
	return p
}

// InstallPool installs the allocator policy of the case (seeded or literal).
func InstallPool(c *Case) *sim.PoolCtl {
	if c.Pool == nil {
		sim.SetPoolCtl(nil)
		return nil
	}
	p := &sim.PoolCtl{Mode: c.Pool.Mode, MissRate: c.Pool.MissRate, Rng: c.StreamRng("pool")}
	if c.Pool.Literal {
		p.Replay = c.Pool.Replay
		if p.Replay == nil {
			p.Replay = []int{}
		}
	}
	sim.SetPoolCtl(p)
	return p
}

// RunE2 executes n task bodies under the seeded scheduler. Violations found by
// the scheduler itself (deadlock, no termination within the step budget, a
// panic escaping a task) are recorded under prop.<name>.
func RunE2(c *Case, o *Outcome, prop string, clk *sim.Clock, n int, body func(task int), canTick func(deltaNs uint64) bool) *sim.Sched {
	spec := c.Sched
	if spec == nil {
		spec = &SchedSpec{}
	}
	cfg := sim.SchedConfig{Policy: spec.Policy, StayProb: spec.StayProb, TickProb: spec.TickProb, Ticks: spec.Ticks,
		PCTDepth: spec.PCTDepth, EstSteps: spec.EstSteps, MaxSteps: spec.MaxSteps, CanTick: canTick, PostLoad: spec.PostLoad}
	if spec.Literal {
		cfg.Replay = spec.Replay
		if cfg.Replay == nil {
			cfg.Replay = []int{}
		}
	}
	simsync.ResetAnnounced()
	s := sim.NewSched(c.StreamRng("sched"), clk, cfg)
	panics := make([]string, n)
	for i := 0; i < n; i++ {
		i := i
		s.Go(func() {
			defer func() {
				if r := recover(); r != nil {
					st := string(debug.Stack())
					if len(st) > 1200 {
						st = st[:1200]
					}
					panics[i] = fmt.Sprintf("%v\n%s", r, st)
				}
			}()
			body(i)
		})
	}
	s.Run()
	o.Schedule = s.Recorded()
	o.SchedHash = s.TraceHash
	o.Steps += s.Steps
	o.ProbeN("context_switches", s.Switches)
	o.ProbeN("ticks_fired", s.TicksFired)
	for i, p := range panics {
		if p != "" {
			o.Fail(prop+".panic", s.Steps, "task %d panicked: %s", i, p)
		}
	}
	if s.Aborted {
		if s.AbortWhy == "step budget exhausted" {
			o.Fail(prop+".no-termination", s.Steps, "callers did not finish within %d scheduler steps", s.Steps)
		} else {
			o.Fail(prop+".deadlock", s.Steps, "%s", s.AbortWhy)
		}
	}
	return s
}
