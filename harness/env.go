package harness

import (
	"fmt"
	"runtime/debug"
	"strings"

	"github.com/alibaba/sentinel-golang/core/circuitbreaker"
	"github.com/alibaba/sentinel-golang/core/config"
	"github.com/alibaba/sentinel-golang/core/flow"
	"github.com/alibaba/sentinel-golang/core/hotspot"
	"github.com/alibaba/sentinel-golang/core/isolation"
	"github.com/alibaba/sentinel-golang/core/outlier"
	"github.com/alibaba/sentinel-golang/core/stat"
	"github.com/alibaba/sentinel-golang/core/system"
	"github.com/alibaba/sentinel-golang/core/system_metric"
	"github.com/alibaba/sentinel-golang/logging"
	"github.com/alibaba/sentinel-golang/util"

	"verif/sim"
)

// Geometry of the global statistic array and of the default metric view.
type Geometry struct {
	GlobalSamples  uint32 `json:"gs"`
	GlobalInterval uint32 `json:"gi"`
	MetricSamples  uint32 `json:"ms"`
	MetricInterval uint32 `json:"mi"`
}

func DefaultGeometry() Geometry { return Geometry{20, 10000, 2, 1000} }

// CountLogger replaces sentinel's logger: silent, counts by level, and keeps
// the error messages (an observation point for "internal panic" paths).
type CountLogger struct {
	Errors, Warns int
	msgs          [16]string
	nmsg          int
}

func (l *CountLogger) Debug(string, ...interface{}) {}
func (l *CountLogger) DebugEnabled() bool           { return false }
func (l *CountLogger) Info(string, ...interface{})  {}
func (l *CountLogger) InfoEnabled() bool            { return false }

// The logger is called from every simulated caller. Its bookkeeping is simulator state, not
// program state: norace, fixed-size storage (see sim/sched.go for why).
//
//go:norace
func (l *CountLogger) Warn(string, ...interface{}) { l.Warns++ }
func (l *CountLogger) WarnEnabled() bool           { return true }

//go:norace
func (l *CountLogger) Error(err error, msg string, kv ...interface{}) {
	l.Errors++
	if l.nmsg < len(l.msgs) {
		l.msgs[l.nmsg] = msg
		if err != nil && strings.Contains(msg, "panic") {
			if e := err.Error(); len(e) > 600 {
				l.msgs[l.nmsg] = msg + ": " + e[:600]
			} else {
				l.msgs[l.nmsg] = msg + ": " + e
			}
		}
		l.nmsg++
	}
}
func (l *CountLogger) ErrorEnabled() bool { return true }

func (l *CountLogger) ErrMsgs() []string { return l.msgs[:l.nmsg] }

func (l *CountLogger) SawPanic() bool {
	for _, m := range l.ErrMsgs() {
		if strings.Contains(m, "panic") {
			return true
		}
	}
	return false
}

type Env struct {
	Clock *sim.Clock
	Log   *CountLogger
}

// Reset puts sentinel's process-global state into a fresh state under a new
// virtual clock. Every run of every property starts here.
func Reset(startNs uint64, g Geometry) *Env {
	sim.SetPoolCtl(nil)
	clk := sim.NewClock(startNs)
	util.SetClock(clk)
	lg := &CountLogger{}
	_ = logging.ResetGlobalLogger(lg)
	cfg := config.NewDefaultConfig()
	cfg.Sentinel.App.Name = "verif"
	cfg.Sentinel.Stat.GlobalStatisticSampleCountTotal = g.GlobalSamples
	cfg.Sentinel.Stat.GlobalStatisticIntervalMsTotal = g.GlobalInterval
	cfg.Sentinel.Stat.MetricStatisticSampleCount = g.MetricSamples
	cfg.Sentinel.Stat.MetricStatisticIntervalMs = g.MetricInterval
	config.ResetGlobalConfig(cfg)
	_ = flow.ClearRules()
	_ = isolation.ClearRules()
	_ = hotspot.ClearRules()
	_ = circuitbreaker.ClearRules()
	circuitbreaker.ClearStateChangeListeners()
	_ = system.ClearRules()
	_ = outlier.ClearRules()
	outlier.VerifResetState()
	stat.ResetResourceNodeMap()
	stat.VerifResetInbound()
	system_metric.SetSystemLoad(0)
	system_metric.SetSystemCpuUsage(0)
	system_metric.SetSystemMemoryUsage(0)
	sim.DrainPools()
	sim.ResetSeq()
	sim.TakeSpinOverflow()
	lg.Errors, lg.Warns, lg.nmsg = 0, 0, 0
	return &Env{Clock: clk, Log: lg}
}

// Call runs f (a call into sentinel) and converts a panic escaping from it
// into a violation of inv: no property tolerates a panic reaching the caller.
func Call(o *Outcome, inv string, step int, f func()) (ok bool) {
	defer func() {
		if r := recover(); r != nil {
			st := string(debug.Stack())
			if len(st) > 1500 {
				st = st[:1500]
			}
			if sim.TakeSpinOverflow() {
				o.Fail(inv+"-no-termination", step, "a sentinel call span without bound (no other caller exists that could change the awaited state)")
			} else {
				o.Fail(inv, step, "panic escaped from sentinel API: %v\n%s", r, st)
			}
			ok = false
		}
	}()
	f()
	if sim.TakeSpinOverflow() {
		o.Fail(inv+"-no-termination", step, "a sentinel call span without bound (no other caller exists that could change the awaited state)")
		return false
	}
	return true
}

func Sprintf(f string, a ...any) string { return fmt.Sprintf(f, a...) }
