package harness

import (
	"bufio"
	"encoding/binary"
	"encoding/json"
	"fmt"
	"os"
	"path/filepath"
	"runtime"
	"runtime/debug"
	"sort"
	"strings"
	"sync/atomic"
	"time"

	"verif/sim"
)

type ViolationRec struct {
	Run    int    `json:"run"`
	Inv    string `json:"invariant"`
	Msg    string `json:"message"`
	Key    string `json:"finding_key"`
	Replay string `json:"replay"`
	Ops    int    `json:"ops_after_minimisation"`
	Ops0   int    `json:"ops_before_minimisation"`
}

type Summary struct {
	Prop        string            `json:"property"`
	Tier        string            `json:"tier"`
	Seed        uint64            `json:"seed"`
	Worker      int               `json:"worker"`
	Workers     int               `json:"workers"`
	Evaluations int               `json:"evaluations"`
	Nontrivial  []uint64          `json:"nontrivial_hashes"`
	SchedHashes []uint64          `json:"sched_hashes"`
	Probes      map[string]int    `json:"probes"`
	Faults      map[string]int    `json:"faults"`
	SimMs       uint64            `json:"sim_ms"`
	Steps       int               `json:"steps"`
	Ambiguous   int               `json:"ambiguous"`
	Samples     []json.RawMessage `json:"samples"`
	Violations  []ViolationRec    `json:"violations"`
	KnownSeen   map[string]int    `json:"known_seen"`
	Witness     map[string]string `json:"witness"` // key -> "fails" | "holds"
	Infra       string            `json:"infra,omitempty"`
	WallS       float64           `json:"wall_s"`
	Desc        Description       `json:"desc"`
}

type WorkerArgs struct {
	Prop      string
	Tier      string
	Seed      uint64
	Worker    int
	Workers   int
	Runs      int           // total runs over all workers (0 = until deadline)
	Budget    time.Duration // wall budget for this worker
	Out       string
	ReplayDir string
	Tree      string
	MaxViol   int
	KnownKeys map[string]bool                // open known findings: counted, never minimised, never end the batch
	ExecWrap  func(p Prop, c *Case) *Outcome // engine-specific wrapper (E3 bubble); nil = p.Exec
	Progress  string                         // file that always holds the index of the run in flight (post-mortem after a runtime fatal error)
	GenOnly   int                            // >= 0: only generate that run's case, write it to Out and exit
}

var curExecStart int64 // unix nanos of the Exec in flight (watchdog)

// openKeys: open known-finding keys of the property under check (set by RunWorker).
var openKeys map[string]bool

// finalize promotes tolerated known-finding hits whose key is not listed as open to violations.
func finalize(out *Outcome) *Outcome {
	if out == nil || out.Infra != "" {
		return out
	}
	for _, k := range out.Known {
		if !openKeys[k.Key] {
			if out.V == nil || k.Step < out.V.Step {
				out.V = k
			}
			break
		}
	}
	return out
}

func openKeyList() []string {
	var l []string
	for k := range openKeys {
		l = append(l, k)
	}
	sort.Strings(l)
	return l
}

func safeExec(p Prop, c *Case, wrap func(Prop, *Case) *Outcome) (out *Outcome) {
	atomic.StoreInt64(&curExecStart, time.Now().UnixNano())
	defer atomic.StoreInt64(&curExecStart, 0)
	defer func() {
		if r := recover(); r != nil {
			out = NewOutcome()
			out.Infra = fmt.Sprintf("panic outside a guarded sentinel call: %v\n%s", r, debug.Stack())
		}
	}()
	if wrap != nil {
		return finalize(wrap(p, c))
	}
	return finalize(p.Exec(c))
}

// RunWorker is the main loop of one worker process.
func RunWorker(a WorkerArgs) int {
	p := Lookup(a.Prop)
	if p == nil {
		fmt.Fprintf(os.Stderr, "unknown property %s\n", a.Prop)
		return 2
	}
	if a.MaxViol == 0 {
		a.MaxViol = 3
	}
	openKeys = a.KnownKeys
	start := time.Now()
	sum := &Summary{Prop: a.Prop, Tier: a.Tier, Seed: a.Seed, Worker: a.Worker, Workers: a.Workers,
		Probes: map[string]int{}, Faults: map[string]int{}, Witness: map[string]string{}, KnownSeen: map[string]int{}, Desc: p.Describe()}
	// watchdog: a single Exec must not hang
	go func() {
		for {
			time.Sleep(2 * time.Second)
			st := atomic.LoadInt64(&curExecStart)
			if st != 0 && time.Since(time.Unix(0, st)) > 120*time.Second {
				sum.Infra = "watchdog: one simulated run exceeded 120 s of wall time"
				writeSummary(a.Out, sum)
				os.Exit(2)
			}
		}
	}()
	nontriv := map[uint64]struct{}{}
	scheds := map[uint64]struct{}{}
	propHash := sim.HashString(a.Prop)
	if a.GenOnly >= 0 {
		rng := sim.NewRng(a.Seed, propHash, uint64(a.GenOnly))
		c := p.Gen(rng, a.Tier)
		c.Prop, c.Engine, c.Seed, c.Run, c.Tier, c.Tree = a.Prop, p.Engine(), a.Seed, a.GenOnly, a.Tier, a.Tree
		if runtime.GOARCH != "amd64" {
			c.Arch = runtime.GOARCH
		}
		b, _ := json.MarshalIndent(c, "", " ")
		_ = os.WriteFile(a.Out, b, 0o644)
		return 0
	}
	// VERIF_RUNLOG=<file>: one line per run (run, schedule hash, steps, non-trivial) - for finding the run in which two
	// executions of one seed part ways (determinism self-test)
	var runlog *os.File
	if f := os.Getenv("VERIF_RUNLOG"); f != "" {
		runlog, _ = os.Create(f)
		defer runlog.Close()
	}
	var progress *os.File
	if a.Progress != "" {
		progress, _ = os.OpenFile(a.Progress, os.O_CREATE|os.O_RDWR, 0o644)
	}

	// witnesses of open known findings (worker 0 only)
	if w, ok := p.(Witnesser); ok && a.Worker == 0 {
		for key, wc := range w.Witnesses() {
			out := safeExec(p, wc, a.ExecWrap)
			if out.Infra != "" {
				sum.Infra = "witness " + key + ": " + out.Infra
				break
			}
			if out.V != nil {
				k := out.V.Key
				if k == "" {
					k = classify(p, wc, out.V)
				}
				if k == key {
					sum.Witness[key] = "fails"
				} else {
					sum.Witness[key] = "fails-differently:" + k + ":" + out.V.Inv
				}
			} else {
				sum.Witness[key] = "holds"
			}
		}
	}

	for i := a.Worker; sum.Infra == ""; i += a.Workers {
		if a.Runs > 0 && i >= a.Runs {
			break
		}
		if a.Budget > 0 && time.Since(start) > a.Budget {
			break
		}
		rng := sim.NewRng(a.Seed, propHash, uint64(i))
		c := p.Gen(rng, a.Tier)
		c.Prop, c.Engine, c.Seed, c.Run, c.Tier, c.Tree = a.Prop, p.Engine(), a.Seed, i, a.Tier, a.Tree
		if runtime.GOARCH != "amd64" {
			c.Arch = runtime.GOARCH
		}
		if progress != nil {
			var buf [8]byte
			binary.LittleEndian.PutUint64(buf[:], uint64(i))
			_, _ = progress.WriteAt(buf[:], 0)
		}
		var stepFlush func()
		if f := os.Getenv("VERIF_STEPLOG"); f != "" && os.Getenv("VERIF_STEPRUN") == fmt.Sprint(i) {
			// one line per scheduling point of this run, with the place in the library it stands at
			lf, _ := os.Create(f)
			w := bufio.NewWriter(lf)
			sim.StepLog = func(step, task int, op uint8) {
				var pcs [24]uintptr
				n := runtime.Callers(3, pcs[:])
				fr := runtime.CallersFrames(pcs[:n])
				where := ""
				for k := 0; k < 6; k++ {
					f, more := fr.Next()
					if !strings.Contains(f.File, "/sim/") {
						where += fmt.Sprintf(" %s:%d", filepath.Base(f.File), f.Line)
					}
					if !more {
						break
					}
				}
				fmt.Fprintf(w, "%d t%d op%d%s\n", step, task, op, where)
			}
			stepFlush = func() { sim.StepLog = nil; _ = w.Flush(); _ = lf.Close() }
		}
		out := safeExec(p, c, a.ExecWrap)
		if stepFlush != nil {
			stepFlush()
			stepFlush = nil
		}
		sum.Evaluations++
		if out.Infra != "" {
			sum.Infra = fmt.Sprintf("run %d: %s", i, out.Infra)
			dump, _ := json.Marshal(c)
			_ = os.WriteFile(filepath.Join(a.ReplayDir, fmt.Sprintf("tmp-infra-%s-%d-%d.json", a.Prop, a.Seed, i)), dump, 0o644)
			break
		}
		for k, v := range out.Probes {
			sum.Probes[k] += v
		}
		for k, v := range out.Faults {
			sum.Faults[k] += v
		}
		for _, kh := range out.Known {
			if a.KnownKeys[kh.Key] {
				sum.KnownSeen[kh.Key]++
			}
		}
		if runlog != nil {
			fmt.Fprintf(runlog, "%d %d %d %v\n", i, out.SchedHash, out.Steps, out.Nontrivial)
		}
		sum.SimMs += out.SimMs
		sum.Steps += out.Steps
		sum.Ambiguous += out.Ambiguous
		oh := HashOps(c)
		if out.Nontrivial {
			nontriv[sim.HashAdd(oh, out.SchedHash)] = struct{}{}
			if len(sum.Samples) < 3 {
				b, _ := json.Marshal(sampleView(c, out))
				sum.Samples = append(sum.Samples, b)
			}
		}
		if out.SchedHash != 0 {
			scheds[sim.HashAdd(oh, out.SchedHash)] = struct{}{}
		}
		if out.V != nil {
			if out.V.Key != "" && a.KnownKeys[out.V.Key] {
				sum.KnownSeen[out.V.Key]++
				continue
			}
			rec, infra := handleViolation(p, c, out, a)
			if infra != "" {
				sum.Infra = infra
				break
			}
			if rec.Key != "" && a.KnownKeys[rec.Key] {
				sum.KnownSeen[rec.Key]++
				_ = os.Remove(rec.Replay)
				continue
			}
			sum.Violations = append(sum.Violations, *rec)
			if len(sum.Violations) >= a.MaxViol {
				break
			}
		}
	}
	for h := range nontriv {
		sum.Nontrivial = append(sum.Nontrivial, h)
	}
	for h := range scheds {
		sum.SchedHashes = append(sum.SchedHashes, h)
	}
	sort.Slice(sum.Nontrivial, func(i, j int) bool { return sum.Nontrivial[i] < sum.Nontrivial[j] })
	sort.Slice(sum.SchedHashes, func(i, j int) bool { return sum.SchedHashes[i] < sum.SchedHashes[j] })
	sum.WallS = time.Since(start).Seconds()
	writeSummary(a.Out, sum)
	if sum.Infra != "" {
		fmt.Fprintln(os.Stderr, "INFRA:", sum.Infra)
		return 2
	}
	return 0
}

func sampleView(c *Case, out *Outcome) map[string]any {
	m := map[string]any{"run": c.Run, "config": c.Cfg, "callers": c.Callers}
	if len(out.Schedule) > 0 {
		s := out.Schedule
		if len(s) > 64 {
			s = s[:64]
		}
		m["schedule_prefix"] = s
		m["schedule_len"] = len(out.Schedule)
	}
	return m
}

func writeSummary(path string, s *Summary) {
	b, _ := json.Marshal(s)
	if path == "" {
		fmt.Println(string(b))
		return
	}
	_ = os.WriteFile(path, b, 0o644)
}

func classify(p Prop, c *Case, v *Violation) string {
	if cl, ok := p.(Classifier); ok {
		return cl.Classify(c, v)
	}
	return ""
}

// literalise turns a seeded case into a literal one using what the run recorded.
func literalise(c *Case, out *Outcome) *Case {
	d := c.Clone()
	if d.Sched != nil {
		d.Sched.Replay = append([]int{}, out.Schedule...)
		d.Sched.Literal = true
	}
	if d.Pool != nil {
		d.Pool.Replay = append([]int{}, out.PoolLog...)
		d.Pool.Literal = true
	}
	return d
}

func handleViolation(p Prop, c *Case, out *Outcome, a WorkerArgs) (*ViolationRec, string) {
	target := out.V.Inv
	// determinism: the same seeded case must fail the same way again
	var out2 *Outcome
	for i := 0; i < 4; i++ { // (four re-executions: an order dependence with even odds is missed once in sixteen)
		out2 = safeExec(p, c, a.ExecWrap)
		if out2.Infra != "" {
			return nil, out2.Infra
		}
		if out2.V == nil || out2.V.Inv != target || out2.V.Step != out.V.Step {
			break
		}
	}
	if out2.V == nil || out2.V.Inv != target || out2.V.Step != out.V.Step {
		// The same seeded case behaved differently. If it fails the same way again within a few
		// retries the implementation itself is order-dependent (Go map iteration, which the simulator
		// does not own): report it, unminimised, and say so. Otherwise it is our problem (exit 2).
		repro, anyFail := 0, 0
		const reexec = 200 // (a run takes milliseconds; a map-order dependence with a failure probability of a few percent must still show)
		other := map[string]int{}
		for i := 0; i < reexec; i++ {
			o3 := safeExec(p, c, a.ExecWrap)
			if o3.Infra == "" && o3.V != nil {
				anyFail++
				if o3.V.Inv == target {
					repro++
				} else {
					other[o3.V.Inv]++
				}
			}
		}
		if anyFail == 0 {
			return nil, fmt.Sprintf("nondeterminism: run %d failed with %s at step %d, re-execution gave %v", c.Run, target, out.V.Step, out2.V)
		}
		if repro == 0 {
			// it fails again and again, but never in the same place: still a violation of the property
			final := c.Clone()
			final.Violation = out.V
			final.OpenKeys = openKeyList()
			final.Flaky = fmt.Sprintf("failed in %d of %d re-executions, each time with another invariant %v: the outcome depends on Go map iteration order inside the implementation", anyFail, reexec, other)
			path := filepath.Join(a.ReplayDir, fmt.Sprintf("%s-%d-%d.json", a.Prop, a.Seed, c.Run))
			b, _ := json.MarshalIndent(final, "", " ")
			if err := os.WriteFile(path, b, 0o644); err != nil {
				return nil, "cannot write replay file: " + err.Error()
			}
			return &ViolationRec{Run: c.Run, Inv: out.V.Inv, Msg: out.V.Msg + " [" + final.Flaky + "]", Key: out.V.Key, Replay: path, Ops: c.NumOps(), Ops0: c.NumOps()}, ""
		}
		final := c.Clone()
		final.Violation = out.V
		final.OpenKeys = openKeyList()
		final.Flaky = fmt.Sprintf("reproduced in %d of %d re-executions: the outcome depends on Go map iteration order inside the implementation", repro+1, reexec+1)
		path := filepath.Join(a.ReplayDir, fmt.Sprintf("%s-%d-%d.json", a.Prop, a.Seed, c.Run))
		b, _ := json.MarshalIndent(final, "", " ")
		if err := os.WriteFile(path, b, 0o644); err != nil {
			return nil, "cannot write replay file: " + err.Error()
		}
		return &ViolationRec{Run: c.Run, Inv: out.V.Inv, Msg: out.V.Msg + " [" + final.Flaky + "]", Key: out.V.Key, Replay: path, Ops: c.NumOps(), Ops0: c.NumOps()}, ""
	}
	ops0 := c.NumOps()
	execs := 0
	fails := func(x *Case) *Outcome {
		execs++
		o := safeExec(p, x, a.ExecWrap)
		if o.Infra == "" && o.V != nil && o.V.Inv == target {
			return o
		}
		return nil
	}
	best, bestOut := c, out
	const budget = 600
	// 1. ddmin over each caller's operation list (seeded schedule / pool mode)
	for pass := 0; pass < 3; pass++ {
		progress := false
		for ci := range best.Callers {
			for chunk := (len(best.Callers[ci]) + 1) / 2; chunk >= 1 && execs < budget; chunk /= 2 {
				for st := 0; st < len(best.Callers[ci]) && execs < budget; {
					cur := best.Callers[ci]
					end := st + chunk
					if end > len(cur) {
						end = len(cur)
					}
					cand := best.Clone()
					cand.Callers[ci] = append(append([]Op{}, cur[:st]...), cur[end:]...)
					if o := fails(cand); o != nil {
						best, bestOut = cand, o
						progress = true
					} else {
						st = end
					}
				}
			}
		}
		if !progress {
			break
		}
	}
	// 2. argument simplification: N -> 1
	for ci := range best.Callers {
		for oi := range best.Callers[ci] {
			if execs >= budget {
				break
			}
			if best.Callers[ci][oi].N > 1 {
				cand := best.Clone()
				cand.Callers[ci][oi].N = 1
				if o := fails(cand); o != nil {
					best, bestOut = cand, o
				}
			}
		}
	}
	// 3. literal schedule and pool decisions; then simplify the schedule
	lit := literalise(best, bestOut)
	if o := fails(lit); o != nil {
		best, bestOut = lit, o
		if best.Sched != nil {
			n := len(best.Sched.Replay)
			// truncate the tail
			for cut := n / 2; cut >= 1 && execs < budget; cut /= 2 {
				for len(best.Sched.Replay) > cut && execs < budget {
					cand := best.Clone()
					cand.Sched.Replay = cand.Sched.Replay[:len(cand.Sched.Replay)-cut]
					if o := fails(cand); o != nil {
						best, bestOut = cand, o
					} else {
						break
					}
				}
			}
			// replace blocks by the default choice (stay)
			for chunk := len(best.Sched.Replay) / 2; chunk >= 1 && execs < budget; chunk /= 2 {
				for st := 0; st < len(best.Sched.Replay) && execs < budget; st += chunk {
					cand := best.Clone()
					changed := false
					for k := st; k < st+chunk && k < len(cand.Sched.Replay); k++ {
						if cand.Sched.Replay[k] >= 0 {
							cand.Sched.Replay[k] = sim.ChoiceDefault
							changed = true
						}
					}
					if !changed {
						continue
					}
					if o := fails(cand); o != nil {
						best, bestOut = cand, o
					}
				}
			}
		}
	} else if c.Sched != nil || c.Pool != nil {
		return nil, fmt.Sprintf("replay divergence: run %d (%s) does not fail when its recorded schedule is replayed literally", c.Run, target)
	}
	final := best.Clone()
	final.Violation = bestOut.V
	final.OpenKeys = openKeyList()
	if final.Violation.Key == "" {
		final.Violation.Key = classify(p, final, bestOut.V)
	}
	final.Minimised = true
	path := filepath.Join(a.ReplayDir, fmt.Sprintf("%s-%d-%d.json", a.Prop, a.Seed, c.Run))
	b, _ := json.MarshalIndent(final, "", " ")
	if err := os.WriteFile(path, b, 0o644); err != nil {
		return nil, "cannot write replay file: " + err.Error()
	}
	return &ViolationRec{Run: c.Run, Inv: final.Violation.Inv, Msg: final.Violation.Msg, Key: final.Violation.Key,
		Replay: path, Ops: final.NumOps(), Ops0: ops0}, ""
}

// Replay executes a replay file literally and reports whether it reproduces.
func Replay(path string, wrap func(Prop, *Case) *Outcome) int {
	b, err := os.ReadFile(path)
	if err != nil {
		fmt.Fprintln(os.Stderr, err)
		return 2
	}
	var c Case
	if err := json.Unmarshal(b, &c); err != nil {
		fmt.Fprintln(os.Stderr, err)
		return 2
	}
	p := Lookup(c.Prop)
	if p == nil {
		fmt.Fprintln(os.Stderr, "unknown property", c.Prop)
		return 2
	}
	want := c.Violation
	openKeys = map[string]bool{}
	for _, k := range c.OpenKeys {
		openKeys[k] = true
	}
	out := safeExec(p, &c, wrap)
	if want != nil && (c.Flaky != "" || out.V == nil || out.V.Inv != want.Inv) {
		// order-dependent implementation behaviour (recorded as such, or met only now): retry; the recorded invariant is preferred, but any violation of the
		// property on this case reproduces the finding
		var anyV *Outcome
		for i := 0; i < 1000 && (out.V == nil || out.V.Inv != want.Inv); i++ {
			if out.V != nil && anyV == nil {
				anyV = out
			}
			out = safeExec(p, &c, wrap)
		}
		if out.V != nil && out.V.Inv == want.Inv {
			out.V.Step = want.Step
		} else if anyV != nil {
			fmt.Printf("replay %s: the recorded invariant %s did not recur in 1000 executions; the case violates the property as %s at step %d: %s\n", path, want.Inv, anyV.V.Inv, anyV.V.Step, anyV.V.Msg)
			fmt.Printf("VIOLATION property=%s replay=%s\n", c.Prop, path)
			return 1
		}
	}
	if out.Infra != "" {
		fmt.Fprintln(os.Stderr, "INFRA:", out.Infra)
		return 2
	}
	if out.V == nil {
		fmt.Printf("replay %s: no violation (property holds on this trace)\n", path)
		if want != nil {
			return 3
		}
		return 0
	}
	fmt.Printf("replay %s: %s at step %d: %s\n", path, out.V.Inv, out.V.Step, out.V.Msg)
	if want != nil && (want.Inv != out.V.Inv || want.Step != out.V.Step) {
		fmt.Printf("replay diverged: recorded %s at step %d\n", want.Inv, want.Step)
		return 2
	}
	fmt.Printf("VIOLATION property=%s replay=%s\n", c.Prop, path)
	return 1
}
