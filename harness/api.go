package harness

import (
	"fmt"
	"strconv"
	"strings"

	sentinel "github.com/alibaba/sentinel-golang/api"
	"github.com/alibaba/sentinel-golang/core/base"
)

// KeyT is a small comparable struct used as a hot-parameter value.
type KeyT struct {
	A int
	B string
}

// DecodeArg turns the textual encoding used in Op.A into a Go value.
// i:<int> s:<string> b:<bool> f:<float> st:<int> (struct) sl:<csv> (unhashable slice) m: (unhashable map) n: (nil)
func DecodeArg(s string) interface{} {
	k, v, _ := strings.Cut(s, ":")
	switch k {
	case "i":
		n, _ := strconv.Atoi(v)
		return n
	case "s":
		return v
	case "b":
		return v == "true"
	case "f":
		f, _ := strconv.ParseFloat(v, 64)
		return f
	case "st":
		n, _ := strconv.Atoi(v)
		return KeyT{A: n, B: "k"}
	case "sl":
		var out []int
		for _, p := range strings.Split(v, ",") {
			n, _ := strconv.Atoi(p)
			out = append(out, n)
		}
		return out
	case "m":
		return map[string]int{"x": 1}
	}
	return nil
}

func DecodeArgs(a []string) []interface{} {
	out := make([]interface{}, 0, len(a))
	for _, s := range a {
		out = append(out, DecodeArg(s))
	}
	return out
}

func Hashable(s string) bool { return !strings.HasPrefix(s, "sl:") && !strings.HasPrefix(s, "m:") }

func ResName(i int) string { return fmt.Sprintf("res-%d", i) }

// EntryOpts builds the option list of an Entry call.
func EntryOpts(batch uint32, inbound bool, args []interface{}, attach map[interface{}]interface{}, chain *base.SlotChain) []sentinel.EntryOption {
	// An option that would only state the documented default (batch 1, outbound) is left out: the call then
	// depends on the pooled option object having been put back in its default state by the entry before it.
	var opts []sentinel.EntryOption
	if batch != 1 {
		opts = append(opts, sentinel.WithBatchCount(batch))
	}
	if inbound {
		opts = append(opts, sentinel.WithTrafficType(base.Inbound))
	}
	if len(args) > 0 {
		opts = append(opts, sentinel.WithArgs(args...))
	}
	if len(attach) > 0 {
		opts = append(opts, sentinel.WithAttachments(attach))
	}
	if chain != nil {
		opts = append(opts, sentinel.WithSlotChain(chain))
	}
	return opts
}
