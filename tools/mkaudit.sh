#!/bin/bash
# mkaudit.sh <ID> <n>: scratch worktree + prompt for an AUDIT sub-agent (find an existing violation of the property in the unmodified code)
ID="$1"; N="$2"; W=/tmp/agentwt/$ID-audit$N
git -C /repo worktree add -q --detach "$W" HEAD || exit 2
python3 - "$ID" "$W" <<'PY'
import json,sys
pid,w=sys.argv[1:3]
p=[json.loads(l) for l in open('/verif/properties.jsonl') if json.loads(l)['id']==pid][0]
print(f"""You are working in a scratch git worktree of the Go library alibaba/sentinel-golang at {w} . Work ONLY inside that directory; do not read or touch /repo, /verif or any other checkout. The sandbox is offline; every shell call needs: export GOFLAGS=-mod=mod GOPROXY=off GOSUMDB=off GOTOOLCHAIN=local

PROPERTY that the library is supposed to satisfy ({p['title']}):
{p['statement']}
It must hold over: {p['quantifier']['text']}
(Code it lives in: {', '.join(p['anchors']['files'])})

TASK (an audit, you do NOT change any source file): read the code carefully and look for a GENUINE, EXISTING violation of this property in the code as it is: an input, configuration, sequence of operations, clock value or goroutine interleaving for which the library, unmodified, does something the property forbids. Think about corner cases: boundary values and overflow of the configured numbers, zero / negative / huge values, unusual but valid configurations, operations repeated or done in an unusual order, state left behind in pooled or cached objects, reloads of rules while state exists, several rules on one resource, time stepping across bucket / window / day boundaries or jumping, concurrent callers between a check and the update that follows it.

DELIVER, inside {w}:
1. a NEW test file named zz_audit_test.go in the most suitable package containing one test per finding (at most three findings; fewer, solid ones are better) that FAILS on the unmodified code because the property is violated, with a message that says what happened and what the property demands. It may use util.SetClock with a mock clock, goroutines, custom slot chains, etc. Run it: `go test -vet=off -count=1 -run Audit <pkg>`.
2. a file AUDIT.md at the worktree root: for each finding the exact scenario, what the code does, which sentence of the property it contradicts, where in the code the cause is, and how confident you are that it is a defect rather than intended behaviour or a misreading of the property.
If after a thorough look you find nothing that really contradicts the property text, say so in AUDIT.md and list what you examined; do not pad the report with style remarks, performance remarks, or behaviour the property does not speak about.
Report back briefly: the findings (one paragraph each) and the test names with their failure messages.""")
PY
