#!/bin/bash
# mkmut.sh <name> <file relative to repo> <python-replace-old> <python-replace-new> : creates /verif/mutants/<name>.diff
set -eu
NAME="$1"; F="$2"; OLD="$3"; NEW="$4"
W=$(mktemp -d /tmp/mk-XXXXXX); rmdir "$W"
git -C /repo worktree add -q --detach "$W" HEAD
python3 - "$W/$F" "$OLD" "$NEW" <<'PY'
import sys
p,old,new=sys.argv[1:4]
s=open(p).read()
if s.count(old)!=1:
    print("pattern count",s.count(old)); sys.exit(1)
open(p,'w').write(s.replace(old,new))
PY
rc=$?
git -C "$W" diff > /verif/mutants/"$NAME".diff
(cd "$W" && GOFLAGS=-mod=mod GOPROXY=off GOSUMDB=off GOTOOLCHAIN=local go build ./... ) || echo "MUTANT DOES NOT BUILD"
git -C /repo worktree remove --force "$W"
wc -l /verif/mutants/"$NAME".diff
