#!/bin/bash
# thorough_all.sh [workers per check]: the thorough tier of all 20 (default seed, default budgets) in /verif against /repo,
# five at a time; the evidence files it leaves are the ones to commit.
cd "$(dirname "$0")/.."
W="${1:-3}"; L=/tmp/thorough_all.log
: > $L
run() { ./check.sh $1 thorough --workers $W > /tmp/thorough_all_$1.log 2>&1; echo "rc=$? $1 $(tail -1 /tmp/thorough_all_$1.log | cut -c1-170)" >> $L; }
for batch in "C15 C01 C02 C03 C04" "C05 C06 C07 C08 C09" "C10 C11 C12 C13 C14" "C16 C17 C18 C19 C20"; do
  for id in $batch; do run $id & done
  wait
done
echo done >> $L
