#!/bin/bash
# mkaudit2.sh <ID> <n>: like mkaudit.sh, plus the list of what is already known for the property
# (headings of earlier audit reports + keys of known_findings.json), so that the agent looks elsewhere
ID="$1"; N="$2"
/verif/tools/mkaudit.sh "$ID" "$N" || exit 2
python3 - "$ID" <<'PY'
import json,sys,glob,re
pid=sys.argv[1]
known=[]
for f in sorted(glob.glob(f'/verif/audits/{pid}*/AUDIT.md')):
    for l in open(f):
        m=re.match(r'^#+\s*Finding\s*\d*\s*[-:–—.]*\s*(.*)',l.strip())
        if m and m.group(1): known.append(m.group(1).strip())
k=json.load(open('/verif/known_findings.json'))
for e in k['findings']:
    if e['property']==pid:
        w=e['what']; w=re.sub(r'^fixed: property=\S+ \S+ ','',w); w=re.sub(r' Found by an audit sub-agent.*$','',w)
        known.append(w[:260])
if known:
    print("\nALREADY KNOWN for this property (found earlier; most are repaired in this worktree already). Do NOT report these or variations of them again - look for something different, in other parts of the code the property lives in, other configurations, other operation orders:")
    for x in known: print(" - "+x)
PY
