#!/bin/bash
# replaycheck.sh <patch.diff> <ID>: replay fidelity self-test. Applies a change that breaks property <ID> to a scratch
# worktree, runs the quick check against it, then replays the first three replay files it wrote - each in a fresh
# process, twice - against the same tree. Every replay must report the invariant recorded in the file.
set -u
P="$(realpath "$1")"; ID="$2"
W=$(mktemp -d /tmp/rpc-XXXXXX); rmdir "$W"
git -C /repo worktree add -q --detach "$W" HEAD || exit 2
git -C "$W" apply "$P" || { git -C /repo worktree remove --force "$W"; echo "patch does not apply"; exit 2; }
R=$(mktemp -d /tmp/rpcr-XXXXXX)
out=$(VERIF_REPO="$W" /verif/check.sh "$ID" quick --budget 5 2>&1)
files=$(echo "$out" | grep "^VIOLATION" | sed 's/.*replay=//' | head -3)
ok=0; bad=0
for f in $files; do
  cp "$f" "$R/"; g="$R/$(basename "$f")"
  want=$(python3 -c "import json;c=json.load(open('$g'));print((c.get('violation') or {}).get('invariant') or c.get('invariant',''))")
  for rep in 1 2; do
    got=$(VERIF_REPO="$W" /verif/bin/vsim replay "$g" 2>&1)
    pat="$want"; case "$want" in *data-race) pat="DATA RACE";; *runtime-fatal-error) pat="fatal error";; esac
    if echo "$got" | grep -q "$pat" && echo "$got" | grep -q "^VIOLATION\|C19REPLAY"; then ok=$((ok+1)); else bad=$((bad+1)); echo "REPLAY MISMATCH $g want=$want got=$(echo "$got" | tail -2 | cut -c1-200)"; fi
  done
done
git -C /repo worktree remove --force "$W"; rm -rf "$R"; rm -rf "/tmp/verif-replays-$(basename "$W")" "/tmp/verif-evidence-$(basename "$W")"
echo "replaycheck $ID $(basename $P): $ok replays reproduced, $bad did not ($(echo $files | wc -w) files)"
[ $bad -eq 0 ] && [ $ok -gt 0 ]
