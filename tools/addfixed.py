#!/usr/bin/env python3
# addfixed.py <property> <key> <commit> <what...>: append a "fixed" entry to known_findings.json
import json,sys
pid,key,commit=sys.argv[1:4]; what=' '.join(sys.argv[4:])
p='/verif/known_findings.json'; k=json.load(open(p))
assert not any(e['key']==key for e in k['findings']), 'key exists'
k['findings'].append({"property":pid,"key":key,"status":"fixed","commit":commit,"what":f"fixed: property={pid} {commit} {what}"})
json.dump(k,open(p,'w'),indent=1,ensure_ascii=False); open(p,'a').write('\n')
