#!/bin/bash
# soak.sh <seed> <seconds per property>: the thorough tier of every claimed property from another seed, four at a time,
# to look for false alarms (a violation on the unchanged tree). Evidence written by it is not the committed evidence
# when it runs from a `vp run` snapshot.
cd "$(dirname "$0")/.."
SEED="${1:-3003}"; B="${2:-240}"; L=soak_$SEED.log
: > $L
run() { ./check.sh $1 thorough --workers 4 --seed $SEED --budget $B > soak_${SEED}_$1.log 2>&1; echo "rc=$? $1 $(tail -1 soak_${SEED}_$1.log | cut -c1-170)" >> $L; }
for batch in "C01 C02 C03 C04" "C05 C06 C07 C08" "C09 C10 C11 C12" "C13 C14 C15 C16" "C17 C18 C19 C20"; do
  for id in $batch; do run $id & done
  wait
done
echo done >> $L
cat $L
