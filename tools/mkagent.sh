#!/bin/bash
# mkagent.sh <ID> <n>: creates a scratch worktree for a mutation sub-agent and prints its prompt
ID="$1"; N="$2"; AVOID="${3:-}"; W=/tmp/agentwt/$ID-$N
git -C /repo worktree add -q --detach "$W" HEAD || exit 2
python3 - "$ID" "$W" "$AVOID" <<'PY'
import json,sys
pid,w,avoid=sys.argv[1:4]
avoid=('\nAnother engineer has already delivered this change for the same property, so choose something DIFFERENT (another function, another mechanism, another trigger): '+avoid+'\n') if avoid else ''
p=[json.loads(l) for l in open('/verif/properties.jsonl') if json.loads(l)['id']==pid][0]
print(f"""You are working in a scratch git worktree of the Go library alibaba/sentinel-golang at {w} . Work ONLY inside that directory; do not read or touch /repo, /verif or any other checkout. The sandbox is offline; every shell call needs: export GOFLAGS=-mod=mod GOPROXY=off GOSUMDB=off GOTOOLCHAIN=local

PROPERTY that the library is supposed to satisfy ({p['title']}):
{p['statement']}
It must hold over: {p['quantifier']['text']}
(Code it lives in: {', '.join(p['anchors']['files'])})

TASK: make ONE small, realistic change to NON-test source files (the kind of bug a maintainer could introduce in a refactor, a micro-optimisation or a 'clean-up': a wrong comparison, a dropped lock or re-check, a reordered store, a stale cache, a skipped branch, a wrong variable, an unguarded corner case ...) that BREAKS this property, while the code still compiles and the existing tests of the packages you touch (and ./api/... ./tests/...) still pass: run `go test -vet=off -count=1 <pkgs>`. The breakage must need something SPECIFIC to manifest: a particular interleaving of goroutines, a fault or clock value at a particular point, a multi-step sequence of operations, an unusual input or configuration, or two cooperating sites that each look fine alone. It must NOT be something that ordinary use exposes at once (e.g. not 'every request is rejected').{avoid}

DELIVER, all inside {w}:
1. the change itself, left UNCOMMITTED in the working tree (so `git diff` shows it; do not commit anything, do not edit existing *_test.go files). Keep it under ~30 changed lines.
2. a demonstration: a NEW test file (name it zz_demo_test.go, in the most suitable package; it may use util.SetClock with a mock clock, goroutines, etc.) containing one test that FAILS with your change and PASSES without it. Verify both directions yourself. Do NOT use `git stash` (the stash is shared with other checkouts): save your change with `git diff -- <changed source files> > my.patch`, undo it with `git apply -R my.patch`, run the demo (must pass), re-apply with `git apply my.patch`, run the demo again (must fail).
3. a file MUTANT.md at the worktree root: what you changed and where, why it violates the property, what exactly is needed to trigger it, and the exact commands you ran with their outcome (existing tests pass with the change; demo fails with / passes without).
Report back briefly: the `git diff` of the source change, the demo file path and test name, and the verification results.""")
PY
