#!/usr/bin/env python3
"""Regenerates /verif/MANIFEST.json from the table below (kept in one place so the manifest stays valid)."""
import json, os, subprocess
HERE = os.path.dirname(os.path.dirname(os.path.abspath(__file__)))
BASELINE = json.load(open('/root/.vp/BASELINE.json'))['cmd'] if os.path.exists('/root/.vp/BASELINE.json') else ''

# id -> (engine, technique, level category, level text, level note, design ref)
CHECKS = {
 "C08": ("E1", "deterministic simulation: seeded single-caller histories under a virtual clock, checked operation by operation against an aligned-bucket event-log reference model; ddmin-minimised replay files",
         "exploration",
         "Seeded search over (array geometry, view geometries valid and invalid, virtual origin incl. near zero, histories of adds / RTs / gauge updates / ticks biased to bucket, cycle and second boundaries and idle gaps longer than the array); after every read every getter of BucketLeapArray, SlidingWindowMetric and BaseStatNode must equal the aggregate of the reference event log over the aligned window. Sampling, not enumeration: a clean batch is evidence, not proof.",
         "Trusted: the reference window model (model/window.go), the virtual clock seam (util.SetClock), Go's atomic semantics under a single caller. Time is non-decreasing and >= 1 ms.", "DESIGN.md §3 C08"),
}
CHECKS["C09"] = ("E2", "deterministic simulation: cooperative seeded scheduler (random walk / PCT) deciding the runner at every atomic access, lock and Gosched of the leap array (overlay import substitution), virtual clock ticks under the property's stall precondition; history oracle with event sequence numbers; ddmin-minimised literal schedule replay",
  "exploration",
  "2-3 simulated callers (thorough: up to 12) each doing 1-2 AddCount / Count / Values / view GetSum operations around a bucket boundary on a pre-filled array; the scheduler interleaves them at every atomic access of currentBucketOfTime, ResetBucketTo and MetricBucket; oracles over the recorded history: no read exceeds what was recorded in or after its window (no invention, duplication or expired data), at quiescence no bucket holds more than the amounts whose timestamps select it, buckets whose rollover nobody overlapped are exact, contended buckets hold at least what was recorded for their cycle and at most that plus concurrent amounts of an earlier cycle of the slot, every caller terminates within the step budget. Sampled interleavings (hundreds of thousands per quick run), not all.",
  "Trusted: the cooperative scheduler and shims (sim/), that yield points before each atomic/lock op are the only relevant preemption points (sequential consistency of Go atomics), the history oracle. Real goroutines, one running at a time.", "DESIGN.md §3 C09")
CHECKS["C02"] = ("E1+E2", "deterministic simulation: seeded request/tick histories under a virtual clock against an exact admit-iff-W+b<=T reference (per rule, aligned windows incl. standalone and associated statistics); 25% of runs interleave 2-4 callers with the seeded scheduler at every atomic access between rule check and statistic record and check the k-1 excess bound and absence of unjustifiable rejections",
  "exploration",
  "Every decision, TriggeredRule and TriggeredValue of every request is compared with the reference in E1 runs (both directions: no over-admission, no spurious rejection, later rejections in the chain consume no quota); E2 runs check the stated (k-1)*max-batch bound per aligned window using only facts certain from invoke/return order. Sampling of configurations, histories and schedules.",
  "Trusted: reference model of rule statistics (DESIGN.md A.1, assumption on the bucket count of private windows stated in evidence), virtual clock seam, cooperative scheduler.", "DESIGN.md §3 C02")
CHECKS["C04"] = ("E1+E2", "deterministic simulation: seeded entry/exit histories (any exit order, batches up to 2^32-1, exits with errors) against an exact live-count model; injected clock fault: the wall clock steps back between operations; 30% of runs interleave 2-4 callers (thorough: up to 7) under the seeded scheduler and check the N+(k-1) bound, the exact gauge and the exact next decision at the quiescent point with entries still live, and zero concurrency at the end",
  "exploration",
  "E1: admit iff for every rule live+b<=N in unbounded integers, TriggeredRule/Value, gauge==live after every operation, capacity reusable after Exit. E2: externally observed in-flight count never above N+(k-1); after the concurrent phase gauge == live entries and a further request is decided exactly. Sampling.",
  "Trusted: live-count model, scheduler shims; batch>=1.", "DESIGN.md §3 C04")
CHECKS["C01"] = ("E1+E2", "deterministic simulation with fault injection: seeded Entry/TraceError/Exit histories incl. repeated and late calls on a chain = default slots + scripted prepare/rule-check slots (block / panic / nil on cue) + recording stat slot; injected faults: slot panics, rule-evaluation panics via un-hashable arguments, seeded pool reuse (SimPool), clock jumps; tally model checked after every operation; 25% of runs under the seeded scheduler with 2-4 callers (thorough: up to 7), who also exit entries owned by other callers (concurrent repeated Exit)",
  "exploration",
  "After every operation: one outcome per Entry, exactly one pass|block callback with the right resource/batch, exactly one completion per passed entry with its own last error and rt, nothing for blocked or late calls, live entries keep their own Err()/Args, node and inbound concurrency equal the live count (never negative), windowed sums equal the reference window of the tallied events. Sampling of histories, pool decisions and schedules.",
  "Trusted: tally model + window model, SimPool as a faithful sync.Pool behaviour subset, scheduler. One open finding is tolerated by adapting the model (panic-passed requests are uncounted).", "DESIGN.md §3 C01")
CHECKS["C03"] = ("E1", "deterministic simulation: seeded histories of request starts, completions (ok/error, duration = virtual time) and ticks biased to the retry deadline and bucket boundaries, checked operation by operation against a reference three-state machine; listener log equality; ddmin replay",
  "exploration",
  "Every Entry result (pass / circuit-breaking block + blocking rule) equals the reference machine's for 1-2 breakers per resource over all strategies and parameter ranges incl. stragglers and probes blocked by a second breaker; after every operation the listener log equals the reference transition list. Sampling.",
  "Trusted: model/breaker.go (written from DESIGN.md A.2), virtual clock. Ratio decisions within 1e-7 of the threshold end the run as ambiguous.", "DESIGN.md §3 C03")
CHECKS["C06"] = ("E1+E2", "deterministic simulation: seeded entry/exit histories over a small value alphabet with seeded pool reuse, exact per-value live-count model, per-value counters read after every operation; injected clock fault: backward steps; 30% of runs under the seeded scheduler with 2-4 callers (thorough: up to 7)",
  "exploration",
  "E1: admit iff for every rule live(v)<T(v) (specific or general), blocked => hot-parameter block with that rule, per-value counter == live entries after every op, live entries keep their arguments, counters return to zero. E2: per-value in-flight <= T+(k-1); after the concurrent phase every counter == live entries of its value (entries still live), counters zero at the end. Sampling.",
  "Trusted: live-count model and argument selection rule (DESIGN.md A.4); overlay-only read accessor for the counters.", "DESIGN.md §3 C06")
CHECKS["C12"] = ("E2", "deterministic simulation: seeded scheduler interleaving 2-3 callers at every atomic access of TryPass / OnRequestComplete / transition helpers with clock ticks around the retry deadline, after a sequential prelude that puts the breaker fresh / near trip / open at its deadline / half-open; interval-sound history oracles over event sequence numbers; literal schedule replay",
  "exploration",
  "(a) listener events form a legal path from the prelude state to the final state (each transition once, right previous state); (b) each Open->HalfOpen is >= retry timeout after the invocation of the earliest call that could have opened that period; (c) with no probe number no second request is admitted during a certainly-half-open period; (d) nothing is admitted during a certainly-open period. Sampled schedules (10^5 per quick run).",
  "Trusted: scheduler, that Open->HalfOpen is reported with no yield point after its CAS (checked by construction of the shim: the listener loop has no atomic access), interval reasoning of DESIGN.md §3 C12. One open finding (deadline checked before re-open) is tolerated and reported.", "DESIGN.md §3 C12")
CHECKS["C10"] = ("E1+E2", "deterministic simulation: seeded request/tick histories in virtual nanoseconds with the requested Sleep captured at the clock seam (queues build up without time passing) against an exact reference queue; 35% of runs interleave 2-3 callers under the seeded scheduler, callers park for their requested wait in virtual time, ticks fire between the atomic accesses of the admission check",
  "exploration",
  "E1: decision and requested wait equal the reference queue exactly (1 ns band only where floating-point evaluation of the pacing interval differs from the exact value). E2: admitted requests ordered by pass time are each >= D(own batch) after their predecessor and no wait exceeds the limit. Sampling.",
  "Trusted: reference queue (DESIGN.md A.3), clock seam capture of arrival (the CurrentTimeNano value the check received) and wait (the Sleep it requested), scheduler.", "DESIGN.md §3 C10")
CHECKS["C05"] = ("E1", "deterministic simulation: seeded multi-value arrival histories in virtual time with Sleep captured at the clock seam; envelope oracles per (rule, value) plus a metamorphic independence oracle (every decision and wait equals that of a shadow resource, same rule, that only ever receives this value at the same virtual times)",
  "exploration",
  "Reject mode: envelope since first seen, 2(T+burst) per duration, idle values always granted up to their threshold; throttling: spacing floor(b*D/T) ms and wait strictly below the queueing limit; specific items, index / negative index / attachment-key selection, requests without the argument never limited, capacity below the number of values (then only termination / no panic). Sampling.",
  "Trusted: envelopes as stated in the property, argument selection rule (DESIGN.md A.4). Independence asserted only while the configured capacity was never exceeded.", "DESIGN.md §3 C05")
CHECKS["C07"] = ("E1", "deterministic simulation with injected system readings: seeded inbound/outbound traffic histories, completions with virtual durations, load / CPU readings injected through the existing setters, single-field edits of loaded rules followed by a reload, requests that stay in flight beyond the statistic's maximum response time; the reference predicate is evaluated on aggregates of the tallied inbound events",
  "exploration",
  "Outbound never system-blocked; inbound blocked iff some loaded rule is violated by the reference aggregates (aligned-window pass QPS, truncated average RT with an ambiguity band, live inbound count, injected load/CPU, BBR capacity = peak per-bucket completion rate x minimum RT). Sampling of rule sets, readings and histories.",
  "Trusted: window model, predicate as stated; BBR with <=1 in flight and averages within the truncation band are ambiguous (either decision accepted, counted).", "DESIGN.md §3 C07")
CHECKS["C11"] = ("E1", "deterministic simulation: seeded demand shapes in virtual seconds (idle / saturating / steady single-token phases) for warm-up rules and injected memory readings for memory-adaptive rules; envelope oracles on admitted counts per aligned window and on the effective threshold",
  "exploration",
  "Warm-up: rate never above the threshold in any aligned window, cold start bounded by ceil(T/coldFactor)+1 after a long idle, full threshold reached after a long saturation, steady single-token demand admitted, effective threshold finite, >=0, <=T. Memory-adaptive: end points exact, monotone in between, fresh-window capacity == floor(effective); 30% of the memory cases at production magnitudes (thresholds to 2^53, marks GiB-PiB). Sampling.",
  "Trusted: envelope constants chosen from the property text (generous slack); overlay-only accessor for the effective threshold. One open finding (no cool-down when threshold < cold factor) tolerated.", "DESIGN.md §3 C11")
CHECKS["C13"] = ("E1", "deterministic simulation (thin): seeded histories of LoadRules / LoadRulesOfResource / Clear* / identical reloads over the six rule modules with valid, field-wise invalid and nil rules, checked call by call against a rule-set reference model through getters, overlay read accessors of the enforced controllers and probe traffic under a virtual clock; fault injection = invalid and nil rules; ddmin replay",
  "exploration",
  "After every call: no panic, getters == model (per resource, in order), enforced controllers / breakers / outlier rule == model, probes blocked by exactly the first module holding an enforced blocking rule (invalid variants are built to block if wrongly enforced), identical reload reports unchanged, a reload changing one field (also one the rule id does not show: edited copies with the same id; families of rules that differ in exactly one field of their strategy) still replaces the rule - reported and enforced rules are compared field by field. Sampling of histories.",
  "Trusted: rule-set model; rules compared field by field except the id's table index (an unchanged rule may keep the object of an earlier load); fields the rule's strategy does not use are not varied. Domain restrictions stated in evidence (per-resource loads carry only that resource; one outlier rule per resource).", "DESIGN.md §3 C13")
CHECKS["C14"] = ("E1", "deterministic simulation, metamorphic: one seeded traffic history is executed twice under the virtual clock after a full reset of process-global state, once with reloads inserted that keep rule R field-for-field identical (fresh object) while adding / removing / modifying / reordering the other rules (compound reloads of 1-3 edits; R listed once or twice), once without; decision traces (admit / block type / requested wait) must be equal; second oracle: a modified private-window rule keeps its counts",
  "exploration",
  "Covers flow throttling (queue position), warm-up (tokens), private-window reject rule, circuit breaker (state, deadline), hotspot QPS and concurrency counters, whole-set and per-resource reload paths. Sampling of histories, reload positions and edits.",
  "One open finding tolerated (a modified rule competes with other non-equal rules for old statistics in list order). Trusted: full reset between the two runs (harness.Reset + overlay reset of the inbound node); the other rules never block so that R alone governs the trace.", "DESIGN.md §3 C14")
CHECKS["C16"] = ("E1", "deterministic simulation with fault injection: seeded chains of scripted recording slots (colliding order values; pass / nil / block via a fresh result or the pooled result reset in place with full or partial cause / panic per entry; chains of up to 40 slots of a kind), exit handlers that panic, entries exited in any order under a seeded pool policy; call-log and outcome model checked after every operation",
  "exploration",
  "Call order == stable sort by order per kind, prepare -> check -> statistic, stop at the first block; returned block error is the first blocker's; without panics each statistic slot is told the outcome once and the completion iff passed; no panic escapes Entry or Exit and a panicking request is admitted; returned *BlockError objects keep their fields while later entries recycle pooled objects. Sampling of chains and histories.",
  "Trusted: the scripted slots and the call log (harness code); SimPool as a faithful sync.Pool behaviour subset.", "DESIGN.md §3 C16")
CHECKS["C17"] = ("E4", "deterministic simulation with crash-point enumeration: seeded per-second write batches and queries on ONE searcher against real files in a tmpfs scratch directory under the virtual clock; oracle = the harness's own parse of the retained files + the list of accepted items; every 4th run enumerates EVERY truncation offset of the last data file and of its index file on a copy and re-queries with a fresh searcher",
  "fault_enumeration",
  "Fault-free part (sampled histories): retained files hold a suffix of the accepted items unchanged, at most max_files files, every query answer equals the matching retained items in order without duplicates (line-limited queries: a long-enough prefix). Crash part (exhaustive per generated final state): for each byte offset of the last data file and of its index file: no error, no panic, only written items unchanged and in order, and every item whose line and reachable index entry lie wholly before the cut is returned.",
  "Trusted: the harness's line parser and index parser (independent of the implementation's), tmpfs as the disk. Truncation is the only crash model (no reordering of writes between the two files).", "DESIGN.md §3 C17")
CHECKS["C18"] = ("E3", "deterministic simulation with fault injection inside a testing/synctest bubble (go1.26.8): seeded payload histories (wire JSON, null / wrongly typed elements, truncation at a drawn byte, empty, redelivery) to handlers wired to the real rule managers; a real RefreshableFileDataSource whose fsnotify watcher is a stub fed by the simulator (events delayed, duplicated, coalesced; remove / rename), quiescence after every delivered event",
  "exploration",
  "Handle never panics out; undecodable => error and previous rules stay; decodable => exactly its valid rules reported field for field (wire round trip incl. hotspot specific items) and governing probe traffic; empty => cleared; identical redelivery => no change incl. controller state; file source: after each delivered event the managers equal what the file held at that moment (previous rules if undecodable), cleared after remove / rename. Sampling of histories; event order per file is FIFO.",
  "Trusted: stub watcher (verif/sim/simfsnotify) has the surface the datasource uses; synctest quiescence; rule-set model shared with C13. One datasource per module.", "DESIGN.md §3 C18")
CHECKS["C20"] = ("E1d", "discrete-event deterministic simulation: seeded per-node success/failure histories and virtual-time advances; core/outlier's time.AfterFunc timers live in the simulator's timer queue on the virtual clock (timers due at the same instant fire in a seeded order), the task channels of the recycler / retryer are consumed by the harness with the workers' own loop bodies (generated from the source by the overlay) in a seeded order, and the order in which the slot visits the node map is a seeded permutation; per-node reference breakers and a recycle model as oracle",
  "exploration",
  "At every request: FilterNodes without duplicates, subset of the nodes the reference breaker rejects, size <= floor(k*n/den) in integers; HalfOpenNodes == nodes in passive half-open probing; nodes that completed a request successfully since being scheduled for recycling stay known; no unknown node appears. Sampling of configurations, histories, same-instant timer orders and node visiting orders.",
  "Trusted: reference breaker model (shared with C03), the simulator's timer queue (sim/timers.go) standing in for runtime timers, scripted RecoveryCheckFunc instead of TCP dial; the overlay's generated VerifDrain functions (same statements as the worker loops, run on the harness goroutine) and the renamed init functions.", "DESIGN.md §3 C20, §9.1")
CHECKS["C15"] = ("E2r", "deterministic simulation under the Go race detector: the worker is built with -race; 3-6 simulated callers (traffic incl. requests through the outlier slots, per-resource and whole-set rule churn of all six modules, getters and statistics readers) are interleaved by the seeded scheduler at every atomic access and lock operation; the scheduler hands over by spinning on a plain word inside go:norace code so that it adds no happens-before edge and the detector judges only the program's own synchronisation",
  "exploration",
  "(1) any race report is a violation (worker stops at the first one, the run in flight is regenerated from a progress file as the replay); (2) no panic, no deadlock, all callers finish; (3) a request on a churned resource is always decided by one of the two complete rule lists (blocked by block0 or block1), never a mixture; (4) the stable and the rule-free resource are unaffected by churn elsewhere. Sampled schedules (3*10^4 per quick run).",
  "Trusted: the norace spin hand-off adds no synchronisation (probed: an unlocked map race is reported, a locked one is not); the race detector's bounded shadow memory (short runs); SimPool publishes Put->Get of the same object only.", "DESIGN.md §3 C15")
CHECKS["C19"] = ("driver", "seeded fault-injecting drivers executed inside the adapters' own Go modules (driver test files overlaid with go test -overlay / -modfile): request sequences x handler fault (ok / error / panic) x admission (free / blocked by a threshold-0 flow rule) x fallback configured or not, dispatched in-process through every adapter that builds in the sandbox: gin, echo, fiber, gear, goframe, iris, go-zero (global and routing middleware), the four gRPC interceptors, the go-micro wrappers and the kratos client middleware (both incl. the outlier branch); a recording statistic slot on the global chain, a snapshot of it taken when the wrapped handler starts, and the resource node are the observation points. Thin simulation content: no clock, no schedule.",
  "exploration",
  "For the 18 driven entry points of 10 adapters: handler runs exactly once iff admitted and runs inside the entry (one pass, no completion yet when it starts), blocked => fallback / default rejection and no handler call, exactly one pass-or-block and exactly one completion per request (also when the handler panics), handler errors traced where the wrapper receives them, concurrency back to 0. hertz and kitex do not build with the sandbox toolchain (sonic / pid assembly) and are listed in the evidence as found-but-not-driven, not claimed; the clause about all future entry points is not decidable by execution.",
  "Trusted: the scripted handlers and the recording slot; adapters whose go.mod has no replace directive (gin, echo, grpc, fiber, gear, go-zero, goframe, iris) are built against the released sentinel version that go.mod selects from the module cache (the working tree's core cannot be substituted offline: its dependency versions are not all cached for those module graphs), micro and kratos against the working tree. gear ends the entry on its own goroutine after the response: the driver waits (bounded) for that completion.", "DESIGN.md §3 C19, §9.1")
NOT_YET = {}
props = [json.loads(l) for l in open(os.path.join(HERE, 'properties.jsonl'))]
checks, na = [], []
for p in props:
    pid = p['id']
    if pid in CHECKS:
        eng, tech, cat, text, note, ref = CHECKS[pid]
        checks.append({
            "property_id": pid,
            "quick_cmd": f"./check.sh {pid} quick",
            "thorough_cmd": f"./check.sh {pid} thorough",
            "evidence_file": f"/verif/evidence/{pid}.json",
            "replay_cmd_template": "bin/vsim replay {path}",
            "engine": eng,
            "level_claimed": {"category": cat, "text": text, "design_ref": ref},
            "level_note": note,
            "technique": tech,
        })
    else:
        na.append({"property_id": pid, "reason": NOT_YET.get(pid, "not claimed yet: the simulated check for this property is still being built in this session (see DESIGN.md §3 for its design); no verdict is offered")})
hooks_commits = []
m = {
 "version": 1,
 "setup_cmd": "./setup.sh",
 "hooks": {
   "guard": "(none in /repo) instrumentation is a go build -overlay generated at check time from /repo's working tree; nothing is committed to /repo for it",
   "enable": "bin/vsim generates rewritten copies of api/, core/, util/atomic.go, ext/datasource/ (sync/atomic -> verif/sim/simatomic, sync -> verif/sim/simsync, runtime.Gosched -> sim.Spin) in a scratch dir and builds the worker with `go build -overlay`",
   "baseline_off_cmd": BASELINE,
   "source_commits": hooks_commits,
   "add_only": True,
 },
 "engines": [
   {"name": "E1", "path": "/verif/sim, /verif/harness", "serves_properties": [c for c in CHECKS if CHECKS[c][0].startswith("E1")], "kind_free_text": "single simulated caller, discrete-event virtual clock (util.Clock seam), seeded operation and fault sequences, reference-model oracles"},
   {"name": "E3", "path": "/verif/cmd/simbubble", "serves_properties": [c for c in CHECKS if CHECKS[c][0] == "E3"], "kind_free_text": "testing/synctest bubble (go1.26.8 test binary): fake clock for real timers, quiescence detection for real background goroutines; stub fsnotify watcher"},
   {"name": "E4", "path": "/verif/props/c17", "serves_properties": [c for c in CHECKS if CHECKS[c][0] == "E4"], "kind_free_text": "real files on tmpfs under the virtual clock; crash = truncation at every byte offset of the last data / index file"},
   {"name": "E2r", "path": "/verif/sim/handoff_spin.go", "serves_properties": [c for c in CHECKS if CHECKS[c][0] == "E2r"], "kind_free_text": "E2 under the Go race detector (-race build, norace spin hand-off)"},
   {"name": "E2", "path": "/verif/sim/sched.go", "serves_properties": [c for c in CHECKS if "E2" in CHECKS[c][0] and CHECKS[c][0] != "E2r"], "kind_free_text": "cooperative seeded scheduler: k simulated callers, one runs at a time, a yield point before every atomic / lock operation (overlay import substitution); random-walk and PCT policies; literal schedule replay"},
 ],
 "checks": checks,
 "not_applicable": na,
 "notes": "All checks rebuild the instrumented worker from /repo's current working tree (VERIF_REPO overrides). Exit 0 held / 1 VIOLATION / 2 infrastructure. Known findings: /verif/known_findings.json. Seed: VERIF_SEED or --seed.",
}
json.dump(m, open(os.path.join(HERE, 'MANIFEST.json'), 'w'), indent=1)
print("MANIFEST.json:", len(checks), "checks,", len(na), "not claimed")
