#!/bin/bash
# seeded_intake.sh <agent worktree> <property ID> <name> [extra check IDs...]
# Confirms a sub-agent's change independently, stores it under /verif/seeded/<ID>-<name>/ and runs our checks against it.
set -u
export GOFLAGS=-mod=mod GOPROXY=off GOSUMDB=off GOTOOLCHAIN=local
A="$1"; ID="$2"; NAME="$3"; shift 3
D=/verif/seeded/$ID-$NAME; mkdir -p "$D"
(cd "$A" && git diff > "$D/patch.diff")
DEMO=$(cd "$A" && git status --porcelain | grep '^??' | awk '{print $2}' | grep '_test.go$' | head -1)
[ -n "$DEMO" ] || { echo "no demo test file found"; exit 2; }
mkdir -p "$D/demo/$(dirname "$DEMO")"; cp "$A/$DEMO" "$D/demo/$DEMO"; cp "$A/MUTANT.md" "$D/MUTANT.md" 2>/dev/null
PKG=./$(dirname "$DEMO")
W=$(mktemp -d /tmp/intake-XXXXXX); rmdir "$W"; git -C /repo worktree add -q --detach "$W" HEAD || exit 2
cd "$W" && git apply "$D/patch.diff" || { echo "patch does not apply to HEAD"; git -C /repo worktree remove --force "$W"; exit 2; }
TOUCHED=$(git diff --name-only | xargs -n1 dirname | sort -u | sed 's|^|./|' | tr '\n' ' ')
BUILD=ok; go build ./... >/dev/null 2>&1 || BUILD=FAIL
EXIST=$(go test -vet=off -count=1 $TOUCHED ./api/... ./tests/... 2>&1 | grep "^--- FAIL" | grep -vc "TestHotSpotParamRuleJsonArrayParser")
mkdir -p "$(dirname "$DEMO")"; cp "$D/demo/$DEMO" "$DEMO"
WITH=$(go test -vet=off -count=1 -run 'Demo|demo|ZZ' "$PKG" 2>&1 | grep -c "^--- FAIL\|^FAIL")
git apply -R "$D/patch.diff"
WITHOUT=$(go test -vet=off -count=1 -run 'Demo|demo|ZZ' "$PKG" 2>&1 | grep -c "^--- FAIL\|^FAIL")
cd /verif; git -C /repo worktree remove --force "$W"
echo "build=$BUILD existing_test_failures=$EXIST demo_fails_with_change=$WITH demo_fails_without_change=$WITHOUT touched=$TOUCHED"
RES=""
for C in $ID "$@"; do
  out=$(tools/mutcheck.sh "$D/patch.diff" "$C" quick 2>&1); rc=$?
  inv=$(echo "$out" | grep "^violation:" | head -1 | cut -c1-220)
  if [ $rc -eq 1 ]; then r="caught"; elif [ $rc -eq 0 ]; then r="MISSED"; else r="infra($rc)"; fi
  echo "check $C: $r $inv"
  RES="$RES\"$C\": \"$r\", "
  echo "$out" | grep "^violation:" | head -3 > "$D/check-$C.txt"
done
python3 - "$D" "$ID" "$NAME" "$BUILD" "$EXIST" "$WITH" "$WITHOUT" "$DEMO" "{${RES%, }}" <<'PY'
import json,sys
d,pid,name,build,exist,withc,without,demo,res=sys.argv[1:10]
meta={"property":pid,"name":name,"source":"independent sub-agent (property text and a scratch worktree only)",
 "confirmed":{"builds":build=="ok","existing_tests_fail_with_change":int(exist),"demo_fails_with_change":int(withc)>0,"demo_fails_without_change":int(without)>0},
 "demo":"demo/"+demo,"what_it_needs":"see MUTANT.md","ran":"tools/seeded_intake.sh (fresh worktree of /repo HEAD: apply patch.diff, go build ./..., go test of touched packages + ./api/... ./tests/..., demo with and without the change; then tools/mutcheck.sh for each listed check)",
 "checks":json.loads(res)}
json.dump(meta,open(d+"/meta.json","w"),indent=1)
PY
