#!/bin/bash
# audit_intake.sh <ID> [n]: keep an audit sub-agent's report and tests under audits/<ID>/ and remove its worktree
ID="$1"; N="${2:-1}"; W=/tmp/agentwt/$ID-audit$N; D=/verif/audits/$ID
[ "$N" != 1 ] && D=/verif/audits/$ID-$N
[ -d "$W" ] || { echo "no worktree $W"; exit 2; }
mkdir -p "$D"; cp "$W/AUDIT.md" "$D/" 2>/dev/null
(cd "$W" && git status --short --untracked-files=all | awk '{print $2}' | grep 'zz_audit.*_test.go$' | while read f; do mkdir -p "$D/$(dirname $f)"; cp "$f" "$D/$f"; done)
git -C /repo worktree remove --force "$W"; git -C /repo worktree prune
find "$D" -type f | sed "s|/verif/||"
