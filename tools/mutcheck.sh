#!/bin/bash
# mutcheck.sh <patch.diff> <ID> [tier] [extra]: applies a patch to a scratch worktree of /repo and runs a check against it (VERIF_REPO).
set -u
P="$(realpath "$1")"; ID="$2"; TIER="${3:-quick}"; shift; shift; shift || true
W=$(mktemp -d /tmp/mut-XXXXXX); rmdir "$W"
git -C /repo worktree add -q --detach "$W" HEAD || exit 2
# carry uncommitted edits of /repo (none expected) - worktree is HEAD
if ! git -C "$W" apply "$P" 2>/dev/null; then
  # older patches: the tree has moved on around them, try with fuzz
  if ! (cd "$W" && patch -p1 -s -F3 < "$P" >/dev/null 2>&1); then echo "patch does not apply"; git -C /repo worktree remove --force "$W"; exit 2; fi
fi
VERIF_REPO="$W" /verif/check.sh "$ID" "$TIER" "$@"; rc=$?
git -C /repo worktree remove --force "$W"
rm -rf "/tmp/verif-replays-$(basename "$W")" "/tmp/verif-evidence-$(basename "$W")"
exit $rc
