#!/bin/bash
# mutants.sh [pattern] : runs every /verif/mutants/<ID>-*.diff (and seeded/*/patch.diff) against its property's quick check
# on a scratch worktree; prints killed/SURVIVED per mutant. Replay files of mutants are discarded.
cd /verif
PAT="${1:-}"
for f in mutants/*.diff seeded/*/patch.diff; do
  [ -f "$f" ] || continue
  case "$f" in *"$PAT"*) ;; *) continue;; esac
  if [[ "$f" == seeded/* ]]; then IDS=$(python3 -c "import json,sys;print(' '.join(k for k,v in json.load(open('$(dirname $f)/meta.json'))['checks'].items() if v=='caught'))"); else IDS=$(basename "$f" | cut -d- -f1); fi
  if [ -z "$IDS" ]; then echo "n/a       $f (not claimed as caught, see its meta.json)"; continue; fi
  rc=0; out=""
  for ID in $IDS; do out=$(tools/mutcheck.sh "$f" "$ID" quick ${MUT_ARGS:-} 2>&1); rc=$?; [ $rc -eq 1 ] && break; done
  n=$(echo "$out" | grep -c "^VIOLATION")
  inv=$(echo "$out" | grep "^violation:" | head -1 | cut -c1-160)
  if [ $rc -eq 1 ]; then echo "killed    $f [$ID] ($n) $inv"; elif [ $rc -eq 0 ]; then echo "SURVIVED  $f"; else echo "INFRA($rc) $f: $(echo "$out" | tail -3)"; fi
done
