#!/bin/bash
# port_seeded.sh <seeded-dir-name|mutants/<file>.diff> : reads a python edit script on stdin (cwd = scratch worktree of /repo HEAD),
# builds, and stores the resulting diff as the ported patch (the original is kept as patch.orig.diff)
set -u
T="$1"; W=$(mktemp -d /tmp/port-XXXXXX); rmdir "$W"
git -C /repo worktree add -q --detach "$W" HEAD || exit 2
(cd "$W" && python3 -) || { echo "EDIT FAILED"; git -C /repo worktree remove --force "$W"; exit 2; }
(cd "$W" && GOFLAGS=-mod=mod GOPROXY=off GOSUMDB=off GOTOOLCHAIN=local go build ./... ) || { echo "DOES NOT BUILD"; git -C /repo worktree remove --force "$W"; exit 2; }
if [[ "$T" == mutants/* ]]; then OUT=/verif/$T; else D=/verif/seeded/$T; [ -f "$D/patch.orig.diff" ] || cp "$D/patch.diff" "$D/patch.orig.diff"; OUT=$D/patch.diff; fi
git -C "$W" diff > "$OUT"
git -C /repo worktree remove --force "$W"
wc -l "$OUT"
