#!/bin/bash
# runs the pinned baseline command and compares with stable_pass
unset GOFLAGS GOPROXY GOTOOLCHAIN GOSUMDB
rm -f /tmp/bl/out.json
for m in $(cat /w/out/gomods.txt); do MF=$(cd /repo/$m && . /w/out/goenv.sh && gomodflag); (cd /repo/$m && go test $MF -json -vet=off -count=1 -timeout 25m ./... >> /tmp/bl/out.json 2>/dev/null); done
python3 - <<'PY'
import json
res={}
for l in open('/tmp/bl/out.json'):
    try: e=json.loads(l)
    except: continue
    if e.get('Action') in ('pass','fail') and e.get('Test'):
        res[e['Package']+'::'+e['Test']]=e['Action']
b=json.load(open('/root/.vp/BASELINE.json'))
bad=[t for t in b['stable_pass'] if res.get(t)!='pass']
print('stable_pass',len(b['stable_pass']),'not passing now:',len(bad))
for t in bad: print('  ',t,res.get(t))
PY
