#!/usr/bin/env python3
# regenerates the table of /verif/seeded/RESULTS.md from the meta.json files
import json,glob,os
head=open('/verif/seeded/RESULTS.md').read().split('| change |')[0]
rows=['| change | property | own check | other checks | what the checks needed |','|---|---|---|---|---|']
for d in sorted(glob.glob('/verif/seeded/*/meta.json')):
    m=json.load(open(d)); name=os.path.basename(os.path.dirname(d)); pid=m['property']
    own=m['checks'].get(pid,'-')
    others=', '.join(f"{k}: {v}" for k,v in m['checks'].items() if k!=pid) or '-'
    note=m.get('note','caught as built').replace('\n',' ').replace('|','/')
    rows.append(f"| {name} | {pid} | {own} | {others} | {note} |")
open('/verif/seeded/RESULTS.md','w').write(head+'\n'.join(rows)+'\n')
print(len(rows)-2,'rows')
