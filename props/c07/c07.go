// Package c07: system protection gates inbound traffic only, by the
// configured predicate (E1: predicate evaluated on reference aggregates).
package c07

import (
	"encoding/json"
	"errors"
	"fmt"

	sentinel "github.com/alibaba/sentinel-golang/api"
	"github.com/alibaba/sentinel-golang/core/base"
	"github.com/alibaba/sentinel-golang/core/system"
	"github.com/alibaba/sentinel-golang/core/system_metric"

	"verif/harness"
	"verif/model"
	"verif/sim"
)

type SRule struct {
	ID      string  `json:"id"`
	Metric  int     `json:"metric"` // 0 load 1 avgRT 2 concurrency 3 inboundQPS 4 cpu
	Trigger float64 `json:"trigger"`
	BBR     bool    `json:"bbr"`
}

type Cfg struct {
	Geo    harness.Geometry `json:"geo"`
	Origin uint64           `json:"origin_ms"`
	Rules  []SRule          `json:"rules"`
}

type P struct{}

func init() { harness.Register(P{}) }

func (P) ID() string     { return "C07" }
func (P) Engine() string { return "E1" }

func (P) Describe() harness.Description {
	return harness.Description{
		MustHit: []string{"rule_edited_and_reloaded", "bbr_evaluated", "load_reading_injected", "cpu_reading_injected", "outbound_admitted_while_inbound_gated"},
		Level:   "exploration",
		Rule: "case = (statistic geometry, 0-4 system rules over the five metric types and both strategies; 20-100 ops: start inbound / outbound request on 2 resources, complete request j (duration = virtual time, ok/error), inject load / CPU readings, edit one field (strategy or trigger) of a loaded rule and reload the list, ticks biased to bucket and window boundaries). " +
			"Outbound requests must never get a system block; an inbound request is blocked with BlockTypeSystemFlow iff some loaded rule is violated by the reference inbound aggregates (pass QPS and average RT over the aligned metric window of the tallied inbound events, live inbound count, injected load / CPU; BBR: in-flight > peak per-bucket completion rate x minimum RT). " +
			"non-trivial = an inbound request was blocked and a later one admitted while outbound traffic continued; distinct = hash(config, ops)",
		Assumptions: []string{
			"BBR with at most one request in flight is ambiguous (the estimate is meaningless below two)",
			"rule iteration order is unspecified: only the decision and the block type are compared",
		},
		Real: []string{"api.Entry(WithTrafficType)/Exit", "core/system (slot, rule manager)", "core/stat (inbound node, stat slot, sliding windows)", "core/system_metric setters"},
		Stub: []string{"util.Clock (virtual clock)", "system load / CPU readings (injected through the existing setters)"},
	}
}

var geos = []harness.Geometry{{20, 10000, 2, 1000}, {20, 10000, 2, 1000}, {10, 10000, 1, 1000}, {10, 5000, 2, 1000}, {8, 4000, 4, 2000},
	// views whose buckets span two of the array's (the peak completion rate is a count per ARRAY bucket)
	{20, 10000, 1, 1000}, {20, 10000, 2, 2000}}

func (P) Gen(rng *sim.Rng, tier string) *harness.Case {
	cfg := Cfg{Geo: geos[rng.Intn(len(geos))], Origin: 1700000000000 + rng.U64Range(0, 100000)}
	for i, n := 0, rng.Range(0, 4); i < n; i++ {
		r := SRule{ID: fmt.Sprintf("s%d", i), Metric: rng.Intn(5), BBR: rng.Chance(0.5)}
		switch r.Metric {
		case 0:
			r.Trigger = []float64{0, 1, 2.5, 8}[rng.Intn(4)]
		case 1:
			r.Trigger = []float64{0, 1, 5, 20, 100, 7.5}[rng.Intn(6)]
		case 2:
			r.Trigger = float64(rng.Range(0, 4))
		case 3:
			r.Trigger = []float64{0, 1, 2, 3, 5, 2.5}[rng.Intn(6)]
		default:
			r.Trigger = []float64{0, 0.3, 0.5, 0.9, 1}[rng.Intn(5)]
		}
		cfg.Rules = append(cfg.Rules, r)
	}
	L := uint64(cfg.Geo.GlobalInterval / cfg.Geo.GlobalSamples)
	I := uint64(cfg.Geo.MetricInterval)
	var ops []harness.Op
	started := 0
	now := cfg.Origin
	for n := rng.Range(20, 100); len(ops) < n; {
		switch rng.Weighted([]int{30, 12, 25, 8, 25}) {
		case 0:
			ops = append(ops, harness.Op{K: "start", R: rng.Intn(2), F: true})
			started++
		case 1:
			ops = append(ops, harness.Op{K: "start", R: rng.Intn(2), F: false})
			started++
		case 2:
			if started > 0 {
				ops = append(ops, harness.Op{K: "done", E: started - 1 - rng.Intn(minInt(started, 5)), F: rng.Chance(0.2)})
			}
		case 3:
			if len(cfg.Rules) > 0 && rng.Chance(0.25) {
				// edit one field of one loaded rule and reload the list (the predicate in force is the latest load)
				ops = append(ops, harness.Op{K: "edit", R: rng.Intn(len(cfg.Rules)), N: uint64(rng.Intn(2)), V: []float64{0, 0.5, 1, 2, 3, 8}[rng.Intn(6)]})
			} else if rng.Chance(0.5) {
				ops = append(ops, harness.Op{K: "load", V: []float64{0, 0.5, 1, 2.5, 3, 9}[rng.Intn(6)]})
			} else {
				ops = append(ops, harness.Op{K: "cpu", V: []float64{0, 0.3, 0.31, 0.5, 0.95, 1}[rng.Intn(6)]})
			}
		default:
			var d uint64
			switch rng.Intn(8) {
			case 0:
				d = 0
			case 1:
				d = 1
			case 2:
				d = L - now%L
			case 3:
				d = L - now%L - minU(L-now%L, 1)
			case 4:
				d = I
			case 5:
				d = I + rng.U64Range(0, L)
			case 6:
				d = uint64(rng.Range(1, 30))
			default:
				d = rng.U64Range(0, 2*L)
			}
			if rng.Chance(0.04) {
				// a request that stays in flight for a minute and more (beyond the statistic's maximum response time)
				d = []uint64{59999, 60000, 60001, 61000, 125000}[rng.Intn(5)]
			}
			now += d
			ops = append(ops, harness.Op{K: "tick", N: d})
		}
	}
	return &harness.Case{Cfg: harness.MustJSON(cfg), Callers: [][]harness.Op{ops}}
}

func minInt(a, b int) int {
	if a < b {
		return a
	}
	return b
}
func minU(a, b uint64) uint64 {
	if a < b {
		return a
	}
	return b
}

var mt = []system.MetricType{system.Load, system.AvgRT, system.Concurrency, system.InboundQPS, system.CpuUsage}

type ment struct {
	e       *base.SentinelEntry
	inbound bool
	start   uint64
	done    bool
}

func (P) Exec(c *harness.Case) *harness.Outcome {
	o := harness.NewOutcome()
	var cfg Cfg
	if err := json.Unmarshal(c.Cfg, &cfg); err != nil {
		o.Infra = err.Error()
		return o
	}
	if cfg.Geo.GlobalSamples == 0 || len(c.Callers) == 0 {
		return o
	}
	env := harness.Reset(cfg.Origin*1e6, cfg.Geo)
	clk := env.Clock
	var rules []*system.Rule
	var mrules []SRule
	for _, r := range cfg.Rules {
		if r.Metric < 0 || r.Metric > 4 || r.Trigger < 0 || (r.Metric == 4 && r.Trigger > 1) {
			continue
		}
		st := system.NoAdaptive
		if r.BBR {
			st = system.BBR
		}
		rules = append(rules, &system.Rule{ID: r.ID, MetricType: mt[r.Metric], TriggerCount: r.Trigger, Strategy: st})
		mrules = append(mrules, r)
	}
	if !harness.Call(o, "C07.panic", 0, func() {
		if _, err := system.LoadRules(rules); err != nil {
			o.Fail("C07.load-error", 0, "%v", err)
		}
	}) || o.Failed() {
		return o
	}
	Lg := uint64(cfg.Geo.GlobalInterval / cfg.Geo.GlobalSamples)
	Iv := uint64(cfg.Geo.MetricInterval)
	ref := &model.WindowLog{L: Lg, I: uint64(cfg.Geo.GlobalInterval)}
	live := 0
	load, cpu := 0.0, 0.0
	var ents []*ment
	blockedOnce, admittedAfter := false, false
	for step, op := range c.Callers[0] {
		now := clk.NowMs()
		switch op.K {
		case "tick":
			clk.AdvanceMs(op.N)
			o.SimMs += op.N
			ref.Prune(now, 3*uint64(cfg.Geo.GlobalInterval))
		case "edit":
			if len(mrules) == 0 || op.R < 0 {
				continue
			}
			i := op.R % len(mrules)
			nr := append([]SRule{}, mrules...)
			if op.N == 0 {
				nr[i].BBR = !nr[i].BBR
			} else {
				if op.V < 0 || (nr[i].Metric == 4 && op.V > 1) {
					continue
				}
				nr[i].Trigger = op.V
			}
			var l []*system.Rule
			for _, r := range nr {
				st := system.NoAdaptive
				if r.BBR {
					st = system.BBR
				}
				l = append(l, &system.Rule{ID: r.ID, MetricType: mt[r.Metric], TriggerCount: r.Trigger, Strategy: st})
			}
			if !harness.Call(o, "C07.panic", step, func() {
				if _, err := system.LoadRules(l); err != nil {
					o.Fail("C07.load-error", step, "%v", err)
				}
			}) || o.Failed() {
				return o
			}
			mrules = nr
			o.Probe("rule_edited_and_reloaded")
		case "load":
			load = op.V
			system_metric.SetSystemLoad(op.V)
			o.Fault("load_reading_injected")
		case "cpu":
			cpu = op.V
			system_metric.SetSystemCpuUsage(op.V)
			o.Fault("cpu_reading_injected")
		case "done":
			if op.E < 0 || op.E >= len(ents) || ents[op.E] == nil || ents[op.E].done {
				continue
			}
			m := ents[op.E]
			m.done = true
			harness.Call(o, "C07.panic", step, func() {
				if op.F {
					sentinel.TraceError(m.e, errors.New("biz"))
				}
				m.e.Exit()
			})
			if m.inbound {
				live--
				ref.Add(now, model.KComplete, 1)
				ref.Add(now, model.KRt, int64(now-m.start))
			}
		case "start":
			// reference predicate
			violated, ambiguous := false, false
			if op.F {
				lo, hi := ref.Range(now, Iv)
				pass := ref.Sum(model.KPass, lo, hi)
				comp := ref.Sum(model.KComplete, lo, hi)
				rtSum := ref.Sum(model.KRt, lo, hi)
				qps := float64(pass) * 1000 / float64(Iv)
				avg := 0.0
				if comp > 0 {
					avg = float64(rtSum) / float64(comp)
				}
				bbrExceeded := func() (bool, bool) {
					if live <= 1 {
						return false, true
					}
					minRt := 1.0
					if m, ok := ref.MinRt(lo, hi); ok {
						if m > 1 {
							minRt = float64(m)
						}
						if m >= base.DefaultStatisticMaxRt {
							minRt = float64(base.DefaultStatisticMaxRt)
						}
					} else {
						minRt = float64(base.DefaultStatisticMaxRt)
					}
					peak := float64(ref.MaxBucket(model.KComplete, lo, hi)) * 1000 / float64(Lg)
					return float64(live) > peak*minRt/1000, false
				}
				for _, r := range mrules {
					switch r.Metric {
					case 3:
						if qps >= r.Trigger {
							violated = true
						}
					case 2:
						if float64(live) >= r.Trigger {
							violated = true
						}
					case 1:
						if avg >= r.Trigger {
							violated = true
						}
					case 0, 4:
						reading := load
						if r.Metric == 4 {
							reading = cpu
						}
						if reading > r.Trigger {
							if !r.BBR {
								violated = true
							} else {
								ex, amb := bbrExceeded()
								if amb {
									ambiguous = true
								} else if ex {
									violated = true
								}
								o.Probe("bbr_evaluated")
							}
						}
					}
				}
			}
			m := &ment{inbound: op.F, start: now}
			var be *base.BlockError
			harness.Call(o, "C07.panic", step, func() {
				m.e, be = sentinel.Entry(harness.ResName(op.R), harness.EntryOpts(1, op.F, nil, nil, nil)...)
			})
			if o.Failed() {
				return o
			}
			ents = append(ents, m)
			blocked := be != nil
			if blocked {
				m.done = true
				if be.BlockType() != base.BlockTypeSystemFlow {
					o.Fail("C07.block-type", step, "blocked with %s although only system rules are loaded", be.BlockType())
					return o
				}
			}
			if !op.F {
				if blocked {
					o.Fail("C07.outbound-blocked", step, "t=%d an outbound request was blocked by system protection", now)
					return o
				}
				if blockedOnce {
					o.Probe("outbound_admitted_while_inbound_gated")
				}
				continue
			}
			if ambiguous && !violated {
				o.Ambiguous++
			} else if blocked != violated {
				o.Fail("C07.decision", step, "t=%d inbound request: implementation blocked=%v, reference predicate violated=%v (inbound in flight %d, load %.2f, cpu %.2f, rules %+v)", now, blocked, violated, live, load, cpu, mrules)
				return o
			}
			if blocked {
				blockedOnce = true
			} else {
				if blockedOnce {
					admittedAfter = true
				}
				live++
				ref.Add(now, model.KPass, 1)
			}
		}
	}
	o.Nontrivial = blockedOnce && admittedAfter
	return o
}
