// Package c05: hot-parameter QPS rules shape each parameter value
// independently (E1: envelopes + metamorphic independence against shadow
// resources that only ever see one value).
package c05

import (
	"encoding/json"
	"fmt"
	"math"
	"time"

	sentinel "github.com/alibaba/sentinel-golang/api"
	"github.com/alibaba/sentinel-golang/core/base"
	"github.com/alibaba/sentinel-golang/core/hotspot"

	"verif/harness"
	"verif/sim"
)

type Cfg struct {
	Origin   uint64           `json:"origin_ms"`
	Throttle bool             `json:"throttle"`
	Index    int              `json:"index"`
	Key      string           `json:"key,omitempty"`
	T        int64            `json:"t"`
	Burst    int64            `json:"burst"`
	DSec     int64            `json:"duration_s"`
	QMs      int64            `json:"max_queue_ms"`
	Cap      int64            `json:"capacity"`
	Specific map[string]int64 `json:"specific,omitempty"`
	// First: instead of the arrival history, 2-3 callers send their first requests for one or two values at the
	// same (frozen) instant under a reject rule with a long duration: a value's budget is threshold + burst,
	// whoever arrives first and however the callers interleave
	First bool `json:"first,omitempty"`
}

type P struct{}

func init() { harness.Register(P{}) }

func (P) ID() string     { return "C05" }
func (P) Engine() string { return "E1+E2" }

func (P) Describe() harness.Description {
	return harness.Description{
		MustHit: []string{"first_requests_of_a_value_from_several_callers", "request_without_selected_argument", "capacity_exceeded", "throttled_request_waited", "value_dropped_by_the_reference_cache_starts_over", "value_kept_by_the_reference_cache_below_live_values"},
		Level:   "exploration",
		Rule: "case = (one hotspot QPS rule: reject or throttling, value selected by index / negative index / attachment key, threshold 0-6, burst 0-3, duration 1-5 s, max queueing 0-3000 ms, specific-item table, parameter capacity default or 1-3; 30-150 requests over a value alphabet of 8 typed values with batches 1-4 and ticks biased to the duration and the pacing interval; Sleep captured at the clock seam). " +
			"Per (rule,value) while the capacity was never exceeded: reject mode - admitted tokens <= (T+burst)+T*elapsed/D since first seen, <= 2(T+burst) in any window of length D, a value idle for more than D is granted any batch <= T; throttling - consecutive pass times >= floor(b*D/T) ms apart, every requested wait < max queueing time; T_v <= 0 => always rejected; requests without the selected argument are never limited; " +
			"2-3 callers under the seeded scheduler sending the first requests for a value (8 % of the cases): reject rule at a frozen instant - exactly min(requests, T+burst) admitted; throttling rule with callers that move the clock - the possible pass times of any two admitted requests are not all closer than floor(D/T) ms, waits < max queueing time; " +
			"independence: every decision (and wait) equals that of a shadow resource with the same rule that only ever receives this value, at the same virtual times. With the capacity exceeded: throttling - only termination and absence of panics; reject mode - the envelopes are asserted against a reference least-recently-used list of the configured capacity (a value the list has dropped starts over, a value it holds has kept its bucket). non-trivial = at least two values were each both admitted and rejected; distinct = hash(config, ops)",
		Assumptions: []string{"clock seam is integer milliseconds for hotspot rules: pacing interval rounded down to ms", "independence (shadow resource) is asserted only in runs whose number of distinct values never exceeds the configured capacity; below it, reject-mode envelopes follow a reference LRU recency list (single caller: both caches of a rule are touched by every request that reaches the bucket)"},
		Real:        []string{"api.Entry(WithArgs/WithAttachments)", "core/hotspot (slot, reject and throttling controllers, LRU caches, rule manager)"},
		Stub:        []string{"util.Clock (virtual clock; Sleep captured)"},
	}
}

var alphabet = []string{"i:0", "i:1", "i:2", "s:a", "s:b", "b:true", "f:1.5", "st:1"}

func (P) Gen(rng *sim.Rng, tier string) *harness.Case {
	if rng.Chance(0.08) {
		cfg := Cfg{Origin: 1700000000000 + rng.U64Range(0, 100000), First: true, T: int64(rng.Range(1, 3)), Burst: int64(rng.Range(0, 2)), DSec: 3600, Cap: int64([]int{0, 0, 2}[rng.Intn(3)])}
		k := rng.Range(2, 3)
		callers := make([][]harness.Op, k)
		for i := range callers {
			for j, n := 0, rng.Range(1, 3); j < n; j++ {
				callers[i] = append(callers[i], harness.Op{K: "req", E: rng.Intn(2)})
			}
		}
		if rng.Chance(0.5) {
			// the same callers under a throttling rule, with a clock that some of them move by a few ms
			cfg.Throttle, cfg.Burst, cfg.DSec = true, 0, int64(rng.Range(1, 2))
			ival := cfg.DSec * 1000 / cfg.T
			cfg.QMs = []int64{0, ival + 1, 2*ival + 1, 20000}[rng.Intn(4)]
			for i := range callers {
				if rng.Chance(0.4) {
					at := rng.Intn(len(callers[i]) + 1)
					callers[i] = append(callers[i][:at:at], append([]harness.Op{{K: "tick", N: []uint64{1, 3, uint64(ival) / 2, uint64(ival)}[rng.Intn(4)]}}, callers[i][at:]...)...)
				}
			}
		}
		c := &harness.Case{Cfg: harness.MustJSON(cfg), Callers: callers}
		c.Sched = harness.GenSched(rng, nil, 200*k)
		c.Sched.MaxSteps = 50000
		c.Sched.PostLoad = rng.Chance(0.5)
		return c
	}
	cfg := Cfg{Origin: 1700000000000 + rng.U64Range(0, 100000), Throttle: rng.Chance(0.4)}
	switch rng.Intn(5) {
	case 0:
		cfg.Index = -1
	case 1:
		cfg.Index = 1
	case 2:
		cfg.Key = "k"
	}
	cfg.T = int64(rng.Range(0, 6))
	cfg.Burst = int64(rng.Range(0, 3))
	cfg.DSec = int64(rng.Range(1, 5))
	cfg.QMs = []int64{0, 1, 100, 500, 1000, 3000}[rng.Intn(6)]
	big := rng.Chance(0.1)
	if big {
		// swarm: production magnitudes (token arithmetic must not overflow for large thresholds and long idle times)
		cfg.T = []int64{1000000, 1000000000, 1000000000000, 1000000000000000}[rng.Intn(4)]
		cfg.Burst = []int64{0, 1, 1000000, 1000000000000000}[rng.Intn(4)]
		cfg.DSec = []int64{1, 60, 3600, 86400}[rng.Intn(4)]
	}
	if rng.Chance(0.2) {
		cfg.Cap = int64(rng.Range(1, 3))
	}
	if rng.Chance(0.5) {
		cfg.Specific = map[string]int64{}
		for j, m := 0, rng.Range(1, 3); j < m; j++ {
			cfg.Specific[alphabet[rng.Intn(len(alphabet))]] = int64(rng.Range(0, 8))
		}
		if rng.Chance(0.1) {
			// a value that is practically unlimited
			cfg.Specific[alphabet[rng.Intn(len(alphabet))]] = []int64{math.MaxInt64, math.MaxInt64 - 1, math.MaxInt64 / 2}[rng.Intn(3)]
		}
	}
	D := uint64(cfg.DSec) * 1000
	nvals := rng.Range(1, 5)
	vals := make([]string, nvals)
	for i := range vals {
		vals[i] = alphabet[rng.Intn(len(alphabet))]
	}
	n := rng.Range(30, 150)
	var ops []harness.Op
	for len(ops) < n {
		if rng.Chance(0.65) {
			var a []string
			for j, m := 0, rng.Range(0, 3); j < m; j++ {
				a = append(a, vals[rng.Intn(nvals)])
			}
			op := harness.Op{K: "req", A: a, N: uint64([]int{1, 1, 1, 2, 3, 4}[rng.Intn(6)])}
			if rng.Chance(0.3) {
				op.S = vals[rng.Intn(nvals)]
			}
			ops = append(ops, op)
		} else {
			var d uint64
			step := uint64(1000)
			if cfg.T > 0 {
				step = D / uint64(cfg.T)
			}
			switch rng.Intn(10) {
			case 0:
				d = 0
			case 1:
				d = 1
			case 2:
				d = D
			case 3:
				d = D + 1
			case 4:
				d = D - 1
			case 5:
				d = step
			case 6:
				d = step - minU(step, 1)
			case 7:
				d = uint64(cfg.QMs)
			case 8:
				d = 2*D + rng.U64Range(0, D)
			default:
				d = rng.U64Range(0, D)
			}
			if big && rng.Chance(0.2) {
				d = []uint64{86400000, 30 * 86400000, 365 * 86400000}[rng.Intn(3)] // idle for a day, a month, a year
			}
			ops = append(ops, harness.Op{K: "tick", N: d})
		}
	}
	return &harness.Case{Cfg: harness.MustJSON(cfg), Callers: [][]harness.Op{ops}}
}

func minU(a, b uint64) uint64 {
	if a < b {
		return a
	}
	return b
}

func mkRule(cfg *Cfg, res string) *hotspot.Rule {
	spec := map[interface{}]int64{}
	for k, v := range cfg.Specific {
		spec[harness.DecodeArg(k)] = v
	}
	r := &hotspot.Rule{Resource: res, MetricType: hotspot.QPS, ControlBehavior: hotspot.Reject, ParamIndex: cfg.Index, ParamKey: cfg.Key,
		Threshold: cfg.T, BurstCount: cfg.Burst, DurationInSec: cfg.DSec, ParamsMaxCapacity: cfg.Cap, SpecificItems: spec}
	if cfg.Throttle {
		r.ControlBehavior = hotspot.Throttling
		r.MaxQueueingTimeMs = cfg.QMs
		r.BurstCount = 0
	}
	return r
}

func extract(cfg *Cfg, args []interface{}, attach map[interface{}]interface{}) interface{} {
	if cfg.Key != "" && attach != nil {
		if v, ok := attach[cfg.Key]; ok && v != nil {
			return v
		}
	}
	idx := cfg.Index
	if idx < 0 {
		idx = len(args) + idx
	}
	if idx < 0 || idx >= len(args) {
		return nil
	}
	return args[idx]
}

type adm struct {
	t      uint64 // ms arrival
	tokens int64
	pass   uint64 // ms pass time (throttling)
}

type vstate struct {
	first    uint64
	seen     bool
	lastReq  uint64
	admitted []adm
	total    int64
	nAdm     int
	nRej     int
}

func (P) Exec(c *harness.Case) *harness.Outcome {
	o := harness.NewOutcome()
	var cfg Cfg
	if err := json.Unmarshal(c.Cfg, &cfg); err != nil {
		o.Infra = err.Error()
		return o
	}
	if cfg.T < 0 || cfg.DSec <= 0 || cfg.Burst < 0 || cfg.QMs < 0 || (cfg.Index > 0 && cfg.Key != "") || len(c.Callers) == 0 {
		return o
	}
	env := harness.Reset(cfg.Origin*1e6, harness.DefaultGeometry())
	if cfg.First && cfg.Throttle {
		execFirstThrottle(c, &cfg, o, env)
		return o
	}
	if cfg.First {
		execFirst(c, &cfg, o, env)
		return o
	}
	clk := env.Clock
	var lastSleep time.Duration
	clk.OnSleep = func(d time.Duration) { lastSleep = d }
	// shadow resources: one per value, created up front for the whole alphabet
	rules := []*hotspot.Rule{mkRule(&cfg, "main")}
	for i := range alphabet {
		rules = append(rules, mkRule(&cfg, fmt.Sprintf("shadow-%d", i)))
	}
	if !harness.Call(o, "C05.panic", 0, func() {
		if _, err := hotspot.LoadRules(rules); err != nil {
			o.Fail("C05.load-error", 0, "%v", err)
		}
	}) || o.Failed() {
		return o
	}
	shadowOf := map[interface{}]string{}
	for i, a := range alphabet {
		shadowOf[harness.DecodeArg(a)] = fmt.Sprintf("shadow-%d", i)
	}
	spec := map[interface{}]int64{}
	for k, v := range cfg.Specific {
		spec[harness.DecodeArg(k)] = v
	}
	D := uint64(cfg.DSec) * 1000
	vs := map[interface{}]*vstate{}
	capExceeded := false
	var refLRU []interface{} // most recently used first
	entry := func(step int, res string, b uint32, args []interface{}, attach map[interface{}]interface{}) (bool, uint64, *base.BlockError) {
		lastSleep = 0
		var e *base.SentinelEntry
		var be *base.BlockError
		harness.Call(o, "C05.panic", step, func() {
			e, be = sentinel.Entry(res, harness.EntryOpts(b, false, args, attach, nil)...)
		})
		if e != nil {
			e.Exit()
		}
		w := uint64(0)
		if lastSleep > 0 {
			w = uint64(lastSleep / time.Millisecond)
		}
		return be == nil, w, be
	}
	for step, op := range c.Callers[0] {
		now := clk.NowMs()
		switch op.K {
		case "tick":
			clk.AdvanceMs(op.N)
			o.SimMs += op.N
		case "req":
			b := uint32(op.N)
			if b == 0 {
				b = 1
			}
			args := harness.DecodeArgs(op.A)
			var attach map[interface{}]interface{}
			if op.S != "" {
				attach = map[interface{}]interface{}{"k": harness.DecodeArg(op.S)}
			}
			v := extract(&cfg, args, attach)
			ok, wait, be := entry(step, "main", b, args, attach)
			if o.Failed() {
				return o
			}
			if v == nil {
				if !ok {
					o.Fail("C05.limited-without-argument", step, "request with args %v attach %q has no selected argument but was rejected", op.A, op.S)
					return o
				}
				o.Probe("request_without_selected_argument")
				continue
			}
			if be != nil && be.BlockType() != base.BlockTypeHotSpotParamFlow {
				o.Fail("C05.block-type", step, "rejected with %s", be.BlockType())
				return o
			}
			st := vs[v]
			if st == nil {
				st = &vstate{}
				vs[v] = st
				if cfg.Cap > 0 && int64(len(vs)) > cfg.Cap {
					capExceeded = true
					o.Probe("capacity_exceeded")
				}
			}
			T := cfg.T
			if t, has := spec[v]; has {
				T = t
			}
			max := satAdd(T, cfg.Burst) // (thresholds up to MaxInt64 are valid: the harness saturates its own sums)
			if cfg.Throttle {
				max = T
			}
			// Below the number of live values the capacity decides which values keep their bucket. The caches are
			// documented as least-recently-used ones: a reference recency list of the same capacity (moved by every
			// request that gets as far as the bucket: threshold > 0, batch <= threshold+burst) says which values
			// such a cache has dropped. A value it has dropped starts over (its envelopes restart with it, as for a
			// value never seen); a value it still holds has kept its bucket and stays inside its envelopes.
			if cfg.Cap > 0 && !cfg.Throttle && T > 0 && int64(b) <= max {
				at := -1
				for i, r := range refLRU {
					if r == v {
						at = i
					}
				}
				if at < 0 {
					if st.seen {
						*st = vstate{nAdm: st.nAdm, nRej: st.nRej}
						o.Probe("value_dropped_by_the_reference_cache_starts_over")
					}
				} else {
					refLRU = append(refLRU[:at], refLRU[at+1:]...)
					if capExceeded {
						o.Probe("value_kept_by_the_reference_cache_below_live_values")
					}
				}
				refLRU = append([]interface{}{v}, refLRU...)
				if int64(len(refLRU)) > cfg.Cap {
					refLRU = refLRU[:cfg.Cap]
				}
			}
			// independence: the shadow resource only ever sees this value
			if !capExceeded {
				sok, swait, _ := entry(step, shadowOf[v], b, args, attach)
				if o.Failed() {
					return o
				}
				if sok != ok || swait != wait {
					o.Fail("C05.not-independent", step, "t=%d value %v batch %d: admitted=%v wait=%dms on the shared resource, admitted=%v wait=%dms on a resource that only ever saw this value", now, v, b, ok, wait, sok, swait)
					return o
				}
			}
			idle := !st.seen || now-st.lastReq > D
			if !st.seen {
				st.seen, st.first = true, now
			}
			st.lastReq = now
			if ok {
				st.nAdm++
			} else {
				st.nRej++
			}
			if T <= 0 {
				if ok {
					o.Fail("C05.admitted-with-zero-threshold", step, "value %v has threshold %d but batch %d was admitted", v, T, b)
					return o
				}
				continue
			}
			if capExceeded && cfg.Throttle {
				continue
			}
			if !cfg.Throttle {
				if idle && int64(b) <= T && !ok {
					o.Fail("C05.idle-value-rejected", step, "t=%d value %v was idle for more than %d ms but batch %d (<= threshold %d) was rejected", now, v, D, b, T)
					return o
				}
				if ok {
					st.total += int64(b)
					st.admitted = append(st.admitted, adm{t: now, tokens: int64(b)})
					bound := float64(max) + float64(T)*float64(now-st.first)/float64(D)
					if float64(st.total) > bound+1e-9 {
						o.Fail("C05.envelope-since-first-seen", step, "t=%d value %v: %d tokens admitted since first seen at %d, envelope (T+burst)+T*elapsed/D = %.3f", now, v, st.total, st.first, bound)
						return o
					}
					var win int64
					for _, a := range st.admitted {
						if a.t+D > now {
							win += a.tokens
						}
					}
					if win > satAdd(max, max) {
						o.Fail("C05.envelope-single-duration", step, "t=%d value %v: %d tokens admitted within one duration (%d ms), more than 2*(T+burst)=%d", now, v, win, D, satAdd(max, max))
						return o
					}
				}
			} else {
				if ok {
					if wait > 0 && int64(wait) >= cfg.QMs {
						o.Fail("C05.wait-reaches-limit", step, "value %v asked to wait %d ms, max queueing time is %d ms", v, wait, cfg.QMs)
						return o
					}
					pass := now + wait
					// batch*duration/threshold, not truncated: timestamps are whole milliseconds, so "at least that far
					// apart" means the next whole millisecond
					need := uint64((int64(b)*int64(D) + T - 1) / T)
					if n := len(st.admitted); n > 0 {
						prev := st.admitted[n-1].pass
						if pass < prev+need {
							o.Fail("C05.throttle-spacing", step, "value %v: pass times %d and %d are %d ms apart, batch %d requires %d ms", v, prev, pass, int64(pass)-int64(prev), b, need)
							return o
						}
					}
					st.admitted = append(st.admitted, adm{t: now, tokens: int64(b), pass: pass})
					if wait > 0 {
						o.Probe("throttled_request_waited")
					}
				}
			}
		}
	}
	both := 0
	for _, st := range vs {
		if st.nAdm > 0 && st.nRej > 0 {
			both++
		}
	}
	o.Nontrivial = both >= 2
	return o
}

func satAdd(a, b int64) int64 {
	if a > 0 && b > math.MaxInt64-a {
		return math.MaxInt64
	}
	return a + b
}

// execFirst: see Cfg.First. The clock stands still, so nothing is refilled: per value exactly
// min(requests, threshold + burst) single-token requests are admitted.
func execFirst(c *harness.Case, cfg *Cfg, o *harness.Outcome, env *harness.Env) {
	if cfg.T <= 0 || cfg.Burst < 0 || cfg.T+cfg.Burst > 100 {
		return
	}
	rule := &hotspot.Rule{ID: "first", Resource: "res-first", MetricType: hotspot.QPS, ControlBehavior: hotspot.Reject, ParamIndex: 0,
		Threshold: cfg.T, BurstCount: cfg.Burst, DurationInSec: cfg.DSec, ParamsMaxCapacity: cfg.Cap}
	if !harness.Call(o, "C05.panic", 0, func() { _, _ = hotspot.LoadRules([]*hotspot.Rule{rule}) }) {
		return
	}
	k := len(c.Callers)
	admitted := make([][2]int, k)
	offered := [2]int{}
	for _, l := range c.Callers {
		for _, op := range l {
			if op.K == "req" && op.E >= 0 && op.E < 2 {
				offered[op.E]++
			}
		}
	}
	harness.RunE2(c, o, "C05", env.Clock, k, func(task int) {
		for _, op := range c.Callers[task] {
			if op.K != "req" || op.E < 0 || op.E > 1 {
				continue
			}
			if e, _ := sentinel.Entry("res-first", harness.EntryOpts(1, false, []interface{}{[]string{"a", "b"}[op.E]}, nil, nil)...); e != nil {
				admitted[task][op.E]++
				e.Exit()
			}
		}
	}, nil)
	if o.Failed() {
		return
	}
	o.Probe("first_requests_of_a_value_from_several_callers")
	o.Nontrivial = true
	for v := 0; v < 2; v++ {
		got := 0
		for t := range admitted {
			got += admitted[t][v]
		}
		want := offered[v]
		if int64(want) > cfg.T+cfg.Burst {
			want = int(cfg.T + cfg.Burst)
		}
		if got != want {
			o.Fail("C05.first-requests-budget", 0, "%d callers offered %d single-token requests for value %q at one instant under threshold %d + burst %d (duration %d s): %d were admitted, the budget of a value seen for the first time allows exactly %d", k, offered[v], []string{"a", "b"}[v], cfg.T, cfg.Burst, cfg.DSec, got, want)
			return
		}
	}
}

// execFirstThrottle: the callers of Cfg.First under a throttling rule. Every admitted request is scheduled at
// (the instant it read the clock) + (the wait it was told); the clock only moves by the callers' own "tick"
// ops, so that instant lies between the request's call and its return (or its Sleep). Two admitted requests
// for one value whose pass times are less than floor(D/T) ms apart WHATEVER instants they read violate the
// pacing, and so does a wait that is not below the maximum queueing time.
func execFirstThrottle(c *harness.Case, cfg *Cfg, o *harness.Outcome, env *harness.Env) {
	if cfg.T <= 0 || cfg.T > 100 || cfg.DSec > 10 {
		return
	}
	rule := &hotspot.Rule{ID: "first", Resource: "res-first", MetricType: hotspot.QPS, ControlBehavior: hotspot.Throttling, ParamIndex: 0,
		Threshold: cfg.T, MaxQueueingTimeMs: cfg.QMs, DurationInSec: cfg.DSec, ParamsMaxCapacity: cfg.Cap}
	if !harness.Call(o, "C05.panic", 0, func() { _, _ = hotspot.LoadRules([]*hotspot.Rule{rule}) }) {
		return
	}
	k := len(c.Callers)
	clk := env.Clock
	type pass struct {
		task, v  int
		lo, hi   uint64 // earliest and latest possible pass time, ms
		wait     int64
		from, to uint64
	}
	passes := make([][]pass, k)
	slept := make([]int64, k)
	sleptAt := make([]uint64, k)
	clk.OnSleep = func(d time.Duration) {
		if cur := sim.CurTask(); cur >= 0 && cur < k {
			slept[cur] = int64(d / time.Millisecond)
			sleptAt[cur] = clk.NowMs()
		}
	}
	harness.RunE2(c, o, "C05", clk, k, func(task int) {
		for _, op := range c.Callers[task] {
			switch {
			case op.K == "tick" && op.N > 0 && op.N <= 100000:
				clk.AdvanceMs(uint64(op.N))
			case op.K == "req" && op.E >= 0 && op.E <= 1:
				from := clk.NowMs()
				slept[task] = -1
				e, _ := sentinel.Entry("res-first", harness.EntryOpts(1, false, []interface{}{[]string{"a", "b"}[op.E]}, nil, nil)...)
				if e == nil {
					continue
				}
				to, w := clk.NowMs(), int64(0)
				if slept[task] >= 0 {
					to, w = sleptAt[task], slept[task]
				}
				passes[task] = append(passes[task], pass{task: task, v: op.E, lo: from + uint64(w), hi: to + uint64(w), wait: w, from: from, to: to})
				e.Exit()
			}
		}
	}, nil)
	if o.Failed() {
		return
	}
	o.Probe("first_requests_of_a_value_from_several_callers")
	var all []pass
	for _, l := range passes {
		all = append(all, l...)
	}
	ival := uint64(cfg.DSec * 1000 / cfg.T)
	for i, a := range all {
		if a.wait > 0 {
			o.Probe("throttled_request_waited")
			o.Nontrivial = true
			if a.wait >= cfg.QMs {
				o.Fail("C05.throttle-wait-reaches-max-queueing", 0, "caller %d's request for value %d was told to wait %d ms under a maximum queueing time of %d ms", a.task, a.v, a.wait, cfg.QMs)
				return
			}
		}
		for _, b := range all[i+1:] {
			if a.v != b.v {
				continue
			}
			far := uint64(0)
			if b.hi > a.lo {
				far = b.hi - a.lo
			}
			if a.hi > b.lo && a.hi-b.lo > far {
				far = a.hi - b.lo
			}
			if far < ival {
				o.Fail("C05.throttle-passes-too-close-among-callers", 0, "%d callers, throttling rule %d per %d s (passes at least %d ms apart): caller %d's request for value %d (issued in [%d,%d] ms, wait %d) and caller %d's (issued in [%d,%d] ms, wait %d) pass at most %d ms apart", k, cfg.T, cfg.DSec, ival, a.task, a.v, a.from-cfg.Origin, a.to-cfg.Origin, a.wait, b.task, b.from-cfg.Origin, b.to-cfg.Origin, b.wait, far)
				return
			}
		}
	}
}
