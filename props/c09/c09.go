// Package c09: sliding-window counters stay sound under concurrent writers
// and rollover (engine E2: seeded interleaving at every atomic access).
package c09

import (
	"encoding/json"
	"sync/atomic"

	"github.com/alibaba/sentinel-golang/core/base"
	sbase "github.com/alibaba/sentinel-golang/core/stat/base"
	"github.com/alibaba/sentinel-golang/util"

	"verif/harness"
	"verif/sim"
)

type Cfg struct {
	N      uint32       `json:"n"`
	L      uint32       `json:"l"`
	Origin uint64       `json:"origin_ms"`
	Pre    []harness.Op `json:"prelude"` // sequential history before the concurrent section
}

type P struct{}

func init() { harness.Register(P{}) }

func (P) ID() string     { return "C09" }
func (P) Engine() string { return "E2" }

func (P) Describe() harness.Description {
	return harness.Description{
		MustHit: []string{"bucket_rolled_in_concurrent_section", "rollover_contended", "exactness_checked"},
		Level:   "exploration",
		Rule: "case = (array geometry, sequential prelude filling the buckets about to be recycled, 2-3 callers (thorough: up to 12) with 1-2 record/read operations each placed around a bucket boundary, tick plan); " +
			"the seeded scheduler (random walk or PCT) picks the runner at every atomic access, lock and Gosched of the leap array; ticks are enabled only while no in-flight recorder would be stalled >= one bucket length; " +
			"non-trivial = a bucket was recycled during the concurrent section while another caller was inside an operation; distinct = hash(config, ops, (task, access kind) sequence)",
		Assumptions: []string{
			"a recorder's timestamp is the clock value it received; an amount from a bucket newer than the reader's clock value may be visible (clock ticked during the read)",
			"with a single bucket (n=1) a recorder that obtained the bucket before a rollover may credit the next bucket (the property exempts n=1 from bucket attribution); bound relaxed by exactly one bucket for n=1",
			"exactness is claimed for a bucket only when its first toucher returned before any other toucher was invoked",
			"min-RT and max-concurrency gauges are documented as approximate under concurrency and are not compared",
		},
		Real: []string{"core/stat/base.LeapArray.currentBucketOfTime", "BucketLeapArray.AddCount/Count/Values/ResetBucketTo", "MetricBucket", "SlidingWindowMetric.GetSum", "core/stat/base.mutex (unsafe TryLock)"},
		Stub: []string{"util.Clock (virtual clock)", "goroutine scheduling (cooperative seeded scheduler; yield points by import substitution of sync/atomic, sync, runtime.Gosched)"},
	}
}

var evOf = []base.MetricEvent{base.MetricEventPass, base.MetricEventBlock, base.MetricEventComplete, base.MetricEventError, base.MetricEventRt}

func (P) Gen(rng *sim.Rng, tier string) *harness.Case {
	n := []uint32{1, 2, 2, 3, 4}[rng.Intn(5)]
	L := []uint32{2, 5, 10, 100}[rng.Intn(4)]
	I := uint64(n * L)
	cfg := Cfg{N: n, L: L}
	base0 := uint64(1700000000000)
	base0 -= base0 % I
	// the concurrent section starts shortly before (or on) a bucket boundary, at least one full cycle after the origin
	cfg.Origin = base0 + uint64(rng.Intn(int(L)))
	// prelude: fill buckets so that slots about to be recycled hold data
	now := cfg.Origin
	target := base0 + I*uint64(rng.Range(1, 2)) + uint64(L)*uint64(rng.Intn(int(n))) + uint64(L) - uint64(rng.Range(0, 2))
	if rng.Chance(0.2) {
		target -= uint64(rng.Intn(int(L)))
	}
	for now < target {
		if rng.Chance(0.7) {
			cfg.Pre = append(cfg.Pre, harness.Op{K: "add", E: rng.Intn(5), N: uint64(rng.Range(1, 9))})
		}
		d := uint64(rng.Range(1, int(L)))
		if now+d > target {
			d = target - now
		}
		now += d
		cfg.Pre = append(cfg.Pre, harness.Op{K: "tick", N: d})
	}
	k := rng.Range(2, 3)
	if tier == "thorough" && rng.Chance(0.15) {
		k = rng.Range(4, 12)
	}
	callers := make([][]harness.Op, k)
	for i := range callers {
		m := rng.Range(1, 2)
		for j := 0; j < m; j++ {
			switch rng.Weighted([]int{50, 10, 20, 10, 10}) {
			case 0:
				callers[i] = append(callers[i], harness.Op{K: "add", E: rng.Intn(4), N: uint64(rng.Range(1, 9))})
			case 1:
				callers[i] = append(callers[i], harness.Op{K: "add", E: 4, N: uint64(rng.Range(1, 9))})
			case 2:
				callers[i] = append(callers[i], harness.Op{K: "count", E: rng.Intn(5)})
			case 3:
				callers[i] = append(callers[i], harness.Op{K: "values"})
			default:
				callers[i] = append(callers[i], harness.Op{K: "vsum", E: rng.Intn(5)})
			}
		}
	}
	var ticks []uint64
	for i, nt := 0, rng.Range(0, 4); i < nt; i++ {
		ticks = append(ticks, uint64(rng.Range(1, int(L)))*1e6)
	}
	c := &harness.Case{Cfg: harness.MustJSON(cfg), Callers: callers}
	c.Sched = harness.GenSched(rng, ticks, 60*k)
	c.Sched.MaxSteps = 4000 + 3000*k
	return c
}

type rec struct {
	op       harness.Op
	task     int
	inv, ret uint64
	t        uint64 // ms clock value the operation used
	val      int64
	buckets  map[uint64][5]int64 // values op: bucket start -> counters
	done     bool
}

func (P) Exec(c *harness.Case) *harness.Outcome {
	o := harness.NewOutcome()
	var cfg Cfg
	if err := json.Unmarshal(c.Cfg, &cfg); err != nil {
		o.Infra = err.Error()
		return o
	}
	if cfg.N == 0 || cfg.L == 0 || cfg.Origin == 0 {
		return o
	}
	n, L := uint64(cfg.N), uint64(cfg.L)
	I := n * L
	env := harness.Reset(cfg.Origin*1e6, harness.DefaultGeometry())
	clk := env.Clock
	var la *sbase.BucketLeapArray
	var view *sbase.SlidingWindowMetric
	if !harness.Call(o, "C09.panic", 0, func() {
		la = sbase.NewBucketLeapArray(cfg.N, cfg.N*cfg.L)
		view, _ = sbase.NewSlidingWindowMetric(cfg.N, cfg.N*cfg.L, la)
	}) || view == nil {
		return o
	}
	var all []*rec // prelude recorders first
	for _, op := range cfg.Pre {
		switch op.K {
		case "tick":
			clk.AdvanceMs(op.N)
			o.SimMs += op.N
		case "add":
			if op.E < 0 || op.E > 4 {
				continue
			}
			r := &rec{op: op, task: -1, t: clk.NowMs(), done: true}
			la.AddCount(evOf[op.E], int64(op.N))
			all = append(all, r)
		}
	}
	nPre := len(all)
	startMs := clk.NowMs()
	k := len(c.Callers)
	perTask := make([][]*rec, k)
	inflight := make([]uint64, k) // ns at which the in-flight recorder of the task read its clock (0 = none)
	for i, ops := range c.Callers {
		for _, op := range ops {
			perTask[i] = append(perTask[i], &rec{op: op, task: i})
		}
	}
	canTick := func(d uint64) bool {
		for _, st := range inflight {
			if st != 0 && clk.NowNs()+d-st >= L*1e6 {
				return false
			}
		}
		return true
	}
	s := harness.RunE2(c, o, "C09", clk, k, func(task int) {
		for _, r := range perTask[task] {
			r.inv = sim.NextSeq()
			r.t = clk.NowMs()
			switch r.op.K {
			case "add":
				if r.op.E < 0 || r.op.E > 4 {
					break
				}
				inflight[task] = clk.NowNs()
				la.AddCount(evOf[r.op.E], int64(r.op.N))
				inflight[task] = 0
			case "count":
				if r.op.E < 0 || r.op.E > 4 {
					break
				}
				r.val = la.Count(evOf[r.op.E])
			case "vsum":
				if r.op.E < 0 || r.op.E > 4 {
					break
				}
				r.val = view.GetSum(evOf[r.op.E])
			case "values":
				now := util.CurrentTimeMillis()
				r.buckets = map[uint64][5]int64{}
				for _, bw := range la.Values(now) {
					// like every reader of the implementation: the start first, the counters afterwards
					bs := atomic.LoadUint64(&bw.BucketStart)
					mb, _ := bw.Value.Load().(*sbase.MetricBucket)
					if mb == nil {
						continue
					}
					var v [5]int64
					for e := 0; e < 5; e++ {
						v[e] = mb.Get(evOf[e])
					}
					r.buckets[bs] = v
				}
			}
			r.ret = sim.NextSeq()
			r.done = true
		}
	}, canTick)
	_ = s
	o.SimMs += clk.NowMs() - startMs
	for _, l := range perTask {
		all = append(all, l...)
	}
	if o.Failed() {
		return o
	}
	bucket := func(t uint64) uint64 { return t - t%L }
	// recorded amount per (bucket, event) with the recorder list
	recorders := func(filter func(r *rec) bool, e int) int64 {
		var sum int64
		for _, r := range all {
			if r.op.K == "add" && r.op.E == e && r.done && filter(r) {
				sum += int64(r.op.N)
			}
		}
		return sum
	}
	slack := uint64(0)
	if n == 1 {
		slack = L
	}
	// (A)+(B): reads never exceed what was recorded inside (or after) their window
	for _, q := range all[nPre:] {
		if !q.done {
			continue
		}
		lo := int64(bucket(q.t)) - int64(I) + int64(L) - int64(slack)
		switch q.op.K {
		case "count", "vsum":
			e := q.op.E
			if e < 0 || e > 4 {
				continue
			}
			up := recorders(func(r *rec) bool {
				started := r.task < 0 || r.inv < q.ret
				inWin := int64(bucket(r.t)) >= lo
				if n == 1 && r.task < 0 && int64(bucket(r.t)) < lo+int64(slack) {
					inWin = false // prelude data of an expired bucket is never legitimately visible
				}
				return started && inWin
			}, e)
			if q.val > up {
				o.Fail("C09.read-exceeds-recorded", int(q.ret), "caller %d %s(event %d) at clock %d returned %d but at most %d had been recorded in buckets >= %d by then (expired or invented data visible)", q.task, q.op.K, e, q.t, q.val, up, lo)
			}
			if q.val < 0 {
				o.Fail("C09.negative-read", int(q.ret), "caller %d %s(event %d) returned %d", q.task, q.op.K, e, q.val)
			}
		case "values":
			for bs, v := range q.buckets {
				for e := 0; e < 5; e++ {
					up := recorders(func(r *rec) bool {
						if !(r.task < 0 || r.inv < q.ret) {
							return false
						}
						// the start was read before the counters: a recorder of a later cycle of
						// the same slot may have recycled the bucket in between (inherent to any
						// lock-free reader), so amounts of the same slot that are not older count
						b := bucket(r.t)
						if n == 1 && r.task >= 0 && b+L == bs {
							return true
						}
						return b >= bs && (b-bs)%I == 0
					}, e)
					if v[e] > up {
						o.Fail("C09.bucket-exceeds-recorded", int(q.ret), "caller %d Values() at clock %d: bucket %d event %d holds %d, only %d recorded for that bucket by then", q.task, q.t, bs, e, v[e], up)
					}
				}
				if int64(bs) < lo {
					o.Fail("C09.expired-bucket-visible", int(q.ret), "caller %d Values() at clock %d returned bucket %d older than the window start %d", q.task, q.t, bs, lo)
				}
			}
		}
	}
	if o.Failed() {
		return o
	}
	// probes: rollover overlapped by another caller
	touch := map[uint64][]*rec{}
	for _, r := range all {
		if r.op.K == "add" || r.op.K == "count" || r.op.K == "values" {
			touch[bucket(r.t)] = append(touch[bucket(r.t)], r)
		}
	}
	preBuckets := map[uint64]bool{}
	for _, r := range all[:nPre] {
		preBuckets[bucket(r.t)] = true
	}
	for b, ts := range touch {
		if preBuckets[b] {
			continue
		}
		conc := 0
		for _, r := range ts {
			if r.task >= 0 {
				conc++
			}
		}
		if conc >= 1 && len(c.Callers) > 1 {
			o.Probe("bucket_rolled_in_concurrent_section")
			o.Nontrivial = true
		}
		if conc >= 2 {
			o.Probe("rollover_contended")
		}
	}
	// (C)+(D): quiescent per-bucket content
	final := clk.NowMs()
	var got map[uint64][5]int64
	harness.Call(o, "C09.panic", s.Steps, func() {
		got = map[uint64][5]int64{}
		for _, bw := range la.Values(final) {
			mb, _ := bw.Value.Load().(*sbase.MetricBucket)
			if mb == nil {
				continue
			}
			var v [5]int64
			for e := 0; e < 5; e++ {
				v[e] = mb.Get(evOf[e])
			}
			got[bw.BucketStart] = v
		}
	})
	for bs, v := range got {
		ts := touch[bs]
		// exactness condition: first toucher returned before any other toucher was invoked
		exact := true
		var first *rec
		prelude := false
		for _, r := range ts {
			if r.task < 0 {
				prelude = true // the bucket existed before the concurrent section: later callers only add atomically
			} else if first == nil || r.inv < first.inv {
				first = r
			}
		}
		if prelude {
			first = nil
		}
		if first != nil && first.task >= 0 {
			for _, r := range ts {
				if r != first && r.inv < first.ret {
					exact = false
				}
			}
			if n == 1 {
				for _, r := range all[nPre:] {
					if r.op.K == "add" && bucket(r.t)+L == bs && r.ret > first.inv {
						exact = false
					}
				}
			}
		}
		for e := 0; e < 5; e++ {
			want := recorders(func(r *rec) bool { return bucket(r.t) == bs }, e)
			up := want
			if n == 1 {
				up += recorders(func(r *rec) bool { return r.task >= 0 && bucket(r.t)+L == bs }, e)
			}
			if v[e] > up {
				o.Fail("C09.amount-in-wrong-bucket", s.Steps, "at quiescence bucket %d event %d holds %d but only %d was recorded with a timestamp selecting it", bs, e, v[e], up)
			}
			if exact && v[e] != want && !(n == 1 && v[e] >= want && v[e] <= up) {
				o.Fail("C09.lost-without-overlap", s.Steps, "at quiescence bucket %d event %d holds %d, recorded %d, and no caller overlapped its rollover", bs, e, v[e], want)
			}
			if !exact {
				// Callers overlapped the rollover of this bucket. Exact equality is not claimed (an amount recorded
				// for an EARLIER cycle of the slot may land in it, see up2), but nothing recorded FOR this cycle may be
				// missing: nobody can reach the counters of the new cycle before they have been zeroed and the new
				// start published, and after that they are only added to.
				up2 := want + recorders(func(r *rec) bool {
					return r.task >= 0 && bucket(r.t) < bs && (bs-bucket(r.t))%(uint64(n)*L) == 0
				}, e)
				if v[e] < want || v[e] > up2 {
					o.Fail("C09.lost-under-contention", s.Steps, "at quiescence bucket %d event %d holds %d; %d was recorded with timestamps selecting it (at most %d more by concurrent recorders of an earlier cycle of the slot)", bs, e, v[e], want, up2-want)
				}
			}
			if exact {
				o.Probe("exactness_checked")
			} else {
				o.Probe("exactness_not_claimed_overlap")
			}
		}
	}
	return o
}
