// Package c19 holds the driver sources for the framework adapters (C19). They are
// not Go files of this module: vsim overlays them into each adapter's own module
// (which has its own go.mod and, for most adapters, a released sentinel version)
// and runs them there with `go test`.
package c19
