// Package c17: the metric log is searchable, bounded, and survives truncation
// at any byte (engine E4: real files in a scratch directory under a virtual
// clock; crash = truncation of the last data / index file at every offset).
package c17

import (
	"encoding/binary"
	"encoding/json"
	"fmt"
	"os"
	"path/filepath"
	"regexp"
	"sort"
	"strings"

	"github.com/alibaba/sentinel-golang/core/base"
	"github.com/alibaba/sentinel-golang/core/config"
	"github.com/alibaba/sentinel-golang/core/log/metric"

	"verif/harness"
	"verif/sim"
)

type Cfg struct {
	Origin   uint64 `json:"origin_ms"`
	MaxSize  uint64 `json:"max_file_size"`
	MaxFiles uint32 `json:"max_files"`
	Crash    bool   `json:"enumerate_truncations"`
	// Neighbours (bit mask, environment fault): other logs appear in the directory (at the "nb" op) - the log
	// directory is shared by the applications of a user and, with pid file names, by the processes of one
	// application. bit 0: a log whose base name is ours + ".pid12"; bit 1: the log of an application whose
	// name ends in ours ("eapp"); bit 2: a log whose base name continues ours ("app-metrics.logx"). Their items
	// never show up in our searches, their files are never touched, and ours stay what they are.
	Neighbours int `json:"neighbours,omitempty"`
}

type P struct{}

func init() { harness.Register(P{}) }

func (P) ID() string     { return "C17" }
func (P) Engine() string { return "E4" }

func (P) Describe() harness.Description {
	return harness.Description{
		MustHit:    []string{"other_logs_in_the_directory", "file_rolled", "old_file_removed", "repeated_query_on_one_searcher", "write_in_creation_second", "write_before_creation_ignored", "data_truncations", "index_truncations", "day_change"},
		Level:      "fault_enumeration",
		Exhaustive: false,
		Rule: "case = (file size limit 150 B - 4 KB, file-count limit 1-4, virtual origin incl. just before midnight; 5-60 ops: write a batch of 1-4 items for a second (same second, next, gaps, day change, some before the writer's creation second), queries FindByTimeAndResource / FindFromTimeWithMaxLines issued on ONE searcher interleaved with the writes). " +
			"Oracle: the retained data files, parsed by the harness, always hold a suffix of the accepted items, unchanged and in order, in at most max_files files; every query returns exactly the matching retained items in timestamp order without duplicates. " +
			"Crash part (every 4th run): for the final state EVERY byte offset of the last data file and EVERY byte offset of its index file is a truncation point applied to a copy of the directory (exhaustive for that dimension); a fresh searcher then answers a fixed query set: no error, no panic, only written items are returned unchanged and in order, and every matching item whose line lies wholly before the cut and that is reachable from an index entry wholly before the cut is returned. " +
			"20 % of the cases, environment fault: at some point a real writer of another application leaves three rolled files in the directory under names that continue ours (.pid12, x) or whose application name ends in ours (eapp): its items never appear in our results, its files stay byte for byte, ours stay a suffix of what was accepted. " +
			"non-trivial = at least one roll happened and a query was answered from a cached position; distinct = hash(config, ops)",
		Assumptions: []string{"queries select by whole seconds (begin/1000 .. end/1000)", "FindFromTimeWithMaxLines returns a prefix of the matching items that is at least as long as the limit (or the whole rest)", "resource names contain no '|' or line breaks", "TZ=UTC"},
		Real:        []string{"core/log/metric writer, reader, searcher, file naming and listing", "base.MetricItem fat-string codec", "the file system (tmpfs scratch directory)"},
		Stub:        []string{"util.Clock (virtual clock)", "crash = truncation of a copy of the last data file / index file"},
	}
}

func (P) Gen(rng *sim.Rng, tier string) *harness.Case {
	cfg := Cfg{MaxSize: []uint64{150, 300, 600, 1200, 4000}[rng.Intn(5)], MaxFiles: uint32(rng.Range(1, 4)), Crash: rng.Intn(4) == 0}
	day := uint64(86400000)
	base0 := uint64(1700006400000) // midnight UTC
	switch rng.Intn(3) {
	case 0:
		cfg.Origin = base0 + day - uint64(rng.Range(1, 5))*1000 - uint64(rng.Intn(1000))
	default:
		cfg.Origin = base0 + rng.U64Range(0, day-1)
	}
	var ops []harness.Op
	n := rng.Range(5, 60)
	if cfg.Crash {
		n = rng.Range(5, 25)
	}
	for len(ops) < n {
		switch rng.Weighted([]int{60, 25, 15}) {
		case 0:
			// N: seconds to advance before writing (0 = same second); M: number of items; E: resource seed
			d := uint64([]int{0, 0, 1, 1, 1, 2, 5, 60}[rng.Intn(8)])
			if rng.Chance(0.02) {
				d = 86400
			}
			op := harness.Op{K: "write", N: d, M: uint64(rng.Range(1, 4)), E: rng.Intn(1000)}
			if rng.Chance(0.05) {
				op.F = true // a batch for a second BEFORE the latest one (must be ignored by contract)
			}
			ops = append(ops, op)
		case 1:
			ops = append(ops, harness.Op{K: "q1", N: uint64(rng.Intn(12)), M: uint64(rng.Intn(12)), E: rng.Intn(4)})
		default:
			ops = append(ops, harness.Op{K: "q2", N: uint64(rng.Intn(12)), M: uint64([]int{0, 1, 2, 3, 5, 100}[rng.Intn(6)])})
		}
	}
	if rng.Chance(0.2) {
		cfg.Neighbours = rng.Range(1, 7)
		at := 0
		if rng.Chance(0.6) {
			at = rng.Intn(len(ops) + 1)
		}
		ops = append(ops[:at:at], append([]harness.Op{{K: "nb"}}, ops[at:]...)...)
	}
	return &harness.Case{Cfg: harness.MustJSON(cfg), Callers: [][]harness.Op{ops}}
}

var resNames = []string{"", "GET:/a", "svc.method", "r with space"}

type witem struct {
	base.MetricItem
	line string
}

func scratchBase() string {
	if st, err := os.Stat("/dev/shm"); err == nil && st.IsDir() {
		return "/dev/shm"
	}
	return os.TempDir()
}

func itemEq(a *base.MetricItem, b *base.MetricItem) bool {
	return a.Timestamp == b.Timestamp && a.Resource == b.Resource && a.PassQps == b.PassQps && a.BlockQps == b.BlockQps && a.CompleteQps == b.CompleteQps &&
		a.ErrorQps == b.ErrorQps && a.AvgRt == b.AvgRt && a.OccupiedPassQps == b.OccupiedPassQps && a.Concurrency == b.Concurrency && a.Classification == b.Classification
}

// dataFiles lists the data files of the app in dir in creation order (the harness keeps the order in which it first saw them).
func listData(dir, baseName string) []string {
	ents, _ := os.ReadDir(dir)
	var out []string
	for _, e := range ents {
		n := e.Name()
		// exactly <base>.<yyyy-mm-dd>[.<number>]: anything else in the directory is somebody else's
		if strings.HasPrefix(n, baseName) && ownRest.MatchString(n[len(baseName):]) {
			out = append(out, n)
		}
	}
	sort.Strings(out)
	return out
}

var ownRest = regexp.MustCompile(`^\.[0-9]{4}-[0-9]{2}-[0-9]{2}(\.[0-9]+)?$`)

// installNeighbours lets a real writer of another application ("nb") write three seconds into the directory,
// rolling after each, and renames its files (data and index) to the names of Cfg.Neighbours.
func installNeighbours(o *harness.Outcome, dir, baseName string, sec uint64, mask int) map[string]string {
	out := map[string]string{}
	var nb metric.MetricLogWriter
	var err error
	if !harness.Call(o, "C17.panic", 0, func() { nb, err = metric.NewDefaultMetricLogWriterOfApp(60, 10, "nb") }) || err != nil {
		return out
	}
	for i := uint64(0); i < 3; i++ {
		it := &base.MetricItem{Resource: "neighbour", Timestamp: (sec + i) * 1000, PassQps: 7000 + i}
		_ = nb.Write(it.Timestamp, []*base.MetricItem{it})
	}
	if cl, ok := nb.(interface{ Close() error }); ok {
		_ = cl.Close()
	}
	nbBase := metric.FormMetricFileName("nb", false)
	ents, _ := os.ReadDir(dir)
	for _, e := range ents {
		n := e.Name()
		if !strings.HasPrefix(n, nbBase) {
			continue
		}
		data, _ := os.ReadFile(filepath.Join(dir, n))
		rest := n[len(nbBase):]
		for bit, name := range []string{baseName + ".pid12" + rest, "e" + baseName + rest, baseName + "x" + rest} {
			if mask&(1<<uint(bit)) != 0 {
				if os.WriteFile(filepath.Join(dir, name), data, 0o644) == nil {
					out[name] = string(data)
				}
			}
		}
		_ = os.Remove(filepath.Join(dir, n))
	}
	return out
}

func checkNeighbours(o *harness.Outcome, step int, dir string, nbs map[string]string) bool {
	names := make([]string, 0, len(nbs))
	for n := range nbs {
		names = append(names, n)
	}
	sort.Strings(names)
	for _, n := range names {
		got, err := os.ReadFile(filepath.Join(dir, n))
		if err != nil {
			o.Fail("C17.foreign-file-touched", step, "the file %q of another log in the directory is gone (%v): the writer removed it although it is not one of its own", n, err)
			return false
		}
		if string(got) != nbs[n] {
			o.Fail("C17.foreign-file-touched", step, "the file %q of another log in the directory was rewritten (%d bytes, was %d)", n, len(got), len(nbs[n]))
			return false
		}
	}
	return true
}

type world struct {
	dir, baseName string
	order         []string // data files in the order they appeared
	accepted      []*witem
}

// retained parses the existing data files (in creation order) and returns their lines.
func (w *world) refresh() (files []string, removed bool) {
	cur := map[string]bool{}
	for _, n := range listData(w.dir, w.baseName) {
		cur[n] = true
	}
	var keep []string
	for _, n := range w.order {
		if cur[n] {
			keep = append(keep, n)
			delete(cur, n)
		} else {
			removed = true
		}
	}
	var fresh []string
	for n := range cur {
		fresh = append(fresh, n)
	}
	sort.Strings(fresh)
	w.order = append(keep, fresh...)
	return w.order, removed
}

func readLines(path string) []string {
	b, err := os.ReadFile(path)
	if err != nil {
		return nil
	}
	s := string(b)
	var out []string
	for len(s) > 0 {
		i := strings.IndexByte(s, '\n')
		if i < 0 {
			out = append(out, s)
			break
		}
		out = append(out, s[:i])
		s = s[i+1:]
	}
	return out
}

func (P) Exec(c *harness.Case) *harness.Outcome {
	o := harness.NewOutcome()
	var cfg Cfg
	if err := json.Unmarshal(c.Cfg, &cfg); err != nil {
		o.Infra = err.Error()
		return o
	}
	if cfg.MaxSize == 0 || cfg.MaxFiles == 0 || len(c.Callers) == 0 {
		return o
	}
	env := harness.Reset(cfg.Origin*1e6, harness.DefaultGeometry())
	clk := env.Clock
	dir, err := os.MkdirTemp(scratchBase(), "vsim-c17-")
	if err != nil {
		o.Infra = err.Error()
		return o
	}
	defer os.RemoveAll(dir)
	gc := config.NewDefaultConfig()
	gc.Sentinel.App.Name = "verif"
	gc.Sentinel.Log.Dir = dir
	config.ResetGlobalConfig(gc)
	app := "app"
	w := &world{dir: dir, baseName: metric.FormMetricFileName(app, false)}
	var wr metric.MetricLogWriter
	var se metric.MetricSearcher
	if !harness.Call(o, "C17.panic", 0, func() {
		var e1, e2 error
		wr, e1 = metric.NewDefaultMetricLogWriterOfApp(cfg.MaxSize, cfg.MaxFiles, app)
		se, e2 = metric.NewDefaultMetricSearcher(dir, w.baseName)
		if e1 != nil || e2 != nil {
			o.Fail("C17.setup-error", 0, "writer: %v searcher: %v", e1, e2)
		}
	}) || o.Failed() {
		return o
	}
	defer func() {
		if cl, ok := wr.(interface{ Close() error }); ok {
			_ = cl.Close()
		}
	}()
	createSec := cfg.Origin / 1000
	latestSec := createSec
	seq := 0
	rolled, cachedQuery := false, false
	queries := 0
	day0 := createSec / 86400
	var nbs map[string]string
	for step, op := range c.Callers[0] {
		if nbs != nil && !checkNeighbours(o, step, dir, nbs) {
			return o
		}
		switch op.K {
		case "nb":
			if nbs == nil && cfg.Neighbours > 0 && cfg.Neighbours < 8 {
				nbs = installNeighbours(o, dir, w.baseName, clk.NowMs()/1000, cfg.Neighbours)
				if o.Failed() {
					return o
				}
				o.Probe("other_logs_in_the_directory")
			}
		case "write":
			clk.AdvanceMs(op.N * 1000)
			o.SimMs += op.N * 1000
			sec := clk.NowMs() / 1000
			if op.F && sec > 0 {
				sec = latestSec - 1 - uint64(op.E%3)
			}
			ts := sec*1000 + uint64(op.E%1000)
			var items []*base.MetricItem
			var ws []*witem
			for i := 0; i < int(op.M); i++ {
				seq++
				it := base.MetricItem{Resource: resNames[(op.E+i)%len(resNames)], Classification: int32((op.E + i) % 3), Timestamp: ts,
					PassQps: uint64(seq), BlockQps: uint64(op.E % 7), CompleteQps: uint64(seq % 5), ErrorQps: uint64(i), AvgRt: uint64((op.E * 13) % 97),
					OccupiedPassQps: 0, Concurrency: uint32(seq % 11)}
				if it.Resource == "" {
					it.Resource = fmt.Sprintf("res-%d", seq%3)
				}
				cp := it
				items = append(items, &cp)
				ws = append(ws, &witem{MetricItem: it})
			}
			var werr error
			harness.Call(o, "C17.panic", step, func() { werr = wr.Write(ts, items) })
			if o.Failed() {
				return o
			}
			if werr != nil {
				o.Fail("C17.write-error", step, "Write(%d) failed: %v", ts, werr)
				return o
			}
			if sec < latestSec {
				o.Probe("write_before_creation_ignored")
			} else {
				if sec == createSec {
					o.Probe("write_in_creation_second")
				}
				if sec/86400 != day0 {
					o.Probe("day_change")
				}
				latestSec = sec
				for _, x := range ws {
					s, _ := x.MetricItem.ToFatString()
					x.line = s
					w.accepted = append(w.accepted, x)
				}
			}
			// retained files: bounded, and a suffix of the accepted items, unchanged, in order
			files, removed := w.refresh()
			if removed {
				o.Probe("old_file_removed")
			}
			if len(files) > 1 {
				rolled = true
				o.Probe("file_rolled")
			}
			if uint32(len(files)) > cfg.MaxFiles {
				o.Fail("C17.too-many-files", step, "%d metric log files exist (%v), the configured maximum is %d", len(files), files, cfg.MaxFiles)
				return o
			}
			if !checkRetained(o, step, w) {
				return o
			}
		case "q1", "q2":
			ret, ok := retained(w)
			if !ok || len(w.accepted) == 0 {
				continue
			}
			queries++
			if queries > 1 {
				o.Probe("repeated_query_on_one_searcher")
				if rolled {
					cachedQuery = true
				}
			}
			// choose the begin second among the seconds present (plus one before / after)
			secs := secondsOf(ret)
			begin := createSec - 1 + op.N
			if len(secs) > 0 {
				begin = secs[int(op.N)%len(secs)]
				if op.N%5 == 4 {
					begin--
				}
			}
			if op.K == "q1" {
				end := begin + op.M
				resource := ""
				if op.E > 0 {
					resource = fmt.Sprintf("res-%d", op.E-1)
				}
				var want []*witem
				for _, x := range ret {
					s := x.Timestamp / 1000
					if s >= begin && s <= end && (resource == "" || x.Resource == resource) {
						want = append(want, x)
					}
				}
				var got []*base.MetricItem
				var qerr error
				harness.Call(o, "C17.panic", step, func() { got, qerr = se.FindByTimeAndResource(begin*1000+uint64(op.E), end*1000+999, resource) })
				if o.Failed() {
					return o
				}
				if !compare(o, step, fmt.Sprintf("FindByTimeAndResource(%d s, %d s, %q)", begin, end, resource), got, qerr, want) {
					return o
				}
			} else {
				maxLines := uint32(op.M)
				var full []*witem
				for _, x := range ret {
					if x.Timestamp/1000 >= begin {
						full = append(full, x)
					}
				}
				var got []*base.MetricItem
				var qerr error
				harness.Call(o, "C17.panic", step, func() { got, qerr = se.FindFromTimeWithMaxLines(begin*1000, maxLines) })
				if o.Failed() {
					return o
				}
				// the answer is a prefix of the retained items from that time on, at least maxLines long unless
				// the log is exhausted (how far beyond the limit a reader completes a second is not specified)
				what := fmt.Sprintf("FindFromTimeWithMaxLines(%d s, %d)", begin, maxLines)
				need := int(maxLines)
				if need > len(full) {
					need = len(full)
				}
				if qerr == nil && (len(got) < need || len(got) > len(full)) {
					o.Fail("C17.query-result", step, "%s returned %d items %v; %d items are retained from that time on %v", what, len(got), brief(got), len(full), briefW(full))
					return o
				}
				if len(got) <= len(full) {
					if !compare(o, step, what, got, qerr, full[:len(got)]) {
						return o
					}
				}
			}
		}
	}
	if nbs != nil && !checkNeighbours(o, len(c.Callers[0]), dir, nbs) {
		return o
	}
	o.Nontrivial = rolled && cachedQuery
	if cfg.Crash && len(w.accepted) > 0 {
		crashPart(o, len(c.Callers[0]), w)
	}
	return o
}

func secondsOf(l []*witem) []uint64 {
	var out []uint64
	for _, x := range l {
		s := x.Timestamp / 1000
		if len(out) == 0 || out[len(out)-1] != s {
			out = append(out, s)
		}
	}
	return out
}

// retained returns the accepted items that are still inside the retained files.
func retained(w *world) ([]*witem, bool) {
	n := 0
	for _, f := range w.order {
		n += len(readLines(filepath.Join(w.dir, f)))
	}
	if n > len(w.accepted) {
		return nil, false
	}
	return w.accepted[len(w.accepted)-n:], true
}

func checkRetained(o *harness.Outcome, step int, w *world) bool {
	var lines []string
	for _, f := range w.order {
		lines = append(lines, readLines(filepath.Join(w.dir, f))...)
	}
	if len(lines) > len(w.accepted) {
		o.Fail("C17.files-hold-unwritten-data", step, "the data files hold %d lines, only %d items were accepted", len(lines), len(w.accepted))
		return false
	}
	suffix := w.accepted[len(w.accepted)-len(lines):]
	for i, l := range lines {
		if l != suffix[i].line {
			o.Fail("C17.files-not-a-suffix", step, "line %d of the retained files is %q, the accepted item at that position is %q", i, l, suffix[i].line)
			return false
		}
	}
	return true
}

func compare(o *harness.Outcome, step int, what string, got []*base.MetricItem, qerr error, want []*witem) bool {
	if qerr != nil {
		o.Fail("C17.query-error", step, "%s returned error %v", what, qerr)
		return false
	}
	if len(got) != len(want) {
		o.Fail("C17.query-result", step, "%s returned %d items %v, the retained files hold %d matching items %v", what, len(got), brief(got), len(want), briefW(want))
		return false
	}
	for i := range got {
		if got[i] == nil || !itemEq(got[i], &want[i].MetricItem) {
			o.Fail("C17.query-result", step, "%s: item %d is %+v, expected %+v", what, i, got[i], want[i].MetricItem)
			return false
		}
	}
	return true
}

func brief(l []*base.MetricItem) []string {
	var s []string
	for _, x := range l {
		if x != nil {
			s = append(s, fmt.Sprintf("%d/p%d", x.Timestamp/1000, x.PassQps))
		}
	}
	if len(s) > 12 {
		s = append(s[:12], "...")
	}
	return s
}
func briefW(l []*witem) []string {
	var s []string
	for _, x := range l {
		s = append(s, fmt.Sprintf("%d/p%d", x.Timestamp/1000, x.PassQps))
	}
	if len(s) > 12 {
		s = append(s[:12], "...")
	}
	return s
}

type idxEntry struct {
	sec    uint64
	offset int64
	end    int // byte position in the idx file where the entry ends
}

func readIdx(path string) []idxEntry {
	b, _ := os.ReadFile(path)
	var out []idxEntry
	for i := 0; i+16 <= len(b); i += 16 {
		out = append(out, idxEntry{binary.BigEndian.Uint64(b[i:]), int64(binary.BigEndian.Uint64(b[i+8:])), i + 16})
	}
	return out
}

// crashPart enumerates every truncation offset of the last data file and of its index file.
func crashPart(o *harness.Outcome, step int, w *world) {
	if len(w.order) == 0 {
		return
	}
	last := w.order[len(w.order)-1]
	data, _ := os.ReadFile(filepath.Join(w.dir, last))
	idx, _ := os.ReadFile(filepath.Join(w.dir, last+".idx"))
	if len(data) > 6000 {
		return
	}
	ret, ok := retained(w)
	if !ok {
		return
	}
	// items of the last file with their byte ranges
	nLast := len(readLines(filepath.Join(w.dir, last)))
	lastItems := ret[len(ret)-nLast:]
	prevItems := ret[:len(ret)-nLast]
	type span struct {
		it         *witem
		start, end int
	}
	var spans []span
	pos := 0
	for _, x := range lastItems {
		spans = append(spans, span{x, pos, pos + len(x.line) + 1})
		pos += len(x.line) + 1
	}
	entries := readIdx(filepath.Join(w.dir, last+".idx"))
	secs := secondsOf(ret)
	// one scratch copy; the two truncated files are rewritten for every offset
	cdir, err := os.MkdirTemp(scratchBase(), "vsim-c17c-")
	if err != nil {
		o.Infra = err.Error()
		return
	}
	defer os.RemoveAll(cdir)
	for _, f := range w.order {
		for _, suf := range []string{"", ".idx"} {
			b, _ := os.ReadFile(filepath.Join(w.dir, f+suf))
			_ = os.WriteFile(filepath.Join(cdir, f+suf), b, 0o644)
		}
	}
	try := func(dcut, icut int, kind string) bool {
		_ = os.WriteFile(filepath.Join(cdir, last), data[:dcut], 0o644)
		_ = os.WriteFile(filepath.Join(cdir, last+".idx"), idx[:icut], 0o644)
		for qi, begin := range secs {
			if qi > 6 {
				break
			}
			var se metric.MetricSearcher
			var got []*base.MetricItem
			var qerr error
			okc := harness.Call(o, "C17.panic-after-truncation", step, func() {
				se, _ = metric.NewDefaultMetricSearcher(cdir, w.baseName)
				if qi%2 == 0 {
					got, qerr = se.FindByTimeAndResource(begin*1000, (secs[len(secs)-1]+1)*1000, "")
				} else {
					got, qerr = se.FindFromTimeWithMaxLines(begin*1000, 100000)
				}
			})
			if !okc {
				o.V.Msg = fmt.Sprintf("%s cut: data file at byte %d of %d, index at byte %d of %d: %s", kind, dcut, len(data), icut, len(idx), o.V.Msg)
				return false
			}
			if qerr != nil {
				o.Fail("C17.error-after-truncation", step, "%s cut (data %d/%d, index %d/%d): query from second %d failed: %v", kind, dcut, len(data), icut, len(idx), begin, qerr)
				return false
			}
			// upper bound: only written items, unchanged, in order, no duplicates
			pool := ret
			pi := 0
			for _, g := range got {
				found := false
				for pi < len(pool) {
					if g != nil && itemEq(g, &pool[pi].MetricItem) {
						found = true
						pi++
						break
					}
					pi++
				}
				if !found {
					o.Fail("C17.fabricated-item-after-truncation", step, "%s cut (data %d/%d, index %d/%d): query from second %d returned %+v which was never written like that (or is out of order / duplicated)", kind, dcut, len(data), icut, len(idx), begin, g)
					return false
				}
				if g.Timestamp/1000 < begin {
					o.Fail("C17.item-before-range-after-truncation", step, "%s cut: query from second %d returned an item of second %d", kind, begin, g.Timestamp/1000)
					return false
				}
			}
			// lower bound: reachable from a whole index entry and line wholly before the cut
			var must []*witem
			startedInPrev := false
			for _, x := range prevItems {
				if x.Timestamp/1000 >= begin {
					startedInPrev = true
				}
			}
			if startedInPrev {
				// the read starts in an untouched earlier file and runs sequentially into the cut file
				for _, x := range prevItems {
					if x.Timestamp/1000 >= begin {
						must = append(must, x)
					}
				}
				for _, sp := range spans {
					if sp.end <= dcut {
						must = append(must, sp.it)
					}
				}
			} else {
				for _, e := range entries {
					if e.sec >= begin {
						if e.end <= icut {
							for _, sp := range spans {
								if int64(sp.start) >= e.offset && sp.end <= dcut {
									must = append(must, sp.it)
								}
							}
						}
						break
					}
				}
			}
			gi := 0
			for _, m := range must {
				found := false
				for gi < len(got) {
					if itemEq(got[gi], &m.MetricItem) {
						found = true
						gi++
						break
					}
					gi++
				}
				if !found {
					o.Fail("C17.item-lost-after-truncation", step, "%s cut (data %d/%d, index %d/%d): query from second %d did not return item %d/p%d whose line and index entry are wholly before the cut (returned %v)", kind, dcut, len(data), icut, len(idx), begin, m.Timestamp/1000, m.PassQps, brief(got))
					return false
				}
			}
		}
		return true
	}
	for cut := 0; cut <= len(data); cut++ {
		o.Fault("data_truncations")
		if !try(cut, len(idx), "data-file") {
			return
		}
	}
	for cut := 0; cut <= len(idx); cut++ {
		o.Fault("index_truncations")
		if !try(len(data), cut, "index-file") {
			return
		}
	}
	o.Probe("truncation_enumeration_complete")
}
