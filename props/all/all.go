// Package all links every property check into the worker binary.
package all

import (
	_ "verif/props/c08"
)
