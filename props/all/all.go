// Package all links every property check into the worker binary.
package all

import (
	_ "verif/props/c01"
	_ "verif/props/c02"
	_ "verif/props/c03"
	_ "verif/props/c04"
	_ "verif/props/c05"
	_ "verif/props/c06"
	_ "verif/props/c07"
	_ "verif/props/c08"
	_ "verif/props/c09"
	_ "verif/props/c10"
	_ "verif/props/c11"
	_ "verif/props/c12"
	_ "verif/props/c13"
	_ "verif/props/c14"
	_ "verif/props/c15"
	_ "verif/props/c16"
	_ "verif/props/c17"
	_ "verif/props/c18"
	_ "verif/props/c20"
)
