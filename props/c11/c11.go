// Package c11: adaptive thresholds (warm-up, memory-adaptive) stay inside
// their configured envelope (E1: demand shapes in virtual seconds).
package c11

import (
	"encoding/json"
	"github.com/alibaba/sentinel-golang/core/base"
	"math"
	"time"

	sentinel "github.com/alibaba/sentinel-golang/api"
	"github.com/alibaba/sentinel-golang/core/flow"
	"github.com/alibaba/sentinel-golang/core/system_metric"

	"verif/harness"
	"verif/model"
	"verif/sim"
)

type Cfg struct {
	Origin uint64  `json:"origin_ms"`
	Memory bool    `json:"memory_adaptive"`
	T      float64 `json:"t"`
	Period uint32  `json:"period_s"`
	Cold   uint32  `json:"cold_factor"`
	// Interval: StatIntervalInMs of the warm-up rule (0 = default, one second). The threshold is tokens per interval.
	Interval uint32 `json:"interval_ms,omitempty"`
	// Batch: tokens per request of the saturating demand (0 = 1)
	Batch uint32 `json:"batch,omitempty"`
	// DefaultMs: the resource's default statistic interval as configured for the process (0 = 1000); a rule without
	// an interval of its own is counted per that interval
	DefaultMs uint32 `json:"default_stat_ms,omitempty"`
	// Queue (scripted scenario): the warm-up rule queues (Throttling, QueueMs) instead of rejecting. One caller asks
	// for the next token as soon as the previous Entry has returned, waits included (Sleep at the clock seam moves
	// the clock), for 2*period+6 s: in the last second the rule passes most of its full rate.
	Queue bool `json:"queue,omitempty"`
	// Huge (scripted scenario): a practically unlimited threshold (up to MaxInt64 and beyond). Ten single-token
	// requests per second are far below threshold/coldFactor: every one of them passes.
	Huge bool `json:"huge,omitempty"`
	// Sparse (scripted scenario): one request every GapMs milliseconds, out of step with the seconds, at a rate
	// between the cold rate and the threshold, for 6*period+15 s: at some point four requests in a row pass.
	Sparse bool   `json:"sparse,omitempty"`
	GapMs  uint64 `json:"gap_ms,omitempty"`
	// HoldMs (with Sparse and Interval 10000): a rule counted per 10 s - the length of the resource's whole
	// statistic - under one request every 50 ms whose entries are exited HoldMs later
	HoldMs  uint64 `json:"hold_ms,omitempty"`
	QueueMs uint32 `json:"queue_ms,omitempty"`
	// memory adaptive
	LowT    int64 `json:"low_t,omitempty"`
	HighT   int64 `json:"high_t,omitempty"`
	LowMark int64 `json:"low_mark,omitempty"`
	HiMark  int64 `json:"high_mark,omitempty"`
}

type P struct{}

func init() { harness.Register(P{}) }

func (P) ID() string     { return "C11" }
func (P) Engine() string { return "E1" }

func (P) Describe() harness.Description {
	return harness.Description{
		MustHit: []string{"cold_start_checked", "warmed_up_checked", "memory_reading_injected", "statistic_window_of_several_seconds", "saturating_demand_in_requests_of_several_tokens", "statistic_window_of_a_fraction_of_a_second", "default_statistic_of_two_seconds"},
		Level:   "exploration",
		Rule: "case = warm-up rule (threshold 0.5-60 incl. fractional and below the cold factor, period 1-10 s, cold factor 0 (default), 2-5, now and then 10-100, statistic interval 1 s or 2-5 s) with a demand history of phases in virtual seconds (idle, saturating demand at four instants per second, steady single-token demand once per second), or a memory-adaptive rule (thresholds, water marks) with a sweep of injected memory readings. " +
			"Warm-up: admitted tokens in every aligned statistic window <= threshold; first second after an idle of >= 2*period+2 s admits <= ceil(T/coldFactor)+1; the last second of a saturating phase of >= 2*period+5 s admits >= floor(T); a steady single-token demand of >= 4*period+10 s is admitted at least once when T >= 1; the effective threshold (overlay accessor) is finite, >= 0 and <= T. " +
			"Scripted scenarios (a few per cent of the cases each): a queueing warm-up rule under a caller that never lets go; one request every 550-700 ms at a rate between the cold rate and the threshold (at some point four in a row pass); a rule counted per 10 s whose entries are exited a few hundred ms later; thresholds of 1e15 ... 1e300 (cold right after loading, a demand of 10/s untouched); cold factor MaxUint32. " +
			"Memory: effective threshold == low-memory threshold at/below the low mark, == high-memory threshold at/above the high mark, between them and non-increasing in between; a fresh window admits exactly floor(effective). non-trivial = a cold start was observed and the full threshold was reached later (warm-up) / all three regions were visited (memory); distinct = hash(config, ops)",
		Assumptions: []string{"the slack constants (2*period+2 s idle, 2*period+5 s saturation, 4*period+10 s steady demand) are generous bounds chosen from the property text, not from the implementation", "effective threshold read through the overlay-only accessor flow.VerifControllersFor + the exported CalculateAllowedTokens"},
		Real:        []string{"api.Entry/Exit", "core/flow (warm-up calculator, memory-adaptive calculator, reject checker, rule manager)", "core/stat windows (previous-window QPS)", "system_metric.SetSystemMemoryUsage"},
		Stub:        []string{"util.Clock (virtual clock)", "memory usage readings (injected through the existing setter)"},
	}
}

func (P) Gen(rng *sim.Rng, tier string) *harness.Case {
	cfg := Cfg{Origin: (1700000000000 + rng.U64Range(0, 100000)) / 1000 * 1000, Memory: rng.Chance(0.25)}
	if rng.Chance(0.03) {
		// (intervals that reuse the resource's statistic and intervals that get a statistic of their own)
		iv := []uint32{0, 1000, 500, 200, 700, 1500}[rng.Intn(6)]
		per := iv
		if per == 0 {
			per = 1000
		}
		rate := []float64{20, 50, 100}[rng.Intn(3)] // tokens per second
		cfg = Cfg{Origin: cfg.Origin, Queue: true, QueueMs: []uint32{100, 500, 2000}[rng.Intn(3)], Interval: iv, T: rate * float64(per) / 1000,
			Period: uint32(rng.Range(2, 6)), Cold: uint32([]int{0, 2, 3, 5}[rng.Intn(4)])}
		return &harness.Case{Cfg: harness.MustJSON(cfg), Callers: [][]harness.Op{{{K: "queue"}}}}
	}
	if rng.Chance(0.02) {
		cfg = Cfg{Origin: cfg.Origin, Huge: true, T: []float64{1e15, 4e18, 9223372036854775807, 1e19, 1e300}[rng.Intn(5)], Period: uint32([]int{1, 10, 60}[rng.Intn(3)]), Cold: []uint32{0, 2, 3, 4294967295}[rng.Intn(4)]}
		if cfg.Cold == 4294967295 && rng.Chance(0.5) {
			// the largest cold factor with an ordinary threshold: the rule starts at (about) nothing and warms up
			cfg.T, cfg.Period = 200, 10
		}
		return &harness.Case{Cfg: harness.MustJSON(cfg), Callers: [][]harness.Op{{{K: "huge"}}}}
	}
	if rng.Chance(0.03) {
		cfg = Cfg{Origin: cfg.Origin + rng.U64Range(0, 999), Sparse: true, GapMs: []uint64{550, 630, 700}[rng.Intn(3)], T: 3,
			Period: uint32(rng.Range(2, 5)), Cold: uint32([]int{0, 3}[rng.Intn(2)])}
		return &harness.Case{Cfg: harness.MustJSON(cfg), Callers: [][]harness.Op{{{K: "sparse"}}}}
	}
	if rng.Chance(0.01) {
		cfg = Cfg{Origin: cfg.Origin + rng.U64Range(0, 999), Sparse: true, HoldMs: []uint64{120, 290, 510}[rng.Intn(3)], Interval: 10000, T: float64([]int{30, 60}[rng.Intn(2)]),
			Period: uint32([]int{20, 30}[rng.Intn(2)]), Cold: 3}
		return &harness.Case{Cfg: harness.MustJSON(cfg), Callers: [][]harness.Op{{{K: "tensec"}}}}
	}
	var ops []harness.Op
	if cfg.Memory {
		cfg.LowT = int64(rng.Range(2, 50))
		cfg.HighT = int64(rng.Range(1, int(cfg.LowT)-1))
		cfg.LowMark = int64(rng.Range(1, 1000)) * 1024
		cfg.HiMark = cfg.LowMark + int64(rng.Range(1, 100000))
		if rng.Chance(0.3) {
			// swarm: production magnitudes (thresholds up to the int32 / int53 range, water marks of GiB to PiB)
			cfg.LowT = []int64{1000, 1000000, math.MaxInt32, 1 << 40, 1 << 53}[rng.Intn(5)]
			cfg.HighT = []int64{1, 10, 999, cfg.LowT / 2, cfg.LowT - 1}[rng.Intn(5)]
			cfg.LowMark = int64(rng.Range(1, 64)) << []uint{20, 30, 30, 40}[rng.Intn(4)]
			cfg.HiMark = cfg.LowMark + int64(rng.Range(1, 1024))<<[]uint{20, 30, 30, 40, 50}[rng.Intn(5)]
		}
		for n := rng.Range(5, 25); len(ops) < n; {
			var m int64
			switch rng.Intn(8) {
			case 0:
				m = cfg.LowMark
			case 1:
				m = cfg.HiMark
			case 2:
				m = cfg.LowMark - 1
			case 3:
				m = cfg.HiMark + 1
			case 4:
				m = 1
			case 5:
				m = cfg.HiMark * 3
			default:
				m = cfg.LowMark + int64(rng.U64Range(0, uint64(cfg.HiMark-cfg.LowMark)))
			}
			ops = append(ops, harness.Op{K: "mem", N: uint64(m)})
		}
	} else {
		cfg.T = []float64{0.5, 1, 1, 2, 2.5, 3, 4, 5, 7, 10, 20, 33.3, 60}[rng.Intn(13)]
		cfg.Period = uint32([]int{1, 1, 2, 3, 5, 10}[rng.Intn(6)])
		cfg.Cold = uint32([]int{0, 2, 3, 3, 5}[rng.Intn(5)])
		if rng.Chance(0.2) {
			cfg.Cold = uint32([]int{10, 30, 100}[rng.Intn(3)]) // services that start very cold
		}
		if rng.Chance(0.25) {
			cfg.Interval = uint32([]int{2000, 2000, 3000, 5000}[rng.Intn(4)]) // a statistic window of several seconds
		}
		if rng.Chance(0.25) {
			cfg.Batch = uint32(rng.Range(2, 3)) // the saturating demand comes in requests of several tokens
		}
		if cfg.Interval == 0 && rng.Chance(0.1) {
			cfg.DefaultMs = 2000 // the process is configured with a default statistic of 2 s
		}
		if rng.Chance(0.03) {
			// an interval whose length in seconds does not divide evenly: a count turned into a rate per second and
			// back must still be that count (3 / 0.9 * 0.9 is not 3 in floating point)
			cfg.Interval, cfg.T, cfg.Cold, cfg.Batch, cfg.DefaultMs = 900, []float64{9, 18, 36}[rng.Intn(3)], 3, 0, 0
			cfg.Period = uint32([]int{3, 9}[rng.Intn(2)])
		}
		if cfg.Interval == 900 {
			ops = append(ops, harness.Op{K: "saturate", N: uint64(2*int(cfg.Period) + 12)})
		}
		for n := rng.Range(3, 8); len(ops) < n && cfg.Interval != 900; {
			switch rng.Intn(3) {
			case 0:
				ops = append(ops, harness.Op{K: "idle", N: uint64(rng.Range(1, 3*int(cfg.Period)+4))})
			case 1:
				ops = append(ops, harness.Op{K: "saturate", N: uint64(rng.Range(1, 3*int(cfg.Period)+8))})
			default:
				ops = append(ops, harness.Op{K: "steady", N: uint64(rng.Range(2, 5*int(cfg.Period)+14))})
			}
		}
	}
	return &harness.Case{Cfg: harness.MustJSON(cfg), Callers: [][]harness.Op{ops}}
}

func effective(o *harness.Outcome, step int, batch uint32) (float64, bool) {
	var v float64
	ok := false
	harness.Call(o, "C11.panic", step, func() {
		tcs := flow.VerifControllersFor("res-0")
		if len(tcs) == 1 && tcs[0].FlowCalculator() != nil {
			// (reading the effective threshold synchronises the warm-up bucket like a request of that size does)
			v = tcs[0].FlowCalculator().CalculateAllowedTokens(batch, 0)
			ok = true
		}
	})
	return v, ok
}

func request(o *harness.Outcome, step int, batch uint32) bool {
	admitted := false
	harness.Call(o, "C11.panic", step, func() {
		e, _ := sentinel.Entry("res-0", sentinel.WithBatchCount(batch))
		if e != nil {
			admitted = true
			e.Exit()
		}
	})
	return admitted
}

func (P) Exec(c *harness.Case) *harness.Outcome {
	o := harness.NewOutcome()
	var cfg Cfg
	if err := json.Unmarshal(c.Cfg, &cfg); err != nil {
		o.Infra = err.Error()
		return o
	}
	if len(c.Callers) == 0 {
		return o
	}
	geo := harness.DefaultGeometry()
	if cfg.DefaultMs == 2000 {
		geo.MetricSamples, geo.MetricInterval = 4, 2000
	}
	env := harness.Reset(cfg.Origin*1e6, geo)
	clk := env.Clock
	if cfg.Memory {
		execMemory(c, o, &cfg, clk)
		return o
	}
	if cfg.T <= 0 || cfg.Period == 0 || cfg.Cold == 1 {
		return o
	}
	if cfg.Queue {
		execQueue(o, &cfg, clk)
		return o
	}
	if cfg.Huge {
		execHuge(o, &cfg, clk)
		return o
	}
	if cfg.Sparse && cfg.HoldMs > 0 {
		execTenSec(o, &cfg, clk)
		return o
	}
	if cfg.Sparse {
		execSparse(o, &cfg, clk)
		return o
	}
	if !harness.Call(o, "C11.panic", 0, func() {
		_, err := flow.LoadRules([]*flow.Rule{{Resource: "res-0", TokenCalculateStrategy: flow.WarmUp, ControlBehavior: flow.Reject,
			Threshold: cfg.T, WarmUpPeriodSec: cfg.Period, WarmUpColdFactor: cfg.Cold, StatIntervalInMs: cfg.Interval}})
		if err != nil {
			o.Fail("C11.load-error", 0, "%v", err)
		}
	}) || o.Failed() {
		return o
	}
	cold := float64(cfg.Cold)
	if cfg.Cold <= 1 {
		cold = 3
	}
	T := cfg.T
	// W: seconds per statistic window. With the default interval the rule reads the resource's global statistic
	// (500 ms buckets, sliding); with an interval of its own it has one bucket of that length, aligned to it.
	Wms, stepMs := uint64(1000), uint64(250) // window and spacing of the demand instants, ms
	if cfg.Interval == 900 {
		Wms, stepMs = 900, 300
		o.Probe("statistic_window_of_a_fraction_of_a_second")
	}
	W := 1
	if cfg.Interval >= 2000 {
		W = int(cfg.Interval / 1000)
		o.Probe("statistic_window_of_several_seconds")
	} else if cfg.Interval == 0 && cfg.DefaultMs == 2000 {
		W = 2
		o.Probe("default_statistic_of_two_seconds")
	}
	ref := &model.WindowLog{L: 500, I: 10000}
	idleFor := uint64(1 << 30) // seconds without any admission demand (initially: forever)
	sawCold, sawFull := false, false
	B := uint32(1)
	if cfg.Batch >= 2 && cfg.Batch <= 16 {
		B = cfg.Batch
		o.Probe("saturating_demand_in_requests_of_several_tokens")
	}
	checkEff := func(step int, batch uint32) bool {
		eff, ok := effective(o, step, batch)
		if o.Failed() {
			return false
		}
		if ok && (math.IsNaN(eff) || math.IsInf(eff, 0) || eff < 0) {
			o.Fail("C11.effective-threshold-not-finite", step, "t=%d effective threshold is %v (T=%v period=%d cold=%v)", clk.NowMs(), eff, T, cfg.Period, cold)
			return false
		}
		if ok && eff > T*(1+1e-9)+1e-9 {
			o.Fail("C11.effective-threshold-above-configured", step, "t=%d effective threshold %v exceeds the configured %v", clk.NowMs(), eff, T)
			return false
		}
		return true
	}
	admitN := func(step int, n uint32) bool {
		now := clk.NowMs()
		if !request(o, step, n) {
			return false
		}
		ref.Add(now, model.KPass, int64(n))
		lo, hi := ref.Range(now, 1000)
		if W > 1 {
			lo, hi = now-now%uint64(W*1000), now
		} else if Wms != 1000 {
			lo, hi = now-now%Wms, now
		}
		if s := ref.Sum(model.KPass, lo, hi); float64(s) > T+1e-9 {
			o.Fail("C11.rate-exceeds-threshold", step, "t=%d %d tokens admitted in the aligned window [%d,%d], configured threshold %v (period %d, cold factor %v)", now, s, lo, hi, T, cfg.Period, cold)
		}
		return true
	}
	admit := func(step int) bool { return admitN(step, 1) }
	for step, op := range c.Callers[0] {
		secs := int(op.N)
		switch op.K {
		case "idle":
			clk.AdvanceMs(uint64(secs) * 1000)
			o.SimMs += uint64(secs) * 1000
			if idleFor < 1<<29 {
				idleFor += uint64(secs)
			}
		case "saturate":
			per := int(math.Ceil(T)) + 2
			lastWindow := 0
			var recent []int // tokens admitted per window
			if W > 1 {
				Wms = uint64(W * 1000)
			}
			if Wms != 1000 {
				// start on a window boundary and run whole windows
				if r := clk.NowMs() % Wms; r != 0 {
					clk.AdvanceMs(Wms - r)
					o.SimMs += Wms - r
				}
				secs = (secs + W - 1) / W * W
			}
			nWin := (uint64(secs)*1000 + Wms - 1) / Wms
			for s := 0; uint64(s) < nWin; s++ {
				got := 0
				for q := uint64(0); q < Wms/stepMs; q++ {
					if !checkEff(step, B) {
						return o
					}
					for i := 0; i < per; i++ {
						if admitN(step, B) {
							got += int(B)
						}
						if o.Failed() {
							return o
						}
					}
					clk.AdvanceMs(stepMs)
					o.SimMs += stepMs
				}
				if s == 0 && idleFor >= uint64(2*int(cfg.Period)+2+2*W) {
					sawCold = true
					o.Probe("cold_start_checked")
					if float64(got) > math.Ceil(T/cold)+1 {
						o.Fail("C11.cold-start-too-high", step, "first statistic window (%d s) after %d s of idleness admitted %d tokens; threshold %v / cold factor %v allows about %v", W, idleFor, got, T, cold, math.Ceil(T/cold))
						return o
					}
				}
				lastWindow = got
				recent = append(recent, got)
				ref.Prune(clk.NowMs(), 12000)
			}
			idleFor = 0
			// (requests of B tokens: what fits under the threshold is the largest multiple of B; a cold rate below one
			// request admits nothing and so never warms up - the property promises single-token demand only there)
			if secs >= int(2*cfg.Period+5)+3*W && T >= 1 && (B == 1 || math.Floor(T/cold) > float64(B)) {
				o.Probe("warmed_up_checked")
				// with requests of several tokens what passes at the full rate is a little less than what refills the
				// bucket, which then creeps over the warning line and back: the full rate is reached, not held in every
				// single window - the best of the last four windows counts
				best := lastWindow
				for i := len(recent) - 1; i >= 0 && i >= len(recent)-4; i-- {
					if recent[i] > best {
						best = recent[i]
					}
				}
				if B == 1 {
					best = lastWindow
				}
				if float64(best) < math.Floor(T)-float64(B-1) {
					o.Fail("C11.never-warms-up", step, "after %d s of saturating demand (warm-up period %d s, statistic window %d s) the last windows admitted at most %d tokens, configured threshold %v", secs, cfg.Period, W, best, T)
					return o
				}
				if sawCold {
					sawFull = true
				}
			}
		case "steady":
			got := 0
			for s := 0; s < secs; s++ {
				if !checkEff(step, 1) {
					return o
				}
				if admit(step) {
					got++
				}
				if o.Failed() {
					return o
				}
				clk.AdvanceMs(1000)
				o.SimMs += 1000
				ref.Prune(clk.NowMs(), 12000)
			}
			if got > 0 {
				idleFor = 0
			}
			if secs >= int(4*cfg.Period+10) && T >= 1 && got == 0 {
				o.Fail("C11.steady-demand-starved", step, "a steady demand of one token per second was never admitted during %d s (threshold %v, period %d, cold factor %v)", secs, T, cfg.Period, cold)
				return o
			}
		}
	}
	o.Nontrivial = sawCold && sawFull
	return o
}

func execMemory(c *harness.Case, o *harness.Outcome, cfg *Cfg, clk *sim.Clock) {
	if cfg.LowT <= 0 || cfg.HighT <= 0 || cfg.HighT >= cfg.LowT || cfg.LowMark <= 0 || cfg.HiMark <= cfg.LowMark {
		return
	}
	if !harness.Call(o, "C11.panic", 0, func() {
		_, err := flow.LoadRules([]*flow.Rule{{Resource: "res-0", TokenCalculateStrategy: flow.MemoryAdaptive, ControlBehavior: flow.Reject,
			LowMemUsageThreshold: cfg.LowT, HighMemUsageThreshold: cfg.HighT, MemLowWaterMarkBytes: cfg.LowMark, MemHighWaterMarkBytes: cfg.HiMark}})
		if err != nil {
			o.Fail("C11.load-error", 0, "%v", err)
		}
	}) || o.Failed() {
		return
	}
	type pt struct {
		m   int64
		eff float64
	}
	var pts []pt
	regions := map[int]bool{}
	for step, op := range c.Callers[0] {
		if op.K != "mem" {
			continue
		}
		m := int64(op.N)
		system_metric.SetSystemMemoryUsage(m)
		o.Fault("memory_reading_injected")
		eff, ok := effective(o, step, 1)
		if o.Failed() || !ok {
			return
		}
		if math.IsNaN(eff) || math.IsInf(eff, 0) || eff < 0 {
			o.Fail("C11.effective-threshold-not-finite", step, "memory %d: effective threshold %v", m, eff)
			return
		}
		switch {
		case m <= cfg.LowMark:
			regions[0] = true
			if eff != float64(cfg.LowT) {
				o.Fail("C11.memory-low-end", step, "memory %d <= low water mark %d: effective threshold %v, configured low-memory threshold %d", m, cfg.LowMark, eff, cfg.LowT)
				return
			}
		case m >= cfg.HiMark:
			regions[2] = true
			if eff != float64(cfg.HighT) {
				o.Fail("C11.memory-high-end", step, "memory %d >= high water mark %d: effective threshold %v, configured high-memory threshold %d", m, cfg.HiMark, eff, cfg.HighT)
				return
			}
		default:
			regions[1] = true
			if eff < float64(cfg.HighT)-1e-9 || eff > float64(cfg.LowT)+1e-9 {
				o.Fail("C11.memory-between", step, "memory %d between the marks: effective threshold %v outside [%d,%d]", m, eff, cfg.HighT, cfg.LowT)
				return
			}
		}
		for _, p := range pts {
			if (p.m < m && p.eff < eff-1e-9) || (p.m > m && p.eff > eff+1e-9) {
				o.Fail("C11.memory-not-monotone", step, "effective threshold %v at memory %d but %v at memory %d", p.eff, p.m, eff, m)
				return
			}
		}
		pts = append(pts, pt{m, eff})
		// traffic: a fresh window admits exactly floor(eff)
		clk.AdvanceMs(3000)
		o.SimMs += 3000
		if cfg.LowT > 200 {
			// large thresholds: one request of batch floor(eff) fits a fresh window, one of floor(eff)+1 does not
			if fl := math.Floor(eff); fl >= 1 && fl < math.MaxUint32 {
				for i, b := range []uint32{uint32(fl), uint32(fl) + 1} {
					clk.AdvanceMs(3000)
					o.SimMs += 3000
					admitted := false
					harness.Call(o, "C11.panic", step, func() {
						if e, _ := sentinel.Entry("res-0", sentinel.WithBatchCount(b)); e != nil {
							admitted = true
							e.Exit()
						}
					})
					if o.Failed() {
						return
					}
					if admitted != (i == 0) {
						o.Fail("C11.memory-capacity", step, "memory %d: a fresh window admitted=%v a request of batch %d, effective threshold %v", m, admitted, b, eff)
						return
					}
				}
			}
			continue
		}
		got := 0
		for i := 0; i < int(cfg.LowT)+3; i++ {
			if request(o, step, 1) {
				got++
			}
			if o.Failed() {
				return
			}
		}
		if float64(got) != math.Floor(eff) {
			o.Fail("C11.memory-capacity", step, "memory %d: a fresh window admitted %d requests, effective threshold %v", m, got, eff)
			return
		}
	}
	o.Nontrivial = len(regions) == 3
}

// execQueue: see Cfg.Queue.
func execQueue(o *harness.Outcome, cfg *Cfg, clk *sim.Clock) {
	iv := uint64(cfg.Interval)
	if iv == 0 {
		iv = 1000
	}
	perSec := cfg.T * 1000 / float64(iv)
	if cfg.Period > 20 || cfg.QueueMs == 0 || perSec < 10 || perSec > 2000 || iv < 50 {
		return
	}
	if !harness.Call(o, "C11.panic", 0, func() {
		_, err := flow.LoadRules([]*flow.Rule{{Resource: "res-0", TokenCalculateStrategy: flow.WarmUp, ControlBehavior: flow.Throttling, MaxQueueingTimeMs: cfg.QueueMs,
			Threshold: cfg.T, WarmUpPeriodSec: cfg.Period, WarmUpColdFactor: cfg.Cold, StatIntervalInMs: cfg.Interval}})
		if err != nil {
			o.Fail("C11.load-error", 0, "%v", err)
		}
	}) || o.Failed() {
		return
	}
	clk.OnSleep = func(d time.Duration) {
		if d > 0 {
			clk.AdvanceNs(uint64(d))
		}
	}
	start := clk.NowMs()
	total := uint64(2*cfg.Period+6) * 1000
	perSecond := make([]int, 2*cfg.Period+7)
	for i := 0; i < 4000000 && clk.NowMs()-start < total && !o.Failed(); i++ {
		admitted := false
		harness.Call(o, "C11.panic", 0, func() {
			if e, _ := sentinel.Entry("res-0", harness.EntryOpts(1, false, nil, nil, nil)...); e != nil {
				admitted = true
				e.Exit()
			}
		})
		if at := (clk.NowMs() - start) / 1000; admitted && int(at) < len(perSecond) {
			perSecond[at]++
		}
		if !admitted {
			clk.AdvanceMs(1) // rejected for queueing: try again a millisecond later
		}
	}
	o.SimMs += clk.NowMs() - start
	if o.Failed() {
		return
	}
	o.Nontrivial = true
	o.Probe("queueing_warm_up_rule_under_a_caller_that_never_lets_go")
	last := perSecond[2*cfg.Period+4]
	if float64(last) < 0.8*perSec-1 {
		o.Fail("C11.not-warmed-up", 0, "warm-up rule that queues (threshold %v per %d ms = %.0f tokens/s, period %d s, cold factor %d, max queueing %d ms) under one caller that asks for the next token as soon as the last Entry returned: second %d of the demand passed %d tokens, the full rate is %.0f (passed per second: %v)", cfg.T, iv, perSec, cfg.Period, cfg.Cold, cfg.QueueMs, 2*cfg.Period+4, last, perSec, perSecond)
	}
}

// execHuge: see Cfg.Huge.
func execHuge(o *harness.Outcome, cfg *Cfg, clk *sim.Clock) {
	if cfg.T == 200 && cfg.Cold == 4294967295 && cfg.Period <= 20 {
		execHugeFactor(o, cfg, clk)
		return
	}
	if cfg.T < 1e9 || cfg.Period > 100 {
		return
	}
	if !harness.Call(o, "C11.panic", 0, func() {
		_, err := flow.LoadRules([]*flow.Rule{{Resource: "res-0", TokenCalculateStrategy: flow.WarmUp, ControlBehavior: flow.Reject,
			Threshold: cfg.T, WarmUpPeriodSec: cfg.Period, WarmUpColdFactor: cfg.Cold}})
		if err != nil {
			o.Fail("C11.load-error", 0, "%v", err)
		}
	}) || o.Failed() {
		return
	}
	o.Nontrivial = true
	o.Probe("practically_unlimited_threshold")
	// a rule that has just been loaded has seen no traffic: it starts no higher than about threshold/coldFactor
	coldF := float64(cfg.Cold)
	if cfg.Cold <= 1 {
		coldF = 3
	}
	if eff, ok := effective(o, 0, 1); ok && eff > cfg.T/coldF*1.01+1 {
		o.Fail("C11.cold-start-too-high", 0, "warm-up rule with threshold %v (period %d s, cold factor %d) right after loading: effective threshold %v, a rule that has seen no traffic starts at about threshold/coldFactor = %v", cfg.T, cfg.Period, cfg.Cold, eff, cfg.T/coldF)
		return
	}
	for sec := 0; sec < 30 && !o.Failed(); sec++ {
		passed := 0
		for i := 0; i < 10; i++ {
			if request(o, 0, 1) {
				passed++
			}
			clk.AdvanceMs(100)
			o.SimMs += 100
		}
		if eff, ok := effective(o, 0, 1); ok && (math.IsNaN(eff) || math.IsInf(eff, 0) || eff < 0 || eff > cfg.T) {
			o.Fail("C11.threshold-envelope", 0, "warm-up rule with threshold %v (period %d s, cold factor %d): effective threshold %v in second %d", cfg.T, cfg.Period, cfg.Cold, eff, sec)
			return
		}
		if passed != 10 {
			o.Fail("C11.starved", 0, "warm-up rule with a practically unlimited threshold (%v, period %d s, cold factor %d): in second %d of a demand of 10 single-token requests per second only %d passed; even the cold rate threshold/coldFactor is far above the demand", cfg.T, cfg.Period, cfg.Cold, sec, passed)
			return
		}
	}
}

// execSparse: see Cfg.Sparse.
func execSparse(o *harness.Outcome, cfg *Cfg, clk *sim.Clock) {
	cold := float64(cfg.Cold)
	if cfg.Cold <= 1 {
		cold = 3
	}
	rate := 1000 / float64(cfg.GapMs)
	if cfg.Period > 20 || cfg.GapMs < 100 || cfg.GapMs >= 1000 || cfg.T < 1 || cfg.T > 1000 || rate <= 1.2*cfg.T/cold || rate >= cfg.T {
		return
	}
	if !harness.Call(o, "C11.panic", 0, func() {
		_, err := flow.LoadRules([]*flow.Rule{{Resource: "res-0", TokenCalculateStrategy: flow.WarmUp, ControlBehavior: flow.Reject,
			Threshold: cfg.T, WarmUpPeriodSec: cfg.Period, WarmUpColdFactor: cfg.Cold}})
		if err != nil {
			o.Fail("C11.load-error", 0, "%v", err)
		}
	}) || o.Failed() {
		return
	}
	start := clk.NowMs()
	total := uint64(6*cfg.Period+15) * 1000
	var trace []byte
	for clk.NowMs()-start < total && !o.Failed() {
		if request(o, 0, 1) {
			trace = append(trace, '+')
		} else {
			trace = append(trace, '-')
		}
		clk.AdvanceMs(cfg.GapMs)
		o.SimMs += cfg.GapMs
	}
	if o.Failed() {
		return
	}
	o.Nontrivial = true
	o.Probe("steady_demand_out_of_step_with_the_seconds")
	// "reaches the full threshold after sustained demand": at some point after the first period the demand, which
	// is within the threshold, passes untouched for a while - four requests in a row. (Not: for good. A second in
	// which the one request that fell into it was rejected counts as low traffic and cools the rule down again;
	// the pass count of a second cannot tell little demand from rejected demand, and the property does not say
	// that the rule stays warm.)
	run, best := 0, 0
	skip := int(uint64(cfg.Period) * 1000 / cfg.GapMs)
	for i, ch := range trace {
		if ch == '+' && i >= skip {
			run++
			if run > best {
				best = run
			}
		} else {
			run = 0
		}
	}
	if best < 4 {
		o.Fail("C11.not-warmed-up", 0, "warm-up rule (threshold %v per second, period %d s, cold factor %d, i.e. a cold rate of %.2f/s) under one request every %d ms (%.2f/s: above the cold rate, below the threshold) for %d s: never more than %d requests in a row passed after the first period - the demand is sustained and within the threshold, the rule must warm up to it (all requests: %s)", cfg.T, cfg.Period, cfg.Cold, cfg.T/cold, cfg.GapMs, rate, 6*cfg.Period+15, best, trace)
	}
}

// execTenSec: see Cfg.HoldMs.
func execTenSec(o *harness.Outcome, cfg *Cfg, clk *sim.Clock) {
	if cfg.Interval != 10000 || cfg.Period > 60 || cfg.T < 10 || cfg.T > 200 || cfg.HoldMs > 2000 {
		return
	}
	if !harness.Call(o, "C11.panic", 0, func() {
		if cfg.HoldMs%20 == 10 {
			// the rule replaces a plain (Direct) rule with the same ID, resource and interval
			o.Probe("warm_up_rule_replaces_a_plain_rule_of_the_same_interval")
			_, _ = flow.LoadRules([]*flow.Rule{{ID: "r", Resource: "res-0", TokenCalculateStrategy: flow.Direct, ControlBehavior: flow.Reject,
				Threshold: cfg.T, StatIntervalInMs: cfg.Interval}})
		}
		_, err := flow.LoadRules([]*flow.Rule{{ID: "r", Resource: "res-0", TokenCalculateStrategy: flow.WarmUp, ControlBehavior: flow.Reject,
			Threshold: cfg.T, WarmUpPeriodSec: cfg.Period, WarmUpColdFactor: cfg.Cold, StatIntervalInMs: cfg.Interval}})
		if err != nil {
			o.Fail("C11.load-error", 0, "%v", err)
		}
	}) || o.Failed() {
		return
	}
	type held struct {
		e   *base.SentinelEntry
		due uint64
	}
	var open []held
	start := clk.NowMs()
	total := uint64(3*cfg.Period+40) * 1000
	per := map[uint64]int{}
	for clk.NowMs()-start < total && !o.Failed() {
		now := clk.NowMs()
		for len(open) > 0 && open[0].due <= now {
			e := open[0].e
			open = open[1:]
			harness.Call(o, "C11.panic", 0, func() { e.Exit() })
		}
		harness.Call(o, "C11.panic", 0, func() {
			if e, _ := sentinel.Entry("res-0"); e != nil {
				per[now/10000]++
				open = append(open, held{e, now + cfg.HoldMs})
			}
		})
		clk.AdvanceMs(50)
		o.SimMs += 50
	}
	for _, h := range open {
		e := h.e
		harness.Call(o, "C11.panic", 0, func() { e.Exit() })
	}
	if o.Failed() {
		return
	}
	o.Nontrivial = true
	o.Probe("rule_counted_per_the_whole_length_of_the_resource_statistic")
	best := 0
	var shown []int
	for w := start/10000 + 1; w < clk.NowMs()/10000; w++ {
		shown = append(shown, per[w])
		if w >= start/10000+1+uint64(cfg.Period)/10 && per[w] > best {
			best = per[w]
		}
	}
	if float64(best) < 0.8*cfg.T {
		o.Fail("C11.not-warmed-up", 0, "warm-up rule (threshold %v per 10 s, period %d s, cold factor %d) under one request every 50 ms, each entry exited %d ms after it was admitted, for %d s: no 10 s interval after the first period passed more than %d tokens (passed per interval: %v)", cfg.T, cfg.Period, cfg.Cold, cfg.HoldMs, 3*cfg.Period+40, best, shown)
	}
}

// execHugeFactor: threshold 200 per second, cold factor MaxUint32, a saturating demand of 202 requests per second in
// four instalments for 2*period+10 s: the last second passes most of the threshold.
func execHugeFactor(o *harness.Outcome, cfg *Cfg, clk *sim.Clock) {
	if !harness.Call(o, "C11.panic", 0, func() {
		_, err := flow.LoadRules([]*flow.Rule{{Resource: "res-0", TokenCalculateStrategy: flow.WarmUp, ControlBehavior: flow.Reject,
			Threshold: cfg.T, WarmUpPeriodSec: cfg.Period, WarmUpColdFactor: cfg.Cold}})
		if err != nil {
			o.Fail("C11.load-error", 0, "%v", err)
		}
	}) || o.Failed() {
		return
	}
	if r := clk.NowMs() % 1000; r != 0 {
		clk.AdvanceMs(1000 - r)
	}
	o.Nontrivial = true
	o.Probe("largest_cold_factor")
	last := 0
	for sec := 0; sec < int(2*cfg.Period+10) && !o.Failed(); sec++ {
		last = 0
		for q := 0; q < 4; q++ {
			for i := 0; i < 51 && !o.Failed(); i++ {
				if request(o, 0, 1) {
					last++
				}
			}
			clk.AdvanceMs(250)
			o.SimMs += 250
		}
	}
	if !o.Failed() && float64(last) < 0.8*cfg.T {
		o.Fail("C11.never-warms-up", 0, "warm-up rule (threshold %v, period %d s, cold factor %d) under a saturating demand for %d s: the last second passed %d tokens", cfg.T, cfg.Period, cfg.Cold, 2*cfg.Period+10, last)
	}
}
