// Package c14: reloading rules does not disturb the runtime state of
// unchanged rules (E1, metamorphic: the same traffic history is run twice,
// once with reloads inserted that keep rule R field-for-field identical, once
// without; the decision traces on R's resource must be equal).
package c14

import (
	"encoding/json"
	"errors"
	"fmt"
	"time"

	sentinel "github.com/alibaba/sentinel-golang/api"
	"github.com/alibaba/sentinel-golang/core/base"
	cb "github.com/alibaba/sentinel-golang/core/circuitbreaker"
	"github.com/alibaba/sentinel-golang/core/flow"
	"github.com/alibaba/sentinel-golang/core/hotspot"

	"verif/harness"
	"verif/sim"
)

// Kinds of the unchanged rule R.
const (
	kThrottle   = iota // flow throttling: queue position kept
	kWarmUp            // flow warm-up: stored tokens kept
	kStandalone        // flow reject with a private window: window counts kept
	kBreaker           // circuit breaker: state and deadline kept
	kHotQPS            // hotspot QPS: token counters kept
	kHotConc           // hotspot concurrency: per-value counters kept
	kCustomCb          // circuit breaker of a strategy registered by the user (SetCircuitBreakerGenerator): its object is kept
	kCustomHot         // hot-parameter rule of a control behaviour registered by the user (SetTrafficShapingGenerator)
	nKinds
)

type Cfg struct {
	Origin uint64 `json:"origin_ms"`
	Kind   int    `json:"kind"`
	P1     int    `json:"p1"` // rule parameter (threshold etc.)
	P2     int    `json:"p2"`
	Others []int  `json:"others"`          // parameters of the initial never-blocking rules of the same module and resource
	RPos   int    `json:"r_pos"`           // position of R in the initial list
	RDup   bool   `json:"r_dup,omitempty"` // the initial list holds R twice (both copies are unchanged rules of every reload)
	// Twin: a scripted scenario instead of the random history. Rule X is driven into its blocking state; rule Y, a
	// copy of X under another ID, is added (it has never seen a request); X is removed. Y is unchanged by that last
	// load, so it keeps ITS state - none - and the next request is admitted without waiting.
	Twin bool `json:"twin,omitempty"`
}

type P struct{}

func init() { harness.Register(P{}) }

func (P) ID() string     { return "C14" }
func (P) Engine() string { return "E1" }

func (P) Describe() harness.Description {
	return harness.Description{
		MustHit: []string{"rule_modified_neutrally_keeps_counters", "unchanged_rule_listed_twice", "reload_compound", "reload_whole_set", "reload_per_resource", "reload_reorders", "reload_modifies_other_with_same_stat_params", "trace_has_block_and_admit", "modified_rule_keeps_statistics", "modified_breaker_rule_compared_over_whole_history", "breaker_of_a_user_registered_strategy", "twin_rule_added_then_original_removed", "hot_parameter_rule_of_a_user_registered_behaviour"},
		Level:   "exploration",
		Rule: "case = (kind of the unchanged rule R: flow throttling / warm-up / reject with a private window, circuit breaker (built-in strategy, or a strategy registered by the user whose breaker keeps all state in its object), hotspot QPS, hotspot concurrency; 0-2 never-blocking rules of the same module on the same resource; 20-80 traffic ops (requests with arguments, holds, completions with errors, ticks) with 1-4 reloads inserted, each a compound of 1-3 edits: each keeps R field-for-field identical (fresh object) and adds / removes / modifies (also with unchanged statistic parameters) / reorders the others, or duplicates R where that is behaviour-neutral; whole-set and per-resource paths). " +
			"Run A executes the history without the reloads, run B with them, after a full reset of process-global state; the decision traces (admit / block type / requested wait) on R's resource must be identical. A second oracle modifies R itself keeping its statistic parameters (private-window flow rule: threshold change) and requires the decisions to equal a model whose window keeps the pre-reload counts. " +
			"non-trivial = the trace contains both outcomes after the first reload; distinct = hash(config, ops)",
		Assumptions: []string{"the other rules never block (huge thresholds) so that the trace is governed by R alone", "duplicates of R are inserted only for rule kinds where an extra fresh copy cannot change a decision (reject-mode flow rules: the copy's private window holds a subset of the original's counts)"},
		Real:        []string{"rule managers and controllers of core/flow, core/circuitbreaker, core/hotspot", "api.Entry/TraceError/Exit", "slot chain, stat nodes"},
		Stub:        []string{"util.Clock (virtual clock; Sleep captured)"},
	}
}

func (P) Gen(rng *sim.Rng, tier string) *harness.Case {
	cfg := Cfg{Origin: 1700000000000 + rng.U64Range(0, 100000), Kind: rng.Intn(nKinds)}
	cfg.P1 = rng.Range(1, 4)
	cfg.P2 = rng.Range(1, 3)
	for i, n := 0, rng.Range(0, 2); i < n; i++ {
		cfg.Others = append(cfg.Others, rng.Range(1, 5))
	}
	cfg.RPos = rng.Intn(len(cfg.Others) + 1)
	cfg.RDup = rng.Chance(0.2)
	if rng.Chance(0.06) && (cfg.Kind == kThrottle || cfg.Kind == kStandalone || cfg.Kind == kBreaker || cfg.Kind == kHotQPS || cfg.Kind == kCustomCb || cfg.Kind == kCustomHot) {
		cfg.Twin = true
	}
	var ops []harness.Op
	started := 0
	nReload := rng.Range(1, 4)
	total := rng.Range(20, 80)
	if cfg.Kind == kWarmUp {
		// a warm-up rule shows its state only under sustained demand: longer, denser histories
		total = rng.Range(60, 200)
	}
	reloadAt := map[int]bool{}
	for i := 0; i < nReload; i++ {
		reloadAt[rng.Range(3, total-1)] = true
	}
	for len(ops) < total {
		if reloadAt[len(ops)] {
			// edit script: N selects the edit, M its parameter, F = per-resource path
			// N/M hold up to three edits in base 8 (digit 7 of N = no edit): one reload may add, remove, modify and
			// move several rules at once, as a pushed configuration does
			n, m := uint64(0), uint64(0)
			k := 1 + rng.Weighted([]int{60, 25, 15})
			for j := 2; j >= 0; j-- {
				d := uint64(7)
				if j < k {
					d = uint64(rng.Intn(7))
				}
				n = n*8 + d
				m = m*8 + uint64(rng.Range(1, 6))
			}
			ops = append(ops, harness.Op{K: "reload", N: n, M: m, F: rng.Chance(0.4)})
			continue
		}
		w := []int{45, 20, 35}
		if cfg.Kind == kWarmUp {
			w = []int{70, 5, 25}
		}
		switch rng.Weighted(w) {
		case 0:
			ops = append(ops, harness.Op{K: "req", E: rng.Intn(3), F: rng.Chance(0.4)}) // E: argument value, F: hold open
			started++
		case 1:
			if started > 0 {
				ops = append(ops, harness.Op{K: "done", E: rng.Intn(started), F: rng.Chance(0.6)})
			}
		default:
			if cfg.Kind == kWarmUp {
				ops = append(ops, harness.Op{K: "tick", N: []uint64{0, 1, 50, 100, 200, 250, 333, 500, 1000, 3000}[rng.Intn(10)]})
			} else {
				ops = append(ops, harness.Op{K: "tick", N: []uint64{0, 1, 50, 100, 200, 333, 500, 1000, 1500, 3000}[rng.Intn(10)]})
			}
		}
	}
	return &harness.Case{Cfg: harness.MustJSON(cfg), Callers: [][]harness.Op{ops}}
}

const res = "res-0"

// rule builders: R and the never-blocking others, per kind
func flowR(cfg *Cfg) *flow.Rule {
	switch cfg.Kind {
	case kThrottle:
		return &flow.Rule{ID: "R", Resource: res, TokenCalculateStrategy: flow.Direct, ControlBehavior: flow.Throttling, Threshold: float64(cfg.P1 * 2), MaxQueueingTimeMs: uint32(cfg.P2 * 300), StatIntervalInMs: 1000}
	case kWarmUp:
		return &flow.Rule{ID: "R", Resource: res, TokenCalculateStrategy: flow.WarmUp, ControlBehavior: flow.Reject, Threshold: float64(cfg.P1 * 3), WarmUpPeriodSec: uint32(cfg.P2 * 2), WarmUpColdFactor: 0}
	default:
		return &flow.Rule{ID: "R", Resource: res, TokenCalculateStrategy: flow.Direct, ControlBehavior: flow.Reject, Threshold: float64(cfg.P1), StatIntervalInMs: 3000 + uint32(cfg.P2)*700}
	}
}

func flowOther(cfg *Cfg, p int, i int) *flow.Rule {
	// never blocks; same statistic parameters as R for some p so that it is a tempting donor
	r := &flow.Rule{ID: fmt.Sprintf("o%d", i), Resource: res, TokenCalculateStrategy: flow.Direct, ControlBehavior: flow.Reject, Threshold: 1e9 + float64(p)}
	if cfg.Kind == kStandalone && p%2 == 0 {
		r.StatIntervalInMs = 3000 + uint32(cfg.P2)*700
	}
	if cfg.Kind == kWarmUp && p%2 == 0 {
		r.TokenCalculateStrategy, r.WarmUpPeriodSec = flow.WarmUp, uint32(p)
	}
	return r
}

func cbR(cfg *Cfg, retry int) *cb.Rule {
	if retry == 0 {
		retry = cfg.P2 * 700
	}
	if cfg.Kind == kCustomCb {
		return &cb.Rule{Id: "R", Resource: res, Strategy: latchStrategy, RetryTimeoutMs: uint32(retry), MinRequestAmount: 1, StatIntervalMs: 5000, Threshold: float64(cfg.P1), MaxAllowedRtMs: uint64(cfg.P2)}
	}
	return &cb.Rule{Id: "R", Resource: res, Strategy: cb.ErrorCount, RetryTimeoutMs: uint32(retry), MinRequestAmount: 1, StatIntervalMs: 5000, StatSlidingWindowBucketCount: 1, Threshold: float64(cfg.P1), ProbeNum: uint64(cfg.P2 % 2)}
}

func cbOther(cfg *Cfg, p int, i int) *cb.Rule {
	// never trips; shares R's statistic parameters (strategy, interval, bucket count) so it is a possible donor
	return &cb.Rule{Id: fmt.Sprintf("o%d", i), Resource: res, Strategy: cb.ErrorCount, RetryTimeoutMs: 1000, MinRequestAmount: 1000000 + uint64(p), StatIntervalMs: 5000, StatSlidingWindowBucketCount: 1, Threshold: 1e9}
}

func hotR(cfg *Cfg) *hotspot.Rule {
	if cfg.Kind == kCustomHot {
		return &hotspot.Rule{ID: "R", Resource: res, MetricType: hotspot.QPS, ControlBehavior: latchBehavior, ParamIndex: 0, Threshold: int64(cfg.P1), DurationInSec: 1, BurstCount: int64(cfg.P2)}
	}
	if cfg.Kind == kHotQPS {
		return &hotspot.Rule{ID: "R", Resource: res, MetricType: hotspot.QPS, ControlBehavior: hotspot.Reject, ParamIndex: 0, Threshold: int64(cfg.P1), BurstCount: int64(cfg.P2 - 1), DurationInSec: 2}
	}
	return &hotspot.Rule{ID: "R", Resource: res, MetricType: hotspot.Concurrency, ControlBehavior: hotspot.Reject, ParamIndex: 0, Threshold: int64(cfg.P1)}
}

func hotOther(cfg *Cfg, p int, i int) *hotspot.Rule {
	if cfg.Kind == kCustomHot {
		return &hotspot.Rule{ID: fmt.Sprintf("o%d", i), Resource: res, MetricType: hotspot.QPS, ControlBehavior: hotspot.Reject, ParamIndex: 0, Threshold: 1000000 + int64(p), DurationInSec: 1}
	}
	r := hotR(cfg)
	r.ID = fmt.Sprintf("o%d", i)
	r.Threshold = 1000000 + int64(p) // same statistic parameters as R, never blocks
	return r
}

// rule list state: parameters of the others, position of R, whether R is duplicated
type lst struct {
	others []int
	rpos   int
	dup    bool
	rDelta int // modification of R itself (standalone kind only): threshold += rDelta
	// rSpec: behaviour-neutral modification of R itself (hotspot kinds): a specific item for a value no request
	// ever carries. R keeps its statistic parameters, so it must keep its counters, so the trace must not change.
	rSpec bool
	// rRetry: modification of R itself (breaker kind): another retry timeout. Statistic parameters unchanged.
	rRetry int
}

func (l *lst) clone() *lst {
	return &lst{append([]int{}, l.others...), l.rpos, l.dup, l.rDelta, l.rSpec, l.rRetry}
}

func load(o *harness.Outcome, step int, cfg *Cfg, l *lst, perRes bool) {
	harness.Call(o, "C14.load-panicked", step, func() {
		switch {
		case cfg.Kind <= kStandalone:
			var rules []*flow.Rule
			for i, p := range l.others {
				if i == l.rpos {
					r := flowR(cfg)
					r.Threshold += float64(l.rDelta)
					rules = append(rules, r)
				}
				rules = append(rules, flowOther(cfg, p, i))
			}
			if l.rpos >= len(l.others) {
				r := flowR(cfg)
				r.Threshold += float64(l.rDelta)
				rules = append(rules, r)
			}
			if l.dup {
				rules = append(rules, flowR(cfg))
			}
			if perRes {
				_, _ = flow.LoadRulesOfResource(res, rules)
			} else {
				_, _ = flow.LoadRules(rules)
			}
		case cfg.Kind == kBreaker || cfg.Kind == kCustomCb:
			var rules []*cb.Rule
			for i, p := range l.others {
				if i == l.rpos {
					rules = append(rules, cbR(cfg, l.rRetry))
				}
				rules = append(rules, cbOther(cfg, p, i))
			}
			if l.rpos >= len(l.others) {
				rules = append(rules, cbR(cfg, l.rRetry))
			}
			if l.dup {
				rules = append(rules, cbR(cfg, l.rRetry))
			}
			if perRes {
				_, _ = cb.LoadRulesOfResource(res, rules)
			} else {
				_, _ = cb.LoadRules(rules)
			}
		default:
			var rules []*hotspot.Rule
			mkR := func() *hotspot.Rule {
				r := hotR(cfg)
				if l.rSpec && cfg.Kind == kHotConc && cfg.P2%2 == 0 {
					// for a concurrency rule the duration is a field without effect (it only matters for QPS rules)
					r.DurationInSec = 1
					return r
				}
				if l.rSpec {
					r.SpecificItems = map[interface{}]int64{"never-requested": 1000000}
				}
				return r
			}
			for i, p := range l.others {
				if i == l.rpos {
					rules = append(rules, mkR())
				}
				rules = append(rules, hotOther(cfg, p, i))
			}
			if l.rpos >= len(l.others) {
				rules = append(rules, mkR())
			}
			if l.dup {
				rules = append(rules, hotR(cfg))
			}
			if perRes {
				_, _ = hotspot.LoadRulesOfResource(res, rules)
			} else {
				_, _ = hotspot.LoadRules(rules)
			}
		}
	})
}

// applyEdit performs one edit of the rule list description.
func applyEdit(cfg *Cfg, o *harness.Outcome, n *lst, en, em uint64, step int, modSteps map[int]int) {
	switch en {
	case 7: // no edit
	case 0: // add a rule at the front
		n.others = append([]int{int(em) + 10}, n.others...)
		n.rpos++
	case 1: // add at the end
		n.others = append(n.others, int(em)+20)
	case 2: // remove one
		if len(n.others) > 0 {
			i := int(em) % len(n.others)
			n.others = append(n.others[:i], n.others[i+1:]...)
			if n.rpos > i {
				n.rpos--
			}
		}
	case 3: // modify one, statistic parameters unchanged
		if len(n.others) > 0 {
			i := int(em) % len(n.others)
			n.others[i] += 2
			o.Probe("reload_modifies_other_with_same_stat_params")
		}
	case 4: // move R
		n.rpos = int(em) % (len(n.others) + 1)
		o.Probe("reload_reorders")
	case 5: // duplicate R where neutral: a second private window only ever holds a subset of the first one's counts
		if cfg.Kind == kStandalone && len(modSteps) == 0 {
			n.dup = !n.dup
			o.Probe("reload_duplicates_r")
		}
	case 6: // modify R itself keeping its statistic parameters
		if (cfg.Kind == kHotQPS || cfg.Kind == kHotConc) && !n.dup {
			n.rSpec = !n.rSpec
			o.Probe("rule_modified_neutrally_keeps_counters")
		}
		if cfg.Kind == kBreaker && !n.dup && n.rRetry == 0 {
			n.rRetry = cfg.P2*700 + 350*(int(em)+1)
			modSteps[step] = n.rRetry
		}
		if cfg.Kind == kStandalone && !n.dup {
			n.rDelta = int(em) - 3
			if cfg.P1+n.rDelta < 0 {
				n.rDelta = -cfg.P1
			}
			modSteps[step] = n.rDelta
		}
	}
}

type tr struct {
	Step     int
	Admitted bool
	Block    string
	WaitNs   int64
}

// run executes the history; withReloads selects run B. modifyR: the reload op with N==6 modifies R itself (standalone kind).
func run(c *harness.Case, cfg *Cfg, o *harness.Outcome, withReloads bool, preRetry int) (trace []tr, firstReload int, modSteps map[int]int, opened []int) {
	env := harness.Reset(cfg.Origin*1e6, harness.DefaultGeometry())
	clk := env.Clock
	var lastSleep time.Duration
	clk.OnSleep = func(d time.Duration) { lastSleep += d }
	l := &lst{others: append([]int{}, cfg.Others...), rpos: cfg.RPos, dup: cfg.RDup, rRetry: preRetry}
	curStep := 0
	if cfg.Kind == kCustomCb {
		_ = cb.SetCircuitBreakerGenerator(latchStrategy, func(r *cb.Rule, reuseStat interface{}) (cb.CircuitBreaker, error) {
			return &latch{rule: r}, nil
		})
		defer func() {
			_, _ = cb.LoadRules(nil)
			_ = cb.RemoveCircuitBreakerGenerator(latchStrategy)
		}()
		o.Probe("breaker_of_a_user_registered_strategy")
	}
	if cfg.Kind == kCustomHot {
		_ = hotspot.SetTrafficShapingGenerator(latchBehavior, func(r *hotspot.Rule, _ *hotspot.ParamsMetric) hotspot.TrafficShapingController {
			return &latchHot{rule: r, seen: map[interface{}]int64{}}
		})
		defer func() {
			_, _ = hotspot.LoadRules(nil)
			_ = hotspot.RemoveTrafficShapingGenerator(latchBehavior)
		}()
		o.Probe("hot_parameter_rule_of_a_user_registered_behaviour")
	}
	if cfg.Kind == kBreaker {
		cb.ClearStateChangeListeners()
		cb.RegisterStateChangeListeners(&openRec{func() { opened = append(opened, curStep) }})
		defer cb.ClearStateChangeListeners()
	}
	if cfg.RDup {
		o.Probe("unchanged_rule_listed_twice")
	}
	if l.rpos > len(l.others) {
		l.rpos = len(l.others)
	}
	load(o, 0, cfg, l, false)
	firstReload = -1
	modSteps = map[int]int{}
	var ents []*base.SentinelEntry
	for step, op := range c.Callers[0] {
		if o.Failed() {
			return
		}
		curStep = step
		switch op.K {
		case "tick":
			clk.AdvanceMs(op.N)
			if withReloads {
				o.SimMs += op.N
			}
		case "reload":
			if !withReloads {
				continue
			}
			if firstReload < 0 {
				firstReload = step
			}
			n := l.clone()
			edits := 0
			for en, em := op.N, op.M; edits < 3; en, em, edits = en/8, em/8, edits+1 {
				applyEdit(cfg, o, n, en%8, em%8, step, modSteps)
			}
			if op.N%8 != 7 && (op.N/8)%8 != 7 {
				o.Probe("reload_compound")
			}
			if cfg.Kind == kStandalone && n.rDelta != l.rDelta {
				// R itself is modified by this load. Is another rule with R's statistic parameters added, removed
				// or modified by the same load (then R's old statistic and that rule's are handed out in list
				// order, not by rule)? See known finding C14.modified-rule-stat-taken-by-other-rule.
				cnt := map[int]int{}
				for _, p := range l.others {
					if p%2 == 0 {
						cnt[p]++
					}
				}
				for _, p := range n.others {
					if p%2 == 0 {
						cnt[p]--
					}
				}
				for _, d := range cnt {
					if d != 0 {
						modSteps[-1-step] = 1
					}
				}
			}
			l = n
			if op.F {
				o.Probe("reload_per_resource")
			} else {
				o.Probe("reload_whole_set")
			}
			load(o, step, cfg, l, op.F)
		case "req":
			lastSleep = 0
			var e *base.SentinelEntry
			var be *base.BlockError
			args := []interface{}{op.E}
			harness.Call(o, "C14.panic", step, func() {
				e, be = sentinel.Entry(res, harness.EntryOpts(1, false, args, nil, nil)...)
			})
			t := tr{Step: step, Admitted: e != nil, WaitNs: int64(lastSleep)}
			if be != nil {
				t.Block = be.BlockType().String()
			}
			trace = append(trace, t)
			if e != nil {
				if op.F {
					ents = append(ents, e)
				} else {
					ents = append(ents, nil)
					e.Exit()
				}
			} else {
				ents = append(ents, nil)
			}
		case "done":
			if op.E >= 0 && op.E < len(ents) && ents[op.E] != nil {
				e := ents[op.E]
				ents[op.E] = nil
				harness.Call(o, "C14.panic", step, func() {
					if op.F {
						sentinel.TraceError(e, errors.New("biz"))
					}
					e.Exit()
				})
			}
		}
	}
	return
}

func (P) Exec(c *harness.Case) *harness.Outcome {
	o := harness.NewOutcome()
	var cfg Cfg
	if err := json.Unmarshal(c.Cfg, &cfg); err != nil {
		o.Infra = err.Error()
		return o
	}
	if cfg.Kind < 0 || cfg.Kind >= nKinds || cfg.P1 <= 0 || cfg.P2 <= 0 || len(c.Callers) == 0 {
		return o
	}
	if cfg.Twin {
		execTwin(&cfg, o)
		return o
	}
	// does the history modify R itself? then the A/B comparison only covers the prefix before that reload
	b, first, mods, _ := run(c, &cfg, o, true, 0)
	if o.Failed() {
		return o
	}
	cut := len(c.Callers[0])
	for s := range mods {
		if s >= 0 && s < cut {
			cut = s
		}
	}
	var a []tr
	if cfg.Kind == kBreaker && len(mods) > 0 {
		// R itself got another retry timeout at step `cut`, its statistic parameters unchanged, so it keeps the
		// errors counted so far. Reference: no reloads, R with that retry timeout from the start. As long as R's
		// breaker never opened before the modification the retry timeout has had no influence, so the two
		// traces must agree over the whole history (an open breaker is replaced by a closed one: then the
		// comparison ends at the modification as before).
		var opened []int
		a, _, _, opened = run(c, &cfg, harness.NewOutcome(), false, mods[cut])
		early := false
		for _, s := range opened {
			if s <= cut {
				early = true
			}
		}
		if early {
			a, _, _, _ = run(c, &cfg, harness.NewOutcome(), false, 0)
		} else {
			cut = len(c.Callers[0])
			o.Probe("modified_breaker_rule_compared_over_whole_history")
		}
	} else {
		a, _, _, _ = run(c, &cfg, harness.NewOutcome(), false, 0)
	}
	sawAdmit, sawBlock := false, false
	for i := 0; i < len(a) && i < len(b); i++ {
		if a[i].Step >= cut {
			break
		}
		if a[i] != b[i] {
			o.Fail("C14.reload-disturbed-unchanged-rule", b[i].Step, "request at step %d: without reloads admitted=%v block=%q wait=%dns; with reloads that keep rule R identical admitted=%v block=%q wait=%dns (kind %d, first reload at step %d)",
				a[i].Step, a[i].Admitted, a[i].Block, a[i].WaitNs, b[i].Admitted, b[i].Block, b[i].WaitNs, cfg.Kind, first)
			return o
		}
		if first >= 0 && b[i].Step > first {
			if b[i].Admitted {
				sawAdmit = true
			} else {
				sawBlock = true
			}
		}
	}
	if sawAdmit && sawBlock {
		o.Nontrivial = true
		o.Probe("trace_has_block_and_admit")
	}
	// modified R with unchanged statistic parameters keeps its window: decisions after the modification
	// must follow admit iff W+1 <= T_new where W counts admissions in R's private window incl. pre-reload ones
	if cfg.Kind == kStandalone && len(mods) > 0 {
		checkKeptStatistics(c, &cfg, o, b, mods)
	}
	return o
}

func checkKeptStatistics(c *harness.Case, cfg *Cfg, o *harness.Outcome, b []tr, mods map[int]int) {
	I := uint64(3000 + cfg.P2*700) // private window: one bucket of the whole interval
	now := cfg.Origin
	T := float64(cfg.P1)
	var passes []uint64
	ti := 0
	checked := false
	competitor := false // some load so far modified R together with a competing rule (negative keys of mods)
	for step, op := range c.Callers[0] {
		switch op.K {
		case "tick":
			now += op.N
		case "reload":
			if d, ok := mods[step]; ok {
				T = float64(cfg.P1 + d)
				checked = true
			}
			if mods[-1-step] != 0 {
				competitor = true
			}
		case "req":
			if ti >= len(b) || b[ti].Step != step {
				return
			}
			lo := now - now%I
			w := 0
			for _, p := range passes {
				if p >= lo {
					w++
				}
			}
			want := float64(w)+1 <= T
			if checked && b[ti].Admitted != want && competitor {
				o.KnownHit("C14.modified-rule-stat-taken-by-other-rule", "C14.modified-rule-lost-statistics", step, "t=%d rule R was modified (threshold %v, statistic parameters unchanged) by a load that also added, removed or modified another rule with the same statistic parameters: admitted=%v, its window holds %d admissions incl. those before the reload so the reference says %v (old statistics are handed out in list order, not by rule)", now, T, b[ti].Admitted, w, want)
				return
			}
			if checked && b[ti].Admitted != want {
				o.Fail("C14.modified-rule-lost-statistics", step, "t=%d after rule R's threshold was changed to %v (statistic parameters unchanged): admitted=%v, but its window holds %d admissions (incl. those before the reload) so the reference says %v", now, T, b[ti].Admitted, w, want)
				return
			}
			if checked {
				o.Probe("modified_rule_keeps_statistics")
			}
			if b[ti].Admitted {
				passes = append(passes, now)
			}
			ti++
		}
	}
}

// latch is a circuit breaker of a strategy the library does not know: it opens for good once the errors
// it has seen reach the threshold. All of its state lives in the object.
const latchStrategy cb.Strategy = 100

type latch struct {
	rule *cb.Rule
	errs float64
}

func (l *latch) BoundRule() *cb.Rule                 { return l.rule }
func (l *latch) BoundStat() interface{}              { return nil }
func (l *latch) TryPass(ctx *base.EntryContext) bool { return l.errs < l.rule.Threshold }
func (l *latch) CurrentState() cb.State {
	if l.errs < l.rule.Threshold {
		return cb.Closed
	}
	return cb.Open
}
func (l *latch) OnRequestComplete(rt uint64, err error) {
	if err != nil {
		l.errs++
	}
}

// execTwin: see Cfg.Twin. P2's parity decides whether Y is listed before or after X, Others' length whether the
// loads are whole-set or per-resource.
func execTwin(cfg *Cfg, o *harness.Outcome) {
	env := harness.Reset(cfg.Origin*1e6, harness.DefaultGeometry())
	var waited time.Duration
	env.Clock.OnSleep = func(d time.Duration) { waited += d }
	if cfg.Kind == kCustomCb {
		_ = cb.SetCircuitBreakerGenerator(latchStrategy, func(r *cb.Rule, reuseStat interface{}) (cb.CircuitBreaker, error) {
			return &latch{rule: r}, nil
		})
		defer func() {
			_, _ = cb.LoadRules(nil)
			_ = cb.RemoveCircuitBreakerGenerator(latchStrategy)
		}()
		o.Probe("breaker_of_a_user_registered_strategy")
	}
	if cfg.Kind == kCustomHot {
		_ = hotspot.SetTrafficShapingGenerator(latchBehavior, func(r *hotspot.Rule, _ *hotspot.ParamsMetric) hotspot.TrafficShapingController {
			return &latchHot{rule: r, seen: map[interface{}]int64{}}
		})
		defer func() {
			_, _ = hotspot.LoadRules(nil)
			_ = hotspot.RemoveTrafficShapingGenerator(latchBehavior)
		}()
		o.Probe("hot_parameter_rule_of_a_user_registered_behaviour")
	}
	perRes := len(cfg.Others)%2 == 1
	yFirst := cfg.P2%2 == 0
	variant := (cfg.P1 + cfg.P2 + len(cfg.Others)) % 4 // 0: Y has its own ID; 1: Y has no ID; 2: see twinStolen; 3: renamed
	if variant == 2 && cfg.Kind == kStandalone && cfg.RDup {
		strategyEdit(cfg, o, perRes)
		return
	}
	if variant == 2 && cfg.Kind == kStandalone {
		twinStolen(cfg, o, perRes, yFirst)
		return
	}
	idOf := func(id string) string {
		if id == "Y" && variant == 1 {
			return "" // the copy carries no ID at all
		}
		return id
	}
	loadIDs := func(ids ...string) {
		harness.Call(o, "C14.load-panicked", 0, func() {
			switch cfg.Kind {
			case kThrottle, kStandalone:
				var l []*flow.Rule
				for _, id := range ids {
					r := flowR(cfg)
					r.ID = idOf(id)
					l = append(l, r)
				}
				if perRes {
					_, _ = flow.LoadRulesOfResource(res, l)
				} else {
					_, _ = flow.LoadRules(l)
				}
			case kBreaker, kCustomCb:
				var l []*cb.Rule
				for _, id := range ids {
					r := cbR(cfg, 0)
					r.Id = idOf(id)
					l = append(l, r)
				}
				if perRes {
					_, _ = cb.LoadRulesOfResource(res, l)
				} else {
					_, _ = cb.LoadRules(l)
				}
			default:
				var l []*hotspot.Rule
				for _, id := range ids {
					r := hotR(cfg)
					r.ID = idOf(id)
					l = append(l, r)
				}
				if perRes {
					_, _ = hotspot.LoadRulesOfResource(res, l)
				} else {
					_, _ = hotspot.LoadRules(l)
				}
			}
		})
	}
	// one request for argument 7; fail: it completes with an error
	request := func(fail bool) (admitted bool, wait time.Duration) {
		waited = 0
		harness.Call(o, "C14.panic", 0, func() {
			e, _ := sentinel.Entry(res, harness.EntryOpts(1, false, []interface{}{7}, nil, nil)...)
			if e != nil {
				admitted = true
				if fail {
					sentinel.TraceError(e, errors.New("biz"))
				}
				e.Exit()
			}
		})
		return admitted, waited
	}
	loadIDs("X")
	held := false // X holds something against the next request (it would block it or make it wait)
	for i := 0; i < 40 && !held && !o.Failed(); i++ {
		adm, wait := request(cfg.Kind == kBreaker || cfg.Kind == kCustomCb)
		held = !adm || wait > 0
	}
	if !held || o.Failed() {
		return
	}
	o.Probe("twin_rule_added_then_original_removed")
	if variant == 3 {
		// X is renamed to B (same fields: B continues X and keeps its state); a new rule takes the name X; it is
		// removed again. B was in every one of these lists unchanged: it still holds back the next request.
		loadIDs("B")
		if yFirst {
			loadIDs("X", "B")
		} else {
			loadIDs("B", "X")
		}
		loadIDs("B")
		adm, wait := request(false)
		o.Nontrivial = true
		if adm && wait == 0 {
			o.Fail("C14.unchanged-rule-lost-its-state-to-a-namesake", 0, "rule X (kind %d) was driven until it held back the next request and renamed to B by a load that changed nothing else; a new rule with the same fields was added under the old name X (listed %s B) and removed again. B was unchanged in all these loads, yet the next request is admitted without waiting: B's state went to the rule that took its old name", cfg.Kind, map[bool]string{true: "before", false: "after"}[yFirst])
		}
		return
	}
	if yFirst {
		loadIDs("Y", "X")
	} else {
		loadIDs("X", "Y")
	}
	loadIDs("Y")
	adm, wait := request(false)
	o.Nontrivial = true
	if !adm || wait > 0 {
		o.Fail("C14.unchanged-rule-took-over-state-of-removed-rule", 0, "rule X (kind %d) was driven until it held back the next request; rule Y, a field-for-field copy %s, was added (listed %s X) and has never seen a request; then X was removed by a load that kept Y unchanged. The next request: admitted=%v wait=%v - Y decided it with the state of the removed rule X instead of its own", cfg.Kind, map[bool]string{true: "without ID", false: "under its own ID"}[variant == 1], map[bool]string{true: "before", false: "after"}[yFirst], adm, wait)
	}
}

// twinStolen: rule X (private-window flow rule, threshold P1+1) has admitted P1 requests. One load lowers its
// threshold to P1 (X keeps its ID and its statistic parameters: it keeps its window) and adds rule Y, which has the
// fields X had before. X now holds P1 of P1: the next request must be rejected. An implementation that matches Y
// with X's old controller by the fields alone hands X's window to Y, and the modified X starts from an empty one.
func twinStolen(cfg *Cfg, o *harness.Outcome, perRes, yFirst bool) {
	mk := func(id string, t int) *flow.Rule {
		r := flowR(cfg)
		r.ID, r.Threshold = id, float64(t)
		return r
	}
	load := func(l ...*flow.Rule) {
		harness.Call(o, "C14.load-panicked", 0, func() {
			if perRes {
				_, _ = flow.LoadRulesOfResource(res, l)
			} else {
				_, _ = flow.LoadRules(l)
			}
		})
	}
	request := func() (admitted bool) {
		harness.Call(o, "C14.panic", 0, func() {
			if e, _ := sentinel.Entry(res, harness.EntryOpts(1, false, []interface{}{7}, nil, nil)...); e != nil {
				admitted = true
				e.Exit()
			}
		})
		return
	}
	load(mk("X", cfg.P1+1))
	for i := 0; i < cfg.P1 && !o.Failed(); i++ {
		if !request() {
			return
		}
	}
	if yFirst {
		load(mk("Y", cfg.P1+1), mk("X", cfg.P1))
	} else {
		load(mk("X", cfg.P1), mk("Y", cfg.P1+1))
	}
	if o.Failed() {
		return
	}
	o.Probe("twin_rule_added_then_original_removed")
	o.Nontrivial = true
	if request() {
		o.Fail("C14.modified-rule-lost-statistics", 0, "rule X (threshold %d, private window) had admitted %d requests; one load lowered its threshold to %d and added rule Y with the fields X had before (listed %s X). X keeps its window (its statistic parameters are unchanged) and holds %d of %d, yet the next request was admitted: the new rule Y was given X's window", cfg.P1+1, cfg.P1, cfg.P1, map[bool]string{true: "before", false: "after"}[yFirst], cfg.P1, cfg.P1)
	}
}

// strategyEdit: rule X (Direct, Reject, threshold P1, a statistic interval of its own) has admitted P1 requests. It is
// edited into a warm-up rule and back - the statistic interval never changes - all within one millisecond. X holds P1
// of P1: the next request must be rejected. (Intervals just below the length of the global statistic are where a
// warm-up rule and a Direct rule were once thought to need different statistics.)
func strategyEdit(cfg *Cfg, o *harness.Outcome, perRes bool) {
	interval := []uint32{9900, 9600, 3700}[cfg.P1%3]
	mk := func(warm bool) *flow.Rule {
		r := &flow.Rule{ID: "X", Resource: res, TokenCalculateStrategy: flow.Direct, ControlBehavior: flow.Reject, Threshold: float64(cfg.P1), StatIntervalInMs: interval}
		if warm {
			r.TokenCalculateStrategy, r.WarmUpPeriodSec, r.WarmUpColdFactor = flow.WarmUp, 10, 3
		}
		return r
	}
	load := func(r *flow.Rule) {
		harness.Call(o, "C14.load-panicked", 0, func() {
			if perRes {
				_, _ = flow.LoadRulesOfResource(res, []*flow.Rule{r})
			} else {
				_, _ = flow.LoadRules([]*flow.Rule{r})
			}
		})
	}
	request := func() (admitted bool) {
		harness.Call(o, "C14.panic", 0, func() {
			if e, _ := sentinel.Entry(res, harness.EntryOpts(1, false, nil, nil, nil)...); e != nil {
				admitted = true
				e.Exit()
			}
		})
		return
	}
	load(mk(false))
	for i := 0; i < cfg.P1 && !o.Failed(); i++ {
		if !request() {
			return
		}
	}
	load(mk(true))
	load(mk(false))
	if o.Failed() {
		return
	}
	o.Probe("rule_edited_into_another_strategy_and_back")
	o.Nontrivial = true
	if request() {
		o.Fail("C14.modified-rule-lost-statistics", 0, "rule X (Direct, threshold %d, statistic interval %d ms) had admitted %d requests; it was edited into a warm-up rule and back within the same millisecond, its statistic interval unchanged. X holds %d of %d in its window, yet the next request was admitted: an edit dropped its statistics", cfg.P1, interval, cfg.P1, cfg.P1, cfg.P1)
	}
}

// latchHot is a hot-parameter controller of a control behaviour the library does not know: each value may pass
// Threshold times, ever. All of its state lives in the object.
const latchBehavior hotspot.ControlBehavior = 7

type latchHot struct {
	rule *hotspot.Rule
	seen map[interface{}]int64
}

func (l *latchHot) PerformChecking(arg interface{}, batchCount int64) *base.TokenResult {
	if l.seen[arg] >= l.rule.Threshold {
		return base.NewTokenResultBlockedWithCause(base.BlockTypeHotSpotParamFlow, "latched", l.rule, l.seen[arg])
	}
	l.seen[arg]++
	return nil
}
func (l *latchHot) BoundParamIndex() int { return l.rule.ParamIndex }
func (l *latchHot) ExtractArgs(ctx *base.EntryContext) interface{} {
	if a := ctx.Input.Args; len(a) > 0 {
		return a[0]
	}
	return nil
}
func (l *latchHot) BoundMetric() *hotspot.ParamsMetric { return nil }
func (l *latchHot) BoundRule() *hotspot.Rule           { return l.rule }

type openRec struct{ f func() }

func (r *openRec) OnTransformToClosed(prev cb.State, rule cb.Rule) {}
func (r *openRec) OnTransformToOpen(prev cb.State, rule cb.Rule, snapshot interface{}) {
	if rule.Id == "R" {
		r.f()
	}
}
func (r *openRec) OnTransformToHalfOpen(prev cb.State, rule cb.Rule) {}

var _ = sim.OpUser
