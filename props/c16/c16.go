// Package c16: the slot chain runs in order, short-circuits on the first
// block and fails open (E1: random chains of scripted recording slots, slot and
// exit-handler panics as injected faults, seeded pool reuse).
package c16

import (
	"encoding/json"
	"fmt"
	"sort"

	sentinel "github.com/alibaba/sentinel-golang/api"
	"github.com/alibaba/sentinel-golang/core/base"

	"verif/harness"
	"verif/sim"
)

// scripts
const (
	sPass = iota
	sNil
	sBlock
	sPanic
	sBlockPooled // block by resetting the pooled result of the context
	sBlockBare   // block in place with the block type only (no message, rule or value)
	sBlockMsg    // block in place with type and message only
	sBlockCached // block with a result object the slot created once and returns every time
	sBlockRearm  // block with the slot's own result object, armed anew for every entry with a cause of varying completeness
	sPanicDone   // statistic slots only: hears the outcome quietly and panics when it is told the completion
)

type SlotSpec struct {
	Kind   int    `json:"kind"` // 0 prepare, 1 rule check, 2 statistic
	Order  uint32 `json:"order"`
	Script []int  `json:"script"` // per entry index
}

type Cfg struct {
	Origin uint64     `json:"origin_ms"`
	Slots  []SlotSpec `json:"slots"`
	ExitP  []bool     `json:"exit_handler_panics"` // per entry index
}

type P struct{}

func init() { harness.Register(P{}) }

func (P) ID() string     { return "C16" }
func (P) Engine() string { return "E1" }

func (P) Describe() harness.Description {
	return harness.Description{
		MustHit: []string{"blocked_in_place_with_partial_cause", "colliding_orders", "long_chain_with_ties", "blocked_by_first_blocker", "panic_in_prepare", "panic_in_check", "panic_in_stat", "panic_at_completion", "exit_handler_panicked", "block_error_checked_after_reuse", "pool_object_reused", "plain_request_between_scripted_ones"},
		Level:   "exploration",
		Rule: "case = (chain of 0-5 (in 12% of the kinds 6-40) prepare, rule-check and statistic recording slots with arbitrary and colliding order values, each scripted per entry to pass / return nil / block (fresh result, or the pooled result reset in place with the full cause, the type only, or type and message) / panic (statistic slots when they hear the outcome or when they hear the completion); exit handlers that panic; 2-8 entries entered and exited in any order so that pooled contexts and results are recycled under a seeded pool policy; now and then a request with no option at all on the global chain in between). " +
			"Oracle: the call log of every Entry equals the stable sort by order of each slot kind, prepare -> rule check -> statistic; the first blocking rule-check slot defines the returned block error and no later rule-check slot runs; without panics every statistic slot is told the outcome exactly once and the completion exactly when the entry had passed; no panic escapes Entry or Exit and a panicking request is admitted; every returned *BlockError keeps its type, message, rule and value while later entries run; a request that names no chain is heard of by no slot of the scripted chain and carries the default options. " +
			"non-trivial = a block and a panic occurred in one run with colliding orders; distinct = hash(config, ops)",
		Assumptions: []string{"for entries in which a slot or exit handler panicked only 'no panic escapes' and 'the request is admitted' are asserted (the statement exempts statistic notifications under panics)"},
		Real:        []string{"core/base.SlotChain (sorting, Entry, exit, pooled contexts and results)", "base.SentinelEntry.Exit/WhenExit", "api.Entry (WithSlotChain), block error copy"},
		Stub:        []string{"scripted recording slots (harness)", "sync.Pool (SimPool, seeded)", "util.Clock (virtual clock)"},
	}
}

func (P) Gen(rng *sim.Rng, tier string) *harness.Case {
	cfg := Cfg{Origin: 1700000000000 + rng.U64Range(0, 100000)}
	nEnt := rng.Range(2, 8)
	orders := []uint32{0, 1, 1, 5, 5, 5, 100, 1000, 1000, 4294967295}
	for kind := 0; kind < 3; kind++ {
		n := rng.Range(0, 5)
		if rng.Chance(0.12) {
			// swarm: now and then a long chain (library sort routines switch algorithm with the length, and
			// only the short ones are stable by accident)
			n = rng.Range(6, 40)
		}
		for i := 0; i < n; i++ {
			sp := SlotSpec{Kind: kind, Order: orders[rng.Intn(len(orders))]}
			ownResult := kind == 1 && rng.Chance(0.15) // a slot that blocks with its one result object whenever it blocks
			rearm := ownResult && rng.Chance(0.5)      // ... arming it anew each time
			for e := 0; e < nEnt; e++ {
				s := sPass
				switch kind {
				case 0:
					if rng.Chance(0.04) {
						s = sPanic
					}
				case 1:
					switch rng.Intn(12) {
					case 0:
						s = sNil
					case 1, 2:
						s = sBlock
					case 3:
						s = []int{sBlockPooled, sBlockPooled, sBlockBare, sBlockMsg, sBlockCached, sBlockCached, sBlockRearm, sBlockRearm}[rng.Intn(8)]
					case 4:
						if rng.Chance(0.5) {
							s = sPanic
						}
					}
				default:
					if rng.Chance(0.04) {
						s = sPanic
					} else if rng.Chance(0.04) {
						s = sPanicDone
					}
				}
				if ownResult && (s == sBlock || s == sBlockPooled || s == sBlockBare || s == sBlockMsg || s == sBlockCached || s == sBlockRearm) {
					s = sBlockCached
					if rearm {
						s = sBlockRearm
					}
				}
				sp.Script = append(sp.Script, s)
			}
			cfg.Slots = append(cfg.Slots, sp)
		}
	}
	for e := 0; e < nEnt; e++ {
		cfg.ExitP = append(cfg.ExitP, rng.Chance(0.12))
	}
	var ops []harness.Op
	entered := 0
	var open []int
	for entered < nEnt || len(open) > 0 {
		if entered < nEnt && (len(open) == 0 || rng.Chance(0.55)) {
			ops = append(ops, harness.Op{K: "entry", E: entered, R: rng.Intn(2)})
			open = append(open, entered)
			entered++
			if rng.Chance(0.2) {
				// a request that names no chain and states no option, right after one that named the scripted chain
				ops = append(ops, harness.Op{K: "plain"})
			}
		} else {
			i := rng.Intn(len(open))
			ops = append(ops, harness.Op{K: "exit", E: open[i]})
			if rng.Chance(0.15) {
				ops = append(ops, harness.Op{K: "exit", E: open[i]}) // repeated exit
			}
			open = append(open[:i], open[i+1:]...)
		}
	}
	c := &harness.Case{Cfg: harness.MustJSON(cfg), Callers: [][]harness.Op{ops}}
	c.Pool = harness.GenPool(rng)
	return c
}

type logRec struct {
	entry int
	slot  int
	what  string
}

type world struct {
	log []logRec
}

type slotBase struct {
	w    *world
	id   int
	spec SlotSpec
}

func (s *slotBase) Order() uint32 { return s.spec.Order }
func (s *slotBase) script(ctx *base.EntryContext) (int, int) {
	e := int(ctx.Input.Flag &^ (1 << 20))
	if e < 0 || e >= len(s.spec.Script) {
		return e, sPass
	}
	return e, s.spec.Script[e]
}

type prep struct{ slotBase }

func (s *prep) Prepare(ctx *base.EntryContext) {
	e, sc := s.script(ctx)
	s.w.log = append(s.w.log, logRec{e, s.id, "prepare"})
	if sc == sPanic {
		panic(fmt.Sprintf("scripted panic in prepare slot %d", s.id))
	}
}

type dummyRule struct{ name string }

func (d *dummyRule) String() string       { return d.name }
func (d *dummyRule) ResourceName() string { return d.name }

type check struct {
	slotBase
	rule   *dummyRule
	cached *base.TokenResult // made once, returned as it is
	armed  *base.TokenResult // the slot's own, armed anew for every entry
}

func (s *check) Check(ctx *base.EntryContext) *base.TokenResult {
	e, sc := s.script(ctx)
	s.w.log = append(s.w.log, logRec{e, s.id, "check"})
	switch sc {
	case sNil:
		return nil
	case sBlock:
		return base.NewTokenResultBlockedWithCause(base.BlockTypeFlow, fmt.Sprintf("blocked by slot %d for entry %d", s.id, e), s.rule, float64(s.id*1000+e))
	case sBlockPooled:
		ctx.RuleCheckResult.ResetToBlockedWithCause(base.BlockTypeIsolation, fmt.Sprintf("blocked by slot %d for entry %d", s.id, e), s.rule, float64(s.id*1000+e))
		return ctx.RuleCheckResult
	case sBlockCached:
		// the allocation-free way to write an always-blocking slot: one result, made once
		if s.cached == nil {
			s.cached = base.NewTokenResultBlockedWithCause(base.BlockTypeCircuitBreaking, fmt.Sprintf("blocked by slot %d (its one result object)", s.id), s.rule, float64(s.id*1000))
		}
		return s.cached
	case sBlockRearm:
		if s.armed == nil {
			s.armed = base.NewTokenResultPass()
		}
		switch e % 3 {
		case 0:
			s.armed.ResetToBlockedWithCause(base.BlockTypeFlow, fmt.Sprintf("re-armed by slot %d for entry %d", s.id, e), s.rule, float64(s.id*1000+e))
		case 1:
			s.armed.ResetToBlockedWithMessage(base.BlockTypeIsolation, fmt.Sprintf("re-armed by slot %d for entry %d", s.id, e))
		default:
			s.armed.ResetToBlocked(base.BlockTypeSystemFlow)
		}
		return s.armed
	case sBlockBare:
		ctx.RuleCheckResult.ResetToBlocked(base.BlockTypeSystemFlow)
		return ctx.RuleCheckResult
	case sBlockMsg:
		ctx.RuleCheckResult.ResetToBlockedWithMessage(base.BlockTypeHotSpotParamFlow, fmt.Sprintf("blocked by slot %d for entry %d", s.id, e))
		return ctx.RuleCheckResult
	case sPanic:
		panic(fmt.Sprintf("scripted panic in rule-check slot %d", s.id))
	}
	return ctx.RuleCheckResult
}

type stat struct{ slotBase }

func (s *stat) OnEntryPassed(ctx *base.EntryContext) {
	e, sc := s.script(ctx)
	s.w.log = append(s.w.log, logRec{e, s.id, "passed"})
	if sc == sPanic {
		panic(fmt.Sprintf("scripted panic in statistic slot %d", s.id))
	}
}
func (s *stat) OnEntryBlocked(ctx *base.EntryContext, be *base.BlockError) {
	e, sc := s.script(ctx)
	s.w.log = append(s.w.log, logRec{e, s.id, "blocked"})
	if sc == sPanic {
		panic(fmt.Sprintf("scripted panic in statistic slot %d", s.id))
	}
}
func (s *stat) OnCompleted(ctx *base.EntryContext) {
	e, sc := s.script(ctx)
	s.w.log = append(s.w.log, logRec{e, s.id, "completed"})
	if sc == sPanicDone {
		panic(fmt.Sprintf("scripted panic in statistic slot %d at the completion", s.id))
	}
}

type beSnap struct {
	be    *base.BlockError
	typ   base.BlockType
	msg   string
	rule  base.SentinelRule
	value interface{}
	entry int
}

type ment struct {
	e        *base.SentinelEntry
	panicked bool
	passed   bool
	exited   bool
	exitP    bool
}

func (P) Exec(c *harness.Case) *harness.Outcome {
	o := harness.NewOutcome()
	var cfg Cfg
	if err := json.Unmarshal(c.Cfg, &cfg); err != nil {
		o.Infra = err.Error()
		return o
	}
	if len(c.Callers) == 0 {
		return o
	}
	harness.Reset(cfg.Origin*1e6, harness.DefaultGeometry())
	pc := harness.InstallPool(c)
	defer func() {
		if pc != nil {
			o.PoolLog = append([]int{}, pc.Log...)
			if pc.Reuses > 0 {
				o.Probe("pool_object_reused")
			}
		}
		sim.SetPoolCtl(nil)
	}()
	w := &world{}
	sc := base.NewSlotChain()
	// insertion order = order in cfg.Slots; expected order = stable sort by Order within each kind
	byKind := [3][]int{}
	for i, sp := range cfg.Slots {
		if sp.Kind < 0 || sp.Kind > 2 {
			continue
		}
		sb := slotBase{w: w, id: i, spec: sp}
		switch sp.Kind {
		case 0:
			sc.AddStatPrepareSlot(&prep{sb})
		case 1:
			sc.AddRuleCheckSlot(&check{slotBase: sb, rule: &dummyRule{fmt.Sprintf("rule-of-slot-%d", i)}})
		default:
			sc.AddStatSlot(&stat{sb})
		}
		byKind[sp.Kind] = append(byKind[sp.Kind], i)
	}
	collide := false
	for k := 0; k < 3; k++ {
		ids := byKind[k]
		sort.SliceStable(ids, func(a, b int) bool { return cfg.Slots[ids[a]].Order < cfg.Slots[ids[b]].Order })
		for j := 1; j < len(ids); j++ {
			if cfg.Slots[ids[j]].Order == cfg.Slots[ids[j-1]].Order {
				collide = true
				if len(ids) > 5 {
					o.Probe("long_chain_with_ties")
				}
			}
		}
	}
	if collide {
		o.Probe("colliding_orders")
	}
	scriptOf := func(slot, e int) int {
		s := cfg.Slots[slot].Script
		if e < 0 || e >= len(s) {
			return sPass
		}
		return s[e]
	}
	ents := map[int]*ment{}
	var snaps []beSnap
	sawBlock, sawPanic := false, false
	for step, op := range c.Callers[0] {
		logStart := len(w.log)
		switch op.K {
		case "entry":
			k := op.E
			if _, dup := ents[k]; dup {
				continue
			}
			// expectation
			var want []logRec
			panicked, blocked := false, false
			blockBy := -1
			for _, id := range byKind[0] {
				want = append(want, logRec{k, id, "prepare"})
				if scriptOf(id, k) == sPanic {
					panicked = true
					o.Probe("panic_in_prepare")
					break
				}
			}
			if !panicked {
				for _, id := range byKind[1] {
					want = append(want, logRec{k, id, "check"})
					s := scriptOf(id, k)
					if s == sPanic {
						panicked = true
						o.Probe("panic_in_check")
						break
					}
					if s == sBlock || s == sBlockPooled || s == sBlockBare || s == sBlockMsg || s == sBlockCached || s == sBlockRearm {
						blocked, blockBy = true, id
						break
					}
				}
			}
			if !panicked {
				for _, id := range byKind[2] {
					if blocked {
						want = append(want, logRec{k, id, "blocked"})
					} else {
						want = append(want, logRec{k, id, "passed"})
					}
					if scriptOf(id, k) == sPanic {
						panicked = true
						o.Probe("panic_in_stat")
						break
					}
				}
			}
			m := &ment{}
			ents[k] = m
			var be *base.BlockError
			harness.Call(o, "C16.panic-escaped-entry", step, func() {
				// (every option is stated with a value other than its default: the pooled option object carries them all
				// when it goes back to its pool, and the plain requests in between show what the next taker finds)
				m.e, be = sentinel.Entry(harness.ResName(op.R), sentinel.WithSlotChain(sc), sentinel.WithFlag(int32(k)|1<<20),
					sentinel.WithBatchCount(3), sentinel.WithTrafficType(base.Inbound), sentinel.WithResourceType(base.ResTypeWeb),
					sentinel.WithArgs("c16", k), sentinel.WithAttachments(map[interface{}]interface{}{"c16": k}))
			})
			if o.Failed() {
				return o
			}
			got := w.log[logStart:]
			if !sameLog(got, want) {
				o.Fail("C16.call-order", step, "entry %d: slots were called as %v, expected %v (stable sort by order, prepare -> rule check -> statistic, stop at the first block)", k, fmtLog(got), fmtLog(want))
				return o
			}
			if (m.e == nil) == (be == nil) {
				o.Fail("C16.outcome-shape", step, "entry %d: Entry returned entry=%v blockErr=%v", k, m.e != nil, be != nil)
				return o
			}
			m.panicked = panicked
			if panicked {
				sawPanic = true
				if be != nil {
					o.Fail("C16.panic-not-admitted", step, "entry %d: a slot panicked, the request must be admitted but was blocked: %v", k, be)
					return o
				}
				m.passed = true
			} else if blocked {
				sawBlock = true
				o.Probe("blocked_by_first_blocker")
				if be == nil {
					o.Fail("C16.block-ignored", step, "entry %d: rule-check slot %d blocked but the request was admitted", k, blockBy)
					return o
				}
				wantType := base.BlockTypeFlow
				wantMsg := fmt.Sprintf("blocked by slot %d for entry %d", blockBy, k)
				wantRule, wantVal := fmt.Sprintf("rule-of-slot-%d", blockBy), interface{}(float64(blockBy*1000+k))
				switch scriptOf(blockBy, k) {
				case sBlockPooled:
					wantType = base.BlockTypeIsolation
				case sBlockCached:
					wantType, wantMsg, wantVal = base.BlockTypeCircuitBreaking, fmt.Sprintf("blocked by slot %d (its one result object)", blockBy), interface{}(float64(blockBy*1000))
					o.Probe("blocked_with_the_slots_own_result_object")
				case sBlockRearm:
					// the slot armed its own result for THIS entry: nothing of what it armed it with for an earlier one may show
					o.Probe("blocked_with_a_result_armed_anew_for_this_entry")
					switch k % 3 {
					case 0:
						wantMsg, wantVal = fmt.Sprintf("re-armed by slot %d for entry %d", blockBy, k), interface{}(float64(blockBy*1000+k))
					case 1:
						wantType, wantMsg, wantRule, wantVal = base.BlockTypeIsolation, fmt.Sprintf("re-armed by slot %d for entry %d", blockBy, k), "", nil
					default:
						wantType, wantMsg, wantRule, wantVal = base.BlockTypeSystemFlow, "", "", nil
					}
				case sBlockBare:
					// blocked in place with the type only: nothing else may be carried, in particular nothing that an
					// earlier entry left in the pooled result
					wantType, wantMsg, wantRule, wantVal = base.BlockTypeSystemFlow, "", "", nil
					o.Probe("blocked_in_place_with_partial_cause")
				case sBlockMsg:
					wantType, wantRule, wantVal = base.BlockTypeHotSpotParamFlow, "", nil
					o.Probe("blocked_in_place_with_partial_cause")
				}
				gotRule := ""
				if be.TriggeredRule() != nil {
					gotRule = be.TriggeredRule().ResourceName()
				}
				if be.BlockType() != wantType || be.BlockMsg() != wantMsg || be.TriggeredValue() != wantVal || gotRule != wantRule {
					o.Fail("C16.wrong-block-error", step, "entry %d: returned block error {%s %q %q %v}, the first blocking slot %d produced {%s %q %q %v}", k, be.BlockType(), be.BlockMsg(), gotRule, be.TriggeredValue(), blockBy, wantType, wantMsg, wantRule, wantVal)
					return o
				}
				snaps = append(snaps, beSnap{be, be.BlockType(), be.BlockMsg(), be.TriggeredRule(), be.TriggeredValue(), k})
				m.exited = true
			} else {
				if be != nil {
					o.Fail("C16.spurious-block", step, "entry %d: no slot blocked but the request was blocked: %v", k, be)
					return o
				}
				m.passed = true
			}
			if m.e != nil && k < len(cfg.ExitP) && cfg.ExitP[k] {
				m.exitP = true
				m.e.WhenExit(func(*base.SentinelEntry, *base.EntryContext) error {
					panic(fmt.Sprintf("scripted panic in exit handler of entry %d", k))
				})
			}
		case "plain":
			// A request on the global chain with no option stated: the scripted chain of the entries around it is not
			// its chain (none of its slots may hear of it), and it carries the documented defaults whatever the pooled
			// option object carried for the entry before it.
			var pe *base.SentinelEntry
			var pbe *base.BlockError
			harness.Call(o, "C16.panic-escaped-entry", step, func() { pe, pbe = sentinel.Entry("c16-plain") })
			if o.Failed() {
				return o
			}
			if pbe != nil || pe == nil {
				o.Fail("C16.plain-request-blocked", step, "a request of a resource without rules on the global chain was blocked: %v", pbe)
				return o
			}
			if in := pe.Context().Input; in == nil || in.Flag != 0 || in.BatchCount != 1 || len(in.Args) != 0 || len(in.Attachments) != 0 ||
				pe.Resource().FlowType() != base.Outbound || pe.Resource().Classification() != base.ResTypeCommon {
				o.Fail("C16.plain-request-inherited-options", step, "a request made without options carries flag %d batch %d args %v attachments %v traffic type %v resource type %v: defaults are 0, 1, none, none, Outbound, Common", in.Flag, in.BatchCount, in.Args, in.Attachments, pe.Resource().FlowType(), pe.Resource().Classification())
				return o
			}
			harness.Call(o, "C16.panic-escaped-exit", step, func() { pe.Exit() })
			if o.Failed() {
				return o
			}
			if got := w.log[logStart:]; len(got) != 0 {
				o.Fail("C16.slots-of-another-chain-called", step, "a request that named no chain (global chain) made the scripted chain's slots run: %v", fmtLog(got))
				return o
			}
			o.Probe("plain_request_between_scripted_ones")
		case "exit":
			m := ents[op.E]
			if m == nil || m.e == nil {
				continue
			}
			first := !m.exited
			harness.Call(o, "C16.panic-escaped-exit", step, func() { m.e.Exit() })
			if o.Failed() {
				return o
			}
			got := w.log[logStart:]
			if first {
				m.exited = true
				if m.exitP {
					o.Probe("exit_handler_panicked")
					sawPanic = true
				}
				doneP := false
				for _, id := range byKind[2] {
					if m.passed && scriptOf(id, op.E) == sPanicDone {
						doneP = true
					}
				}
				if doneP && !m.panicked {
					// (the call above has shown that the panic stayed inside Exit)
					o.Probe("panic_at_completion")
					sawPanic = true
				}
				if !m.panicked && !m.exitP && !doneP {
					var want []logRec
					for _, id := range byKind[2] {
						want = append(want, logRec{op.E, id, "completed"})
					}
					if !sameLog(got, want) {
						o.Fail("C16.completion", step, "exit of passed entry %d: statistic slots were called as %v, expected %v", op.E, fmtLog(got), fmtLog(want))
						return o
					}
				}
			} else if len(got) != 0 {
				o.Fail("C16.repeated-exit-called-slots", step, "repeated Exit of entry %d called slots: %v", op.E, fmtLog(got))
				return o
			}
		}
		// block errors handed out earlier are unchanged
		for _, s := range snaps {
			if s.be.BlockType() != s.typ || s.be.BlockMsg() != s.msg || s.be.TriggeredRule() != s.rule || s.be.TriggeredValue() != s.value {
				o.Fail("C16.block-error-changed", step, "the block error returned for entry %d was {%s %q %v %v} and now reads {%s %q %v %v}", s.entry, s.typ, s.msg, s.rule, s.value, s.be.BlockType(), s.be.BlockMsg(), s.be.TriggeredRule(), s.be.TriggeredValue())
				return o
			}
			if step > 0 {
				o.Probe("block_error_checked_after_reuse")
			}
		}
	}
	o.Nontrivial = sawBlock && sawPanic && collide
	return o
}

func sameLog(a, b []logRec) bool {
	if len(a) != len(b) {
		return false
	}
	for i := range a {
		if a[i] != b[i] {
			return false
		}
	}
	return true
}

func fmtLog(l []logRec) []string {
	var s []string
	for _, r := range l {
		s = append(s, fmt.Sprintf("e%d:slot%d:%s", r.entry, r.slot, r.what))
	}
	return s
}
