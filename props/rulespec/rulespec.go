// Package rulespec builds rule objects of every module from a small literal
// specification (module, resource, variant). Variants 0 and 1 are valid (0 never
// blocks a probe, 1 always blocks it); variants >= 2 are invalid in exactly one
// way and are built so that they WOULD block a probe if they were enforced.
package rulespec

import (
	"fmt"
	"math"
	"reflect"

	cb "github.com/alibaba/sentinel-golang/core/circuitbreaker"
	"github.com/alibaba/sentinel-golang/core/flow"
	"github.com/alibaba/sentinel-golang/core/hotspot"
	"github.com/alibaba/sentinel-golang/core/isolation"
	"github.com/alibaba/sentinel-golang/core/outlier"
	"github.com/alibaba/sentinel-golang/core/system"
)

const (
	Flow = iota
	Isolation
	Hotspot
	Breaker
	System
	Outlier
	NumModules
)

var ModuleName = []string{"flow", "isolation", "hotspot", "circuitbreaker", "system", "outlier"}

// Strategies registered by this package (as a user would, through the Set...Generator functions) whose
// generators decline every rule: such a rule passes the validity check, but nothing can enforce it. (The flow
// module's generator type names an unexported type: no user outside the package can register one.)
const (
	DeclinedCbStrategy  = cb.Strategy(101)
	DeclinedHotBehavior = hotspot.ControlBehavior(101)
	// ... and strategies whose generators panic: a load that reaches them is abandoned as a whole
	PanickingCbStrategy  = cb.Strategy(102)
	PanickingHotBehavior = hotspot.ControlBehavior(102)
)

func init() {
	if err := cb.SetCircuitBreakerGenerator(DeclinedCbStrategy, func(*cb.Rule, interface{}) (cb.CircuitBreaker, error) {
		return nil, fmt.Errorf("declined")
	}); err != nil {
		panic(err)
	}
	if err := cb.SetCircuitBreakerGenerator(PanickingCbStrategy, func(*cb.Rule, interface{}) (cb.CircuitBreaker, error) {
		panic("this strategy cannot be built")
	}); err != nil {
		panic(err)
	}
	if err := hotspot.SetTrafficShapingGenerator(PanickingHotBehavior, func(*hotspot.Rule, *hotspot.ParamsMetric) hotspot.TrafficShapingController {
		panic("this behaviour cannot be built")
	}); err != nil {
		panic(err)
	}
	if err := hotspot.SetTrafficShapingGenerator(DeclinedHotBehavior, func(*hotspot.Rule, *hotspot.ParamsMetric) hotspot.TrafficShapingController {
		return nil
	}); err != nil {
		panic(err)
	}
}

// NumVariants per module (0,1 valid; others invalid).
var NumVariants = []int{14, 5, 12, 13, 6, 8}

type RS struct {
	M   int  `json:"m"`
	Res int  `json:"res"` // resource index; -1 = empty resource name
	Var int  `json:"var"`
	Nil bool `json:"nil,omitempty"`
	Idx int  `json:"idx"` // unique index (becomes the rule id)
	// Tw perturbs one field that does not affect validity or probe decisions (queueing time, burst,
	// retry timeout ...): a reload that changes only that field must still replace the rule.
	Tw int `json:"tw,omitempty"`
	// Hid perturbs one further field (a different one per value, see hidden*) WITHOUT showing in the rule id: two
	// loads can then carry "the same rule" (same id) with one field edited, which is how rules are edited in
	// practice and what a hand-written equality that forgets a field gets wrong. Only applied to valid variants.
	Hid int `json:"hid,omitempty"`
}

// NumHidden is the number of hidden perturbations per module (0 = none).
var NumHidden = []int{19, 2, 11, 10, 3, 4}

// ID encodes the rule's content class (module, resource, variant) and its table index. Rule
// managers reuse the controller (and the rule object) of an earlier load for a rule that is
// field-for-field identical, so reported rules are compared by content class, see Sig.
func (r RS) ID() string {
	return fmt.Sprintf("%s/r%d/v%d/t%d#%d", ModuleName[r.M], r.Res, r.Var, r.Tw, r.Idx)
}

// Sig strips the table index from a rule id.
func Sig(id string) string {
	for i := len(id) - 1; i >= 0; i-- {
		if id[i] == '#' {
			return id[:i]
		}
	}
	return id
}

func (r RS) Valid() bool {
	if r.Nil || r.Var < 0 || r.Var > 1 {
		return false
	}
	if r.M != System && r.Res < 0 {
		return false
	}
	return true
}

// NotANumber: the variant carries a NaN (such a rule is not even equal to itself, and cannot be written in JSON).
func (r RS) NotANumber() bool {
	return !r.Nil && ((r.M == Flow && r.Var == 12) || (r.M == Breaker && r.Var == 11) || (r.M == System && r.Var == 5) || (r.M == Outlier && r.Var == 7))
}

// Aborts: a load that gets as far as building this rule is abandoned as a whole (its generator panics): it
// returns an error and changes nothing.
func (r RS) Aborts() bool {
	return !r.Nil && r.Res >= 0 && ((r.M == Hotspot && r.Var == 11) || (r.M == Breaker && r.Var == 12))
}

// NotJSON: the variant cannot be written in JSON.
func (r RS) NotJSON() bool { return r.NotANumber() || (r.M == Flow && r.Var == 13) }

func (r RS) Blocker() bool {
	// (a hot-parameter rule with a high threshold whose table of specific values bars the very value the probes
	// carry blocks them too)
	return r.Valid() && (r.Var == 1 || (r.M == Hotspot && r.Var == 0 && r.Hid == 9))
}

func ResName(i int) string {
	if i < 0 {
		return ""
	}
	return fmt.Sprintf("res-%d", i)
}

func BuildFlow(r RS) *flow.Rule {
	if r.Nil {
		return nil
	}
	x := &flow.Rule{ID: r.ID(), Resource: ResName(r.Res), TokenCalculateStrategy: flow.Direct, ControlBehavior: flow.Reject, Threshold: 1e9, MaxQueueingTimeMs: uint32(r.Tw) * 10}
	switch r.Var {
	case 1:
		x.Threshold = 0
	case 2:
		x.Threshold = -1
	case 3:
		x.Threshold, x.TokenCalculateStrategy = 0, flow.TokenCalculateStrategy(-1)
	case 4:
		x.Threshold, x.ControlBehavior = 0, flow.ControlBehavior(-2)
	case 5:
		x.Threshold, x.RelationStrategy = 0, flow.RelationStrategy(5)
	case 6:
		x.Threshold, x.RelationStrategy, x.RefResource = 0, flow.AssociatedResource, ""
	case 7:
		x.Threshold, x.TokenCalculateStrategy, x.WarmUpPeriodSec = 0, flow.WarmUp, 0
	case 8:
		x.Threshold, x.TokenCalculateStrategy, x.WarmUpPeriodSec, x.WarmUpColdFactor = 0, flow.WarmUp, 5, 1
	case 9:
		x.TokenCalculateStrategy = flow.MemoryAdaptive
		x.LowMemUsageThreshold, x.HighMemUsageThreshold, x.MemLowWaterMarkBytes, x.MemHighWaterMarkBytes = 0, 0, 1024, 2048
	case 10:
		x.TokenCalculateStrategy = flow.MemoryAdaptive
		x.LowMemUsageThreshold, x.HighMemUsageThreshold, x.MemLowWaterMarkBytes, x.MemHighWaterMarkBytes = 1, 2, 1024, 2048
	case 11:
		x.TokenCalculateStrategy = flow.MemoryAdaptive
		x.LowMemUsageThreshold, x.HighMemUsageThreshold, x.MemLowWaterMarkBytes, x.MemHighWaterMarkBytes = 2, 1, 4096, 2048
	case 12:
		// not a number: compares false with everything, a rule with it limits nothing
		x.Threshold = math.NaN()
	case 13:
		x.Threshold = math.Inf(1)
	}
	if r.Var <= 1 {
		switch r.Hid {
		case 1:
			x.StatIntervalInMs = 2000
		case 2:
			x.WarmUpPeriodSec = 7
		case 3:
			x.WarmUpColdFactor = 5
		case 4:
			x.LowMemUsageThreshold = 5
		case 5:
			// a throttling rule (the queueing time, perturbed by Tw, matters only for this behaviour); threshold 0
			// blocks under throttling as it does under reject
			x.ControlBehavior = flow.Throttling
		case 6, 7, 8, 9, 10:
			// memory-adaptive rules that differ from each other in exactly one field (never block: thresholds of
			// 4e8 and more; only for the non-blocking variant, a memory-adaptive rule cannot have threshold 0)
			if r.Var == 0 {
				x.TokenCalculateStrategy = flow.MemoryAdaptive
				x.LowMemUsageThreshold, x.HighMemUsageThreshold, x.MemLowWaterMarkBytes, x.MemHighWaterMarkBytes = 1000000000, 500000000, 4096, 8192
				switch r.Hid {
				case 7:
					x.MemHighWaterMarkBytes = 16384
				case 8:
					x.MemLowWaterMarkBytes = 2048
				case 9:
					x.LowMemUsageThreshold = 2000000000
				case 10:
					x.HighMemUsageThreshold = 400000000
				}
			}
		case 11, 12, 13:
			// warm-up rules that differ in exactly one field (threshold 0 blocks under warm-up too)
			x.TokenCalculateStrategy, x.WarmUpPeriodSec, x.WarmUpColdFactor = flow.WarmUp, 5, 3
			if r.Hid == 12 {
				x.WarmUpPeriodSec = 7
			}
			if r.Hid == 13 {
				x.WarmUpColdFactor = 5
			}
		case 16:
			// a threshold that differs from the plain blocker's by less than any tolerance a float comparison might
			// allow itself (it still blocks every request: 0 + batch > 1e-9)
			if r.Var == 1 {
				x.Threshold = 1e-9
			}
		case 17, 18:
			// statistic intervals of weeks (the field is a uint32 of milliseconds; whatever the manager derives from it
			// must not wrap): the rule counts per 2^31 ms / 3e9 ms
			x.StatIntervalInMs = []uint32{1 << 31, 3000000000}[r.Hid-17]
		case 14, 15:
			// rules on an associated resource nobody enters (count 0: threshold 0 still blocks, 1e9 never does)
			x.RelationStrategy, x.RefResource = flow.AssociatedResource, "ref-a"
			if r.Hid == 15 {
				x.RefResource = "ref-b"
			}
		}
	}
	return x
}

func BuildIsolation(r RS) *isolation.Rule {
	if r.Nil {
		return nil
	}
	x := &isolation.Rule{ID: r.ID(), Resource: ResName(r.Res), MetricType: isolation.Concurrency, Threshold: 1000000 + uint32(r.Tw)}
	switch r.Var {
	case 1:
		x.Threshold = 2 - uint32(r.Tw%2) // probes use batch 3
	case 2:
		x.Threshold = 0
	case 3:
		x.Threshold, x.MetricType = 1, isolation.MetricType(1)
	case 4:
		x.Threshold, x.MetricType = 1, isolation.MetricType(-1)
	}
	if r.Var == 0 && r.Hid == 1 {
		x.Threshold += 100
	}
	return x
}

func BuildHotspot(r RS) *hotspot.Rule {
	if r.Nil {
		return nil
	}
	x := &hotspot.Rule{ID: r.ID(), Resource: ResName(r.Res), MetricType: hotspot.QPS, ControlBehavior: hotspot.Reject, ParamIndex: 0, Threshold: 1000000, DurationInSec: 1, ParamsMaxCapacity: int64(100 + r.Tw)}
	switch r.Var {
	case 1:
		x.Threshold = 0
	case 2:
		x.Threshold = -1
	case 3:
		x.Threshold, x.MetricType = 0, hotspot.MetricType(-1)
	case 4:
		x.Threshold, x.ControlBehavior = 0, hotspot.ControlBehavior(-1)
	case 5:
		x.Threshold, x.DurationInSec = 0, 0
	case 6:
		x.Threshold, x.ParamIndex, x.ParamKey = 0, 1, "k"
	case 7:
		x.Threshold, x.BurstCount = 0, -1
	case 8:
		x.Threshold, x.ControlBehavior, x.MaxQueueingTimeMs = 0, hotspot.Throttling, -1
	case 9:
		x.Threshold, x.DurationInSec = 0, -3
	case 10:
		// a user-registered behaviour whose generator declines the rule
		x.Threshold, x.ControlBehavior = 0, DeclinedHotBehavior
	case 11:
		// a user-registered behaviour whose generator panics: the load is abandoned (see Aborts)
		x.Threshold, x.ControlBehavior = 0, PanickingHotBehavior
	}
	if r.Var <= 1 {
		switch r.Hid {
		// only fields that matter to a QPS/Reject rule (the queueing time of a Reject rule is not compared by the
		// manager and not used by the controller, so a stale value there is not an observable difference)
		case 1:
			if r.Var == 0 {
				x.BurstCount = 3
			}
		case 2:
			x.SpecificItems = map[interface{}]int64{"zz": 5}
		case 3:
			x.DurationInSec = 2
		case 4, 5:
			// throttling rules that differ in the queueing time only (threshold 0 blocks under throttling too)
			x.ControlBehavior, x.MaxQueueingTimeMs = hotspot.Throttling, 5
			if r.Hid == 5 {
				x.MaxQueueingTimeMs = 7
			}
		case 6:
			// selected by attachment key instead of position (non-blocking variant only: probes carry no attachment)
			if r.Var == 0 {
				x.ParamKey = "k"
			}
		case 7:
			// a field the Reject controller never reads: the decisions cannot change, what is reported must
			x.MaxQueueingTimeMs = 9
		case 8:
			// likewise for a throttling rule: the burst count
			x.ControlBehavior, x.MaxQueueingTimeMs, x.BurstCount = hotspot.Throttling, 5, 4
		case 9, 10:
			// two tables of specific values of the same size that bar (threshold 0) different values: 9 bars the
			// value the probes carry (the int 1), 10 another one. (A comparison of tables that reads a missing key as
			// 0 takes them for equal and keeps the controller of the older one.)
			if r.Var == 0 {
				x.SpecificItems = map[interface{}]int64{r.Hid - 8: 0}
			}
		}
	}
	return x
}

func BuildBreaker(r RS) *cb.Rule {
	if r.Nil {
		return nil
	}
	x := &cb.Rule{Id: r.ID(), Resource: ResName(r.Res), Strategy: cb.ErrorCount, RetryTimeoutMs: 3600000 + uint32(r.Tw), MinRequestAmount: 1000000, StatIntervalMs: 10000, Threshold: 1000000}
	switch r.Var {
	case 1: // trips on the first failed completion (probes never fail, so it never trips there)
		x.MinRequestAmount, x.Threshold = 0, 1
	case 2:
		x.MinRequestAmount, x.Threshold = 0, -0.5
	case 3:
		x.MinRequestAmount, x.Threshold, x.StatIntervalMs = 0, 0, 0
	case 4:
		x.MinRequestAmount, x.Threshold, x.RetryTimeoutMs = 0, 0, 0
	case 5:
		x.MinRequestAmount, x.Strategy, x.Threshold = 0, cb.ErrorRatio, 1.5
	case 6:
		x.MinRequestAmount, x.Strategy, x.Threshold = 0, cb.SlowRequestRatio, 1.5
	case 7:
		x.MinRequestAmount, x.Strategy, x.Threshold = 0, cb.ErrorRatio, -1
	case 8:
		x.MinRequestAmount, x.Strategy, x.Threshold = 0, cb.SlowRequestRatio, -0.1
	case 9:
		// a strategy nobody registered a breaker generator for: no breaker can exist, so it must not be reported
		x.MinRequestAmount, x.Strategy, x.Threshold = 0, cb.Strategy(7), 0
	case 10:
		// a user-registered strategy whose generator declines the rule (returns an error): no breaker exists
		x.MinRequestAmount, x.Strategy, x.Threshold = 0, DeclinedCbStrategy, 0
	case 11:
		// not a number: no count or ratio ever "reaches" it
		x.MinRequestAmount, x.Threshold = 0, math.NaN()
	case 12:
		// a user-registered strategy whose generator panics: the load is abandoned (see Aborts)
		x.MinRequestAmount, x.Strategy, x.Threshold = 0, PanickingCbStrategy, 0
	}
	if r.Var <= 1 {
		switch r.Hid {
		// only fields that matter to an ErrorCount breaker (MaxAllowedRtMs does not, and is not compared)
		case 1:
			x.MinRequestAmount++
		case 2:
			x.StatSlidingWindowBucketCount = 2
		case 3:
			x.ProbeNum = 2
		case 4, 5, 6:
			// slow-request-ratio breakers that differ in exactly one field (never trip: a million requests needed)
			if r.Var == 0 {
				x.Strategy, x.MaxAllowedRtMs, x.Threshold = cb.SlowRequestRatio, 100, 0.5
				if r.Hid == 5 {
					x.MaxAllowedRtMs = 10
				}
				if r.Hid == 6 {
					x.Threshold = 0.6
				}
			}
		case 9:
			// an error-count threshold a hair above the plain one (a count reaches it one error later)
			if r.Var == 1 {
				x.Threshold = 1.000000001
			}
		case 7, 8:
			if r.Var == 0 {
				x.Strategy, x.Threshold = cb.ErrorRatio, 0.5
				if r.Hid == 8 {
					x.Threshold = 0.6
				}
			}
		}
	}
	return x
}

func BuildSystem(r RS) *system.Rule {
	if r.Nil {
		return nil
	}
	x := &system.Rule{ID: r.ID(), MetricType: system.Concurrency, TriggerCount: 1e9 + float64(r.Tw), Strategy: system.NoAdaptive}
	switch r.Var {
	case 1:
		x.TriggerCount = 0
	case 2:
		x.TriggerCount = -1
	case 3:
		x.TriggerCount, x.MetricType = 0, system.MetricType(99)
	case 4:
		x.MetricType, x.TriggerCount = system.CpuUsage, 1.5
	case 5:
		// not a number: "the value is below the trigger" is false for every value, the rule would block everything
		x.TriggerCount = math.NaN()
	}
	if r.Var <= 1 {
		switch r.Hid {
		case 1:
			x.Strategy = system.BBR
		case 2:
			if r.Var == 0 {
				x.TriggerCount += 0.5
			}
		}
	}
	return x
}

func BuildOutlier(r RS) *outlier.Rule {
	if r.Nil {
		return nil
	}
	x := &outlier.Rule{Rule: &cb.Rule{Id: r.ID(), Resource: ResName(r.Res), Strategy: cb.ErrorCount, RetryTimeoutMs: 1000, MinRequestAmount: 1, StatIntervalMs: 1000, Threshold: 1},
		MaxEjectionPercent: 0.5, RecoveryIntervalMs: 1000 + uint32(r.Tw), MaxRecoveryAttempts: 3}
	switch r.Var {
	case 1:
		x.MaxEjectionPercent = 1
	case 2:
		x.MaxEjectionPercent = 1.5
	case 3:
		x.MaxEjectionPercent = -0.1
	case 4:
		x.Rule.StatIntervalMs = 0
	case 5:
		x.Rule = nil
	case 6:
		// a strategy for which no breaker can be generated: a rule that could never eject anything
		x.Rule.Strategy = cb.Strategy(7)
	case 7:
		x.MaxEjectionPercent = math.NaN()
	}
	if r.Var <= 1 {
		switch r.Hid {
		case 1:
			x.MaxRecoveryAttempts = 4
		case 2:
			x.Rule.RetryTimeoutMs = 2000
		case 3:
			x.Rule.MinRequestAmount = 2
		}
	}
	return x
}

// Token renders a rule as "<every field but the id> @<id>": what the checks compare reported and enforced rules
// by (Sig strips the table index from the trailing id).
func Token(rule interface{}) string {
	if v := reflect.ValueOf(rule); !v.IsValid() || (v.Kind() == reflect.Ptr && v.IsNil()) {
		return "<nil>"
	}
	switch x := rule.(type) {
	case *flow.Rule:
		c := *x
		c.ID = ""
		return fmt.Sprintf("%+v @%s", c, x.ID)
	case *isolation.Rule:
		c := *x
		c.ID = ""
		return fmt.Sprintf("%+v @%s", c, x.ID)
	case *hotspot.Rule:
		c := *x
		c.ID = ""
		return fmt.Sprintf("%+v @%s", c, x.ID)
	case *cb.Rule:
		c := *x
		c.Id = ""
		return fmt.Sprintf("%+v @%s", c, x.Id)
	case *system.Rule:
		c := *x
		c.ID = ""
		return fmt.Sprintf("%+v @%s", c, x.ID)
	case *outlier.Rule:
		if x.Rule == nil {
			return fmt.Sprintf("%+v @nil", *x)
		}
		in := *x.Rule
		in.Id = ""
		return fmt.Sprintf("%+v {EnableActiveRecovery:%v MaxEjectionPercent:%v RecoveryIntervalMs:%v RecycleIntervalS:%v MaxRecoveryAttempts:%v} @%s", in,
			x.EnableActiveRecovery, x.MaxEjectionPercent, x.RecoveryIntervalMs, x.RecycleIntervalS, x.MaxRecoveryAttempts, x.Rule.Id)
	}
	return fmt.Sprintf("%v", rule)
}

// Token of the rule built from the specification.
// EnforcedToken is Token without the fields that the controller of the rule never reads (a Reject hot-parameter rule
// has no queue, a throttling one no burst): the controller kept for a rule that came again with another value
// there still holds the older object, and no decision can tell.
func EnforcedToken(rule interface{}) string {
	if x, ok := rule.(*hotspot.Rule); ok && x != nil {
		c := *x
		if c.MetricType == hotspot.QPS && c.ControlBehavior == hotspot.Reject {
			c.MaxQueueingTimeMs = 0
		}
		if c.MetricType == hotspot.QPS && c.ControlBehavior == hotspot.Throttling {
			c.BurstCount = 0
		}
		return Token(&c)
	}
	return Token(rule)
}

func (r RS) EnforcedToken() string {
	if r.M == Hotspot {
		return EnforcedToken(BuildHotspot(r))
	}
	return r.Token()
}

func (r RS) Token() string {
	switch r.M {
	case Flow:
		return Token(BuildFlow(r))
	case Isolation:
		return Token(BuildIsolation(r))
	case Hotspot:
		return Token(BuildHotspot(r))
	case Breaker:
		return Token(BuildBreaker(r))
	case System:
		return Token(BuildSystem(r))
	}
	return Token(BuildOutlier(r))
}
