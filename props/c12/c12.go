// Package c12: breaker transitions are atomic and probes exclusive under
// concurrency (engine E2: seeded interleaving at every atomic access of
// TryPass / OnRequestComplete / from*To*, clock ticks around the deadline).
package c12

import (
	"encoding/json"
	"errors"
	"fmt"
	"math"
	"os"

	sentinel "github.com/alibaba/sentinel-golang/api"
	"github.com/alibaba/sentinel-golang/core/base"
	cb "github.com/alibaba/sentinel-golang/core/circuitbreaker"

	"verif/harness"
	"verif/model"
	"verif/sim"
)

type Cfg struct {
	Origin  uint64            `json:"origin_ms"`
	Rule    model.BreakerRule `json:"rule"`
	Prelude int               `json:"prelude"`  // 0 fresh closed, 1 closed near trip, 2 open near deadline, 3 half-open with a held probe
	Delta   uint64            `json:"delta_ms"` // distance to the deadline at the start of the concurrent section (prelude 2)
	// Counting: a breaker that never trips (huge threshold) over a short window of small buckets, ticks of a few
	// milliseconds: completions race with bucket rollovers; at quiescence none of them may be missing from the window
	Counting bool `json:"counting,omitempty"`
	// Later: a rule-check slot behind the breaker's blocks some requests (op.M==1): a probe blocked there
	// returns the breaker to Open from its exit hook. Straggler: the prelude leaves a request that was admitted
	// while the breaker was still closed in flight (held by the last caller).
	Later     bool `json:"later,omitempty"`
	Straggler bool `json:"straggler,omitempty"`
}

type P struct{}

func init() { harness.Register(P{}) }

func (P) ID() string     { return "C12" }
func (P) Engine() string { return "E2" }

func (P) Describe() harness.Description {
	return harness.Description{
		MustHit: []string{"blocked_probe_handed_the_breaker_back", "straggler_from_the_closed_period_in_flight", "window_counts_checked_after_concurrent_rollover", "half_open_timing_checked", "probe_exclusivity_checked", "open_period_checked", "transition_overlaps_other_caller"},
		Level:   "exploration",
		Rule: "case = (one breaker of any strategy with small minimum amount and retry timeout, sequential prelude leaving it fresh / near trip / open just before its deadline / half-open with a held probe; 2-3 callers with 1-4 Entry / complete operations each; tick plan around the retry timeout). The scheduler interleaves at every atomic access of TryPass, OnRequestComplete and the transition helpers. " +
			"History oracles stamped with event sequence numbers: (a) the multiset of listener events is a legal path from the prelude state to the final state (each transition once, correct previous state); (b) every Open->HalfOpen happens >= retry timeout after the invocation of the earliest call that could have opened the breaker for that open period; (c) with no probe number, after a passage to half-open no other request invoked afterwards is admitted and returns before the call that emits the next transition is invoked; (d) no request other than the probe is admitted wholly inside a certainly-open period; (h) with a probe number N a passage to half-open (roll-backs of blocked probes do not end it) is closed only when N successful completions can belong to it; (i) a closed error-count breaker at quiescence has not seen its threshold in failures invoked after the last close inside the final window; (g) after a HalfOpen->Closed an error-count breaker (threshold >= 2) opens again only if at least threshold failed completions were not over before the closing call began and were invoked before the opening was reported. " +
			"non-trivial = at least one transition happened while another caller was inside an operation; distinct = hash(config, ops, schedule)",
		Assumptions: []string{"one breaker on the resource; the probe roll-back path is driven by a scripted rule-check slot behind the breaker slot (35 % of the cases)", "a probe blocked behind the breaker returns it to the open period it interrupted (retry timeout not renewed): a request probing right after that is not a violation", "facts are used as premises only when certain from invoke/return order; overlapping cases are skipped, never guessed", "the final state is read through the overlay-only accessor circuitbreaker.VerifBreakersOf"},
		Real:        []string{"api.Entry/TraceError/Exit", "core/circuitbreaker (slot, stat slot, breakers, listeners)", "core/stat/base.LeapArray"},
		Stub:        []string{"util.Clock (virtual clock)", "goroutine scheduling (cooperative seeded scheduler)", "sync.Pool (SimPool)"},
	}
}

func (P) Gen(rng *sim.Rng, tier string) *harness.Case {
	cfg := Cfg{Origin: 1700000000000 + rng.U64Range(0, 100000), Prelude: rng.Intn(4)}
	r := model.BreakerRule{Strategy: rng.Intn(3), StatMs: 10000, Buckets: 1}
	r.RetryMs = []uint64{5, 20, 100, 500}[rng.Intn(4)]
	r.MinReq = uint64(rng.Range(1, 3))
	r.ProbeNum = uint64([]int{0, 0, 0, 1, 2}[rng.Intn(5)])
	switch r.Strategy {
	case model.SlowRatio:
		r.MaxRt = 1000000 // never slow by duration; "failed" completions are modelled through errors only for ratio strategies
		r.Strategy = model.ErrRatio
		r.Threshold = []float64{0.5, 1.0, 0.2}[rng.Intn(3)]
	case model.ErrRatio:
		r.Threshold = []float64{0.5, 1.0, 0.2}[rng.Intn(3)]
	default:
		r.Threshold = float64(rng.Range(1, 3))
	}
	if rng.Chance(0.25) {
		cfg.Counting, cfg.Prelude = true, 0
		r.Strategy = []int{model.ErrCount, model.ErrRatio}[rng.Intn(2)]
		r.Threshold, r.MinReq = 1000, 1
		if r.Strategy == model.ErrRatio {
			r.Threshold, r.MinReq = 1.0, 1000000
		}
		r.StatMs = []uint64{20, 40, 100}[rng.Intn(3)]
		r.Buckets = []uint32{2, 4, 5}[rng.Intn(3)]
	}
	cfg.Rule = r
	cfg.Delta = []uint64{0, 1, 2, r.RetryMs / 2}[rng.Intn(4)]
	k := rng.Range(2, 3)
	duel := false
	if !cfg.Counting && rng.Chance(0.35) {
		cfg.Later = true
		cfg.Straggler = cfg.Prelude >= 2 && rng.Chance(0.6)
		if rng.Chance(0.4) {
			// a blocked probe that is slow to leave, a straggler from the closed period that fails meanwhile,
			// and later requests: open at (or just before) its deadline
			duel = true
			cfg.Prelude, cfg.Straggler = 2, true
			cfg.Delta = uint64(rng.Intn(2))
			cfg.Rule.ProbeNum, r.ProbeNum = 0, 0
		}
	}
	callers := make([][]harness.Op, k)
	for i := range callers {
		held := 0
		if cfg.Prelude == 3 && i == 0 {
			held = 1
		}
		if cfg.Straggler && i == k-1 {
			held++
		}
		for j, m := 0, rng.Range(1, 4); j < m; j++ {
			switch rng.Weighted([]int{35, 35, 30}) {
			case 0:
				if cfg.Later && rng.Chance(0.4) {
					callers[i] = append(callers[i], harness.Op{K: "req", M: 1}) // blocked by the later check if the breaker lets it through
					break
				}
				if cfg.Later && rng.Chance(0.12) {
					// the later check panics: the chain recovers, the request is passed (and held like any other)
					callers[i] = append(callers[i], harness.Op{K: "req", M: 2})
					held++
					break
				}
				callers[i] = append(callers[i], harness.Op{K: "req"})
				held++
			case 1:
				if held > 0 {
					callers[i] = append(callers[i], harness.Op{K: "done", E: rng.Intn(held), F: rng.Chance(0.6)})
				} else {
					callers[i] = append(callers[i], harness.Op{K: "rd", F: rng.Chance(0.6)})
				}
			default:
				callers[i] = append(callers[i], harness.Op{K: "rd", F: rng.Chance(0.6)})
			}
		}
	}
	shaped := false
	if duel {
		shaped = true
		sIdx := 0
		if cfg.Prelude == 3 && k == 1 {
			sIdx = 1
		}
		callers[0] = []harness.Op{{K: "req", M: 1}}
		last := []harness.Op{{K: "done", E: sIdx, F: true}}
		for j, m := 0, rng.Range(1, 3); j < m; j++ {
			last = append(last, harness.Op{K: "req"})
		}
		callers[k-1] = last
		if k == 3 {
			callers[1] = []harness.Op{{K: "req"}, {K: "req"}}[:rng.Range(1, 2)]
		}
	}
	var ticks []uint64
	if shaped {
		ticks = append(ticks, cfg.Delta*1e6)
	}
	for i, n := 0, rng.Range(0, 5); i < n; i++ {
		ticks = append(ticks, []uint64{1, 1, 2, r.RetryMs - 1, r.RetryMs, r.RetryMs + 1, cfg.Delta}[rng.Intn(7)]*1e6)
	}
	if cfg.Counting {
		ticks = nil
		L := r.StatMs / uint64(r.Buckets)
		for i, n := 0, rng.Range(1, 6); i < n; i++ {
			ticks = append(ticks, []uint64{1, 2, L - 1, L, L + 1, L / 2}[rng.Intn(6)]*1e6)
		}
	}
	c := &harness.Case{Cfg: harness.MustJSON(cfg), Callers: callers}
	c.Sched = harness.GenSched(rng, ticks, 400*k)
	c.Sched.MaxSteps = 60000
	if shaped && rng.Chance(0.7) {
		c.Sched.Policy, c.Sched.PCTDepth, c.Sched.StayProb = sim.PolPCT, rng.Range(2, 4), 0
		c.Sched.EstSteps = 150 * k
		c.Sched.TickProb = []float64{0.05, 0.1, 0.3}[rng.Intn(3)]
	}
	c.Pool = harness.GenPool(rng)
	return c
}

type levent struct {
	seq      uint64
	task     int
	from, to int
	t        uint64
	call     *call
}

type call struct {
	task     int
	kind     string // entry | complete
	inv, ret uint64
	tInv     uint64
	tRet     uint64
	bad      bool // complete: with an error
	admitted bool // the breaker let it through (it was admitted, or blocked by the check behind the breaker)
	later    bool // blocked by the check behind the breaker
	// handback: completion of a request that was passed through a recovered panic of the check behind the breaker.
	// The statistic slots hear nothing of it; if it was a probe its exit hook hands the passage back (like a
	// blocked probe: the retry timeout is not renewed)
	handback bool
	of       *call // complete: the Entry call that admitted the request
	done     bool
}

// rollback: a HalfOpen->Open transition that hands a passage back instead of re-opening for a new timeout
func (e *levent) rollback() bool {
	return e.from == model.HalfOpen && e.to == model.Open && e.call != nil && (e.call.kind == "entry" || e.call.handback)
}

// laterCheck is a rule-check slot behind the circuit breaker slot; it blocks the requests its caller marked.
type laterCheck struct {
	block []bool
	boom  []bool
}

func (l *laterCheck) Order() uint32 { return 7000 }
func (l *laterCheck) Check(ctx *base.EntryContext) *base.TokenResult {
	if t := sim.CurTask(); t >= 0 && t < len(l.block) {
		if l.boom[t] {
			panic("scripted panic in a rule-check slot behind the breaker")
		}
		if l.block[t] {
			return base.NewTokenResultBlocked(base.BlockTypeUnknown)
		}
	}
	return nil
}

type listener struct {
	log []*levent
	cur []*call // per task: the API call in flight
	clk *sim.Clock
}

func st(s cb.State) int {
	switch s {
	case cb.Closed:
		return model.Closed
	case cb.HalfOpen:
		return model.HalfOpen
	}
	return model.Open
}
func (l *listener) add(from cb.State, to int) {
	t := sim.CurTask()
	ev := &levent{seq: sim.NextSeq(), task: t, from: st(from), to: to, t: l.clk.NowMs()}
	if t >= 0 && t < len(l.cur) {
		ev.call = l.cur[t]
	}
	l.log = append(l.log, ev)
}
func (l *listener) OnTransformToClosed(prev cb.State, _ cb.Rule) { l.add(prev, model.Closed) }
func (l *listener) OnTransformToOpen(prev cb.State, _ cb.Rule, _ interface{}) {
	l.add(prev, model.Open)
}
func (l *listener) OnTransformToHalfOpen(prev cb.State, _ cb.Rule) { l.add(prev, model.HalfOpen) }

var strat = []cb.Strategy{cb.SlowRequestRatio, cb.ErrorRatio, cb.ErrorCount}

func (P) Exec(c *harness.Case) *harness.Outcome {
	o := harness.NewOutcome()
	var cfg Cfg
	if err := json.Unmarshal(c.Cfg, &cfg); err != nil {
		o.Infra = err.Error()
		return o
	}
	r := cfg.Rule
	if r.StatMs == 0 || r.RetryMs == 0 || r.Strategy < 0 || r.Strategy > 2 || len(c.Callers) == 0 {
		return o
	}
	env := harness.Reset(cfg.Origin*1e6, harness.DefaultGeometry())
	clk := env.Clock
	pc := harness.InstallPool(c)
	defer func() {
		if pc != nil {
			o.PoolLog = append([]int{}, pc.Log...)
		}
		sim.SetPoolCtl(nil)
	}()
	res := "res-0"
	rule := &cb.Rule{Id: "b0", Resource: res, Strategy: strat[r.Strategy], RetryTimeoutMs: uint32(r.RetryMs), MinRequestAmount: r.MinReq,
		StatIntervalMs: uint32(r.StatMs), StatSlidingWindowBucketCount: r.Buckets, MaxAllowedRtMs: r.MaxRt, Threshold: r.Threshold, ProbeNum: r.ProbeNum}
	k := len(c.Callers)
	lis := &listener{clk: clk, cur: make([]*call, k)}
	if !harness.Call(o, "C12.panic", 0, func() {
		cb.RegisterStateChangeListeners(lis)
		if _, err := cb.LoadRules([]*cb.Rule{rule}); err != nil {
			o.Fail("C12.load-error", 0, "%v", err)
		}
	}) || o.Failed() {
		return o
	}
	defer cb.ClearStateChangeListeners()
	var chain *base.SlotChain
	later := &laterCheck{block: make([]bool, k), boom: make([]bool, k)}
	if cfg.Later {
		chain = sentinel.BuildDefaultSlotChain()
		chain.AddRuleCheckSlot(later)
	}
	enter := func() (*base.SentinelEntry, *base.BlockError) {
		if chain != nil {
			return sentinel.Entry(res, sentinel.WithSlotChain(chain))
		}
		return sentinel.Entry(res)
	}
	bizErr := errors.New("biz")
	complete := func(e *base.SentinelEntry, fail bool) {
		if fail {
			sentinel.TraceError(e, bizErr)
		}
		e.Exit()
	}
	// ---- sequential prelude
	startState := model.Closed
	var preArm uint64
	var heldProbe, straggler *base.SentinelEntry
	trip := func() bool {
		if cfg.Straggler {
			straggler, _ = enter()
		}
		for i := 0; i < 8; i++ {
			e, _ := enter()
			if e == nil {
				return true
			}
			complete(e, true)
			if len(lis.log) > 0 && lis.log[len(lis.log)-1].to == model.Open {
				return true
			}
		}
		return false
	}
	harness.Call(o, "C12.panic", 0, func() {
		switch cfg.Prelude {
		case 1:
			if r.MinReq > 1 {
				if e, _ := enter(); e != nil {
					complete(e, false)
				}
			}
		case 2, 3:
			if !trip() {
				return
			}
			preArm = clk.NowMs()
			startState = model.Open
			if cfg.Prelude == 2 {
				d := r.RetryMs
				if cfg.Delta < d {
					d -= cfg.Delta
				}
				clk.AdvanceMs(d)
			} else {
				clk.AdvanceMs(r.RetryMs)
				heldProbe, _ = enter()
				if heldProbe != nil {
					startState = model.HalfOpen
				}
			}
		}
	})
	if o.Failed() {
		return o
	}
	nPre := len(lis.log)
	sim.ResetSeq()
	// ---- concurrent section
	calls := make([][]*call, k)
	harness.RunE2(c, o, "C12", clk, k, func(task int) {
		var held []*base.SentinelEntry
		boomed := map[*base.SentinelEntry]bool{}
		entered := map[*base.SentinelEntry]*call{}
		if task == 0 && heldProbe != nil {
			held = append(held, heldProbe)
		}
		if task == k-1 && straggler != nil {
			held = append(held, straggler)
			o.Probe("straggler_from_the_closed_period_in_flight")
		}
		do := func(kind string, f func(cl *call)) {
			cl := &call{task: task, kind: kind, inv: sim.NextSeq(), tInv: clk.NowMs()}
			lis.cur[task] = cl
			calls[task] = append(calls[task], cl)
			f(cl)
			cl.ret = sim.NextSeq()
			cl.tRet = clk.NowMs()
			cl.done = true
			lis.cur[task] = nil
		}
		for _, op := range c.Callers[task] {
			switch op.K {
			case "req", "rd":
				var e *base.SentinelEntry
				var ecl *call
				do("entry", func(cl *call) {
					ecl = cl
					var be *base.BlockError
					later.block[task], later.boom[task] = op.M == 1, op.M == 2
					e, be = enter()
					later.block[task], later.boom[task] = false, false
					cl.later = be != nil && be.BlockType() == base.BlockTypeUnknown
					cl.admitted = e != nil || cl.later
				})
				if e != nil {
					boomed[e], entered[e] = op.M == 2, ecl
					if op.K == "rd" {
						do("complete", func(cl *call) { cl.bad, cl.handback, cl.of = op.F, boomed[e], entered[e]; complete(e, op.F) })
					} else {
						held = append(held, e)
					}
				}
			case "done":
				if op.E >= 0 && op.E < len(held) && held[op.E] != nil {
					e := held[op.E]
					held[op.E] = nil
					do("complete", func(cl *call) { cl.bad, cl.handback, cl.of = op.F, boomed[e], entered[e]; complete(e, op.F) })
				}
			}
		}
		for _, e := range held {
			if e != nil {
				do("complete", func(cl *call) { cl.handback, cl.of = boomed[e], entered[e]; complete(e, false) })
			}
		}
	}, nil)
	if o.Failed() {
		return o
	}
	evs := lis.log[nPre:]
	if cfg.Counting && len(evs) == 0 {
		// the breaker stayed closed: every completion was recorded into the window and none may be missing
		L := r.StatMs / uint64(r.Buckets)
		T := clk.NowMs()
		lo := T - T%L - (uint64(r.Buckets)-1)*L
		var wantTotal, wantBad uint64
		certain := true
		for _, l := range calls {
			for _, cl := range l {
				if cl.kind != "complete" {
					continue
				}
				b1, b2 := cl.tInv-cl.tInv%L, cl.tRet-cl.tRet%L
				if b1 != b2 {
					certain = false // a tick crossed a bucket boundary during the call: either bucket is right
				}
				if b1 >= lo {
					wantTotal++
					if cl.bad {
						wantBad++
					}
				}
			}
		}
		if bs := cb.VerifBreakersOf(res); certain && len(bs) == 1 {
			if total, bad, ok := cb.VerifBreakerWindow(bs[0]); ok {
				o.Probe("window_counts_checked_after_concurrent_rollover")
				if total != wantTotal || bad != wantBad {
					o.Fail("C12.completion-lost", 0, "the breaker stayed closed; its window [%d,%d] holds total=%d failed=%d, the completions recorded into it are total=%d failed=%d (a completion that raced with a bucket rollover was lost or counted into a discarded counter)", lo, T, total, bad, wantTotal, wantBad)
					return o
				}
			}
		}
	}
	if os.Getenv("C12_DEBUG") != "" {
		for _, e := range evs {
			fmt.Printf("EV seq=%d task=%d %s->%s t=%d\n", e.seq, e.task, model.StateName[e.from], model.StateName[e.to], e.t)
		}
		for _, l := range calls {
			for _, cl := range l {
				fmt.Printf("CALL task=%d %s inv=%d ret=%d t=%d admitted=%v\n", cl.task, cl.kind, cl.inv, cl.ret, cl.tInv, cl.admitted)
			}
		}
	}
	var all []*call
	for _, l := range calls {
		all = append(all, l...)
	}
	// (a) legal path: edge types, Eulerian balance from the prelude state to the final state
	final := startState
	harness.Call(o, "C12.panic", 0, func() {
		if bs := cb.VerifBreakersOf(res); len(bs) == 1 {
			final = st(bs[0].CurrentState())
		}
	})
	// (f) without a probe number a breaker is half-open only while its probe is in flight: every entry has been
	// exited by now, so it cannot be half-open any more - whatever happened to the probe (completed, blocked behind
	// the breaker, passed by a recovered panic) must have ended the passage
	if r.ProbeNum == 0 && final == model.HalfOpen {
		o.Fail("C12.half-open-with-no-probe-in-flight", 0, "every entry has been exited and the breaker is still half-open (transitions %v): nobody is left whose completion could end this passage, and a half-open breaker admits nobody - the resource stays blocked", fmtEvents(evs))
		return o
	}
	var out, in [3]int
	for _, e := range evs {
		legal := (e.from == model.Closed && e.to == model.Open) || (e.from == model.Open && e.to == model.HalfOpen) ||
			(e.from == model.HalfOpen && (e.to == model.Open || e.to == model.Closed))
		if !legal {
			o.Fail("C12.illegal-transition", int(e.seq), "listeners saw %s->%s", model.StateName[e.from], model.StateName[e.to])
			return o
		}
		out[e.from]++
		in[e.to]++
	}
	for s := 0; s < 3; s++ {
		want := 0
		if s == startState {
			want++
		}
		if s == final {
			want--
		}
		if out[s]-in[s] != want {
			o.Fail("C12.transitions-not-a-path", 0, "listener events %v do not form a path from %s to the final state %s (a transition was reported twice, not at all, or with the wrong previous state)", fmtEvents(evs), model.StateName[startState], model.StateName[final])
			return o
		}
	}
	// Possible instant of each transition: Open->HalfOpen is reported with no yield
	// point after its CAS (exact); the others are reported after further atomic
	// accesses, so their CAS lies between the invocation of the emitting call and the report.
	lo := func(e *levent) uint64 {
		if e.from == model.Open || e.call == nil || e.rollback() {
			return e.seq // (the exit hook of a blocked probe reports right after its CAS as well)
		}
		return e.call.inv
	}
	// (e) a probe that is blocked behind the breaker hands back ITS OWN passage to half-open, nobody else's:
	// HalfOpen->Open reported from inside an Entry call comes from that exit hook, and the transition before it
	// must be the Open->HalfOpen of the same call
	for i, e := range evs {
		if !e.rollback() {
			continue
		}
		o.Probe("blocked_probe_handed_the_breaker_back")
		var own *levent
		for _, h := range evs[:i] {
			if (h.call == e.call || (e.call.of != nil && h.call == e.call.of)) && h.from == model.Open && h.to == model.HalfOpen {
				own = h
			}
		}
		bad := own == nil
		if own != nil {
			// both instants are exact; another transition that certainly happened between them ended the passage
			for _, n := range evs {
				if n != own && n != e && lo(n) > own.seq && n.seq < e.seq {
					bad = true
				}
			}
		}
		if bad {
			o.Fail("C12.blocked-probe-ended-another-passage", int(e.seq), "a probe that was blocked behind the breaker reported HalfOpen->Open (seq %d) from its exit hook, but the passage to half-open it ended is not its own: transitions %v (its own passage had ended already; the probe of the current one is still in flight)", e.seq, fmtEvents(evs))
			return o
		}
	}
	// (g) an opening belongs to the closed period it ends. Closing a breaker clears its statistics, so what a
	// Closed->Open after a HalfOpen->Closed can rest on are the failed completions that were not over yet when the
	// closing call began (they may have been counted after the clearing) and that were invoked before the opening
	// was reported. With an error-count threshold of T there must be T of them - a completion that examined the
	// breaker in an EARLIER closed period, with that period's count, must not open this one.
	if r.Strategy == model.ErrCount && r.Threshold >= 2 && r.Threshold == math.Floor(r.Threshold) {
		for i, e := range evs {
			if !(e.from == model.Closed && e.to == model.Open) {
				continue
			}
			var closed *levent
			for _, h := range evs[:i] {
				if h.from == model.HalfOpen && h.to == model.Closed {
					closed = h
				}
			}
			if closed == nil {
				continue // (the first closed period also holds what the prelude left: not judged)
			}
			// Reports can be late: this opening may have been performed long before it was reported - it may be
			// the opening of the period BEFORE that close. It certainly follows the close when its call was invoked
			// after the close was reported, or when it is the second of exactly two openings around the only close
			// of the run and the other one was reported before the passage to half-open (an exact instant) that
			// the close ended.
			certain := e.call != nil && e.call.inv > closed.seq
			if !certain {
				nClose, nOpen, firstBefore := 0, 0, false
				var half *levent
				for _, h := range evs {
					if h.from == model.HalfOpen && h.to == model.Closed {
						nClose++
					}
					if h.from == model.Closed && h.to == model.Open {
						nOpen++
					}
					if h.from == model.Open && h.to == model.HalfOpen && h.seq < closed.seq {
						half = h
					}
				}
				if half != nil {
					for _, h := range evs {
						if h != e && h.from == model.Closed && h.to == model.Open && h.seq < half.seq {
							firstBefore = true
						}
					}
				}
				certain = nClose == 1 && nOpen == 2 && firstBefore && startState == model.Closed
			}
			if !certain {
				continue
			}
			o.Probe("opening_after_a_close_judged")
			// (the clearing lies somewhere inside the closing call, the report of the close comes last)
			cut := closed.seq
			if closed.call != nil {
				cut = closed.call.inv
			}
			n := 0
			for _, c := range all {
				if c.kind == "complete" && c.bad && !c.handback && c.inv < e.seq && (!c.done || c.ret > cut) {
					n++
				}
			}
			if float64(n) < r.Threshold {
				o.Fail("C12.opened-on-the-count-of-an-earlier-period", int(e.seq), "error-count breaker, threshold %v: the breaker was closed (seq %d, statistics cleared) and opened again (seq %d, by caller %d) although at most %d failed completion(s) can have been counted in between - the caller examined the breaker in an earlier closed period and opened this one with that period's count. Transitions %v", r.Threshold, closed.seq, e.seq, e.task, n, fmtEvents(evs))
				return o
			}
		}
	}
	// (h) with a probe number N, a passage to half-open is closed by N successful completions of its own: the ones
	// that were not over before the passage began and were invoked before the close was reported
	if r.ProbeNum >= 1 {
		for i, e := range evs {
			if !(e.from == model.HalfOpen && e.to == model.Closed) {
				continue
			}
			// (a blocked probe hands its passage back without having failed: the passages before and after such a
			// roll-back are one period as far as the count of successful probes goes)
			var began *levent
			unknown := false
			for j := i - 1; j >= 0; j-- {
				h := evs[j]
				if h.from == model.Open && h.to == model.HalfOpen {
					began = h
					continue
				}
				if h.rollback() {
					began = nil
					continue
				}
				break
			}
			if began == nil {
				unknown = true // (the passage the prelude left: what it had seen before is not known here)
			}
			if unknown {
				continue
			}
			if e.call == nil || e.call.inv < began.seq {
				continue // (a late report: the close may belong to an earlier passage)
			}
			o.Probe("closing_of_a_passage_with_probe_number_judged")
			n := uint64(0)
			for _, c := range all {
				if c.kind == "complete" && !c.bad && !c.handback && c.inv < e.seq && (!c.done || c.ret > began.seq) {
					n++
				}
			}
			if n < r.ProbeNum {
				o.Fail("C12.closed-by-fewer-probes-than-required", int(e.seq), "probe number %d: the passage to half-open that began at seq %d was closed at seq %d (by caller %d) although at most %d successful completion(s) can belong to it - a successful probe of an EARLIER passage was counted for this one. Transitions %v", r.ProbeNum, began.seq, e.seq, e.task, n, fmtEvents(evs))
				return o
			}
		}
	}
	// (i) at quiescence a closed error-count breaker has not seen its threshold: failed completions invoked after
	// the last close was reported were all counted after the clearing, and the window is longer than the run
	if r.Strategy == model.ErrCount && !cfg.Counting && final == model.Closed && r.StatMs >= 10000 {
		var last *levent
		for _, e := range evs {
			if e.to == model.Closed {
				last = e
			} else if e.from == model.Closed {
				last = nil
			}
		}
		if last != nil {
			// (only what lies in the aligned window the run ends in: the window is long, but a run can cross its end)
			endT := uint64(0)
			for _, c := range all {
				if c.done && c.tRet > endT {
					endT = c.tRet
				}
			}
			bad, total := 0, uint64(0)
			for _, c := range all {
				if c.kind == "complete" && !c.handback && c.done && c.inv > last.seq && c.tInv/r.StatMs == endT/r.StatMs && c.tRet/r.StatMs == endT/r.StatMs {
					total++
					if c.bad {
						bad++
					}
				}
			}
			if float64(bad) >= math.Ceil(r.Threshold) && r.Threshold >= 1 && total >= r.MinReq {
				o.Fail("C12.threshold-reached-in-a-closed-period-without-opening", 0, "error-count breaker, threshold %v, minimum %d requests: after the close reported at seq %d, %d completion(s) were invoked and finished, %d of them failed, and the breaker is still closed - failures of the new closed period were erased (a second clearing by a probe that did not close)? Transitions %v", r.Threshold, r.MinReq, last.seq, total, bad, fmtEvents(evs))
				return o
			}
		}
	}
	// (b) retry timeout respected
	var prevH *levent
	for _, h := range evs {
		if !(h.from == model.Open && h.to == model.HalfOpen) {
			continue
		}
		have := false
		var tArm uint64
		rolledBack := false
		for _, a := range evs {
			if a.to != model.Open || a.call == nil {
				continue
			}
			if a.rollback() {
				// a blocked probe handed the breaker back from its exit hook: the open period that the probe
				// interrupted goes on, its retry timeout had elapsed already and is not renewed
				if a.seq < h.seq && (prevH == nil || a.seq > prevH.seq) {
					rolledBack = true
				}
				continue
			}
			// the arming call a.call could have opened the breaker for this open period
			if a.call.inv < h.seq && (prevH == nil || a.seq > prevH.seq) {
				if !have || a.call.tInv < tArm {
					tArm = a.call.tInv
				}
				have = true
			}
		}
		if prevH == nil && startState == model.Open {
			if !have || preArm < tArm {
				tArm = preArm
			}
			have = true
		}
		if rolledBack {
			// exactly one transition to Open lies between two passages to half-open, and here it is the hand-back
			o.Probe("probed_again_after_a_blocked_probe")
			prevH = h
			continue
		}
		if !have {
			o.Fail("C12.half-open-without-open", int(h.seq), "Open->HalfOpen at t=%d without a preceding opening transition", h.t)
			return o
		}
		if h.t < tArm+r.RetryMs {
			// Recorded finding: the probing call checked the deadline of an earlier open period
			// (it was invoked before another passage to half-open that happened in between).
			aba := false
			if h.call != nil {
				for _, h2 := range evs {
					if h2 != h && h2.from == model.Open && h2.to == model.HalfOpen && h2.seq > h.call.inv && h2.seq < h.seq {
						aba = true
					}
				}
			}
			if aba {
				o.KnownHit("C12.deadline-checked-before-reopen", "C12.probe-before-retry-timeout", int(h.seq), "Open->HalfOpen at t=%d by a call that checked the deadline before the breaker was probed and re-opened (re-armed by a call invoked at t=%d, retry timeout %d ms)", h.t, tArm, r.RetryMs)
			} else {
				o.Fail("C12.probe-before-retry-timeout", int(h.seq), "Open->HalfOpen at t=%d but the breaker was opened by a call invoked at t=%d and the retry timeout is %d ms", h.t, tArm, r.RetryMs)
				return o
			}
		}
		o.Probe("half_open_timing_checked")
		prevH = h
	}
	// (c) probe exclusivity (no probe number configured)
	if r.ProbeNum == 0 {
		for _, h := range evs {
			if !(h.from == model.Open && h.to == model.HalfOpen) {
				continue
			}
			// half-open certainly lasts until the earliest instant at which any transition
			// reported after this one could have happened
			limit := ^uint64(0)
			for _, n := range evs {
				if n != h && n.seq > h.seq && lo(n) < limit {
					limit = lo(n)
				}
			}
			for _, cl := range all {
				if cl.kind == "entry" && cl.admitted && cl != h.call && cl.inv > h.seq && cl.ret < limit {
					o.Fail("C12.second-probe-admitted", int(cl.ret), "a request invoked after the passage to half-open (seq %d) was admitted (seq %d..%d) before the probe's outcome could have been reported (seq %d)", h.seq, cl.inv, cl.ret, limit)
					return o
				}
			}
			o.Probe("probe_exclusivity_checked")
		}
	}
	// (d) nothing admitted wholly inside a certainly-open period
	for _, a := range evs {
		if a.to != model.Open {
			continue
		}
		certain := true
		limit := ^uint64(0)
		for _, n := range evs {
			if n == a {
				continue
			}
			if n.seq < lo(a) {
				continue // certainly before
			}
			if lo(n) > a.seq {
				if lo(n) < limit {
					limit = lo(n)
				}
				continue // certainly after
			}
			certain = false // overlaps: order unknown
		}
		if !certain {
			continue
		}
		for _, cl := range all {
			if cl.kind == "entry" && cl.admitted && cl.inv > a.seq && cl.ret < limit {
				o.Fail("C12.admitted-while-open", int(cl.ret), "a request (seq %d..%d) was admitted while the breaker was certainly open (opened by seq %d, no other transition possible before seq %d)", cl.inv, cl.ret, a.seq, limit)
				return o
			}
		}
		o.Probe("open_period_checked")
	}
	// non-trivial: a transition overlapped another caller's operation
	for _, e := range evs {
		for _, cl := range all {
			if cl.task != e.task && cl.inv < e.seq && cl.ret > e.seq {
				o.Nontrivial = true
				o.Probe("transition_overlaps_other_caller")
			}
		}
	}
	return o
}

func fmtEvents(evs []*levent) []string {
	var s []string
	for _, e := range evs {
		s = append(s, model.StateName[e.from]+"->"+model.StateName[e.to])
	}
	return s
}
