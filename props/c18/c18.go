// Package c18: datasource payloads are applied faithfully or rejected, never
// half-applied (engine E3: every run executes inside a testing/synctest bubble;
// the file datasource's watcher goroutine is real, its fsnotify events come
// from the simulator through a stub watcher).
package c18

import (
	"encoding/json"
	"fmt"
	"os"
	"path/filepath"
	"reflect"
	"strconv"
	"time"

	sentinel "github.com/alibaba/sentinel-golang/api"
	"github.com/alibaba/sentinel-golang/core/base"
	cb "github.com/alibaba/sentinel-golang/core/circuitbreaker"
	"github.com/alibaba/sentinel-golang/core/flow"
	"github.com/alibaba/sentinel-golang/core/hotspot"
	"github.com/alibaba/sentinel-golang/core/isolation"
	"github.com/alibaba/sentinel-golang/core/system"
	"github.com/alibaba/sentinel-golang/ext/datasource"
	"github.com/alibaba/sentinel-golang/ext/datasource/file"

	"verif/harness"
	rs "verif/props/rulespec"
	"verif/sim"
	"verif/sim/simfsnotify"
)

type Cfg struct {
	Origin uint64  `json:"origin_ms"`
	Table  []rs.RS `json:"rule_table"`
	File   bool    `json:"file_source"`
	FileM  int     `json:"file_module"`
	// Preload: the application loaded rules through the modules' API before any datasource delivered anything
	Preload bool `json:"preloaded_by_api,omitempty"`
	// InitWrite: the file is rewritten while the file source starts up: 1 = when it creates its watcher (the
	// watch is not registered yet: no event will tell), 2 = right after the watch was registered (an event follows)
	// InitFail: the first Initialize() of the file source fails (the watch cannot be registered: the file is not
	// there yet); the file is then written and Initialize() called again
	InitFail  bool     `json:"init_fail,omitempty"`
	InitWrite int      `json:"init_write,omitempty"`
	InitList  []string `json:"init_list,omitempty"`
}

const nRes = 3

// Quiesce waits until every goroutine of the bubble is durably blocked. It is
// installed by the E3 worker (cmd/simbubble); without a bubble it is nil and the
// file part is skipped.
var Quiesce func()

type P struct{}

func init() { harness.Register(P{}) }

func (P) ID() string     { return "C18" }
func (P) Engine() string { return "E3" }

func (P) Describe() harness.Description {
	return harness.Description{
		MustHit: []string{"file_written_during_startup_of_the_source", "rules_preloaded_by_api", "undecodable_payload", "payload_with_null_element", "empty_payload", "identical_redelivery", "redelivery_keeps_controller_state", "file_event_delivered", "file_event_duplicated", "file_removed", "file_renamed", "file_moved_away_and_back", "file_converged"},
		Level:   "exploration",
		Rule: "case = (table of rule specifications for the five parsers: valid, field-wise invalid, never-blocking / always-blocking; 5-30 deliveries to property handlers wired to the REAL rule managers: the wire-format JSON of a rule list, the same with a null element, a wrongly typed element, truncated at a drawn byte, followed by trailing bytes (a second document, a stray bracket, the tail of an older file), empty, 'null', an object instead of an array; immediate identical redelivery; probes). " +
			"Oracle: Handle never panics out; undecodable => error returned and the previous rules stay in force; decodable => exactly its valid rules are reported, field for field (wire round trip), and govern probe traffic; empty => cleared; identical redelivery => nothing changes, including controller state (a private-window flow rule keeps its count). " +
			"File source (40% of runs): a real RefreshableFileDataSource on a scratch file with the stub watcher; ops write / truncate / rename / remove (also while another process holds the file open: attribute-change event first) / move away and back unchanged while the source retries its watch; in a quarter of the file runs the file is rewritten while the source starts up (before / right after its watch is registered); the simulator delivers each file-system event delayed, duplicated or coalesced; after quiescence following the last delivered event the managers equal the file's content (previous rules if undecodable), and are empty after remove / rename. " +
			"non-trivial = a good payload, an undecodable one and a redelivery occurred in one run; distinct = hash(config, ops)",
		Assumptions: []string{"hotspot specific items use the documented value kinds", "events are delivered one at a time with quiescence (synctest.Wait) in between"},
		Real:        []string{"ext/datasource handlers, parsers, updaters, hotspot converter", "ext/datasource/file.RefreshableFileDataSource incl. its watcher goroutine", "all rule managers", "api.Entry for probes", "real scratch file"},
		Stub:        []string{"fsnotify.Watcher (verif/sim/simfsnotify: events injected by the simulator)", "goroutine scheduling inside the bubble (testing/synctest quiescence)", "util.Clock (virtual clock)"},
	}
}

func (P) Gen(rng *sim.Rng, tier string) *harness.Case {
	cfg := Cfg{Origin: 1700000000000 + rng.U64Range(0, 100000), File: rng.Chance(0.4), FileM: rng.Intn(5)}
	n := rng.Range(6, 20)
	for i := 0; i < n; i++ {
		m := rng.Intn(5)
		r := rs.RS{M: m, Res: rng.Intn(nRes), Idx: i, Tw: rng.Intn(3)}
		if rng.Chance(0.5) {
			r.Hid = rng.Intn(rs.NumHidden[m]) // every field of the wire format takes part in some rule
			if m == rs.Hotspot && r.Hid >= 9 {
				r.Hid = 0 // (the tables of specific values on the wire are this check's own, see expectSpecific)
			}
		}
		switch rng.Intn(10) {
		case 0, 1, 2, 3, 4:
			r.Var = 0
		case 5, 6:
			r.Var = 1
		case 7, 8:
			r.Var = rng.Range(2, rs.NumVariants[m]-1)
			if m == rs.Hotspot && r.Var == 6 {
				r.Var = 2
			}
			if r.Aborts() {
				r.Var = 2 // (a load abandoned half-way is the subject of C13's histories)
			}
			if r.NotJSON() {
				r.Var = 2 // NaN / Inf thresholds cannot be written in JSON
			}
		default:
			r.Res = -1
		}
		cfg.Table = append(cfg.Table, r)
	}
	pick := func(m int) []string {
		var l []string
		for i, r := range cfg.Table {
			if r.M == m && rng.Chance(0.6) {
				l = append(l, strconv.Itoa(i))
			}
		}
		return l
	}
	cfg.Preload = rng.Chance(0.25)
	var ops []harness.Op
	for k := rng.Range(5, 30); len(ops) < k; {
		m := rng.Intn(5)
		switch rng.Weighted([]int{50, 15, 15, 20}) {
		case 0:
			mangle := 0
			if rng.Chance(0.45) {
				mangle = rng.Range(1, 10)
			}
			ops = append(ops, harness.Op{K: "deliver", R: m, A: pick(m), N: uint64(mangle), E: rng.Intn(10000)})
		case 1:
			ops = append(ops, harness.Op{K: "redeliver", R: m})
		case 2:
			ops = append(ops, harness.Op{K: "probe"})
		default:
			if cfg.File {
				switch rng.Intn(8) {
				case 0:
					ops = append(ops, harness.Op{K: "fremove", F: rng.Chance(0.4)})
				case 1:
					if rng.Chance(0.5) {
						// the file is moved away and moved back UNCHANGED (same content, size and modification time) while
						// the source is still retrying to watch it again
						ops = append(ops, harness.Op{K: "fmoveback", N: uint64(rng.Range(1, 3))})
					} else {
						ops = append(ops, harness.Op{K: "frename"})
					}
				case 2:
					ops = append(ops, harness.Op{K: "fevent", N: uint64(rng.Range(1, 2))})
				case 4:
					// the file is made unreadable for a moment and readable again (a deployment tool fixing its modes):
					// while it is unreadable no watch can be registered on it
					ops = append(ops, harness.Op{K: "fchmod"})
				case 3:
					// the file is rotated the ordinary way, back to back: moved aside, written anew under its name, the
					// copy that was moved aside removed
					ops = append(ops, harness.Op{K: "frotate", F: rng.Chance(0.5)})
				default:
					mangle := 0
					if rng.Chance(0.35) {
						mangle = rng.Range(1, 10)
					}
					// (M == 1: the new content is written to a temporary file that is then renamed over the watched name)
					ops = append(ops, harness.Op{K: "fwrite", A: pick(cfg.FileM), N: uint64(mangle), E: rng.Intn(10000), F: rng.Chance(0.7), M: uint64([]int{0, 0, 0, 0, 0, 0, 1, 2, 3}[rng.Intn(9)])})
				}
			}
		}
	}
	ops = append(ops, harness.Op{K: "probe"})
	if cfg.File && rng.Chance(0.25) {
		cfg.InitWrite = 1 + rng.Intn(2)
		cfg.InitList = pick(cfg.FileM)
	} else if cfg.File && rng.Chance(0.15) {
		cfg.InitFail = true
	}
	return &harness.Case{Cfg: harness.MustJSON(cfg), Callers: [][]harness.Op{ops}}
}

// ---- wire format -----------------------------------------------------------------------

type wireSpecific struct {
	ValKind   int    `json:"valKind"`
	ValStr    string `json:"valStr"`
	Threshold int64  `json:"threshold"`
}

type wireHotspot struct {
	ID                string         `json:"id,omitempty"`
	Resource          string         `json:"resource"`
	MetricType        int32          `json:"metricType"`
	ControlBehavior   int32          `json:"controlBehavior"`
	ParamIndex        int            `json:"paramIndex"`
	ParamKey          string         `json:"paramKey"`
	Threshold         int64          `json:"threshold"`
	MaxQueueingTimeMs int64          `json:"maxQueueingTimeMs"`
	BurstCount        int64          `json:"burstCount"`
	DurationInSec     int64          `json:"durationInSec"`
	ParamsMaxCapacity int64          `json:"paramsMaxCapacity"`
	SpecificItems     []wireSpecific `json:"specificItems"`
}

var wireItems = []wireSpecific{{0, "7", 3}, {1, "x", 2}, {3, "1.5", 1}, {2, "true", 4}}

func expectSpecific(r rs.RS) map[interface{}]int64 {
	m := map[interface{}]int64{}
	if r.Tw == 2 {
		m[7], m["x"], m[1.5], m[true] = 3, 2, 1, 4
	}
	return m
}

// encode returns the wire JSON of the listed rules and the rules it describes (as the module's Go values).
func encode(m int, list []rs.RS) ([]byte, []interface{}) {
	var arr []interface{}
	var described []interface{}
	for _, r := range list {
		switch m {
		case rs.Flow:
			x := rs.BuildFlow(r)
			arr, described = append(arr, x), append(described, *x)
		case rs.Isolation:
			x := rs.BuildIsolation(r)
			arr, described = append(arr, x), append(described, *x)
		case rs.Breaker:
			x := rs.BuildBreaker(r)
			arr, described = append(arr, x), append(described, *x)
		case rs.System:
			x := rs.BuildSystem(r)
			arr, described = append(arr, x), append(described, *x)
		case rs.Hotspot:
			x := rs.BuildHotspot(r)
			w := wireHotspot{x.ID, x.Resource, int32(x.MetricType), int32(x.ControlBehavior), x.ParamIndex, x.ParamKey, x.Threshold, x.MaxQueueingTimeMs, x.BurstCount, x.DurationInSec, x.ParamsMaxCapacity, nil}
			if r.Tw == 2 {
				w.SpecificItems = wireItems
			}
			x.SpecificItems = expectSpecific(r)
			arr, described = append(arr, w), append(described, *x)
		}
	}
	if arr == nil {
		arr = []interface{}{}
	}
	b, _ := json.Marshal(arr)
	return b, described
}

// hotspot variant 6 (index and key both set) cannot be expressed on the wire: it is not generated here
func validOnWire(m int, r rs.RS) bool { return r.Valid() }

func mangle(m int, b []byte, kind uint64, seed int) ([]byte, bool, bool) { // payload, decodable, hasNull
	switch kind {
	case 1: // truncated at a drawn byte
		if len(b) < 3 {
			return b[:1], false, false
		}
		cut := 1 + seed%(len(b)-2)
		return b[:cut], false, false
	case 2: // null element appended
		if len(b) <= 2 {
			return []byte("[null]"), true, true
		}
		return append(append([]byte{}, b[:len(b)-1]...), []byte(",null]")...), true, true
	case 3: // wrongly typed element
		if len(b) <= 2 {
			return []byte("[42]"), false, false
		}
		return append(append([]byte{}, b[:len(b)-1]...), []byte(",\"oops\"]")...), false, false
	case 4:
		return []byte{}, true, false
	case 5:
		return []byte("null"), true, false
	case 6:
		return []byte("{}"), false, false
	case 7:
		return []byte(" "), false, false
	case 9, 10: // a complete array followed by more bytes (a second document, a stray bracket, the tail of an older, longer file)
		tails := []string{"]", "}", " []", "x", ",", string(b), "\n{\"resource\":\"r\"}]"}
		return append(append([]byte{}, b...), []byte(tails[seed%len(tails)])...), false, false
	case 8: // wrongly typed field inside an element
		if m == rs.System {
			return []byte(`[{"triggerCount": "x"}]`), false, false
		}
		return []byte(`[{"resource": 5}]`), false, false
	}
	return b, true, false
}

type hstate struct {
	h    datasource.PropertyHandler
	last []byte // last decodable payload handed to this handler ("" = none)
	has  bool
}

type world struct {
	o     *harness.Outcome
	cfg   *Cfg
	model []map[string][]interface{} // per module: resource -> described valid rules, in order
	block []map[string]bool          // per module: resource has an enforced blocker
}

func newWorld(o *harness.Outcome, cfg *Cfg) *world {
	w := &world{o: o, cfg: cfg}
	for m := 0; m < 5; m++ {
		w.model = append(w.model, map[string][]interface{}{})
		w.block = append(w.block, map[string]bool{})
	}
	return w
}

func (w *world) apply(m int, list []rs.RS, described []interface{}) {
	w.model[m] = map[string][]interface{}{}
	w.block[m] = map[string]bool{}
	for i, r := range list {
		if !validOnWire(m, r) {
			continue
		}
		key := rs.ResName(r.Res)
		if m == rs.System {
			key = "*"
		}
		w.model[m][key] = append(w.model[m][key], described[i])
		if r.Blocker() {
			w.block[m][key] = true
		}
	}
}

func fsrcModule(cfg *Cfg) int {
	if cfg.File {
		return cfg.FileM
	}
	return -1
}

func decodeList(cfg *Cfg, a []string, m int) []rs.RS {
	var l []rs.RS
	for _, s := range a {
		i, err := strconv.Atoi(s)
		if err == nil && i >= 0 && i < len(cfg.Table) && cfg.Table[i].M == m {
			l = append(l, cfg.Table[i])
		}
	}
	return l
}

func (w *world) reported(m int) map[string][]interface{} {
	out := map[string][]interface{}{}
	switch m {
	case rs.Flow:
		for i := 0; i < nRes; i++ {
			for _, r := range flow.GetRulesOfResource(rs.ResName(i)) {
				out[rs.ResName(i)] = append(out[rs.ResName(i)], r)
			}
		}
	case rs.Isolation:
		for i := 0; i < nRes; i++ {
			for _, r := range isolation.GetRulesOfResource(rs.ResName(i)) {
				out[rs.ResName(i)] = append(out[rs.ResName(i)], r)
			}
		}
	case rs.Hotspot:
		for i := 0; i < nRes; i++ {
			for _, r := range hotspot.GetRulesOfResource(rs.ResName(i)) {
				out[rs.ResName(i)] = append(out[rs.ResName(i)], r)
			}
		}
	case rs.Breaker:
		for i := 0; i < nRes; i++ {
			for _, r := range cb.GetRulesOfResource(rs.ResName(i)) {
				out[rs.ResName(i)] = append(out[rs.ResName(i)], r)
			}
		}
	case rs.System:
		for _, r := range system.GetRules() {
			out["*"] = append(out["*"], r)
		}
	}
	return out
}

func stripID(v interface{}) interface{} {
	switch x := v.(type) {
	case flow.Rule:
		x.ID = rs.Sig(x.ID)
		return x
	case isolation.Rule:
		x.ID = rs.Sig(x.ID)
		return x
	case hotspot.Rule:
		x.ID = rs.Sig(x.ID)
		if x.SpecificItems == nil {
			x.SpecificItems = map[interface{}]int64{}
		}
		return x
	case cb.Rule:
		x.Id = rs.Sig(x.Id)
		return x
	case system.Rule:
		x.ID = rs.Sig(x.ID)
		return x
	}
	return v
}

func (w *world) checkState(step int) bool {
	ok := harness.Call(w.o, "C18.getter-panicked", step, func() {
		for m := 0; m < 5; m++ {
			got := w.reported(m)
			for key, want := range w.model[m] {
				g := got[key]
				if m == rs.System {
					// order across metric types is unspecified: compare as multisets
					if !sameMultiset(g, want) {
						w.o.Fail("C18.rules-mismatch", step, "%s: reported rules %+v, the last decodable payload describes %+v", rs.ModuleName[m], g, want)
						return
					}
					continue
				}
				if len(g) != len(want) {
					w.o.Fail("C18.rules-mismatch", step, "%s %s: %d rules reported %+v, the last decodable payload describes %d valid rules %+v", rs.ModuleName[m], key, len(g), g, len(want), want)
					return
				}
				for i := range g {
					if !reflect.DeepEqual(stripID(g[i]), stripID(want[i])) {
						w.o.Fail("C18.rule-not-faithful", step, "%s %s rule %d: reported %+v, the payload describes %+v", rs.ModuleName[m], key, i, g[i], want[i])
						return
					}
				}
			}
			for key, g := range got {
				if len(g) > 0 && len(w.model[m][key]) == 0 {
					w.o.Fail("C18.rules-mismatch", step, "%s %s: rules %+v are reported but the last decodable payload holds no valid rule for it", rs.ModuleName[m], key, g)
					return
				}
			}
		}
	})
	return ok && !w.o.Failed()
}

func sameMultiset(a, b []interface{}) bool {
	if len(a) != len(b) {
		return false
	}
	used := make([]bool, len(b))
	for _, x := range a {
		f := false
		for j, y := range b {
			if !used[j] && reflect.DeepEqual(stripID(x), stripID(y)) {
				used[j], f = true, true
				break
			}
		}
		if !f {
			return false
		}
	}
	return true
}

func (w *world) probe(step int, env *harness.Env) bool {
	env.Clock.AdvanceMs(2000)
	w.o.SimMs += 2000
	for r := 0; r < nRes; r++ {
		name := rs.ResName(r)
		want := "pass"
		for _, m := range []int{rs.System, rs.Flow, rs.Isolation, rs.Hotspot} {
			key := name
			if m == rs.System {
				key = "*"
			}
			if w.block[m][key] {
				want = rs.ModuleName[m]
				break
			}
		}
		got := "pass"
		harness.Call(w.o, "C18.probe-panicked", step, func() {
			e, be := sentinel.Entry(name, harness.EntryOpts(3, true, []interface{}{1}, nil, nil)...)
			if e != nil {
				e.Exit()
			}
			if be != nil {
				switch be.BlockType() {
				case base.BlockTypeSystemFlow:
					got = "system"
				case base.BlockTypeFlow:
					got = "flow"
				case base.BlockTypeIsolation:
					got = "isolation"
				case base.BlockTypeHotSpotParamFlow:
					got = "hotspot"
				default:
					got = be.BlockType().String()
				}
			}
		})
		if w.o.Failed() {
			return false
		}
		if got != want {
			w.o.Fail("C18.probe-decision", step, "probe on %s: %s, but the valid rules of the last decodable payloads say %s", name, got, want)
			return false
		}
	}
	return true
}

func (P) Exec(c *harness.Case) *harness.Outcome {
	o := harness.NewOutcome()
	var cfg Cfg
	if err := json.Unmarshal(c.Cfg, &cfg); err != nil {
		o.Infra = err.Error()
		return o
	}
	if len(c.Callers) == 0 || cfg.FileM < 0 || cfg.FileM > 4 {
		return o
	}
	for _, r := range cfg.Table {
		if r.M < 0 || r.M > 4 || r.Res >= nRes || false {
			return o
		}
	}
	env := harness.Reset(cfg.Origin*1e6, harness.DefaultGeometry())
	simfsnotify.Reset()
	w := newWorld(o, &cfg)
	mk := func(m int) datasource.PropertyHandler {
		switch m {
		case rs.Flow:
			return datasource.NewFlowRulesHandler(datasource.FlowRuleJsonArrayParser)
		case rs.Isolation:
			return datasource.NewIsolationRulesHandler(datasource.IsolationRuleJsonArrayParser)
		case rs.Hotspot:
			return datasource.NewHotSpotParamRulesHandler(datasource.HotSpotParamRuleJsonArrayParser)
		case rs.Breaker:
			return datasource.NewCircuitBreakerRulesHandler(datasource.CircuitBreakerRuleJsonArrayParser)
		default:
			return datasource.NewSystemRulesHandler(datasource.SystemRuleJsonArrayParser)
		}
	}
	hs := make([]*hstate, 5)
	for m := range hs {
		hs[m] = &hstate{h: mk(m)}
	}
	// deliver one payload to handler m and update the model
	deliver := func(step int, st *hstate, m int, payload []byte, decodable bool, list []rs.RS, described []interface{}, handle func([]byte) error) bool {
		var err error
		harness.Call(o, "C18.handle-panicked", step, func() { err = handle(payload) })
		if o.Failed() {
			return false
		}
		if !decodable {
			o.Probe("undecodable_payload")
			if err == nil {
				o.Fail("C18.undecodable-accepted", step, "%s handler returned no error for the undecodable payload %q", rs.ModuleName[m], string(payload))
				return false
			}
			return true // previous rules stay (model unchanged)
		}
		if err != nil {
			o.Fail("C18.decodable-rejected", step, "%s handler returned %v for the decodable payload %q", rs.ModuleName[m], err, string(payload))
			return false
		}
		if st.has && string(st.last) == string(payload) {
			o.Probe("identical_redelivery")
			return true // no-op
		}
		st.last, st.has = append([]byte{}, payload...), true
		w.apply(m, list, described)
		return true
	}
	// identical redelivery is a no-op including controller state: a private-window rule keeps its count
	{
		h2 := mk(rs.Flow)
		pl := []byte(`[{"resource":"res-state","threshold":1,"statIntervalInMs":3700}]`)
		var e1, e2 error
		adm1, adm2 := false, false
		harness.Call(o, "C18.handle-panicked", 0, func() {
			e1 = h2.Handle(pl)
			if e, _ := sentinel.Entry("res-state"); e != nil {
				adm1 = true
				e.Exit()
			}
			e2 = h2.Handle(pl)
			if e, _ := sentinel.Entry("res-state"); e != nil {
				adm2 = true
				e.Exit()
			}
		})
		if o.Failed() {
			return o
		}
		o.Probe("redelivery_keeps_controller_state")
		if e1 != nil || e2 != nil || !adm1 {
			o.Fail("C18.redelivery-setup", 0, "flow payload %s: errors %v %v, first request admitted=%v", pl, e1, e2, adm1)
			return o
		}
		if adm2 {
			o.Fail("C18.redelivery-rebuilt-controller", 0, "after re-delivering the identical flow payload the rule's statistic window was empty again (a second request within the window was admitted)")
			return o
		}
		_ = flow.ClearRules()
	}
	type fileState struct {
		ds      *file.RefreshableFileDataSource
		path    string
		st      *hstate
		pending []simfsnotify.Event
		content []byte
		dec     bool
		list    []rs.RS
		desc    []interface{}
		gone    bool
		gen     int // how many files have carried the watched name so far (a watch stays on the file it was put on)
		// what the source last handed to its handler
		applied bool
	}
	var fsrc *fileState
	initConverge := false
	sawGood, sawBad, sawRe := false, false, false
	var dir string
	if cfg.File && Quiesce != nil {
		var err error
		dir, err = os.MkdirTemp("", "vsim-c18-")
		if err != nil {
			o.Infra = err.Error()
			return o
		}
		defer os.RemoveAll(dir)
		fsrc = &fileState{path: filepath.Join(dir, "rules.json"), st: &hstate{h: mk(cfg.FileM)}, content: []byte("[]"), dec: true}
		simfsnotify.GenOf = func(string) int { return fsrc.gen }
		_ = os.WriteFile(fsrc.path, fsrc.content, 0o644)
		fsrc.ds = file.NewFileDataSource(fsrc.path, fsrc.st.h)
		initWrote := false
		if cfg.InitWrite > 0 {
			// the file is rewritten while the source starts up (a deployment writes its rules while the process boots)
			list := decodeList(&cfg, cfg.InitList, cfg.FileM)
			b, described := encode(cfg.FileM, list)
			hook := func() {
				if initWrote {
					return
				}
				initWrote = true
				_ = os.WriteFile(fsrc.path, b, 0o644)
				fsrc.content, fsrc.dec, fsrc.list, fsrc.desc = b, true, list, described
				o.Fault("file_rewritten_during_startup")
			}
			if cfg.InitWrite == 1 {
				simfsnotify.OnNewWatcher = hook
			} else {
				simfsnotify.OnAdded = func() {
					if !initWrote {
						hook()
						fsrc.pending = append(fsrc.pending, simfsnotify.Event{Name: fsrc.path, Op: simfsnotify.Write})
					}
				}
			}
		}
		if cfg.InitFail && cfg.InitWrite == 0 {
			// the application starts before its rule file has been deployed
			_ = os.Remove(fsrc.path)
			simfsnotify.OnNewWatcher = func() {
				if w := simfsnotify.Last(); w != nil {
					w.AddErr = 1 // like inotify, the stub cannot watch a path that does not exist
				}
			}
			var ierr error
			harness.Call(o, "C18.panic", 0, func() { ierr = fsrc.ds.Initialize() })
			simfsnotify.OnNewWatcher = nil
			if o.Failed() {
				return o
			}
			if ierr == nil {
				o.Fail("C18.file-init", 0, "Initialize() on a missing file reported success")
				return o
			}
			o.Fault("file_source_started_before_its_file_exists")
			_ = os.WriteFile(fsrc.path, fsrc.content, 0o644)
		}
		harness.Call(o, "C18.panic", 0, func() {
			if err := fsrc.ds.Initialize(); err != nil {
				o.Fail("C18.file-init", 0, "Initialize: %v", err)
			}
		})
		simfsnotify.OnNewWatcher, simfsnotify.OnAdded = nil, nil
		if cfg.InitFail && cfg.InitWrite == 0 && !o.Failed() {
			if w := simfsnotify.Last(); w == nil || !w.Watching(fsrc.path) {
				o.Fail("C18.file-source-not-started", 0, "Initialize() failed once (the file did not exist yet), the file was written and Initialize() called again: it returned nil, but no watch is registered on the file - the source will never converge to it")
				return o
			}
		}
		if o.Failed() {
			return o
		}
		fsrc.st.last, fsrc.st.has = []byte("[]"), true
		defer func() {
			_ = fsrc.ds.Close()
			Quiesce()
		}()
		Quiesce()
		initConverge = initWrote
	}
	// deliverEvent hands one pending file-system event to the watcher goroutine and waits for quiescence
	deliverEvent := func(step int, dup int) bool {
		if fsrc == nil || len(fsrc.pending) == 0 || fsrc.gone {
			return true
		}
		ev := fsrc.pending[0]
		fsrc.pending = fsrc.pending[1:]
		if ev.Op != simfsnotify.Remove && ev.Op != simfsnotify.Rename {
			// what fsnotify (v1.4.7, Event.ignoreLinux) does before it hands an event on: anything but a removal or a
			// rename is dropped when the path does not exist at that moment
			if _, err := os.Lstat(ev.Name); os.IsNotExist(err) {
				o.Fault("file_event_dropped_by_the_watcher_library")
				return true
			}
		}
		wt := simfsnotify.Last()
		if wt != nil && !wt.Closed() && ev.Name == fsrc.path && !wt.Watching(fsrc.path) {
			if _, err := os.Lstat(fsrc.path); err == nil {
				o.Fail("C18.file-source-holds-no-watch", step, "the file datasource is running and its file exists, but it holds no watch on it: the %v event that is due now (and every later one) will never reach it", ev.Op)
				return false
			}
		}
		if wt != nil && !wt.Closed() && ev.Name == fsrc.path && ev.Op == simfsnotify.Write {
			// (a write is announced on the watch of the file that was written: the one that carries the name)
			if g, ok := wt.WatchGen(fsrc.path); ok && g != fsrc.gen {
				o.Fail("C18.file-source-holds-no-watch", step, "the file datasource is running, but its watch is still on a file that no longer carries the watched name (file no. %d; the name is carried by no. %d now): the write that has just been made, and every later one, will never reach it", g, fsrc.gen)
				return false
			}
		}
		if wt != nil && ev.Op == simfsnotify.Remove && ev.Name != "" {
			wt.Drop(ev.Name) // the watch goes with the inode
		}
		for i := 0; i < dup; i++ {
			if wt == nil || wt.Closed() {
				break
			}
			o.Fault("file_event_delivered")
			if i > 0 {
				o.Fault("file_event_duplicated")
			}
			received := false
			ok := harness.Call(o, "C18.panic", step, func() {
				select {
				case wt.Events <- ev:
					received = true
				default:
					// the watcher goroutine is not receiving (it has exited): the event is lost like in reality
				}
				Quiesce()
			})
			if !ok {
				return false
			}
			// what the source does on an event: (re)read the file as it is NOW and hand it to its handler
			replaced := false
			if ev.Op == simfsnotify.Remove {
				// (a removal announced while a file exists under the watched name: the file was replaced)
				_, err := os.Lstat(fsrc.path)
				replaced = err == nil
			}
			if received && (ev.Op == simfsnotify.Write || ev.Op == simfsnotify.Chmod || replaced) {
				o.Probe("file_converged")
				if fsrc.dec && !(fsrc.st.has && string(fsrc.st.last) == string(fsrc.content)) {
					fsrc.st.last, fsrc.st.has = append([]byte{}, fsrc.content...), true
					w.apply(cfg.FileM, fsrc.list, fsrc.desc)
				}
			}
		}
		return true
	}
	if initConverge {
		// A write that came before the watch was registered is announced by no event: the source must have picked
		// it up by itself. One that came right after the registration is announced, deliver that event first.
		if len(fsrc.pending) > 0 {
			if !deliverEvent(0, 1) {
				return o
			}
		} else if string(fsrc.st.last) != string(fsrc.content) {
			fsrc.st.last, fsrc.st.has = append([]byte{}, fsrc.content...), true
			w.apply(cfg.FileM, fsrc.list, fsrc.desc)
		}
		o.Probe("file_written_during_startup_of_the_source")
		if !w.probe(0, env) {
			return o
		}
	}
	if cfg.Preload {
		// rules are already in force when the datasources deliver their first payload (which may well be an empty one)
		for m := 0; m < 5; m++ {
			if fsrcModule(&cfg) == m {
				continue
			}
			var list []rs.RS
			for _, r := range cfg.Table {
				if r.M == m && !r.Nil {
					list = append(list, r)
				}
			}
			_, described := encode(m, list)
			harness.Call(o, "C18.panic", 0, func() {
				switch m {
				case rs.Flow:
					var l []*flow.Rule
					for _, r := range list {
						l = append(l, rs.BuildFlow(r))
					}
					_, _ = flow.LoadRules(l)
				case rs.Isolation:
					var l []*isolation.Rule
					for _, r := range list {
						l = append(l, rs.BuildIsolation(r))
					}
					_, _ = isolation.LoadRules(l)
				case rs.Hotspot:
					var l []*hotspot.Rule
					for _, r := range list {
						x := rs.BuildHotspot(r)
						x.SpecificItems = expectSpecific(r)
						l = append(l, x)
					}
					_, _ = hotspot.LoadRules(l)
				case rs.Breaker:
					var l []*cb.Rule
					for _, r := range list {
						l = append(l, rs.BuildBreaker(r))
					}
					_, _ = cb.LoadRules(l)
				case rs.System:
					var l []*system.Rule
					for _, r := range list {
						l = append(l, rs.BuildSystem(r))
					}
					_, _ = system.LoadRules(l)
				}
			})
			if o.Failed() {
				return o
			}
			w.apply(m, list, described)
			o.Probe("rules_preloaded_by_api")
		}
		if !w.checkState(0) {
			return o
		}
	}
	for step, op := range c.Callers[0] {
		switch op.K {
		case "deliver":
			m := op.R
			if m < 0 || m > 4 || (fsrc != nil && m == cfg.FileM) {
				continue // one datasource per module: the file source owns its module
			}
			list := decodeList(&cfg, op.A, m)
			b, described := encode(m, list)
			payload, decodable, hasNull := mangle(m, b, op.N, op.E)
			if hasNull {
				o.Probe("payload_with_null_element")
			}
			if len(payload) == 0 || string(payload) == "null" {
				o.Probe("empty_payload")
				list, described = nil, nil
			}
			if decodable {
				sawGood = true
			} else {
				sawBad = true
			}
			if !deliver(step, hs[m], m, payload, decodable, list, described, hs[m].h.Handle) {
				return o
			}
		case "redeliver":
			m := op.R
			if m < 0 || m > 4 || !hs[m].has || (fsrc != nil && m == cfg.FileM) {
				continue
			}
			sawRe = true
			// controller state must survive: a private-window flow rule keeps its count across the redelivery
			var err error
			harness.Call(o, "C18.handle-panicked", step, func() { err = hs[m].h.Handle(hs[m].last) })
			if o.Failed() {
				return o
			}
			o.Probe("identical_redelivery")
			if err != nil {
				o.Fail("C18.redelivery-error", step, "re-delivering the identical payload to the %s handler returned %v", rs.ModuleName[m], err)
				return o
			}
		case "probe":
			if !w.probe(step, env) {
				return o
			}
		case "fwrite":
			if fsrc == nil || fsrc.gone {
				continue
			}
			list := decodeList(&cfg, op.A, cfg.FileM)
			b, described := encode(cfg.FileM, list)
			payload, decodable, _ := mangle(cfg.FileM, b, op.N, op.E)
			if len(payload) == 0 || string(payload) == "null" {
				list, described = nil, nil
			}
			if op.M >= 1 {
				// replaced atomically (events are ordered: what is pending for the old file comes first)
				for len(fsrc.pending) > 0 {
					if !deliverEvent(step, 1) {
						return o
					}
				}
				_ = os.WriteFile(fsrc.path+".tmp", payload, 0o644)
				_ = os.Rename(fsrc.path+".tmp", fsrc.path)
				fsrc.gen++
				fsrc.content, fsrc.dec, fsrc.list, fsrc.desc = payload, decodable, list, described
				if op.M == 1 {
					// the watch is on the inode that has just lost its last name, which inotify announces as the
					// removal of the watched file (and drops the watch)
					fsrc.pending = append(fsrc.pending, simfsnotify.Event{Name: fsrc.path, Op: simfsnotify.Remove})
					o.Fault("file_replaced_by_a_rename_over_it")
				} else if op.M == 3 {
					// ... and the file that comes is unreadable for a moment (written with mktemp's 0600 by another
					// user and opened up right after the move): no watch can be put on it at first
					fsrc.pending = append(fsrc.pending, simfsnotify.Event{Name: fsrc.path, Op: simfsnotify.Remove})
					o.Fault("file_replaced_by_a_file_that_is_unreadable_for_a_moment")
					if wt := simfsnotify.Last(); wt != nil {
						wt.AddErr = 1
					}
				} else {
					// ... or the replaced file lives on - under another name (a hard link kept as a backup) or in
					// the hands of a process that has it open: all its watch announces is a change of attributes
					// (the link count). The source reads the new file then; its watch has to follow.
					fsrc.pending = append(fsrc.pending, simfsnotify.Event{Name: fsrc.path, Op: simfsnotify.Chmod})
					o.Fault("file_replaced_by_a_rename_over_it_while_the_old_file_lives_on")
				}
				if !deliverEvent(step, 1) {
					return o
				}
				break
			}
			_ = os.WriteFile(fsrc.path, payload, 0o644)
			fsrc.content, fsrc.dec, fsrc.list, fsrc.desc = payload, decodable, list, described
			fsrc.pending = append(fsrc.pending, simfsnotify.Event{Name: fsrc.path, Op: simfsnotify.Write})
			if op.F { // deliver right away, otherwise the event stays pending (delayed / coalesced with later writes)
				if !deliverEvent(step, 1) {
					return o
				}
			}
		case "fevent":
			if !deliverEvent(step, int(op.N)) {
				return o
			}
		case "fmoveback":
			if fsrc == nil || fsrc.gone {
				continue
			}
			for len(fsrc.pending) > 0 {
				if !deliverEvent(step, 1) {
					return o
				}
			}
			wt := simfsnotify.Last()
			if wt == nil || wt.Closed() {
				continue
			}
			_ = os.Rename(fsrc.path, fsrc.path+".old")
			wt.AddErr = int(op.N) // like inotify, the stub cannot watch a path that does not exist: the source retries once a second
			moved := false
			env.Clock.OnSleep = func(time.Duration) {
				if !moved { // during the source's first wait the file comes back, unchanged
					moved = true
					_ = os.Rename(fsrc.path+".old", fsrc.path)
				}
			}
			received := false
			ok := harness.Call(o, "C18.panic", step, func() {
				select {
				case wt.Events <- simfsnotify.Event{Name: fsrc.path, Op: simfsnotify.Rename}:
					received = true
				default:
				}
				Quiesce()
			})
			env.Clock.OnSleep = nil
			wt.AddErr = 0
			if !ok {
				return o
			}
			if !moved {
				_ = os.Rename(fsrc.path+".old", fsrc.path)
			}
			o.Fault("file_moved_away_and_back")
			if received {
				// the source cleared the rules on the rename, watched the path again and re-read the file
				fsrc.st.has = false
				w.apply(cfg.FileM, nil, nil)
				if moved && fsrc.dec && len(fsrc.content) > 0 && string(fsrc.content) != "null" {
					fsrc.st.last, fsrc.st.has = append([]byte{}, fsrc.content...), true
					w.apply(cfg.FileM, fsrc.list, fsrc.desc)
				}
			}
		case "fchmod":
			if fsrc == nil || fsrc.gone {
				continue
			}
			for len(fsrc.pending) > 0 {
				if !deliverEvent(step, 1) {
					return o
				}
			}
			if wt := simfsnotify.Last(); wt != nil && !wt.Closed() {
				// chmod 000: announced as a change of attributes; inotify_add_watch on the file fails (EACCES) until
				// chmod 644, which is announced the same way. The file is the same file throughout.
				wt.AddErr = 1000
				fsrc.pending = append(fsrc.pending, simfsnotify.Event{Name: fsrc.path, Op: simfsnotify.Chmod})
				o.Fault("file_unreadable_for_a_moment")
				ok := deliverEvent(step, 1)
				wt.AddErr = 0
				if !ok {
					return o
				}
				fsrc.pending = append(fsrc.pending, simfsnotify.Event{Name: fsrc.path, Op: simfsnotify.Chmod})
				if !deliverEvent(step, 1) {
					return o
				}
			}
		case "frotate":
			if fsrc == nil || fsrc.gone {
				continue
			}
			for len(fsrc.pending) > 0 {
				if !deliverEvent(step, 1) {
					return o
				}
			}
			wt := simfsnotify.Last()
			if wt == nil || wt.Closed() {
				continue
			}
			// rename(file, file.bak); write(file); unlink(file.bak) - all three are queued on the watch of the OLD
			// inode before the source gets to the first of them. The watch is inotify's, i.e. the inode's: the
			// removal of the copy is announced on it. By then the source has dropped that watch and registered
			// one on the new file, and the watcher library (fsnotify 1.4.7) no longer knows a path for the old
			// watch descriptor: it hands the event out as {Name: "", Op: Remove}.
			_ = os.Rename(fsrc.path, fsrc.path+".bak")
			_ = os.WriteFile(fsrc.path, fsrc.content, 0o644)
			_ = os.Remove(fsrc.path + ".bak")
			fsrc.gen++
			o.Fault("file_rotated")
			evs := []simfsnotify.Event{{Name: fsrc.path, Op: simfsnotify.Rename}, {Name: "", Op: simfsnotify.Remove}}
			if op.F {
				// (or the source was quick and still held the old watch when the removal was announced: then the
				// event carries the path)
				evs[1].Name = fsrc.path
			}
			for i, ev := range evs {
				received := false
				ok := harness.Call(o, "C18.panic", step, func() {
					select {
					case wt.Events <- ev:
						received = true
					default:
					}
					Quiesce()
				})
				if !ok {
					return o
				}
				if received && i == 0 {
					// the source cleared the rules on the rename, watched the path again and read the new file
					fsrc.st.has = false
					w.apply(cfg.FileM, nil, nil)
					if fsrc.dec && len(fsrc.content) > 0 && string(fsrc.content) != "null" {
						fsrc.st.last, fsrc.st.has = append([]byte{}, fsrc.content...), true
						w.apply(cfg.FileM, fsrc.list, fsrc.desc)
					}
				}
				// (the second event does not concern the file under the watched name: nothing changes)
			}
		case "fremove", "frename":
			if fsrc == nil || fsrc.gone {
				continue
			}
			// deliver what is still pending first (events are ordered)
			for len(fsrc.pending) > 0 {
				if !deliverEvent(step, 1) {
					return o
				}
			}
			if op.K == "fremove" && op.F {
				// Another process holds the file open (a log shipper, an editor): unlinking it then only changes
				// its link count, which inotify announces as an attribute change - and which the watcher library
				// drops, because the path is gone (see deliverEvent). The removal itself is announced when the
				// last descriptor is closed: until then a source that relies on the watcher cannot know, and the
				// rules stay; they are cleared when that event arrives.
				_ = os.Remove(fsrc.path)
				fsrc.pending = append(fsrc.pending, simfsnotify.Event{Name: fsrc.path, Op: simfsnotify.Chmod})
				o.Fault("file_removed_while_held_open")
				if !deliverEvent(step, 1) {
					return o
				}
				if !w.probe(step, env) {
					return o
				}
				fsrc.pending = append(fsrc.pending, simfsnotify.Event{Name: fsrc.path, Op: simfsnotify.Remove})
			} else if op.K == "fremove" {
				_ = os.Remove(fsrc.path)
				fsrc.pending = append(fsrc.pending, simfsnotify.Event{Name: fsrc.path, Op: simfsnotify.Remove})
				o.Fault("file_removed")
			} else {
				_ = os.Rename(fsrc.path, fsrc.path+".old")
				fsrc.pending = append(fsrc.pending, simfsnotify.Event{Name: fsrc.path, Op: simfsnotify.Rename})
				o.Fault("file_renamed")
			}
			if !deliverEvent(step, 1) {
				return o
			}
			fsrc.gone = true
			// rules of the file's module must be cleared
			w.apply(cfg.FileM, nil, nil)
			fsrc.applied = true
		}
		if !w.checkState(step) {
			return o
		}
	}
	o.Nontrivial = sawGood && sawBad && sawRe
	return o
}

var _ = fmt.Sprintf
