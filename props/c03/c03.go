// Package c03: circuit breakers trip, block and recover exactly as specified
// (E1: reference three-state machine + listener log equality).
package c03

import (
	"encoding/json"
	"errors"
	"fmt"

	sentinel "github.com/alibaba/sentinel-golang/api"
	"github.com/alibaba/sentinel-golang/core/base"
	cb "github.com/alibaba/sentinel-golang/core/circuitbreaker"

	"verif/harness"
	"verif/model"
	"verif/sim"
)

type BRule struct {
	ID  string `json:"id"`
	Res int    `json:"res"`
	model.BreakerRule
}

type Cfg struct {
	Origin uint64  `json:"origin_ms"`
	NRes   int     `json:"nres"`
	Rules  []BRule `json:"rules"`
	// Back (scripted scenario, clock fault): one breaker is driven open, its probe is admitted after the retry
	// timeout, then the clock is set back by BackMs before the probe completes (ok or failed, BackFail). The probe's
	// completion still decides the half-open breaker, and the resource serves requests again afterwards.
	Back     bool   `json:"back,omitempty"`
	BackMs   uint64 `json:"back_ms,omitempty"`
	BackFail bool   `json:"back_fail,omitempty"`
	// BackRace: the other shape of the clock fault. A request admitted while the breaker was closed is still under
	// way when the breaker opens; at the very moment a probe takes the breaker to half-open (inside the listeners'
	// callback, which stands for any other goroutine running between the probing caller's steps) the clock is set
	// back by BackMs and that straggler fails: the breaker re-opens. A request 1 ms later is rejected, and one a
	// retry timeout later is admitted as the probe.
	BackRace bool `json:"back_race,omitempty"`
}

type P struct{}

func init() { harness.Register(P{}) }

func (P) ID() string     { return "C03" }
func (P) Engine() string { return "E1" }

func (P) Describe() harness.Description {
	return harness.Description{
		MustHit: []string{"probe_admitted", "probe_blocked_rollback", "straggler_or_probe_completion"},
		Level:   "exploration",
		Rule: "case = (1-2 resources, 1-2 breakers per resource over all three strategies, thresholds incl. 0 and 1, minimum amounts, retry timeouts, statistic intervals x bucket counts (incl. non-dividing), probe numbers 0-3, slow-RT limits; 20-100 ops: start request, complete request j (ok/error, duration = virtual time elapsed), ticks biased to the retry deadline (exact, -1, +1), bucket boundaries and whole-window gaps). " +
			"Every Entry result (pass / circuit-breaking block with the blocking rule) must equal the reference machine's, and after every op the listener log must equal the reference transition list (same transitions, same previous state, each once). " +
			"4 % of the cases, clock fault: a breaker is driven open, its probe admitted after the retry timeout, the clock set back by 1 ms .. 60 s, the probe completes - the third transition the listeners hear is the probe's outcome, and a request is served again once the clock has caught up and a retry timeout passed. " +
			"non-trivial = a breaker went Closed->Open->HalfOpen and then closed or re-opened; distinct = hash(config, ops)",
		Assumptions: []string{
			"a completion, while half-open, of a request admitted before that passage to half-open may count as the probe's outcome (the implementation's choice: 'driven only by completed requests and time') or be ignored ('successful probes close it'): the reference follows the listeners there, everything else is fixed",
			"error-count thresholds are generated integral",
			"a probe request blocked by a later breaker returns its breaker to Open without re-arming the deadline",
		},
		Real: []string{"api.Entry/TraceError/Exit", "core/circuitbreaker (slot, stat slot, three breaker types, leap-array counters, rule manager, listeners)", "core/stat/base.LeapArray"},
		Stub: []string{"util.Clock (virtual clock)"},
	}
}

func genRule(rng *sim.Rng) model.BreakerRule {
	r := model.BreakerRule{Strategy: rng.Intn(3)}
	r.RetryMs = []uint64{1, 50, 100, 500, 1000, 3000}[rng.Intn(6)]
	r.MinReq = uint64([]int{0, 1, 1, 2, 3, 5}[rng.Intn(6)])
	r.StatMs = []uint64{100, 500, 1000, 1000, 2000, 5000}[rng.Intn(6)]
	r.Buckets = []uint32{0, 1, 2, 4, 5, 3, 10}[rng.Intn(7)]
	r.ProbeNum = uint64([]int{0, 0, 1, 2, 3}[rng.Intn(5)])
	switch r.Strategy {
	case model.SlowRatio:
		r.MaxRt = []uint64{0, 5, 20, 100}[rng.Intn(4)]
		r.Threshold = []float64{0, 0.2, 0.5, 1.0, 0.34, 1e-9, 0.500000004, 0.199999999}[rng.Intn(8)] // also thresholds a hair off a reachable ratio
	case model.ErrRatio:
		r.Threshold = []float64{0, 0.2, 0.5, 1.0, 0.34, 1e-9, 0.500000004, 0.199999999}[rng.Intn(8)] // also thresholds a hair off a reachable ratio
	default:
		r.Threshold = float64(rng.Range(0, 4))
		if rng.Chance(0.25) {
			r.Threshold = []float64{0.5, 1.5, 2.5, 0.01, 3.999}[rng.Intn(5)] // a count "reaches" a fractional threshold at the next integer
		}
	}
	return r
}

func (P) Gen(rng *sim.Rng, tier string) *harness.Case {
	if rng.Chance(0.04) {
		r := model.BreakerRule{Strategy: rng.Intn(3), RetryMs: []uint64{500, 1000, 3000}[rng.Intn(3)], MinReq: uint64(rng.Range(1, 3)),
			StatMs: []uint64{1000, 2000}[rng.Intn(2)], Buckets: []uint32{0, 1, 2, 4}[rng.Intn(4)], ProbeNum: uint64(rng.Intn(2)), MaxRt: 50, Threshold: 0.5}
		if r.Strategy == model.ErrCount {
			r.Threshold = 1
		}
		L := r.StatMs
		if r.Buckets > 1 {
			L = r.StatMs / uint64(r.Buckets)
		}
		cfg := Cfg{NRes: 1, Origin: 1700000000000 + rng.U64Range(0, 100000), Rules: []BRule{{ID: "b0", Res: 0, BreakerRule: r}}, Back: true,
			BackMs: []uint64{1, 10, L - 1, L, L + 1, r.StatMs, r.StatMs + r.RetryMs, 60000}[rng.Intn(8)], BackFail: rng.Chance(0.5)}
		if r.Strategy != model.SlowRatio && rng.Chance(0.4) {
			cfg.BackRace = true
			cfg.BackMs = []uint64{r.RetryMs / 2, r.RetryMs + 1, r.RetryMs + 2, 2 * r.RetryMs, 60000}[rng.Intn(5)]
		}
		return &harness.Case{Cfg: harness.MustJSON(cfg), Callers: [][]harness.Op{{{K: "back"}}}}
	}
	cfg := Cfg{NRes: rng.Range(1, 2), Origin: 1700000000000 + rng.U64Range(0, 100000)}
	id := 0
	for r := 0; r < cfg.NRes; r++ {
		for k, n := 0, rng.Range(1, 2); k < n; k++ {
			cfg.Rules = append(cfg.Rules, BRule{ID: fmt.Sprintf("b%d", id), Res: r, BreakerRule: genRule(rng)})
			id++
		}
	}
	nops := rng.Range(20, 100)
	var ops []harness.Op
	started := 0
	now := cfg.Origin
	lastTripGuess := uint64(0)
	for len(ops) < nops {
		switch rng.Weighted([]int{35, 35, 30}) {
		case 0:
			ops = append(ops, harness.Op{K: "start", R: rng.Intn(cfg.NRes)})
			started++
		case 1:
			if started > 0 {
				// prefer recent entries, sometimes an old straggler
				e := started - 1 - rng.Intn(minInt(started, 4))
				if rng.Chance(0.15) {
					e = rng.Intn(started)
				}
				ops = append(ops, harness.Op{K: "done", E: e, F: rng.Chance(0.5)})
				lastTripGuess = now
			}
		default:
			ru := cfg.Rules[rng.Intn(len(cfg.Rules))]
			var d uint64
			switch rng.Intn(9) {
			case 0:
				d = 0
			case 1:
				d = 1
			case 2: // land exactly on a plausible retry deadline
				if lastTripGuess+ru.RetryMs > now {
					d = lastTripGuess + ru.RetryMs - now
				} else {
					d = ru.RetryMs
				}
			case 3:
				if lastTripGuess+ru.RetryMs > now+1 {
					d = lastTripGuess + ru.RetryMs - now - 1
				} else {
					d = ru.RetryMs - minU(ru.RetryMs, 1)
				}
			case 4:
				d = ru.RetryMs + 1
			case 5:
				L := ru.StatMs
				if ru.Buckets > 0 && ru.StatMs%uint64(ru.Buckets) == 0 {
					L = ru.StatMs / uint64(ru.Buckets)
				}
				d = L - now%L
			case 6:
				d = ru.StatMs + rng.U64Range(0, ru.StatMs)
			case 7:
				d = ru.MaxRt + rng.U64Range(0, 2)
			default:
				d = rng.U64Range(1, 200)
			}
			now += d
			ops = append(ops, harness.Op{K: "tick", N: d})
		}
	}
	return &harness.Case{Cfg: harness.MustJSON(cfg), Callers: [][]harness.Op{ops}}
}

func minInt(a, b int) int {
	if a < b {
		return a
	}
	return b
}
func minU(a, b uint64) uint64 {
	if a < b {
		return a
	}
	return b
}

type lev struct {
	id       string
	from, to int
}

type listener struct {
	log []lev
	// hook (clock-fault scenarios) runs inside the callback, after the event was logged
	hook func(lev)
}

func st(s cb.State) int {
	switch s {
	case cb.Closed:
		return model.Closed
	case cb.HalfOpen:
		return model.HalfOpen
	}
	return model.Open
}
func (l *listener) OnTransformToClosed(prev cb.State, rule cb.Rule) {
	l.log = append(l.log, lev{rule.Id, st(prev), model.Closed})
	if l.hook != nil {
		l.hook(l.log[len(l.log)-1])
	}
}
func (l *listener) OnTransformToOpen(prev cb.State, rule cb.Rule, _ interface{}) {
	l.log = append(l.log, lev{rule.Id, st(prev), model.Open})
	if l.hook != nil {
		l.hook(l.log[len(l.log)-1])
	}
}
func (l *listener) OnTransformToHalfOpen(prev cb.State, rule cb.Rule) {
	l.log = append(l.log, lev{rule.Id, st(prev), model.HalfOpen})
	if l.hook != nil {
		l.hook(l.log[len(l.log)-1])
	}
}

type mb struct {
	BRule
	m   *model.Breaker
	ptr *cb.Rule
	ev  int // events of m already compared
}

type ment struct {
	e     *base.SentinelEntry
	res   int
	start uint64
	done  bool
	// probeOf: per breaker, the passage to half-open this request was admitted in (absent: admitted while closed)
	probeOf map[*mb]int
}

var strat = []cb.Strategy{cb.SlowRequestRatio, cb.ErrorRatio, cb.ErrorCount}

func (P) Exec(c *harness.Case) *harness.Outcome {
	o := harness.NewOutcome()
	var cfg Cfg
	if err := json.Unmarshal(c.Cfg, &cfg); err != nil {
		o.Infra = err.Error()
		return o
	}
	if cfg.NRes <= 0 || len(c.Callers) == 0 {
		return o
	}
	env := harness.Reset(cfg.Origin*1e6, harness.DefaultGeometry())
	clk := env.Clock
	brs := make([][]*mb, cfg.NRes)
	var all []*cb.Rule
	for _, r := range cfg.Rules {
		if r.Res < 0 || r.Res >= cfg.NRes || r.StatMs == 0 || r.RetryMs == 0 || r.Strategy < 0 || r.Strategy > 2 {
			continue
		}
		x := &mb{BRule: r, m: model.NewBreaker(r.BreakerRule)}
		x.ptr = &cb.Rule{Id: r.ID, Resource: harness.ResName(r.Res), Strategy: strat[r.Strategy], RetryTimeoutMs: uint32(r.RetryMs),
			MinRequestAmount: r.MinReq, StatIntervalMs: uint32(r.StatMs), StatSlidingWindowBucketCount: r.Buckets,
			MaxAllowedRtMs: r.MaxRt, Threshold: r.Threshold, ProbeNum: r.ProbeNum}
		brs[r.Res] = append(brs[r.Res], x)
		all = append(all, x.ptr)
	}
	lis := &listener{}
	if !harness.Call(o, "C03.panic", 0, func() {
		cb.RegisterStateChangeListeners(lis)
		if _, err := cb.LoadRules(all); err != nil {
			o.Fail("C03.load-error", 0, "%v", err)
		}
	}) || o.Failed() {
		return o
	}
	defer cb.ClearStateChangeListeners()
	if cfg.Back {
		execBack(&cfg, o, clk, lis)
		return o
	}
	var want []lev // reference transition list, in emission order
	sync := func() {
		for _, rs := range brs {
			for _, b := range rs {
				for ; b.ev < len(b.m.Events); b.ev++ {
					t := b.m.Events[b.ev]
					want = append(want, lev{b.ID, t.From, t.To})
				}
			}
		}
	}
	var ents []*ment
	sawCycle := map[string]int{}
	for step, op := range c.Callers[0] {
		now := clk.NowMs()
		switch op.K {
		case "tick":
			clk.AdvanceMs(op.N)
			o.SimMs += op.N
		case "start":
			if op.R < 0 || op.R >= cfg.NRes {
				ents = append(ents, nil)
				continue
			}
			// reference: breakers in rule order; probes of earlier breakers roll back when a later one blocks
			var blockBy *mb
			var probes []*mb
			for _, b := range brs[op.R] {
				pass, probe := b.m.TryPass(now)
				// emission order: transitions are emitted as they happen
				for ; b.ev < len(b.m.Events); b.ev++ {
					t := b.m.Events[b.ev]
					want = append(want, lev{b.ID, t.From, t.To})
				}
				if probe {
					probes = append(probes, b)
					o.Probe("probe_admitted")
				}
				if !pass {
					blockBy = b
					break
				}
			}
			if blockBy != nil {
				for _, b := range probes {
					b.m.RollbackProbe()
					o.Probe("probe_blocked_rollback")
				}
				sync()
			}
			m := &ment{res: op.R, start: now}
			var be *base.BlockError
			harness.Call(o, "C03.panic", step, func() {
				m.e, be = sentinel.Entry(harness.ResName(op.R), harness.EntryOpts(1, false, nil, nil, nil)...)
			})
			if o.Failed() {
				return o
			}
			ents = append(ents, m)
			if (m.e == nil) == (be == nil) {
				o.Fail("C03.outcome-shape", step, "Entry returned entry=%v blockErr=%v", m.e != nil, be != nil)
				return o
			}
			if blockBy != nil {
				m.done = true
				if be == nil {
					m.e.Exit()
					o.Fail("C03.admitted-while-open", step, "t=%d request on res-%d admitted; reference breaker %s is %s (deadline %d) and rejects", now, op.R, blockBy.ID, model.StateName[blockBy.m.State], blockBy.m.Deadline)
					return o
				}
				if be.BlockType() != base.BlockTypeCircuitBreaking {
					o.Fail("C03.block-type", step, "blocked with %s", be.BlockType())
					return o
				}
				if tr, _ := be.TriggeredRule().(*cb.Rule); tr == nil || tr.Id != blockBy.ID {
					o.Fail("C03.triggered-rule", step, "blocked by %v, reference says breaker %s", be.TriggeredRule(), blockBy.ID)
					return o
				}
			} else if be == nil {
				// which passages to half-open this request is a probe of
				m.probeOf = map[*mb]int{}
				for _, b := range brs[op.R] {
					if b.m.State == model.HalfOpen {
						m.probeOf[b] = b.m.Passage()
					}
				}
			}
			if blockBy == nil && be != nil {
				b0 := brs[op.R][0]
				o.Fail("C03.spurious-block", step, "t=%d request on res-%d blocked (%s); every reference breaker admits it (first breaker %s is %s, deadline %d)", now, op.R, be.BlockType(), b0.ID, model.StateName[b0.m.State], b0.m.Deadline)
				return o
			}
		case "done":
			if op.E < 0 || op.E >= len(ents) || ents[op.E] == nil || ents[op.E].done {
				continue
			}
			m := ents[op.E]
			m.done = true
			rt := now - m.start
			// the real completion first: where the property leaves a choice (below) the listener log decides
			harness.Call(o, "C03.panic", step, func() {
				if op.F {
					sentinel.TraceError(m.e, errors.New("biz"))
				}
				m.e.Exit()
			})
			if o.Failed() {
				return o
			}
			for _, b := range brs[m.res] {
				prev := b.m.State
				// A request that was admitted before the current passage to half-open is not that passage's probe.
				// "Driven only by completed requests" lets its completion count as the probe's outcome (what the
				// implementation does); "successful PROBES close it" lets it be ignored. Both are accepted: the
				// reference follows whichever the listeners report.
				straggler := prev == model.HalfOpen && m.probeOf[b] != b.m.Passage()
				var keep *model.Breaker
				if straggler {
					keep = b.m.Clone()
					o.Probe("straggler_completes_while_half_open")
				}
				b.m.Complete(now, rt, op.F)
				if b.m.Band {
					o.Ambiguous++
					return o
				}
				if straggler && len(b.m.Events) > b.ev {
					fits := len(lis.log) >= len(want)+len(b.m.Events)-b.ev
					for i := b.ev; fits && i < len(b.m.Events); i++ {
						t := b.m.Events[i]
						if lis.log[len(want)+i-b.ev] != (lev{b.ID, t.From, t.To}) {
							fits = false
						}
					}
					if !fits {
						b.m = keep
						b.m.CompleteIgnored(now, rt, op.F)
						o.Probe("straggler_ignored_by_the_implementation")
					}
				}
				for ; b.ev < len(b.m.Events); b.ev++ {
					t := b.m.Events[b.ev]
					want = append(want, lev{b.ID, t.From, t.To})
					if t.From == model.HalfOpen {
						sawCycle[b.ID]++
					}
				}
				if prev != model.Closed {
					o.Probe("straggler_or_probe_completion")
				}
			}
		}
		if o.Failed() {
			return o
		}
		// listener log == reference transition list
		n := len(lis.log)
		if len(want) < n {
			n = len(want)
		}
		for i := 0; i < n; i++ {
			if lis.log[i] != want[i] {
				o.Fail("C03.transition-mismatch", step, "t=%d transition #%d: listeners saw %s %s->%s, reference %s %s->%s", now, i, lis.log[i].id, model.StateName[lis.log[i].from], model.StateName[lis.log[i].to], want[i].id, model.StateName[want[i].from], model.StateName[want[i].to])
				return o
			}
		}
		if len(lis.log) > len(want) {
			x := lis.log[len(want)]
			o.Fail("C03.unexpected-transition", step, "t=%d listeners saw %s %s->%s which the reference machine does not perform", now, x.id, model.StateName[x.from], model.StateName[x.to])
			return o
		}
		if len(want) > len(lis.log) {
			x := want[len(lis.log)]
			o.Fail("C03.missing-transition", step, "t=%d reference performs %s %s->%s, listeners saw nothing", now, x.id, model.StateName[x.from], model.StateName[x.to])
			return o
		}
	}
	for _, n := range sawCycle {
		if n > 0 {
			o.Nontrivial = true
		}
	}
	return o
}

// execBack: see Cfg.Back. Nothing here depends on what a window holds after the clock went back: a completion
// while half-open is the probe's outcome whatever the statistic can record.
func execBack(cfg *Cfg, o *harness.Outcome, clk *sim.Clock, lis *listener) {
	if len(cfg.Rules) != 1 || cfg.Rules[0].Res != 0 || cfg.Rules[0].ProbeNum > 1 || cfg.Rules[0].MaxRt == 0 || cfg.Rules[0].MinReq > 10 || cfg.BackMs == 0 || cfg.BackMs > 1e7 {
		return
	}
	r := cfg.Rules[0]
	res := harness.ResName(0)
	request := func(fail bool, takeMs uint64) bool {
		var e *base.SentinelEntry
		if !harness.Call(o, "C03.panic", 0, func() { e, _ = sentinel.Entry(res, harness.EntryOpts(1, false, nil, nil, nil)...) }) || e == nil {
			return false
		}
		clk.AdvanceMs(takeMs)
		o.SimMs += takeMs
		harness.Call(o, "C03.panic", 0, func() {
			if fail && r.Strategy != model.SlowRatio {
				sentinel.TraceError(e, fmt.Errorf("failed"))
			}
			e.Exit()
		})
		return true
	}
	last := func() lev {
		if len(lis.log) == 0 {
			return lev{}
		}
		return lis.log[len(lis.log)-1]
	}
	var straggler *base.SentinelEntry
	if cfg.BackRace {
		if r.Strategy == model.SlowRatio || cfg.BackMs > 1e6 {
			return
		}
		if !harness.Call(o, "C03.panic", 0, func() { straggler, _ = sentinel.Entry(res, harness.EntryOpts(1, false, nil, nil, nil)...) }) || straggler == nil {
			return
		}
	}
	// failing requests (errors; for the slow strategy requests slower than the limit) until the breaker opens
	for i := 0; i < int(r.MinReq)+3 && last().to != model.Open; i++ {
		if !request(true, r.MaxRt+10) || o.Failed() {
			return
		}
	}
	if len(lis.log) != 1 || last() != (lev{r.ID, model.Closed, model.Open}) {
		return
	}
	clk.AdvanceMs(r.RetryMs + 1)
	o.SimMs += r.RetryMs + 1
	if cfg.BackRace {
		opened := clk.NowMs() - r.RetryMs - 1
		lis.hook = func(e lev) {
			if e != (lev{r.ID, model.Open, model.HalfOpen}) {
				return
			}
			lis.hook = nil
			clk.SetNs((clk.NowMs() - cfg.BackMs) * 1e6)
			sentinel.TraceError(straggler, fmt.Errorf("failed"))
			straggler.Exit()
		}
		defer func() { lis.hook = nil }()
		var probe *base.SentinelEntry
		if !harness.Call(o, "C03.panic", 0, func() { probe, _ = sentinel.Entry(res, harness.EntryOpts(1, false, nil, nil, nil)...) }) {
			return
		}
		if probe == nil || len(lis.log) != 3 || last() != (lev{r.ID, model.HalfOpen, model.Open}) {
			return // (a completion that is not taken for the probe's is the business of the first shape)
		}
		o.Probe("breaker_reopened_behind_a_clock_step_back_while_a_caller_was_taking_it_to_half_open")
		o.Nontrivial = true
		reopened := clk.NowMs()
		clk.AdvanceMs(1)
		if request(false, 1) && !o.Failed() {
			o.Fail("C03.admitted-right-after-reopening-behind-a-clock-step-back", 0, "breaker %+v opened at clock %d; while a request was taking it to half-open %d ms later, the clock was set back by %d ms and a straggler from the closed period failed: the breaker re-opened at clock %d (listeners heard %v). A request 1 ms after that re-opening was admitted - its retry timeout is %d ms", r.BreakerRule, opened, r.RetryMs+1, cfg.BackMs, reopened, lis.log, r.RetryMs)
			return
		}
		if o.Failed() {
			return
		}
		clk.SetNs((reopened + r.RetryMs + 1) * 1e6)
		if !request(false, 1) && !o.Failed() {
			o.Fail("C03.open-beyond-its-retry-timeout-after-clock-step-back", 0, "breaker %+v: re-opened at clock %d behind a clock step back of %d ms; %d ms later - its retry timeout - the request is still rejected (listeners heard %v)", r.BreakerRule, reopened, cfg.BackMs, r.RetryMs+1, lis.log)
		}
		harness.Call(o, "C03.panic", 0, func() { probe.Exit() })
		return
	}
	var probe *base.SentinelEntry
	if !harness.Call(o, "C03.panic", 0, func() { probe, _ = sentinel.Entry(res, harness.EntryOpts(1, false, nil, nil, nil)...) }) {
		return
	}
	if probe == nil || last() != (lev{r.ID, model.Open, model.HalfOpen}) {
		return // (the ordinary histories check this step)
	}
	o.Probe("probe_admitted")
	// the probe takes longer than the slow limit when it is to fail under the slow strategy; then the clock goes back
	took := uint64(1)
	if cfg.BackFail {
		took = r.MaxRt + 10
	}
	clk.AdvanceMs(took)
	before := clk.NowMs()
	clk.SetNs((before - cfg.BackMs) * 1e6)
	failed := cfg.BackFail
	if r.Strategy == model.SlowRatio {
		// the response time is what the clock says now (never negative)
		failed = cfg.BackMs < took && took-cfg.BackMs > r.MaxRt
	}
	if !harness.Call(o, "C03.panic", 0, func() {
		if cfg.BackFail && r.Strategy != model.SlowRatio {
			sentinel.TraceError(probe, fmt.Errorf("failed"))
		}
		probe.Exit()
	}) {
		return
	}
	o.Probe("straggler_or_probe_completion")
	o.Nontrivial = true
	want := lev{r.ID, model.HalfOpen, model.Closed}
	if failed {
		want = lev{r.ID, model.HalfOpen, model.Open}
	}
	if len(lis.log) != 3 || last() != want {
		o.Fail("C03.probe-completion-lost-after-clock-step-back", 0, "breaker %+v opened, its probe was admitted after the retry timeout, the clock was set back by %d ms and the probe completed (%s): the listeners heard %v, the probe's outcome demands %s -> %s as the third transition", r.BreakerRule, cfg.BackMs, map[bool]string{true: "failed", false: "ok"}[failed], lis.log, model.StateName[want.from], model.StateName[want.to])
		return
	}
	if !failed {
		// the successful probe closed the breaker and cleared its statistics: successful requests right afterwards
		// (the clock is still behind) are served and change nothing
		for i := 0; i < 2; i++ {
			if !request(false, 1) && !o.Failed() {
				o.Fail("C03.reopened-without-a-failure-after-clock-step-back", 0, "breaker %+v: closed by its successful probe behind a clock step back of %d ms; successful request %d right afterwards was rejected (listeners heard %v)", r.BreakerRule, cfg.BackMs, i+1, lis.log)
				return
			}
			if o.Failed() {
				return
			}
		}
		if len(lis.log) != 3 {
			o.Fail("C03.reopened-without-a-failure-after-clock-step-back", 0, "breaker %+v: closed by its successful probe behind a clock step back of %d ms (statistics cleared); two successful requests followed and the listeners heard %v - no request has failed since the breaker closed", r.BreakerRule, cfg.BackMs, lis.log)
			return
		}
		// ... and failing requests open it again, for its retry timeout counted from THIS opening (the clock is
		// still behind the deadline of the open period before)
		for i := 0; i < int(r.MinReq)+5 && len(lis.log) == 3; i++ {
			if !request(true, r.MaxRt+10) || o.Failed() {
				break
			}
		}
		if o.Failed() {
			return
		}
		if len(lis.log) == 4 && last() == (lev{r.ID, model.Closed, model.Open}) {
			opened := clk.NowMs()
			clk.AdvanceMs(r.RetryMs + 1)
			o.SimMs += r.RetryMs + 1
			if !request(false, 1) && !o.Failed() {
				o.Fail("C03.open-beyond-its-retry-timeout-after-clock-step-back", 0, "breaker %+v: opened again at a clock that had been set back by %d ms (%d ms before the instant its previous open period had begun); %d ms later - its retry timeout - the request is still rejected: the breaker waits for the retry deadline of the open period BEFORE (listeners heard %v)", r.BreakerRule, cfg.BackMs, before-opened, r.RetryMs+1, lis.log)
			}
			return
		}
		return
	}
	// once the clock has caught up and a full retry timeout has passed, the resource serves a request again
	clk.AdvanceMs(cfg.BackMs + 2*r.RetryMs + r.StatMs)
	if !request(false, 1) && !o.Failed() {
		o.Fail("C03.rejected-for-good-after-clock-step-back", 0, "breaker %+v: after the probe completed (%s) behind a clock step back of %d ms, a request %d ms later is still rejected", r.BreakerRule, map[bool]string{true: "failed", false: "ok"}[failed], cfg.BackMs, cfg.BackMs+2*r.RetryMs+r.StatMs)
	}
}
