// Package c13: only valid, latest-loaded rules are in force; reported rules
// equal enforced rules (E1: rule-set model over load/clear histories, getters,
// enforcement accessors and probe traffic).
package c13

import (
	"encoding/json"
	"errors"
	"fmt"
	"sort"
	"strconv"

	sentinel "github.com/alibaba/sentinel-golang/api"
	"github.com/alibaba/sentinel-golang/core/base"
	cb "github.com/alibaba/sentinel-golang/core/circuitbreaker"
	"github.com/alibaba/sentinel-golang/core/flow"
	"github.com/alibaba/sentinel-golang/core/hotspot"
	"github.com/alibaba/sentinel-golang/core/isolation"
	"github.com/alibaba/sentinel-golang/core/outlier"
	"github.com/alibaba/sentinel-golang/core/system"

	"verif/harness"
	rs "verif/props/rulespec"
	"verif/sim"
)

type Cfg struct {
	Origin uint64  `json:"origin_ms"`
	Table  []rs.RS `json:"rule_table"`
	// Budget: a scripted scenario instead of the random history. A hot-parameter QPS rule with a long duration is
	// replaced, inside its window, by one with another threshold; what is admitted afterwards must follow the
	// rule in force, not the budget of the replaced one. [threshold before, requests before, threshold after, requests after]
	Budget []int64 `json:"budget,omitempty"`
	// Scribble: whatever a getter returns is the caller's: after every look at the getters the harness writes
	// over everything reachable from the returned rules (maps and pointers in them included). The rules in force
	// and what the getters report next are unaffected.
	Scribble bool `json:"scribble,omitempty"`
	// Verdicts: a scripted scenario. A slow-request-ratio breaker with a low limit sees requests that are slow under
	// it (too few to trip); the rule is replaced by one with a limit above their duration; as many requests of the
	// same duration follow. No request was slow under the rule in force: the breaker stays closed.
	// [limit before ms, limit after ms, requests per half, duration ms, per-resource load (0/1)]
	Verdicts []int64 `json:"verdicts,omitempty"`
	// Recycle: a scripted scenario on the outlier module (timers and the recycler worker run under the simulator's
	// timer queue). A node is ejected and scheduled for recycling under a rule with a short recycle interval; the
	// rule is replaced by the same rule with a long one (or cleared and loaded again). If the node is still ejected
	// after the load, it is still ejected when the interval of the REPLACED rule has passed.
	// [interval before s, interval after s, a request between the load and the old deadline (0/1), how: 0 LoadRules, 1 LoadRuleOfResource, 2 ClearRules+LoadRules,
	// 3 ClearRules, then the very same rule object is loaded again and the node fails again shortly before the old timer is due, 4 the same with ClearRuleOfResource, then LoadRules, 5 the recycler consumes its queue only after ClearRules (timer armed while there is no rule), then LoadRules, 6 / 7 a rule with ACTIVE recovery is replaced by a passive one / cleared while its check function is probing an ejected node, 8 the retryer takes a node queued under the active rule from its queue after a passive one was loaded, 9 as 6 but replaced by the same active rule with another check function]
	Recycle []int64 `json:"recycle,omitempty"`
}

const nRes = 3

type P struct{}

func init() { harness.Register(P{}) }

func (P) ID() string     { return "C13" }
func (P) Engine() string { return "E1" }

func (P) Describe() harness.Description {
	return harness.Description{
		MustHit: []string{"rule_replaced_inside_its_window_by_another_threshold", "per_resource_load_with_a_rule_of_another_resource", "outlier_valid_and_invalid_rule_for_one_resource", "element_replaced_in_loaded_slice_and_reloaded", "invalid_rule_in_load", "nil_rule_in_load", "identical_reload", "probe_blocked_by_enforced_rule", "per_resource_load", "outlier_rule_replaced_with_a_recycle_timer_armed"},
		Level:   "exploration",
		Rule: "case = (table of 6-24 rule specifications over the six modules: valid never-blocking, valid always-blocking, invalid in exactly one field-wise way (built so that they would block a probe if enforced), nil elements; 5-30 operations: LoadRules, LoadRulesOfResource, ClearRules, ClearRulesOfResource, identical reload with freshly allocated objects, probe). " +
			"After every call: no panic escaped; the getters equal the rule-set model (per resource, in order); the enforcement accessors (traffic controllers / breakers / enforced outlier rule) carry exactly the model's rules; probe traffic on every resource is blocked by exactly the first module that holds an enforced blocking rule and otherwise passes; an identical reload reports 'unchanged'. " +
			"non-trivial = a load mixing valid and invalid rules replaced earlier rules and a probe decision changed; distinct = hash(config, ops). The simulation content is thin here (history generation, reference model, shrinking, replay, virtual time for the probes).",
		Assumptions: []string{
			"rule objects are freshly allocated for every call and never mutated by the harness",
			"enum values outside the defined constants that the validity check accepts are outside the generated domain",
			"circuit-breaker and outlier enforcement is compared through overlay-only read accessors, not through traffic",
		},
		Real: []string{"rule managers of core/flow, core/isolation, core/hotspot, core/circuitbreaker, core/system, core/outlier", "api.Entry/Exit for probes", "slot chain"},
		Stub: []string{"util.Clock (virtual clock)"},
	}
}

func encList(l []int) []string {
	var s []string
	for _, i := range l {
		s = append(s, strconv.Itoa(i))
	}
	return s
}

func (P) Gen(rng *sim.Rng, tier string) *harness.Case {
	cfg := Cfg{Origin: 1700000000000 + rng.U64Range(0, 100000), Scribble: rng.Chance(0.3)}
	if rng.Chance(0.04) {
		a := int64([]int{1, 2, 5, 100}[rng.Intn(4)])
		b := int64([]int{1, 2, 5, 100}[rng.Intn(4)])
		cfg.Budget = []int64{a, int64(rng.Range(0, int(a)+1)), b, int64(rng.Range(1, 12)), int64(rng.Intn(2))}
		if rng.Chance(0.5) {
			// ... and the first rule is restored afterwards: [.., 1, requests after the restore]
			cfg.Budget = append(cfg.Budget, 1, int64(rng.Range(1, 12)))
		}
	}
	if len(cfg.Budget) == 0 && rng.Chance(0.03) {
		d := int64(rng.Range(20, 60))
		cfg.Verdicts = []int64{int64(rng.Range(1, int(d)-1)), d + int64(rng.Range(0, 500)), int64(rng.Range(2, 10)), d, int64(rng.Intn(2))}
	}
	if len(cfg.Budget) == 0 && len(cfg.Verdicts) == 0 && rng.Chance(0.02) {
		cfg.Recycle = []int64{int64(rng.Range(1, 5)), int64([]int{30, 600, 3600}[rng.Intn(3)]), int64(rng.Intn(2)), int64(rng.Intn(10))}
	}
	n := rng.Range(6, 24)
	for i := 0; i < n; i++ {
		m := rng.Intn(rs.NumModules)
		r := rs.RS{M: m, Res: rng.Intn(nRes), Idx: i, Tw: rng.Intn(3)}
		if rng.Chance(0.5) {
			r.Hid = rng.Intn(rs.NumHidden[m])
		}
		switch rng.Intn(10) {
		case 0, 1, 2, 3:
			r.Var = 0
		case 4, 5:
			r.Var = 1
		case 6, 7:
			r.Var = rng.Range(2, rs.NumVariants[m]-1)
		case 8:
			r.Res = -1
			r.Var = rng.Intn(2)
		default:
			r.Nil = true
		}
		cfg.Table = append(cfg.Table, r)
		if r.Valid() && rs.NumHidden[m] > 1 && rng.Chance(0.3) {
			// an edited copy: same id (same table index in the id), one field changed
			tw := r
			tw.Hid = (r.Hid + 1 + rng.Intn(rs.NumHidden[m]-1)) % rs.NumHidden[m]
			cfg.Table = append(cfg.Table, tw)
		}
	}
	byMod := func(m int) []int {
		var l []int
		for i, r := range cfg.Table {
			if r.M == m {
				l = append(l, i)
			}
		}
		return l
	}
	var ops []harness.Op
	lastM := -1
	for k := rng.Range(5, 30); len(ops) < k; {
		m := rng.Intn(rs.NumModules)
		cand := byMod(m)
		pick := func(res int) []int {
			var l []int
			for _, i := range cand {
				if res >= 0 && cfg.Table[i].Res != res && !cfg.Table[i].Nil {
					// now and then a per-resource load carries a rule that names another resource (a caller's
					// slip): it is not a rule of the resource being loaded and must govern nothing
					if !rng.Chance(0.12) {
						continue
					}
				}
				if rng.Chance(0.55) {
					l = append(l, i)
				}
			}
			rng2 := rng.Fork(uint64(len(ops)))
			for i := len(l) - 1; i > 0; i-- {
				j := rng2.Intn(i + 1)
				l[i], l[j] = l[j], l[i]
			}
			return l
		}
		switch rng.Weighted([]int{35, 20, 5, 8, 12, 20}) {
		case 0:
			ops = append(ops, harness.Op{K: "load", R: m, A: encList(pick(-1))})
			lastM = m
		case 1:
			if m != rs.System {
				res := rng.Intn(nRes)
				ops = append(ops, harness.Op{K: "loadres", R: m, E: res, A: encList(pick(res))})
				lastM = m
			}
		case 2:
			ops = append(ops, harness.Op{K: "clear", R: m})
		case 3:
			if m != rs.System {
				ops = append(ops, harness.Op{K: "clearres", R: m, E: rng.Intn(nRes)})
			}
		case 4:
			if lastM >= 0 && rng.Chance(0.5) {
				// replace one element of the last loaded slice (candidates for the new rule) and reload the same slice
				var a []int
				cm := byMod(lastM)
				for j := 0; j < 6 && len(cm) > 0; j++ {
					a = append(a, cm[rng.Intn(len(cm))])
				}
				ops = append(ops, harness.Op{K: "editload", E: rng.Intn(8), A: encList(a)})
			} else {
				ops = append(ops, harness.Op{K: "again"})
			}
		default:
			ops = append(ops, harness.Op{K: "probe"})
		}
	}
	ops = append(ops, harness.Op{K: "probe"})
	return &harness.Case{Cfg: harness.MustJSON(cfg), Callers: [][]harness.Op{ops}}
}

// model: per module, per resource name, the valid rules of the latest load in order
type rset map[string][]rs.RS

func decode(cfg *Cfg, a []string, m int) []rs.RS {
	var l []rs.RS
	for _, s := range a {
		i, err := strconv.Atoi(s)
		if err != nil || i < 0 || i >= len(cfg.Table) || cfg.Table[i].M != m {
			continue
		}
		l = append(l, cfg.Table[i])
	}
	return l
}

func resKey(m int, r rs.RS) string {
	if m == rs.System {
		return "*"
	}
	return rs.ResName(r.Res)
}

// lastObjs is the very slice of rule objects handed to the module by the last load (see callEdit).
var lastObjs interface{}

// callEdit is what an application does when it keeps its rule list around: it puts a NEW rule object into the slice it
// loaded before and hands the SAME slice to the module again. (Editing a loaded rule OBJECT in place is not in the
// domain: the managers publish the caller's objects to concurrent readers - pinned tests assert that identity -, so an
// application must not write to them after the load.)
func callEdit(m int, kind, res string, i int, nr rs.RS) (changed bool, err error) {
	switch l := lastObjs.(type) {
	case []*flow.Rule:
		l[i] = rs.BuildFlow(nr)
		if kind == "load" {
			return flow.LoadRules(l)
		}
		return flow.LoadRulesOfResource(res, l)
	case []*isolation.Rule:
		l[i] = rs.BuildIsolation(nr)
		if kind == "load" {
			return isolation.LoadRules(l)
		}
		return isolation.LoadRulesOfResource(res, l)
	case []*hotspot.Rule:
		l[i] = rs.BuildHotspot(nr)
		if kind == "load" {
			return hotspot.LoadRules(l)
		}
		return hotspot.LoadRulesOfResource(res, l)
	case []*cb.Rule:
		l[i] = rs.BuildBreaker(nr)
		if kind == "load" {
			return cb.LoadRules(l)
		}
		return cb.LoadRulesOfResource(res, l)
	case []*system.Rule:
		l[i] = rs.BuildSystem(nr)
		return system.LoadRules(l)
	}
	return false, nil
}

// call performs the load on the real module with freshly built objects.
func call(m int, kind string, res string, list []rs.RS) (changed bool, err error) {
	lastObjs = nil
	switch m {
	case rs.Flow:
		var l []*flow.Rule
		for _, r := range list {
			l = append(l, rs.BuildFlow(r))
		}
		lastObjs = l
		switch kind {
		case "load":
			return flow.LoadRules(l)
		case "loadres":
			return flow.LoadRulesOfResource(res, l)
		case "clear":
			return true, flow.ClearRules()
		default:
			return true, flow.ClearRulesOfResource(res)
		}
	case rs.Isolation:
		var l []*isolation.Rule
		for _, r := range list {
			l = append(l, rs.BuildIsolation(r))
		}
		lastObjs = l
		switch kind {
		case "load":
			return isolation.LoadRules(l)
		case "loadres":
			return isolation.LoadRulesOfResource(res, l)
		case "clear":
			return true, isolation.ClearRules()
		default:
			return true, isolation.ClearRulesOfResource(res)
		}
	case rs.Hotspot:
		var l []*hotspot.Rule
		for _, r := range list {
			l = append(l, rs.BuildHotspot(r))
		}
		lastObjs = l
		switch kind {
		case "load":
			return hotspot.LoadRules(l)
		case "loadres":
			return hotspot.LoadRulesOfResource(res, l)
		case "clear":
			return true, hotspot.ClearRules()
		default:
			return true, hotspot.ClearRulesOfResource(res)
		}
	case rs.Breaker:
		var l []*cb.Rule
		for _, r := range list {
			l = append(l, rs.BuildBreaker(r))
		}
		lastObjs = l
		switch kind {
		case "load":
			return cb.LoadRules(l)
		case "loadres":
			return cb.LoadRulesOfResource(res, l)
		case "clear":
			return true, cb.ClearRules()
		default:
			return true, cb.ClearRulesOfResource(res)
		}
	case rs.System:
		l := []*system.Rule{} // an empty list is an empty list, not nil (ClearRules is the call that loads nil)
		for _, r := range list {
			l = append(l, rs.BuildSystem(r))
		}
		lastObjs = l
		switch kind {
		case "load":
			return system.LoadRules(l)
		default:
			return true, system.ClearRules()
		}
	default:
		var l []*outlier.Rule
		for _, r := range list {
			l = append(l, rs.BuildOutlier(r))
		}
		switch kind {
		case "load":
			return outlier.LoadRules(l)
		case "loadres":
			// the module's per-resource call takes a single rule: the last one of the list is the latest
			if len(l) == 0 {
				return outlier.LoadRuleOfResource(res, nil)
			}
			return outlier.LoadRuleOfResource(res, l[len(l)-1])
		case "clear":
			return true, outlier.ClearRules()
		default:
			return true, outlier.ClearRuleOfResource(res)
		}
	}
}

func ids(l []rs.RS) []string {
	var s []string
	for _, r := range l {
		s = append(s, r.Token())
	}
	return s
}

func sorted(s []string) []string {
	t := append([]string{}, s...)
	sort.Strings(t)
	return t
}

// eq compares rule lists by content class (an identical rule may keep the object, and the id, of an earlier load).
func eq(a, b []string) bool {
	if len(a) != len(b) {
		return false
	}
	for i := range a {
		if rs.Sig(a[i]) != rs.Sig(b[i]) {
			return false
		}
	}
	return true
}

func eqExact(a, b []string) bool {
	if len(a) != len(b) {
		return false
	}
	for i := range a {
		if a[i] != b[i] {
			return false
		}
	}
	return true
}

func sortedSig(s []string) []string {
	t := make([]string, len(s))
	for i, x := range s {
		t[i] = rs.Sig(x)
	}
	sort.Strings(t)
	return t
}

func (P) Exec(c *harness.Case) *harness.Outcome {
	o := harness.NewOutcome()
	var cfg Cfg
	if err := json.Unmarshal(c.Cfg, &cfg); err != nil {
		o.Infra = err.Error()
		return o
	}
	if len(c.Callers) == 0 {
		return o
	}
	for i := range cfg.Table {
		if cfg.Table[i].M < 0 || cfg.Table[i].M >= rs.NumModules || cfg.Table[i].Res >= nRes {
			return o
		}
	}
	env := harness.Reset(cfg.Origin*1e6, harness.DefaultGeometry())
	if len(cfg.Budget) == 5 || len(cfg.Budget) == 7 {
		execBudget(&cfg, o)
		return o
	}
	if len(cfg.Verdicts) == 5 {
		execVerdicts(&cfg, o, env)
		return o
	}
	if len(cfg.Recycle) == 4 {
		execRecycle(&cfg, o, env)
		return o
	}
	model := make([]rset, rs.NumModules)
	for m := range model {
		model[m] = rset{}
	}
	type lastCall struct {
		m    int
		kind string
		res  string
		list []rs.RS
		err  error
	}
	var last *lastCall
	replaced, changedDecision := false, false
	var prevProbe []string
	apply := func(m int, kind, res string, list []rs.RS) {
		switch kind {
		case "load":
			had := len(model[m]) > 0
			model[m] = rset{}
			mixedV, mixedI := false, false
			for _, r := range list {
				if r.Valid() {
					mixedV = true
					if m == rs.Outlier {
						model[m][resKey(m, r)] = []rs.RS{r} // one rule per resource: the last one wins
					} else {
						model[m][resKey(m, r)] = append(model[m][resKey(m, r)], r)
					}
				} else {
					mixedI = true
				}
			}
			if had && mixedV && mixedI {
				replaced = true
			}
		case "loadres":
			delete(model[m], res)
			for _, r := range list {
				if r.Valid() && resKey(m, r) == res {
					if m == rs.Outlier {
						model[m][res] = []rs.RS{r}
					} else {
						model[m][res] = append(model[m][res], r)
					}
				}
			}
			if m == rs.Outlier && len(list) > 0 && !list[len(list)-1].Valid() {
				// the single rule handed over is invalid: nothing valid was loaded for the resource
				delete(model[m], res)
			}
		case "clear":
			model[m] = rset{}
		case "clearres":
			delete(model[m], res)
		}
	}
	for step, op := range c.Callers[0] {
		switch op.K {
		case "load", "loadres", "clear", "clearres":
			m := op.R
			if m < 0 || m >= rs.NumModules || (m == rs.System && (op.K == "loadres" || op.K == "clearres")) {
				continue
			}
			list := decode(&cfg, op.A, m)
			res := rs.ResName(op.E)
			if op.K == "loadres" {
				o.Probe("per_resource_load")
				// a rule that names another resource is ignored by the reference (see apply); the outlier call
				// takes a single rule, its lists carry rules of that resource only
				k := 0
				for _, r := range list {
					if true {
						list[k] = r
						k++
						if !r.Nil && r.Res != op.E {
							o.Probe("per_resource_load_with_a_rule_of_another_resource")
						}
					}
				}
				list = list[:k]
			}
			if m == rs.Outlier {
				// the outlier module holds one rule per resource: a list with several rules for one
				// resource is contradictory input (outside the domain); its per-resource call takes a
				// single rule and treats nil as "clear"
				// (two VALID rules for one resource are contradictory; a valid one together with invalid ones is not:
				// the invalid ones are to be ignored, wherever they stand in the list)
				validPer := map[int]int{}
				for _, r := range list {
					if r.Valid() {
						validPer[r.Res]++
					}
				}
				seen := map[int]bool{}
				k := 0
				for i := len(list) - 1; i >= 0; i-- {
					r := list[i]
					if r.Nil && op.K == "loadres" {
						continue
					}
					if !r.Nil && (validPer[r.Res] > 1 || op.K == "loadres") {
						if seen[r.Res] {
							continue
						}
						seen[r.Res] = true
					}
					list[len(list)-1-k] = r
					k++
				}
				list = list[len(list)-k:]
				for _, n := range validPer {
					if n == 1 && op.K == "load" {
						o.Probe("outlier_valid_and_invalid_rule_for_one_resource")
					}
				}
				if op.K == "loadres" && len(list) > 1 {
					list = list[len(list)-1:]
				}
			}
			for _, r := range list {
				if r.Nil {
					o.Probe("nil_rule_in_load")
				} else if !r.Valid() {
					o.Probe("invalid_rule_in_load")
				}
			}
			var lerr error
			harness.Call(o, "C13.load-panicked", step, func() { _, lerr = call(m, op.K, res, list) })
			if o.Failed() {
				if len(list) > 0 {
					for _, r := range list {
						if r.Nil || (m == rs.Outlier && r.Var == 5) {
							o.V.Key = "C13.nil-rule-panics"
						}
					}
				}
				return o
			}
			aborted := false
			for _, r := range list {
				if r.Aborts() && (op.K == "load" || (op.K == "loadres" && r.Res == op.E)) {
					aborted = true
				}
			}
			if aborted {
				// the load reached a generator that panics: it reports an error and nothing has changed - not the rules
				// in force, not what the getters report (checkState below compares with the state before)
				o.Probe("load_abandoned_by_a_panicking_generator")
				if lerr == nil {
					o.Fail("C13.abandoned-load-reported-success", step, "%s load of %s with a rule whose generator panics returned no error", op.K, rs.ModuleName[m])
					return o
				}
				last = &lastCall{m, op.K, res, list, lerr}
				break
			}
			apply(m, op.K, res, list)
			last = &lastCall{m, op.K, res, list, lerr}
		case "editload":
			// the application replaces one element of the slice it loaded last and loads the same slice again
			if last == nil || (last.kind != "load" && last.kind != "loadres") || len(last.list) == 0 || last.err != nil || lastObjs == nil || last.m == rs.Outlier || len(op.A) == 0 {
				continue
			}
			i := op.E % len(last.list)
			if i < 0 || last.list[i].Nil {
				continue
			}
			var pickd *rs.RS
			for _, cnd := range decode(&cfg, op.A, last.m) {
				cnd := cnd
				if !cnd.Nil && cnd.Res == last.list[i].Res && cnd.Token() != last.list[i].Token() {
					pickd = &cnd
					break
				}
			}
			if pickd == nil {
				continue
			}
			cand := []rs.RS{*pickd}
			nl := append([]rs.RS{}, last.list...)
			nl[i] = cand[0]
			o.Probe("element_replaced_in_loaded_slice_and_reloaded")
			var lerr error
			harness.Call(o, "C13.load-panicked", step, func() { _, lerr = callEdit(last.m, last.kind, last.res, i, cand[0]) })
			if o.Failed() {
				return o
			}
			abortedEdit := false
			for _, r := range nl {
				if r.Aborts() && (last.kind == "load" || (last.kind == "loadres" && rs.ResName(r.Res) == last.res)) {
					abortedEdit = true
				}
			}
			if abortedEdit {
				o.Probe("load_abandoned_by_a_panicking_generator")
				if lerr == nil {
					o.Fail("C13.abandoned-load-reported-success", step, "reload of the edited %s list with a rule whose generator panics returned no error", rs.ModuleName[last.m])
					return o
				}
				last = &lastCall{last.m, last.kind, last.res, nl, lerr}
				break
			}
			apply(last.m, last.kind, last.res, nl)
			last = &lastCall{last.m, last.kind, last.res, nl, lerr}
		case "again":
			// a load that returned an error did not load anything: "identical reload" is about successful loads
			// (empty lists: for the whole-set load of the system module only - the per-resource loads of the other modules
			// take an empty list for "clear" and report "changed" every time)
			if last == nil || (last.kind != "load" && last.kind != "loadres") || (len(last.list) == 0 && !(last.m == rs.System && last.kind == "load")) || last.err != nil {
				continue
			}
			if len(last.list) == 0 {
				o.Probe("empty_list_loaded_again")
			}
			nan := false
			for _, r := range last.list {
				if r.NotANumber() {
					nan = true // a list with a NaN in it is not even equal to itself
				}
			}
			if nan {
				continue
			}
			o.Probe("identical_reload")
			var changed bool
			harness.Call(o, "C13.load-panicked", step, func() { changed, _ = call(last.m, last.kind, last.res, last.list) })
			if o.Failed() {
				return o
			}
			if changed {
				o.Fail("C13.identical-reload-reports-changed", step, "reloading the identical %s rule list %v (freshly allocated objects) reported 'changed'", rs.ModuleName[last.m], ids(last.list))
				return o
			}
		case "probe":
			env.Clock.AdvanceMs(2000)
			o.SimMs += 2000
			var now []string
			for r := 0; r < nRes; r++ {
				want := "pass"
				name := rs.ResName(r)
				for _, m := range []int{rs.System, rs.Flow, rs.Isolation, rs.Hotspot} {
					key := name
					if m == rs.System {
						key = "*"
					}
					hit := false
					for _, x := range model[m][key] {
						if x.Blocker() {
							hit = true
						}
					}
					if hit {
						want = rs.ModuleName[m]
						break
					}
				}
				got := "pass"
				triggered := ""
				harness.Call(o, "C13.probe-panicked", step, func() {
					e, be := sentinel.Entry(name, harness.EntryOpts(3, true, []interface{}{1}, nil, nil)...)
					if e != nil {
						e.Exit()
					}
					if be != nil {
						if tr := be.TriggeredRule(); tr != nil {
							triggered = rs.Token(tr)
						}
						switch be.BlockType() {
						case base.BlockTypeSystemFlow:
							got = "system"
						case base.BlockTypeFlow:
							got = "flow"
						case base.BlockTypeIsolation:
							got = "isolation"
						case base.BlockTypeHotSpotParamFlow:
							got = "hotspot"
						default:
							got = be.BlockType().String()
						}
					}
				})
				if o.Failed() {
					return o
				}
				if got != want {
					o.Fail("C13.probe-decision", step, "probe on %s: %s, but the valid rules of the latest loads say %s (model: flow %v isolation %v hotspot %v system %v)", name, got, want,
						ids(model[rs.Flow][name]), ids(model[rs.Isolation][name]), ids(model[rs.Hotspot][name]), ids(model[rs.System]["*"]))
					return o
				}
				if want != "pass" {
					o.Probe("probe_blocked_by_enforced_rule")
					// the rule the block error names is one of the blocking rules of the latest load, as loaded (ID included)
					named := false
					var blockers []string
					for mi, mn := range rs.ModuleName {
						if mn != want {
							continue
						}
						key := name
						if mi == rs.System {
							key = "*"
						}
						for _, x := range model[mi][key] {
							if x.Blocker() {
								blockers = append(blockers, x.Token())
								if x.Token() == triggered || (mi == rs.System && rs.Sig(x.Token()) == rs.Sig(triggered)) {
									named = true
								}
							}
						}
					}
					if !named {
						o.Fail("C13.block-names-a-rule-not-loaded", step, "probe on %s blocked by %s: the block error names %s as its cause; the blocking rules of the latest load are %v", name, want, triggered, blockers)
						return o
					}
				}
				now = append(now, got)
			}
			if prevProbe != nil && !eq(prevProbe, now) {
				changedDecision = true
			}
			prevProbe = now
		}
		// getters and enforcement accessors after every operation
		if !checkState(o, step, model, cfg.Scribble) {
			return o
		}
	}
	o.Nontrivial = replaced && changedDecision
	return o
}

func checkState(o *harness.Outcome, step int, model []rset, scribble bool) bool {
	ok := harness.Call(o, "C13.getter-panicked", step, func() {
		for m := 0; m < rs.NumModules; m++ {
			var all []string
			perRes := map[string][]string{}
			enforced := map[string][]string{}
			switch m {
			case rs.Flow:
				for _, r := range flow.GetRules() {
					r := r
					all = append(all, rs.Token(&r))
				}
				for i := 0; i < nRes; i++ {
					n := rs.ResName(i)
					for _, r := range flow.GetRulesOfResource(n) {
						r := r
						perRes[n] = append(perRes[n], rs.Token(&r))
					}
					for _, tc := range flow.VerifControllersFor(n) {
						enforced[n] = append(enforced[n], rs.Token(tc.BoundRule()))
					}
				}
			case rs.Isolation:
				for _, r := range isolation.GetRules() {
					r := r
					all = append(all, rs.Token(&r))
				}
				for i := 0; i < nRes; i++ {
					n := rs.ResName(i)
					for _, r := range isolation.GetRulesOfResource(n) {
						r := r
						perRes[n] = append(perRes[n], rs.Token(&r))
					}
					enforced[n] = perRes[n]
				}
			case rs.Hotspot:
				for _, r := range hotspot.GetRules() {
					r := r
					all = append(all, rs.Token(&r))
					if scribble {
						for k := range r.SpecificItems {
							r.SpecificItems[k] = 424242
						}
						if r.SpecificItems != nil {
							r.SpecificItems["scribbled"] = 1
						}
					}
				}
				for i := 0; i < nRes; i++ {
					n := rs.ResName(i)
					for _, r := range hotspot.GetRulesOfResource(n) {
						r := r
						perRes[n] = append(perRes[n], rs.Token(&r))
					}
					for _, tc := range hotspot.VerifControllersFor(n) {
						enforced[n] = append(enforced[n], rs.EnforcedToken(tc.BoundRule()))
					}
				}
			case rs.Breaker:
				for _, r := range cb.GetRules() {
					r := r
					all = append(all, rs.Token(&r))
				}
				for i := 0; i < nRes; i++ {
					n := rs.ResName(i)
					for _, r := range cb.GetRulesOfResource(n) {
						r := r
						perRes[n] = append(perRes[n], rs.Token(&r))
					}
					for _, b := range cb.VerifBreakersOf(n) {
						enforced[n] = append(enforced[n], rs.Token(b.BoundRule()))
					}
				}
			case rs.System:
				for _, r := range system.GetRules() {
					r := r
					all = append(all, rs.Token(&r))
				}
				perRes["*"] = sortedSig(all)
				enforced["*"] = perRes["*"]
			case rs.Outlier:
				for _, r := range outlier.GetRules() {
					if r.Rule != nil {
						r := r
						all = append(all, rs.Token(&r))
						if scribble {
							o.Probe("getter_results_scribbled_on")
							r.Rule.Id, r.Rule.Threshold, r.Rule.RetryTimeoutMs, r.Rule.MinRequestAmount, r.Rule.Strategy = "scribbled", 424242, 1, 424242, cb.SlowRequestRatio
						}
					}
				}
				for i := 0; i < nRes; i++ {
					n := rs.ResName(i)
					or, br := outlier.VerifRuleOf(n)
					if or != nil && or.Rule != nil {
						perRes[n] = append(perRes[n], rs.Token(or))
					}
					if br != nil {
						// the breaker rule the node breakers are built from, shown inside the outlier rule it came with
						tmp := outlier.Rule{Rule: br}
						if or != nil {
							tmp = *or
							tmp.Rule = br
						}
						enforced[n] = append(enforced[n], rs.Token(&tmp))
					}
				}
			}
			var wantAll []string
			for key, l := range model[m] {
				w := ids(l)
				if m == rs.System {
					w = sortedSig(w)
				}
				wantAll = append(wantAll, ids(l)...)
				// what the getters report is what was loaded, IDs included (the rule OBJECT a controller holds may be
				// that of an earlier load with the same fields - enforced[] below is compared by content)
				if (m == rs.System && !eq(perRes[key], w)) || (m != rs.System && !eqExact(perRes[key], w)) {
					o.Fail("C13.getter-mismatch", step, "%s: getter of %s reports %v, the valid rules of the latest load are %v", rs.ModuleName[m], key, perRes[key], w)
					return
				}
				we := w
				if m == rs.Hotspot {
					we = nil
					for _, x := range l {
						we = append(we, x.EnforcedToken())
					}
				}
				if !eq(enforced[key], we) {
					o.Fail("C13.enforced-mismatch", step, "%s: rules governing %s are %v, the valid rules of the latest load are %v (getter reports %v)", rs.ModuleName[m], key, enforced[key], w, perRes[key])
					return
				}
			}
			for key, l := range perRes {
				if len(l) > 0 && len(model[m][key]) == 0 {
					o.Fail("C13.getter-mismatch", step, "%s: getter of %s reports %v but no valid rule is loaded for it", rs.ModuleName[m], key, l)
					return
				}
			}
			for key, l := range enforced {
				if len(l) > 0 && len(model[m][key]) == 0 {
					o.Fail("C13.enforced-mismatch", step, "%s: rules %v govern %s but no valid rule is loaded for it (getter reports %v)", rs.ModuleName[m], l, key, perRes[key])
					return
				}
			}
			if (m == rs.System && !eq(sortedSig(all), sortedSig(wantAll))) || (m != rs.System && !eqExact(sorted(all), sorted(wantAll))) {
				o.Fail("C13.getter-mismatch", step, "%s: GetRules reports %v, the valid rules of the latest loads are %v", rs.ModuleName[m], sorted(all), sorted(wantAll))
				return
			}
		}
	})
	return ok && !o.Failed()
}

var _ = fmt.Sprintf

// execBudget: see Cfg.Budget. The clock stands still, so everything happens inside one window of the rule. The rule
// object of the second load is fresh and carries the same ID. Whether the replaced rule's consumption carries over to
// the new one is left open (a modified rule may keep its statistics or start afresh): with k requests admitted before
// and n offered after, the number admitted after must be min(n, b) or min(n, max(0, b-k)) - in no case does the
// threshold of the replaced rule appear in it.
func execBudget(cfg *Cfg, o *harness.Outcome) {
	a, before, b, n, perRes := cfg.Budget[0], cfg.Budget[1], cfg.Budget[2], cfg.Budget[3], cfg.Budget[4] == 1
	if a <= 0 || b <= 0 || before < 0 || n <= 0 || n > 1000 || before > 1000 {
		return
	}
	const resName = "res-0"
	load := func(t int64) {
		harness.Call(o, "C13.load-panicked", 0, func() {
			r := []*hotspot.Rule{{ID: "budget", Resource: resName, MetricType: hotspot.QPS, ControlBehavior: hotspot.Reject, ParamIndex: 0, Threshold: t, DurationInSec: 3600}}
			if perRes {
				_, _ = hotspot.LoadRulesOfResource(resName, r)
			} else {
				_, _ = hotspot.LoadRules(r)
			}
		})
	}
	offer := func(k int64) (admitted int64) {
		for i := int64(0); i < k && !o.Failed(); i++ {
			harness.Call(o, "C13.probe-panicked", 0, func() {
				if e, _ := sentinel.Entry(resName, harness.EntryOpts(1, false, []interface{}{"v"}, nil, nil)...); e != nil {
					admitted++
					e.Exit()
				}
			})
		}
		return
	}
	load(a)
	k := offer(before)
	if o.Failed() {
		return
	}
	load(b)
	got := offer(n)
	if o.Failed() {
		return
	}
	min := func(x, y int64) int64 {
		if x < y {
			return x
		}
		return y
	}
	fresh, carried := min(n, b), min(n, b-k)
	if carried < 0 {
		carried = 0
	}
	o.Nontrivial = true
	o.Probe("rule_replaced_inside_its_window_by_another_threshold")
	if got != fresh && got != carried {
		o.Fail("C13.replaced-rule-still-decides", 0, "hot-parameter QPS rule, threshold %d per hour: %d request(s) for one value admitted; rule replaced by threshold %d (fresh object, same ID, getter reports %d); of the next %d requests %d were admitted - the rule in force allows %d (consumption carried over) or %d (fresh), the budget left under the replaced rule was %d", a, k, b, thresholdInForce(resName), n, got, carried, fresh, a-k)
		return
	}
	if len(cfg.Budget) != 7 || cfg.Budget[5] != 1 || cfg.Budget[6] <= 0 || cfg.Budget[6] > 1000 {
		return
	}
	// the first rule is restored inside the same window: what the value consumed under either rule stays consumed
	// (or every replacement starts the value afresh - the reading the second phase showed, if it showed one)
	m := cfg.Budget[6]
	load(a)
	got3 := offer(m)
	if o.Failed() {
		return
	}
	o.Probe("replaced_rule_restored_inside_its_window")
	fresh3, carried3 := min(m, a), min(m, a-k-got)
	if carried3 < 0 {
		carried3 = 0
	}
	okFresh := got3 == fresh3 && (got == fresh || fresh == carried)
	okCarried := got3 == carried3 && (got == carried || fresh == carried)
	if !okFresh && !okCarried {
		o.Fail("C13.replaced-rule-still-decides", 0, "hot-parameter QPS rule, threshold %d per hour: %d request(s) for one value admitted; replaced by threshold %d: %d more admitted; the first rule restored (getter reports %d): of the next %d requests %d were admitted - the value has consumed %d of %d, so %d may pass (or %d if every replacement starts the value afresh, which the second phase did %sshow)", a, k, b, got, thresholdInForce(resName), m, got3, k+got, a, carried3, fresh3, map[bool]string{true: "", false: "not "}[got == fresh && fresh != carried])
	}
}

func thresholdInForce(res string) int64 {
	for _, r := range hotspot.GetRulesOfResource(res) {
		return r.Threshold
	}
	return -1
}

// execVerdicts: see Cfg.Verdicts. Everything happens inside one statistic window of 10 s (one bucket).
func execVerdicts(cfg *Cfg, o *harness.Outcome, env *harness.Env) {
	a, b, n, d, perRes := cfg.Verdicts[0], cfg.Verdicts[1], cfg.Verdicts[2], cfg.Verdicts[3], cfg.Verdicts[4] == 1
	if a <= 0 || a >= d || b < d || n <= 0 || n > 20 || d > 200 {
		return
	}
	const resName = "res-0"
	// start the scenario at the beginning of a window
	now := env.Clock.NowMs()
	env.Clock.AdvanceMs(10000 - now%10000)
	load := func(limit int64) {
		harness.Call(o, "C13.load-panicked", 0, func() {
			r := []*cb.Rule{{Id: "verdicts", Resource: resName, Strategy: cb.SlowRequestRatio, MaxAllowedRtMs: uint64(limit), Threshold: 0.5, MinRequestAmount: uint64(2 * n), StatIntervalMs: 10000, RetryTimeoutMs: 5000}}
			if perRes {
				_, _ = cb.LoadRulesOfResource(resName, r)
			} else {
				_, _ = cb.LoadRules(r)
			}
		})
	}
	serve := func(k int64) (rejected int64) {
		for i := int64(0); i < k && !o.Failed(); i++ {
			harness.Call(o, "C13.probe-panicked", 0, func() {
				e, _ := sentinel.Entry(resName, harness.EntryOpts(1, false, nil, nil, nil)...)
				if e == nil {
					rejected++
					return
				}
				env.Clock.AdvanceMs(uint64(d))
				o.SimMs += uint64(d)
				e.Exit()
			})
		}
		return
	}
	load(a)
	if serve(n) != 0 || o.Failed() {
		return
	}
	load(b)
	rej := serve(n + 1)
	if o.Failed() {
		return
	}
	o.Nontrivial = true
	o.Probe("breaker_limit_raised_inside_its_window")
	if rej != 0 {
		o.Fail("C13.replaced-rule-still-decides", 0, "slow-request-ratio breaker (ratio 0.5, minimum %d requests, window 10 s) with a limit of %d ms served %d requests of %d ms; it was replaced by a rule with a limit of %d ms (getter reports %d) and %d more requests of %d ms followed, none of them slow under the rule in force: %d of them were rejected - the breaker opened on the verdicts the replaced rule had given", 2*n, a, n, d, b, limitInForce(resName), n+1, d, rej)
	}
}

// c13Checker is a recovery checker that counts its calls and never finds a node healthy.
type c13Checker struct{ n *int }

func (c c13Checker) Check(string) bool { *c.n++; return false }

// execRecycle: see Cfg.Recycle.
func execRecycle(cfg *Cfg, o *harness.Outcome, env *harness.Env) {
	a, b, between, how := cfg.Recycle[0], cfg.Recycle[1], cfg.Recycle[2] == 1, cfg.Recycle[3]
	if a <= 0 || a > 10 || b <= a+1 || b > 100000 || how < 0 || how > 9 {
		return
	}
	const resName, bad, good = "res-0", "10.0.0.1:80", "10.0.0.2:80"
	tq := &sim.TimerQ{Clk: env.Clock, Pick: func(n int) int { return 0 }}
	sim.Timers = tq
	defer func() { sim.Timers = nil }()
	drain := func() {
		for outlier.VerifDrainRecycler()+outlier.VerifDrainRetryer() != 0 {
		}
	}
	sc := sentinel.BuildDefaultSlotChain()
	sc.AddRuleCheckSlot(outlier.DefaultSlot)
	sc.AddStatSlot(outlier.DefaultMetricStatSlot)
	mk := func(recycleS int64) *outlier.Rule {
		// ejected for an hour after one error; every node may be ejected; passive recovery only
		return &outlier.Rule{Rule: &cb.Rule{Id: "recycle", Resource: resName, Strategy: cb.ErrorCount, RetryTimeoutMs: 3600000, MinRequestAmount: 1, StatIntervalMs: 10000, Threshold: 1},
			MaxEjectionPercent: 1, RecycleIntervalS: uint32(recycleS)}
	}
	if how >= 6 {
		// The other worker of the module: a rule with ACTIVE recovery probes an ejected node with its check function
		// once per recovery interval, for ever while the node does not answer. The rule is replaced by a passive one
		// (6), or cleared (7): the check function of the rule that is gone is not called any more.
		calls := 0
		active := mk(3600)
		active.EnableActiveRecovery, active.RecoveryIntervalMs, active.MaxRecoveryAttempts = true, 1000, 3
		active.RecoveryCheckFunc = c13Checker{&calls}.Check
		harness.Call(o, "C13.load-panicked", 0, outlier.VerifResetWorkers)
		defer func() {
			harness.Call(o, "C13.load-panicked", 0, drain)
			_ = outlier.ClearRules()
		}()
		harness.Call(o, "C13.load-panicked", 0, func() { _, _ = outlier.LoadRules([]*outlier.Rule{active}) })
		probe := func(addr string, fail bool) (filter []string) {
			harness.Call(o, "C13.probe-panicked", 0, func() {
				e, _ := sentinel.Entry(resName, sentinel.WithSlotChain(sc))
				if e == nil {
					return
				}
				filter = append(filter, e.Context().FilterNodes()...)
				sentinel.TraceCallee(e, addr)
				if fail {
					sentinel.TraceError(e, errors.New("backend failure"))
				}
				env.Clock.AdvanceMs(1)
				e.Exit()
				drain()
			})
			return
		}
		probe(good, false)
		probe(bad, true)
		probe(bad, true)
		if how == 8 {
			// The request that finds the node ejected queues it for the retryer, which is behind: it takes the node
			// from its queue only after the rule has been replaced by one with PASSIVE recovery (which, to be heard
			// if it is called, carries a check function as well). No active recovery starts under that rule.
			harness.Call(o, "C13.probe-panicked", 0, func() {
				if e, _ := sentinel.Entry(resName, sentinel.WithSlotChain(sc)); e != nil {
					sentinel.TraceCallee(e, good)
					e.Exit()
				}
			})
			passiveCalls := 0
			passive := mk(3600)
			passive.RecoveryIntervalMs, passive.MaxRecoveryAttempts = 1000, 3
			passive.RecoveryCheckFunc = func(string) bool { passiveCalls++; return false }
			harness.Call(o, "C13.load-panicked", 0, func() { _, _ = outlier.LoadRules([]*outlier.Rule{passive}) })
			harness.Call(o, "C13.probe-panicked", 0, func() { drain(); tq.AdvanceMs(10000, drain) })
			if o.Failed() {
				return
			}
			o.Nontrivial = true
			o.Probe("outlier_retry_task_of_a_replaced_rule_consumed_under_a_passive_rule")
			if calls+passiveCalls != 0 {
				o.Fail("C13.replaced-rule-still-decides", 0, "outlier rule with active recovery: a request found a node ejected and queued it for the retryer; before the retryer took it from its queue the rule was replaced by one with PASSIVE recovery (EnableActiveRecovery false). In the 10 s after that load had returned a recovery check function was called %d times (the replaced rule's %d, the one the passive rule carries %d): the loop of active recovery runs under a rule that has none",
					calls+passiveCalls, calls, passiveCalls)
			}
			return
		}
		probe(good, false) // finds the node ejected: handed to the retryer
		harness.Call(o, "C13.probe-panicked", 0, func() { tq.AdvanceMs(2500, drain) })
		if o.Failed() || calls == 0 {
			return
		}
		calls2 := 0
		harness.Call(o, "C13.load-panicked", 0, func() {
			switch how {
			case 6:
				_, _ = outlier.LoadRules([]*outlier.Rule{mk(3600)})
			case 9:
				// the same rule again, with a check function of its own: the same method of another checker (two
				// method values of one method share their code and nothing else)
				again := mk(3600)
				again.EnableActiveRecovery, again.RecoveryIntervalMs, again.MaxRecoveryAttempts = true, 1000, 3
				again.RecoveryCheckFunc = c13Checker{&calls2}.Check
				_, _ = outlier.LoadRules([]*outlier.Rule{again})
			default:
				_ = outlier.ClearRules()
			}
		})
		before := calls
		harness.Call(o, "C13.probe-panicked", 0, func() { tq.AdvanceMs(10000, drain) })
		if o.Failed() {
			return
		}
		o.SimMs += 12500
		o.Nontrivial = true
		o.Probe("outlier_rule_with_active_recovery_replaced_while_it_probes_a_node")
		if calls != before {
			o.Fail("C13.replaced-rule-still-decides", 0, "outlier rule with active recovery (RecoveryIntervalMs 1000, a check function that never finds the node healthy): a node was ejected and the rule's check function probed it %d times; the rule was %s; in the 10 s after that load had returned the check function of the rule that is gone was called %d more times",
				before, map[int64]string{6: "replaced by a rule with passive recovery (LoadRules)", 7: "cleared (ClearRules)", 9: "replaced by the same rule with a check function of its own (the same method of another checker object)"}[how], calls-before)
		}
		return
	}
	load := func(recycleS int64, how int64) {
		harness.Call(o, "C13.load-panicked", 0, func() {
			switch how {
			case 1:
				_, _ = outlier.LoadRuleOfResource(resName, mk(recycleS))
			case 2:
				_ = outlier.ClearRules()
				fallthrough
			default:
				_, _ = outlier.LoadRules([]*outlier.Rule{mk(recycleS)})
			}
		})
	}
	// request: one request served by node addr; returns the nodes reported for filtering on entry
	noDrain := false // the recycler / retryer workers do not get to run after the request (they are behind)
	request := func(addr string, fail bool) (filter []string) {
		harness.Call(o, "C13.probe-panicked", 0, func() {
			e, _ := sentinel.Entry(resName, sentinel.WithSlotChain(sc))
			if e == nil {
				return
			}
			filter = append(filter, e.Context().FilterNodes()...)
			sentinel.TraceCallee(e, addr)
			if fail {
				sentinel.TraceError(e, errors.New("backend failure"))
			}
			env.Clock.AdvanceMs(1)
			e.Exit()
			if !noDrain {
				drain()
			}
		})
		return
	}
	has := func(l []string, x string) bool {
		for _, v := range l {
			if v == x {
				return true
			}
		}
		return false
	}
	harness.Call(o, "C13.load-panicked", 0, outlier.VerifResetWorkers)
	defer func() {
		harness.Call(o, "C13.load-panicked", 0, drain)
		_ = outlier.ClearRules()
	}()
	v1 := mk(a)
	harness.Call(o, "C13.load-panicked", 0, func() { _, _ = outlier.LoadRules([]*outlier.Rule{v1}) })
	request(good, false)
	request(bad, true)
	request(bad, true)
	// this request finds the node ejected: it is handed to the recycler, which arms the timer of the rule in force
	noDrain = how == 5
	if f := request(good, false); o.Failed() || !has(f, bad) {
		return
	}
	noDrain = false
	t0 := env.Clock.NowMs()
	if how == 5 {
		// ... but the recycler is behind: it takes the node from its queue only after the rules have been cleared,
		// and arms a timer while the resource has no rule. A rule with a long recycle interval is loaded; the node
		// fails again and is ejected under it: it stays ejected when the interval of the rule that is gone has passed.
		harness.Call(o, "C13.load-panicked", 0, func() { _ = outlier.ClearRules() })
		harness.Call(o, "C13.probe-panicked", 0, drain)
		load(b, 0)
		request(bad, true)
		request(bad, true)
		if f := request(good, false); o.Failed() || !has(f, bad) {
			return
		}
		t1 := env.Clock.NowMs()
		harness.Call(o, "C13.probe-panicked", 0, func() { tq.AdvanceMs(uint64(a)*1000+500, drain) })
		f := request(good, false)
		if o.Failed() {
			return
		}
		o.Nontrivial = true
		o.Probe("outlier_recycle_timer_armed_while_the_resource_had_no_rule")
		if !has(f, bad) {
			o.Fail("C13.replaced-rule-still-decides", 0, "outlier rule (ejected for 1 h after one error, RecycleIntervalS %d): node %s was ejected and queued for the recycler, the rules were cleared, the recycler took the node from its queue and armed its timer while the resource had no rule; a rule with RecycleIntervalS %d was loaded and the node failed and was ejected under it at +%d ms - %d ms later it is back in the pool: the timer armed for the rule that is gone removed it",
				a, bad, b, t1-t0, env.Clock.NowMs()-t1)
		}
		return
	}
	if how >= 3 {
		// the rule is cleared and the very same object loaded again; 300 ms before the timer armed under the cleared
		// rule is due the node fails again and is ejected and scheduled under the rule in force: it stays ejected
		// for that rule's recycle interval, not for 300 ms
		harness.Call(o, "C13.load-panicked", 0, func() {
			if how == 4 {
				_ = outlier.ClearRuleOfResource(resName)
				_, _ = outlier.LoadRules([]*outlier.Rule{v1})
				return
			}
			_ = outlier.ClearRules()
			_, _ = outlier.LoadRules([]*outlier.Rule{v1})
		})
		if o.Failed() {
			return
		}
		harness.Call(o, "C13.probe-panicked", 0, func() { tq.AdvanceMs(uint64(a)*1000-300-(env.Clock.NowMs()-t0), drain) })
		request(bad, true)
		request(bad, true)
		if f := request(good, false); o.Failed() || !has(f, bad) {
			return
		}
		t1 := env.Clock.NowMs()
		harness.Call(o, "C13.probe-panicked", 0, func() { tq.AdvanceMs(500, drain) })
		f := request(good, false)
		if o.Failed() {
			return
		}
		o.Nontrivial = true
		o.Probe("outlier_rule_cleared_and_loaded_again_with_a_recycle_timer_armed")
		if !has(f, bad) {
			o.Fail("C13.replaced-rule-still-decides", 0, "outlier rule (ejected for 1 h after one error, RecycleIntervalS %d): node %s was ejected and scheduled for recycling, the rules were cleared and the same rule loaded again; the node failed again and was ejected under the rule in force at +%d ms - %d ms later it is back in the pool: the recycle timer armed before the rules were cleared removed it",
				a, bad, t1-t0, env.Clock.NowMs()-t1)
		}
		return
	}
	load(b, how)
	if o.Failed() {
		return
	}
	// is the node still ejected under the new rule? (a load that starts the nodes afresh is as good as one that
	// keeps their state: what must not happen is that the node is ejected after the load and back in the pool when
	// the interval of the replaced rule is over)
	ejectedAfterLoad := false
	if between {
		ejectedAfterLoad = has(request(good, false), bad)
	} else {
		harness.Call(o, "C13.probe-panicked", 0, func() {
			if br := outlier.VerifNodeBreakers(resName)[bad]; br != nil {
				ejectedAfterLoad = br.CurrentState() == cb.Open
			}
		})
	}
	if o.Failed() {
		return
	}
	harness.Call(o, "C13.probe-panicked", 0, func() { tq.AdvanceMs(uint64(a)*1000+500, drain) })
	o.SimMs += uint64(a)*1000 + 500
	f := request(good, false)
	if o.Failed() {
		return
	}
	o.Nontrivial = true
	o.Probe("outlier_rule_replaced_with_a_recycle_timer_armed")
	if ejectedAfterLoad && !has(f, bad) {
		o.Fail("C13.replaced-rule-still-decides", 0, "outlier rule (ejected for 1 h after one error, RecycleIntervalS %d): node %s failed and was ejected and scheduled for recycling; the rule was replaced (how=%d: 0 LoadRules, 1 LoadRuleOfResource, 2 ClearRules+LoadRules) by the same rule with RecycleIntervalS %d, and the node was still ejected after the load; %d ms after the ejection, with no request to the node in between, it is back in the pool (not reported for filtering) - the recycle timer of the replaced rule removed the node breaker of the rule in force",
			a, bad, how, b, env.Clock.NowMs()-t0)
	}
}

func limitInForce(res string) int64 {
	for _, r := range cb.GetRulesOfResource(res) {
		return int64(r.MaxAllowedRtMs)
	}
	return -1
}
