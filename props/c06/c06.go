// Package c06: hot-parameter concurrency is capped per value and its counters
// are conserved (E1 exact model; E2 bound and conservation at quiescence).
package c06

import (
	"encoding/json"
	"fmt"
	"reflect"
	"sync/atomic"
	"time"

	sentinel "github.com/alibaba/sentinel-golang/api"
	"github.com/alibaba/sentinel-golang/core/base"
	"github.com/alibaba/sentinel-golang/core/hotspot"

	"verif/harness"
	"verif/sim"
)

type HRule struct {
	ID       string           `json:"id"`
	Res      int              `json:"res"`
	Index    int              `json:"index"`
	Key      string           `json:"key,omitempty"`
	T        int64            `json:"t"`
	Specific map[string]int64 `json:"specific,omitempty"` // encoded value -> threshold
	Cap      int64            `json:"cap,omitempty"`      // ParamsMaxCapacity (0 = default)
}

type Cfg struct {
	Origin uint64  `json:"origin_ms"`
	NRes   int     `json:"nres"`
	Rules  []HRule `json:"rules"`
	Conc   bool    `json:"concurrent,omitempty"`
	// Reload: the history also loads, removes and modifies the rules while entries are in flight ("rl" ops);
	// Late: no rule is loaded until the first "rl" op that adds one.
	Reload bool `json:"reload,omitempty"`
	Late   bool `json:"late,omitempty"`
	// NoIDs: the rules carry no ID (nothing then tells the manager which old rule a modified one continues)
	NoIDs bool `json:"no_ids,omitempty"`
	// Nap (few-counters mode): behind the concurrency rules of every resource sits a hot-parameter throttling rule
	// that never rejects but makes a request for a value seen a moment ago wait INSIDE the admission path - after
	// the concurrency check, before the entry is counted. While it waits (Sleep at the clock seam) requests of
	// other callers for fresh values come and go, more of them than the rules have counters.
	Nap bool `json:"nap,omitempty"`
}

type P struct{}

func init() { harness.Register(P{}) }

func (P) ID() string     { return "C06" }
func (P) Engine() string { return "E1+E2" }

func (P) Describe() harness.Description {
	return harness.Description{
		MustHit: []string{"value_readmitted_after_exit", "concurrent_rejections", "rules_changed_with_entries_in_flight", "value_free_again_after_reloads", "few_counters_configured", "rules_returned_by_the_getters_modified"},
		Level:   "exploration",
		Rule: "case = (1-2 resources, 1-2 hotspot concurrency rules per resource selecting the value by index, negative index or attachment key, thresholds 0-3 with specific-item tables; 10-60 ops: entries with argument lists / attachments over a small value alphabet (int, string, bool, float, struct), exits in any order, ticks; seeded pool reuse). " +
			"E1: admit iff for every rule live(v) < T(v); blocked => hot-parameter block with that rule; after every op each per-value counter (read through an overlay accessor) == live entries of that value and every live entry's Input.Args is what its caller passed. " +
			"Reload mode (30% of the sequential cases): rules are loaded late, removed, re-added, given another parameter position or threshold while entries are in flight (two figures per rule and value: since / upper, see execReload), then everything is exited and every request seen is decided by the thresholds alone. Few-counters mode: ParamsMaxCapacity 1-3 over a wide value alphabet. " +
			"E2 (30%): 2-4 callers; per-value in-flight <= T+(k-1); counters all zero at quiescence. non-trivial = a value was blocked at its cap and admitted again after an exit while other values were in flight; distinct = hash(config, ops[, schedule])",
		Assumptions: []string{"entries admitted before a rule was loaded, re-added or given another parameter position may or may not count against it (both answers accepted while that is open; entries admitted under the rule as it is always count, and everything is exact again once they have left)", "per-value counters are read through the overlay-only accessor hotspot.VerifControllersFor (read-only)"},
		Real:        []string{"api.Entry/Exit", "core/hotspot (slot, concurrency stat slot, traffic shaping controllers, LRU caches, rule manager)", "core/base context and option pools"},
		Stub:        []string{"util.Clock (virtual clock)", "sync.Pool (SimPool, seeded)", "E2: goroutine scheduling"},
	}
}

var alphabet = []string{"i:0", "i:1", "i:2", "s:a", "s:b", "b:true", "f:1.5", "st:1"}
var wideAlphabet = []string{"i:0", "i:1", "i:2", "i:3", "i:4", "i:5", "i:6", "i:7", "s:a", "s:b", "s:c", "s:d", "b:true", "f:1.5", "st:1", "st:2"}

func (P) Gen(rng *sim.Rng, tier string) *harness.Case {
	cfg := Cfg{NRes: rng.Range(1, 2), Origin: 1700000000000 + rng.U64Range(0, 100000), Conc: rng.Chance(0.3)}
	if !cfg.Conc && rng.Chance(0.3) {
		cfg.Reload = true
		cfg.Late = rng.Chance(0.4)
		cfg.NoIDs = rng.Chance(0.4)
	}
	smallCap := !cfg.Conc && !cfg.Reload && rng.Chance(0.25) // few counters: a value in flight must keep its own
	alpha := alphabet
	if smallCap {
		alpha = wideAlphabet
		cfg.Nap = rng.Chance(0.5)
	}
	id := 0
	for r := 0; r < cfg.NRes; r++ {
		for k, nr := 0, rng.Range(1, 2); k < nr; k++ {
			hr := HRule{ID: fmt.Sprintf("h%d", id), Res: r, T: int64(rng.Range(0, 3))}
			id++
			switch rng.Intn(5) {
			case 0:
				hr.Index = -1
			case 1:
				hr.Index = 1
			case 2:
				hr.Key = "k"
			default:
				hr.Index = 0
			}
			if smallCap {
				hr.Cap = int64(rng.Range(1, 3))
				if hr.T == 0 {
					hr.T = 1
				}
			}
			if rng.Chance(0.5) {
				hr.Specific = map[string]int64{}
				for j, m := 0, rng.Range(1, 3); j < m; j++ {
					hr.Specific[alphabet[rng.Intn(len(alphabet))]] = int64(rng.Range(0, 3))
				}
			}
			cfg.Rules = append(cfg.Rules, hr)
		}
	}
	gen := func(n int, ticks bool) []harness.Op {
		var ops []harness.Op
		entries := 0
		for len(ops) < n {
			switch rng.Weighted([]int{55, 35, 10}) {
			case 0:
				var a []string
				for j, m := 0, rng.Range(0, 3); j < m; j++ {
					a = append(a, alpha[rng.Intn(len(alpha))])
				}
				op := harness.Op{K: "entry", R: rng.Intn(cfg.NRes), A: a}
				if rng.Chance(0.3) {
					op.S = alphabet[rng.Intn(len(alphabet))] // attachment under key "k"
				}
				ops = append(ops, op)
				entries++
			case 1:
				if entries > 0 {
					ops = append(ops, harness.Op{K: "exit", E: rng.Intn(entries)})
				}
			default:
				if ticks && cfg.Reload && rng.Chance(0.6) {
					// N: 0 add/remove a rule, 1 switch its parameter position, 2 change its threshold, 3 load the same rules again
					// 4: one load removes a rule and changes the threshold of the next one
					ops = append(ops, harness.Op{K: "rl", N: uint64(rng.Weighted([]int{35, 20, 18, 12, 15})), M: uint64(rng.Intn(4))})
					break
				}
				if ticks && rng.Chance(0.15) {
					// the application looks at the rules in force and scribbles on what it got (the getters hand out copies)
					ops = append(ops, harness.Op{K: "getmut"})
					break
				}
				if ticks {
					if rng.Chance(0.25) {
						// clock fault: the wall clock is stepped back while entries may be in flight
						ops = append(ops, harness.Op{K: "back", N: rng.U64Range(1, 5000)})
					} else {
						ops = append(ops, harness.Op{K: "tick", N: rng.U64Range(0, 2000)})
					}
				}
			}
		}
		return ops
	}
	c := &harness.Case{}
	if cfg.Conc {
		k := rng.Range(2, 4)
		if tier == "thorough" && rng.Chance(0.3) {
			k = rng.Range(5, 7) // thorough: now and then a larger crowd
		}
		c.Callers = make([][]harness.Op, k)
		for i := range c.Callers {
			c.Callers[i] = gen(rng.Range(3, 9), false)
		}
		c.Sched = harness.GenSched(rng, nil, 400*k)
		c.Sched.MaxSteps = 100000
	} else {
		c.Callers = [][]harness.Op{gen(rng.Range(10, 60), true)}
	}
	c.Pool = harness.GenPool(rng)
	c.Cfg = harness.MustJSON(cfg)
	return c
}

type mrule struct {
	HRule
	ptr      *hotspot.Rule
	specific map[interface{}]int64
	live     map[interface{}]int
	// reload mode
	loaded bool
	epoch  int
}

func (r *mrule) threshold(v interface{}) int64 {
	if t, ok := r.specific[v]; ok {
		return t
	}
	return r.T
}

// extract mirrors the documented selection: attachment key first (if configured and present), else index (negative from the end).
func (r *mrule) extract(args []interface{}, attach map[interface{}]interface{}) interface{} {
	if r.Key != "" && attach != nil {
		if v, ok := attach[r.Key]; ok && v != nil {
			return v
		}
	}
	idx := r.Index
	if idx < 0 {
		idx = len(args) + idx
	}
	if idx < 0 || idx >= len(args) {
		return nil
	}
	return args[idx]
}

type ment struct {
	e      *base.SentinelEntry
	res    int
	args   []interface{}
	attach map[interface{}]interface{}
	live   bool
	units  map[*mrule]unit // reload mode: the unit the entry took per rule in force when it was admitted
}

type unit struct {
	v     interface{}
	epoch int
}

func build(cfg *Cfg, o *harness.Outcome) [][]*mrule {
	rules := make([][]*mrule, cfg.NRes)
	var all []*hotspot.Rule
	for _, r := range cfg.Rules {
		if r.Res < 0 || r.Res >= cfg.NRes || r.T < 0 || (r.Index > 0 && r.Key != "") {
			continue
		}
		m := &mrule{HRule: r, specific: map[interface{}]int64{}, live: map[interface{}]int{}}
		spec := map[interface{}]int64{}
		for k, v := range r.Specific {
			m.specific[harness.DecodeArg(k)] = v
			spec[harness.DecodeArg(k)] = v
		}
		m.ptr = &hotspot.Rule{ID: r.ID, Resource: harness.ResName(r.Res), MetricType: hotspot.Concurrency, ControlBehavior: hotspot.Reject,
			ParamIndex: r.Index, ParamKey: r.Key, Threshold: r.T, SpecificItems: spec, ParamsMaxCapacity: r.Cap}
		rules[r.Res] = append(rules[r.Res], m)
		m.loaded = !cfg.Late
		if m.loaded {
			all = append(all, m.ptr)
		}
		if r.Cap > 0 {
			o.Probe("few_counters_configured")
		}
	}
	if cfg.Nap {
		for r := 0; r < cfg.NRes; r++ {
			if len(rules[r]) == 0 {
				continue
			}
			first := rules[r][0]
			all = append(all, &hotspot.Rule{ID: fmt.Sprintf("nap%d", r), Resource: harness.ResName(r), MetricType: hotspot.QPS, ControlBehavior: hotspot.Throttling,
				ParamIndex: first.Index, ParamKey: first.Key, Threshold: 1, DurationInSec: 1, MaxQueueingTimeMs: 1 << 40})
		}
	}
	harness.Call(o, "C06.panic", 0, func() {
		if _, err := hotspot.LoadRules(all); err != nil {
			o.Fail("C06.load-error", 0, "%v", err)
		}
	})
	return rules
}

// scribble writes into everything the rule getters return: they promise copies ("it doesn't take effect for
// hotspot module if user changes the returned rules").
func scribble(o *harness.Outcome, step int, nres int) {
	harness.Call(o, "C06.panic", step, func() {
		all := hotspot.GetRules()
		for i := range all {
			all[i].Threshold = 1000000
			for k := range all[i].SpecificItems {
				all[i].SpecificItems[k] = 1000000
			}
			if all[i].SpecificItems != nil {
				all[i].SpecificItems["scribbled"] = 1000000
			}
		}
		for r := 0; r < nres; r++ {
			for _, x := range hotspot.GetRulesOfResource(harness.ResName(r)) {
				x.Threshold = 1000000
				for k := range x.SpecificItems {
					x.SpecificItems[k] = 1000000
				}
			}
		}
	})
	o.Probe("rules_returned_by_the_getters_modified")
}

func attachOf(op harness.Op) map[interface{}]interface{} {
	if op.S == "" {
		return nil
	}
	return map[interface{}]interface{}{"k": harness.DecodeArg(op.S)}
}

// counters reads the implementation's per-value in-flight figure for rule i of res.
func counter(res int, i int, v interface{}) (int64, bool) {
	tcs := hotspot.VerifControllersFor(harness.ResName(res))
	if i >= len(tcs) || tcs[i].BoundMetric() == nil || tcs[i].BoundMetric().ConcurrencyCounter == nil {
		return 0, false
	}
	p, ok := tcs[i].BoundMetric().ConcurrencyCounter.Get(v)
	if !ok || p == nil {
		return 0, false
	}
	return atomic.LoadInt64(p), true
}

func (P) Exec(c *harness.Case) *harness.Outcome {
	o := harness.NewOutcome()
	var cfg Cfg
	if err := json.Unmarshal(c.Cfg, &cfg); err != nil {
		o.Infra = err.Error()
		return o
	}
	if cfg.NRes <= 0 {
		return o
	}
	env := harness.Reset(cfg.Origin*1e6, harness.DefaultGeometry())
	pc := harness.InstallPool(c)
	defer func() {
		if pc != nil {
			o.PoolLog = append([]int{}, pc.Log...)
		}
		sim.SetPoolCtl(nil)
	}()
	rules := build(&cfg, o)
	if o.Failed() {
		return o
	}
	if cfg.Conc {
		execConc(c, o, &cfg, rules, env)
		return o
	}
	if len(c.Callers) == 0 {
		return o
	}
	if cfg.Reload {
		execReload(c, o, &cfg, rules, env)
		return o
	}
	var ents []*ment
	cappedThenFreed := map[string]bool{}
	capped := map[string]bool{}
	curRes, napping, fresh := 0, false, 100000
	if cfg.Nap {
		env.Clock.OnSleep = func(d time.Duration) {
			if !napping {
				napping = true
				o.Probe("requests_for_other_values_while_one_waits_inside_the_admission_path")
				for j := 0; j < 6 && !o.Failed(); j++ {
					fresh++
					v := fresh
					harness.Call(o, "C06.panic", 0, func() {
						if e, _ := sentinel.Entry(harness.ResName(curRes), harness.EntryOpts(1, false, []interface{}{v, v}, map[interface{}]interface{}{"k": v}, nil)...); e != nil {
							e.Exit()
						}
					})
				}
				napping = false
			}
			if d > 0 {
				env.Clock.AdvanceNs(uint64(d))
			}
		}
	}
	for step, op := range c.Callers[0] {
		curRes = op.R
		switch op.K {
		case "tick":
			env.Clock.AdvanceMs(op.N)
			o.SimMs += op.N
		case "back":
			if d := op.N * 1e6; d < env.Clock.NowNs() {
				env.Clock.SetNs(env.Clock.NowNs() - d)
				o.Fault("clock_stepped_back")
			}
		case "getmut":
			scribble(o, step, cfg.NRes)
			if o.Failed() {
				return o
			}
		case "exit":
			if op.E < 0 || op.E >= len(ents) || ents[op.E] == nil || !ents[op.E].live {
				continue
			}
			m := ents[op.E]
			harness.Call(o, "C06.panic", step, func() { m.e.Exit() })
			m.live = false
			for _, r := range rules[m.res] {
				if v := r.extract(m.args, m.attach); v != nil {
					r.live[v]--
					k := fmt.Sprintf("%s/%v", r.ID, v)
					if capped[k] {
						cappedThenFreed[k] = true
					}
				}
			}
		case "entry":
			if op.R < 0 || op.R >= cfg.NRes {
				ents = append(ents, nil)
				continue
			}
			m := &ment{res: op.R, args: harness.DecodeArgs(op.A), attach: attachOf(op)}
			ents = append(ents, m)
			var blockBy *mrule
			var bv interface{}
			for _, r := range rules[op.R] {
				v := r.extract(m.args, m.attach)
				if v == nil {
					continue
				}
				if int64(r.live[v]) >= r.threshold(v) {
					blockBy, bv = r, v
					break
				}
			}
			var be *base.BlockError
			harness.Call(o, "C06.panic", step, func() {
				m.e, be = sentinel.Entry(harness.ResName(op.R), harness.EntryOpts(1, false, m.args, m.attach, nil)...)
			})
			if o.Failed() {
				return o
			}
			if (m.e == nil) == (be == nil) {
				o.Fail("C06.outcome-shape", step, "Entry returned entry=%v blockErr=%v", m.e != nil, be != nil)
				return o
			}
			if blockBy != nil {
				capped[fmt.Sprintf("%s/%v", blockBy.ID, bv)] = true
				if be == nil {
					o.Fail("C06.over-admission", step, "res-%d args %v: value %v has %d entries in flight under rule %s (threshold %d) but the request was admitted", op.R, op.A, bv, blockBy.live[bv], blockBy.ID, blockBy.threshold(bv))
					return o
				}
				if be.BlockType() != base.BlockTypeHotSpotParamFlow {
					o.Fail("C06.block-type", step, "blocked with %s", be.BlockType())
					return o
				}
				if tr, _ := be.TriggeredRule().(*hotspot.Rule); tr != blockBy.ptr {
					o.Fail("C06.triggered-rule", step, "blocked by %v, reference says rule %s", be.TriggeredRule(), blockBy.ID)
					return o
				}
			} else {
				if be != nil {
					o.Fail("C06.spurious-rejection", step, "res-%d args %v attach %v rejected (%s) although every selected value is below its threshold", op.R, op.A, op.S, be.BlockType())
					return o
				}
				m.live = true
				for _, r := range rules[op.R] {
					if v := r.extract(m.args, m.attach); v != nil {
						r.live[v]++
						if cappedThenFreed[fmt.Sprintf("%s/%v", r.ID, v)] {
							o.Nontrivial = true
							o.Probe("value_readmitted_after_exit")
						}
					}
				}
			}
		}
		// conservation: implementation counters == live entries per value; live entries keep their arguments
		for r := 0; r < cfg.NRes; r++ {
			for i, ru := range rules[r] {
				for v, n := range ru.live {
					got, ok := counter(r, i, v)
					if !ok && n == 0 {
						continue
					}
					if got != int64(n) {
						o.Fail("C06.counter", step, "rule %s value %v: in-flight figure %d, live entries %d", ru.ID, v, got, n)
						return o
					}
				}
			}
		}
		for i, m := range ents {
			if m != nil && m.live {
				ctx := m.e.Context()
				if (len(m.args) > 0 || len(ctx.Input.Args) > 0) && !reflect.DeepEqual(append([]interface{}{}, ctx.Input.Args...), append([]interface{}{}, m.args...)) {
					o.Fail("C06.args-changed", step, "live entry #%d has Input.Args %v, its caller passed %v", i, ctx.Input.Args, m.args)
					return o
				}
			}
		}
	}
	// drain and probe: the full threshold is available again for every value seen
	for _, m := range ents {
		if m != nil && m.live {
			harness.Call(o, "C06.panic", len(c.Callers[0]), func() { m.e.Exit() })
			m.live = false
		}
	}
	for r := 0; r < cfg.NRes; r++ {
		for i, ru := range rules[r] {
			for v := range ru.live {
				if got, ok := counter(r, i, v); ok && got != 0 {
					o.Fail("C06.counter-not-zero", len(c.Callers[0]), "rule %s value %v: in-flight figure %d after every entry was exited", ru.ID, v, got)
					return o
				}
			}
		}
	}
	return o
}

func execConc(c *harness.Case, o *harness.Outcome, cfg *Cfg, rules [][]*mrule, env *harness.Env) {
	k := len(c.Callers)
	type key struct {
		rule string
		v    interface{}
	}
	inflight := map[key]int{}
	maxIn := map[key]int{}
	fails := make([]string, k)
	heldAll := make([][]*ment, k)
	blocked := 0
	harness.RunE2(c, o, "C06", env.Clock, k, func(task int) {
		var ents []*ment
		for _, op := range c.Callers[task] {
			switch op.K {
			case "entry":
				if op.R < 0 || op.R >= cfg.NRes {
					ents = append(ents, nil)
					continue
				}
				m := &ment{res: op.R, args: harness.DecodeArgs(op.A), attach: attachOf(op)}
				ents = append(ents, m)
				var be *base.BlockError
				m.e, be = sentinel.Entry(harness.ResName(op.R), harness.EntryOpts(1, false, m.args, m.attach, nil)...)
				if be != nil {
					blocked++
				}
				if m.e != nil {
					m.live = true
					for _, r := range rules[op.R] {
						if v := r.extract(m.args, m.attach); v != nil {
							kk := key{r.ID, v}
							inflight[kk]++
							if inflight[kk] > maxIn[kk] {
								maxIn[kk] = inflight[kk]
							}
						}
					}
				}
			case "exit":
				if op.E >= 0 && op.E < len(ents) && ents[op.E] != nil && ents[op.E].live {
					m := ents[op.E]
					for _, r := range rules[m.res] {
						if v := r.extract(m.args, m.attach); v != nil {
							inflight[key{r.ID, v}]--
						}
					}
					m.live = false
					m.e.Exit()
				}
			}
			for i, m := range ents {
				if m != nil && m.live {
					ctx := m.e.Context()
					if (len(m.args) > 0 || len(ctx.Input.Args) > 0) && !reflect.DeepEqual(append([]interface{}{}, ctx.Input.Args...), append([]interface{}{}, m.args...)) {
						fails[task] = fmt.Sprintf("live entry #%d has Input.Args %v, its caller passed %v", i, ctx.Input.Args, m.args)
						return
					}
				}
			}
		}
		// entries not exited by the caller stay live past the concurrent phase
		heldAll[task] = ents
	}, nil)
	if o.Failed() {
		return
	}
	// quiescent point with live entries: no call is in progress, so every in-flight figure must equal the number
	// of live entries of its value (a figure that is missing counts as 0)
	for r := 0; r < cfg.NRes; r++ {
		for i, ru := range rules[r] {
			for kk, n := range inflight {
				if kk.rule != ru.ID {
					continue
				}
				got, _ := counter(r, i, kk.v)
				if got != int64(n) {
					o.Fail("C06.counter", 0, "after the concurrent phase (no call in progress) rule %s value %v: in-flight figure %d, live entries %d", ru.ID, kk.v, got, n)
					return
				}
				if n > 0 {
					o.Probe("quiescent_conservation_with_live_entries")
				}
			}
		}
	}
	// epilogue on one goroutine: exit what is still live
	for _, ents := range heldAll {
		for _, m := range ents {
			if m != nil && m.live {
				m.live = false
				if !harness.Call(o, "C06.panic", 0, func() { m.e.Exit() }) {
					return
				}
			}
		}
	}
	for t, f := range fails {
		if f != "" {
			o.Fail("C06.args-changed", 0, "caller %d: %s", t, f)
			return
		}
	}
	for r := 0; r < cfg.NRes; r++ {
		for i, ru := range rules[r] {
			for kk, mx := range maxIn {
				if kk.rule != ru.ID {
					continue
				}
				if int64(mx) > ru.threshold(kk.v)+int64(k-1) {
					o.Fail("C06.concurrent-excess", 0, "rule %s value %v reached %d entries in flight with %d callers (threshold %d, bound T+k-1)", ru.ID, kk.v, mx, k, ru.threshold(kk.v))
					return
				}
				if got, ok := counter(r, i, kk.v); ok && got != 0 {
					o.Fail("C06.counter-not-zero", 0, "rule %s value %v: in-flight figure %d after every entry was exited", ru.ID, kk.v, got)
					return
				}
			}
		}
	}
	if blocked > 0 {
		o.Nontrivial = true
		o.Probe("concurrent_rejections")
	}
}

// execReload: one caller; rules are loaded late, removed, re-added and modified while entries are in flight.
// The property fixes what an entry occupies ("exactly one unit for the value it was admitted with", released
// when it is exited) but not whether entries that were admitted before a rule (re)appeared count against it.
// So per rule and value two figures are kept: since = live entries admitted under the rule as it is now,
// upper = since + live entries of earlier epochs (or from before the rule) that carry the value under the old
// or the new selection. A request must be blocked when since >= T, must be admitted when upper < T; in between
// both answers are accepted. Without reloads the two figures coincide and the check is the exact one.
func execReload(c *harness.Case, o *harness.Outcome, cfg *Cfg, rules [][]*mrule, env *harness.Env) {
	var flat []*mrule
	for _, rs := range rules {
		flat = append(flat, rs...)
	}
	if len(flat) == 0 {
		return
	}
	reload := func(step int) {
		var all []*hotspot.Rule
		for _, r := range flat {
			if !r.loaded {
				continue
			}
			spec := map[interface{}]int64{}
			for k, v := range r.specific {
				spec[k] = v
			}
			r.ptr = &hotspot.Rule{ID: r.ID, Resource: harness.ResName(r.Res), MetricType: hotspot.Concurrency, ControlBehavior: hotspot.Reject,
				ParamIndex: r.Index, ParamKey: r.Key, Threshold: r.T, SpecificItems: spec, ParamsMaxCapacity: r.Cap}
			if cfg.NoIDs {
				r.ptr.ID = ""
			}
			all = append(all, r.ptr)
		}
		harness.Call(o, "C06.panic", step, func() {
			if _, err := hotspot.LoadRules(all); err != nil {
				o.Fail("C06.load-error", step, "%v", err)
			}
		})
	}
	var ents []*ment
	figures := func(r *mrule, res int, v interface{}) (since, upper int) {
		for _, m := range ents {
			if m == nil || !m.live || m.res != res {
				continue
			}
			u, has := m.units[r]
			switch {
			case has && u.epoch == r.epoch && u.v == v:
				since++
				upper++
			case has && u.v == v:
				upper++
			default:
				if cur := r.extract(m.args, m.attach); cur != nil && cur == v {
					upper++
				}
			}
		}
		return
	}
	// decide returns (must block, may block, the rule that must block if it is unambiguous)
	decide := func(res int, args []interface{}, attach map[interface{}]interface{}) (must, may bool, by *mrule) {
		clean := true
		for _, r := range rules[res] {
			if !r.loaded {
				continue
			}
			v := r.extract(args, attach)
			if v == nil {
				continue
			}
			since, upper := figures(r, res, v)
			if int64(since) >= r.threshold(v) {
				must = true
				if clean && by == nil {
					by = r
				}
			}
			if int64(upper) >= r.threshold(v) {
				may = true
				if int64(since) < r.threshold(v) {
					clean = false
				}
			}
		}
		return
	}
	request := func(step int, res int, a []string, at string) *ment {
		m := &ment{res: res, args: harness.DecodeArgs(a), units: map[*mrule]unit{}}
		if at != "" {
			m.attach = map[interface{}]interface{}{"k": harness.DecodeArg(at)}
		}
		must, may, by := decide(res, m.args, m.attach)
		var be *base.BlockError
		harness.Call(o, "C06.panic", step, func() {
			m.e, be = sentinel.Entry(harness.ResName(res), harness.EntryOpts(1, false, m.args, m.attach, nil)...)
		})
		if o.Failed() {
			return nil
		}
		if (m.e == nil) == (be == nil) {
			o.Fail("C06.outcome-shape", step, "Entry returned entry=%v blockErr=%v", m.e != nil, be != nil)
			return nil
		}
		if must && be == nil {
			o.Fail("C06.over-admission", step, "res-%d args %v: a value of this request already has its threshold of entries in flight that were admitted under the rule as it is now (rule %v), but the request was admitted", res, a, ruleID(by))
			return nil
		}
		if !may && be != nil {
			o.Fail("C06.spurious-rejection", step, "res-%d args %v attach %v rejected (%s) although for every rule fewer entries than its threshold carry the selected value, counting also those admitted before the rule was (re)loaded", res, a, at, be.BlockType())
			return nil
		}
		if be != nil {
			if be.BlockType() != base.BlockTypeHotSpotParamFlow {
				o.Fail("C06.block-type", step, "blocked with %s", be.BlockType())
				return nil
			}
			// (by content, not by ID: the manager keeps the controller of an earlier load for a rule with the same fields)
			if tr, _ := be.TriggeredRule().(*hotspot.Rule); by != nil && (tr == nil || tr.ParamIndex != by.Index || tr.ParamKey != by.Key || tr.Threshold != by.T) {
				o.Fail("C06.triggered-rule", step, "blocked by %v, reference says rule %s (index %d key %q threshold %d)", be.TriggeredRule(), by.ID, by.Index, by.Key, by.T)
				return nil
			}
			if must != may {
				o.Probe("decision_open_after_reload")
			}
			return m
		}
		m.live = true
		for _, r := range rules[res] {
			if r.loaded {
				if v := r.extract(m.args, m.attach); v != nil {
					m.units[r] = unit{v, r.epoch}
				}
			}
		}
		return m
	}
	for step, op := range c.Callers[0] {
		switch op.K {
		case "tick":
			env.Clock.AdvanceMs(op.N)
			o.SimMs += op.N
		case "back":
			if d := op.N * 1e6; d < env.Clock.NowNs() {
				env.Clock.SetNs(env.Clock.NowNs() - d)
				o.Fault("clock_stepped_back")
			}
		case "getmut":
			scribble(o, step, cfg.NRes)
			if o.Failed() {
				return
			}
		case "rl":
			r := flat[int(op.M)%len(flat)]
			liveNow := 0
			for _, m := range ents {
				if m != nil && m.live {
					liveNow++
				}
			}
			switch op.N {
			case 0:
				r.loaded = !r.loaded
				if r.loaded {
					r.epoch++
				}
			case 1:
				if r.Key == "" && (r.Index == 0 || r.Index == 1) {
					r.Index = 1 - r.Index
					r.epoch++
				}
			case 2:
				r.T = (r.T + 1) % 4
				r.epoch++
			case 4:
				if r.loaded {
					r.loaded = false
					r2 := flat[(int(op.M)+1)%len(flat)]
					if r2 != r {
						r2.T = (r2.T + 1) % 4
						r2.epoch++
						o.Probe("one_load_removes_a_rule_and_modifies_another")
					}
				}
			}
			if liveNow > 0 {
				o.Probe("rules_changed_with_entries_in_flight")
			}
			reload(step)
			if o.Failed() {
				return
			}
		case "exit":
			if op.E >= 0 && op.E < len(ents) && ents[op.E] != nil && ents[op.E].live {
				m := ents[op.E]
				harness.Call(o, "C06.panic", step, func() { m.e.Exit() })
				m.live = false
			}
		case "entry":
			if op.R < 0 || op.R >= cfg.NRes {
				ents = append(ents, nil)
				continue
			}
			m := request(step, op.R, op.A, op.S)
			if o.Failed() {
				return
			}
			ents = append(ents, m)
		}
	}
	// drain; then nothing is in flight and every figure is exact again: each request seen is decided by the
	// thresholds alone, and every value can be taken up to its threshold once more
	end := len(c.Callers[0])
	for _, m := range ents {
		if m != nil && m.live {
			harness.Call(o, "C06.panic", end, func() { m.e.Exit() })
			m.live = false
		}
	}
	seen := map[string]bool{}
	for _, op := range c.Callers[0] {
		if op.K != "entry" || op.R < 0 || op.R >= cfg.NRes {
			continue
		}
		k := fmt.Sprintf("%d|%v|%s", op.R, op.A, op.S)
		if seen[k] {
			continue
		}
		seen[k] = true
		m := request(end, op.R, op.A, op.S)
		if o.Failed() {
			return
		}
		if m != nil && m.live {
			harness.Call(o, "C06.panic", end, func() { m.e.Exit() })
			m.live = false
			o.Probe("value_free_again_after_reloads")
		}
		ents = append(ents, m)
	}
	o.Nontrivial = true
}

func ruleID(r *mrule) string {
	if r == nil {
		return "?"
	}
	return r.ID
}
