// Package c10: throttling flow rules pace admitted requests and bound
// queueing (E1 exact queue model; E2 spacing invariants under 2-3 callers).
package c10

import (
	"encoding/json"
	"math"
	"math/big"
	"sort"
	"time"

	sentinel "github.com/alibaba/sentinel-golang/api"
	"github.com/alibaba/sentinel-golang/core/base"
	"github.com/alibaba/sentinel-golang/core/flow"

	"verif/harness"
	"verif/sim"
)

type Cfg struct {
	Origin uint64  `json:"origin_ms"`
	T      float64 `json:"t"`
	StatMs uint32  `json:"stat_ms"`
	QMs    uint32  `json:"max_queue_ms"`
	Conc   bool    `json:"concurrent,omitempty"`
	// DefaultMs: the default statistic interval the process is configured with (0 = 1000). A rule that leaves its
	// own interval unset counts its threshold over that one.
	DefaultMs uint32 `json:"default_stat_ms,omitempty"`
}

type P struct{}

func init() { harness.Register(P{}) }

func (P) ID() string     { return "C10" }
func (P) Engine() string { return "E1+E2" }

func (P) Describe() harness.Description {
	return harness.Description{
		MustHit: []string{"request_queued", "rejected_for_queueing", "concurrent_request_queued"},
		Level:   "exploration",
		Rule: "case = (throttling rule: threshold in {0, 0.5, 1..1000}, statistic interval {unset with a configured default of 500 ms / 1 s / 2 s, 100 ms, 1 s, 10 s}, max queueing time {0, 1, 10, 100, 500, 2000 ms}; E1: 10-60 requests with batches and nanosecond ticks biased to the pacing interval and the queueing limit, the requested Sleep is captured at the clock seam without advancing time so queues build up; E2 (35%): 2-3 callers with 2-6 requests each, ticks allowed while a caller is between its atomic add and its roll-back, callers really park for their requested wait in virtual time). " +
			"E1: decision and requested wait equal the reference queue (admit at max(now,last+D) unless that wait exceeds the limit or batch > threshold; D = ceil(batch*interval/threshold) with a 1 ns rounding band). E2: admitted requests ordered by pass time (arrival the check read + requested wait) are each >= D(own batch) after their predecessor, no wait above the limit. " +
			"non-trivial = at least one request waited and at least one was rejected for queueing; distinct = hash(config, ops[, schedule])",
		Assumptions: []string{"pacing interval D = ceil(batch*interval/threshold) ns; the implementation computes it in floating point, a difference of 1 ns is inside the band", "E2: arrival = the nanosecond clock value the admission check received (recorded at the clock seam), wait = the Sleep it requested"},
		Real:        []string{"api.Entry/Exit", "core/flow (slot, throttling checker, direct calculator, rule manager)", "slot chain, stat slot"},
		Stub:        []string{"util.Clock (virtual clock; Sleep captured)", "E2: goroutine scheduling (cooperative seeded scheduler)"},
	}
}

func intervalNs(cfg *Cfg) uint64 {
	if cfg.StatMs == 0 {
		if cfg.DefaultMs != 0 {
			return uint64(cfg.DefaultMs) * 1e6
		}
		return 1000 * 1e6
	}
	return uint64(cfg.StatMs) * 1e6
}

// delta = ceil(b*I/T) exactly (T is a multiple of 1/2).
func delta(cfg *Cfg, b uint32) uint64 {
	num := new(big.Int).Mul(big.NewInt(int64(b)), new(big.Int).SetUint64(intervalNs(cfg)))
	num.Mul(num, big.NewInt(2))
	den := big.NewInt(int64(math.Round(cfg.T * 2)))
	if den.Sign() <= 0 {
		return 0
	}
	q, r := new(big.Int).QuoRem(num, den, new(big.Int))
	if r.Sign() != 0 {
		q.Add(q, big.NewInt(1))
	}
	if !q.IsUint64() {
		return math.MaxUint64 / 4
	}
	return q.Uint64()
}

func (P) Gen(rng *sim.Rng, tier string) *harness.Case {
	cfg := Cfg{Origin: 1700000000000 + rng.U64Range(0, 100000), Conc: rng.Chance(0.35)}
	cfg.T = []float64{0, 0.5, 1, 2, 3, 5, 10, 100, 1000, 7, 2.5}[rng.Intn(11)]
	cfg.StatMs = []uint32{0, 100, 1000, 1000, 10000}[rng.Intn(5)]
	cfg.QMs = []uint32{0, 1, 10, 100, 500, 2000}[rng.Intn(6)]
	if cfg.StatMs == 0 && rng.Chance(0.5) {
		cfg.DefaultMs = []uint32{2000, 500}[rng.Intn(2)]
	}
	if rng.Chance(0.15) {
		// swarm: limits of seconds to weeks (the field is a uint32 of milliseconds; conversions to ns must not narrow)
		cfg.QMs = []uint32{4294, 4295, 5000, 6000, 8590, 60000, 3600000, 4294967, 4294967295}[rng.Intn(9)]
	}
	if cfg.Conc && cfg.T == 0 {
		cfg.T = 2
	}
	d1 := delta(&cfg, 1)
	q := uint64(cfg.QMs) * 1e6
	genReq := func() harness.Op {
		b := uint64(1)
		if rng.Chance(0.25) {
			b = uint64(rng.Range(0, 4))
		}
		if rng.Chance(0.03) {
			b = uint64(rng.Range(5, 2000))
		}
		return harness.Op{K: "req", N: b}
	}
	genTick := func() uint64 {
		switch rng.Intn(12) {
		case 0:
			return 0
		case 1:
			return 1
		case 2:
			return d1
		case 3:
			return d1 - minU(d1, 1)
		case 4:
			return d1 + 1
		case 5:
			return q
		case 6:
			return q + 1
		case 7:
			return 2*d1 + rng.U64Range(0, 3)
		case 8:
			return rng.U64Range(0, d1+1)
		case 9:
			return 1e6 * rng.U64Range(1, 50)
		case 10:
			return d1 * rng.U64Range(2, 20)
		default:
			return rng.U64Range(0, 2*q+2)
		}
	}
	c := &harness.Case{}
	if cfg.Conc {
		k := rng.Range(2, 3)
		c.Callers = make([][]harness.Op, k)
		for i := range c.Callers {
			for j, m := 0, rng.Range(2, 6); j < m; j++ {
				c.Callers[i] = append(c.Callers[i], genReq())
			}
		}
		var ticks []uint64
		for i, n := 0, rng.Range(0, 8); i < n; i++ {
			t := genTick()
			if t > 5e9 {
				t = 5e9
			}
			ticks = append(ticks, t)
		}
		c.Sched = harness.GenSched(rng, ticks, 300*k)
		c.Sched.MaxSteps = 60000
	} else {
		var ops []harness.Op
		for n := rng.Range(10, 60); len(ops) < n; {
			if rng.Chance(0.6) {
				ops = append(ops, genReq())
			} else {
				ops = append(ops, harness.Op{K: "tick", N: genTick()})
			}
		}
		c.Callers = [][]harness.Op{ops}
	}
	c.Cfg = harness.MustJSON(cfg)
	return c
}

func minU(a, b uint64) uint64 {
	if a < b {
		return a
	}
	return b
}

func load(o *harness.Outcome, cfg *Cfg) {
	harness.Call(o, "C10.panic", 0, func() {
		_, err := flow.LoadRules([]*flow.Rule{{Resource: "res-0", TokenCalculateStrategy: flow.Direct, ControlBehavior: flow.Throttling,
			Threshold: cfg.T, StatIntervalInMs: cfg.StatMs, MaxQueueingTimeMs: cfg.QMs}})
		if err != nil {
			o.Fail("C10.load-error", 0, "%v", err)
		}
	})
}

func (P) Exec(c *harness.Case) *harness.Outcome {
	o := harness.NewOutcome()
	var cfg Cfg
	if err := json.Unmarshal(c.Cfg, &cfg); err != nil {
		o.Infra = err.Error()
		return o
	}
	if cfg.T < 0 || len(c.Callers) == 0 || math.Round(cfg.T*2) != cfg.T*2 {
		return o
	}
	geo := harness.DefaultGeometry()
	switch cfg.DefaultMs {
	case 0:
	case 2000:
		geo.MetricSamples, geo.MetricInterval = 4, 2000
	case 500:
		geo.MetricSamples, geo.MetricInterval = 1, 500
	default:
		return o
	}
	env := harness.Reset(cfg.Origin*1e6, geo)
	load(o, &cfg)
	if o.Failed() {
		return o
	}
	if cfg.Conc {
		execConc(c, o, &cfg, env)
		return o
	}
	clk := env.Clock
	var lastSleep time.Duration
	slept := false
	clk.OnSleep = func(d time.Duration) { lastSleep, slept = d, true }
	qns := uint64(cfg.QMs) * 1e6
	var last uint64 // reference: pass time of the latest admitted request (0 = none)
	waited, rejectedQ := false, false
	for step, op := range c.Callers[0] {
		now := clk.NowNs()
		switch op.K {
		case "tick":
			clk.AdvanceNs(op.N)
			o.SimMs += op.N / 1e6
		case "req":
			b := uint32(op.N)
			slept, lastSleep = false, 0
			var e *base.SentinelEntry
			var be *base.BlockError
			harness.Call(o, "C10.panic", step, func() {
				e, be = sentinel.Entry("res-0", harness.EntryOpts(b, false, nil, nil, nil)...)
			})
			if o.Failed() {
				return o
			}
			if e != nil {
				e.Exit()
			}
			if b == 0 {
				if be != nil {
					o.Fail("C10.zero-batch-rejected", step, "a request of batch 0 was rejected")
				}
				continue
			}
			// reference queue
			wantAdmit, wantWait := false, uint64(0)
			var d uint64
			if cfg.T > 0 && float64(b) <= cfg.T {
				d = delta(&cfg, b)
				p := last + d
				if p < now {
					p = now
				}
				if p-now <= qns {
					wantAdmit, wantWait = true, p-now
				}
			}
			gotAdmit := be == nil
			gotWait := uint64(0)
			if slept && lastSleep > 0 {
				gotWait = uint64(lastSleep)
			}
			// 1 ns band on D: re-decide with D+1 when the first comparison disagrees
			if gotAdmit != wantAdmit || (gotAdmit && gotWait != wantWait) {
				ok := false
				// the band exists only where evaluating D in floating point differs from the exact value
				fd := uint64(math.Ceil(float64(b) / cfg.T * float64(intervalNs(&cfg))))
				if cfg.T > 0 && float64(b) <= cfg.T && fd == d+1 {
					p := last + d + 1
					if p < now {
						p = now
					}
					altAdmit := p-now <= qns
					if altAdmit == gotAdmit && (!gotAdmit || gotWait == p-now) {
						ok = true
						o.Ambiguous++
						wantAdmit, wantWait = altAdmit, p-now
					}
				}
				if !ok {
					if gotAdmit != wantAdmit {
						o.Fail("C10.decision", step, "t=%dns batch %d: implementation admitted=%v, reference admitted=%v (last pass time %d, D=%d, wait would be %d, limit %d)", now, b, gotAdmit, wantAdmit, last, d, int64(last+d)-int64(now), qns)
					} else {
						o.Fail("C10.wait", step, "t=%dns batch %d: asked to wait %d ns, reference %d ns (last pass time %d, D=%d)", now, b, gotWait, wantWait, last, d)
					}
					return o
				}
			}
			if be != nil && be.BlockType() != base.BlockTypeFlow {
				o.Fail("C10.block-type", step, "rejected with %s", be.BlockType())
				return o
			}
			if gotAdmit {
				if gotWait > qns {
					o.Fail("C10.wait-exceeds-limit", step, "asked to wait %d ns, limit %d ns", gotWait, qns)
					return o
				}
				if gotWait > 0 {
					waited = true
					o.Probe("request_queued")
				}
				last = now + wantWait
			} else if cfg.T > 0 && float64(b) <= cfg.T {
				rejectedQ = true
				o.Probe("rejected_for_queueing")
			}
		}
	}
	o.Nontrivial = waited && rejectedQ
	return o
}

type creq struct {
	task     int
	b        uint32
	inv, ret uint64
	arrival  uint64
	wait     uint64
	admitted bool
	done     bool
}

func execConc(c *harness.Case, o *harness.Outcome, cfg *Cfg, env *harness.Env) {
	clk := env.Clock
	k := len(c.Callers)
	per := make([][]*creq, k)
	for i, ops := range c.Callers {
		for _, op := range ops {
			if op.K == "req" && op.N > 0 {
				per[i] = append(per[i], &creq{task: i, b: uint32(op.N)})
			}
		}
	}
	start := clk.NowMs()
	s := harness.RunE2(c, o, "C10", clk, k, func(task int) {
		for _, r := range per[task] {
			r.inv = sim.NextSeq()
			e, _ := sentinel.Entry("res-0", harness.EntryOpts(r.b, false, nil, nil, nil)...)
			r.admitted = e != nil
			if e != nil {
				e.Exit()
			}
			r.ret = sim.NextSeq()
			r.done = true
		}
	}, nil)
	o.SimMs += clk.NowMs() - start
	if o.Failed() {
		return
	}
	qns := uint64(cfg.QMs) * 1e6
	var adm []*creq
	anyWait, anyRej := false, false
	for t, l := range per {
		reads := s.Tasks()[t].ClockReads
		for _, r := range l {
			if !r.done {
				o.Fail("C10.no-return", 0, "a caller did not return from Entry")
				return
			}
			found := false
			for _, cr := range reads {
				if cr.Kind == 1 && cr.Seq > r.inv && cr.Seq < r.ret {
					r.arrival, found = cr.Ns, true
				}
			}
			for _, sl := range clk.Sleeps {
				if sl.Task == t && sl.D > 0 {
					// a sleep belongs to the request during which it was issued: match by arrival time window
					_ = sl
				}
			}
			if r.admitted && found {
				adm = append(adm, r)
			}
			if !r.admitted {
				anyRej = true
			}
		}
	}
	// attribute sleeps: per task, in order, to admitted requests whose arrival <= sleep time
	for t := range per {
		var sl []sim.SleepReq
		for _, x := range clk.Sleeps {
			if x.Task == t && x.D > 0 {
				sl = append(sl, x)
			}
		}
		si := 0
		for i, r := range per[t] {
			if !r.admitted {
				continue
			}
			var nextArr uint64 = math.MaxUint64
			for _, r2 := range per[t][i+1:] {
				if r2.arrival != 0 {
					nextArr = r2.arrival
					break
				}
			}
			if si < len(sl) && sl[si].AtNs >= r.arrival && sl[si].AtNs+uint64(sl[si].D) <= nextArr {
				r.wait = uint64(sl[si].D)
				si++
				anyWait = true
			}
		}
	}
	sort.SliceStable(adm, func(i, j int) bool { return adm[i].arrival+adm[i].wait < adm[j].arrival+adm[j].wait })
	for i, r := range adm {
		if r.wait > qns {
			o.Fail("C10.wait-exceeds-limit", int(r.ret), "caller %d batch %d asked to wait %d ns, limit %d ns", r.task, r.b, r.wait, qns)
			return
		}
		if i == 0 {
			continue
		}
		p := adm[i-1]
		gap := (r.arrival + r.wait) - (p.arrival + p.wait)
		need := delta(cfg, r.b)
		if fd := uint64(math.Ceil(float64(r.b) / cfg.T * float64(intervalNs(cfg)))); fd < need {
			need = fd // floating-point evaluation of D may round below the exact value
		}
		if gap < need {
			o.Fail("C10.spacing", int(r.ret), "pass times %d (caller %d) and %d (caller %d, batch %d) are %d ns apart, the rule requires %d ns", p.arrival+p.wait, p.task, r.arrival+r.wait, r.task, r.b, gap, need)
			return
		}
	}
	if anyWait && anyRej {
		o.Nontrivial = true
	}
	if anyWait {
		o.Probe("concurrent_request_queued")
	}
}
