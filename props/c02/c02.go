// Package c02: QPS reject-mode flow rules admit exactly up to the threshold per
// aligned statistic window (E1 exact model; E2 bound with k callers).
package c02

import (
	"encoding/json"
	"fmt"

	sentinel "github.com/alibaba/sentinel-golang/api"
	"github.com/alibaba/sentinel-golang/core/base"
	"github.com/alibaba/sentinel-golang/core/flow"
	"github.com/alibaba/sentinel-golang/core/isolation"

	"verif/harness"
	"verif/model"
	"verif/sim"
)

type FRule struct {
	ID    string  `json:"id"`
	Res   int     `json:"res"`
	T     float64 `json:"t"`
	Stat  uint32  `json:"stat"`
	Assoc bool    `json:"assoc,omitempty"`
	Ref   int     `json:"ref,omitempty"`
}

type IsoRule struct {
	Res int    `json:"res"`
	N   uint32 `json:"n"`
}

type Cfg struct {
	Geo    harness.Geometry `json:"geo"`
	Origin uint64           `json:"origin_ms"`
	NRes   int              `json:"nres"`
	Rules  []FRule          `json:"rules"`
	Iso    []IsoRule        `json:"iso,omitempty"`
	Conc   bool             `json:"concurrent,omitempty"`
}

type P struct{}

func init() { harness.Register(P{}) }

func (P) ID() string     { return "C02" }
func (P) Engine() string { return "E1+E2" }

func (P) Describe() harness.Description {
	return harness.Description{
		MustHit: []string{"blocked_by_associated_rule", "blocked_by_standalone_window", "rejected_later_in_chain", "concurrent_mixed_outcomes", "tick_lands_on_boundary"},
		Level:   "exploration",
		Rule: "case = (global statistic geometry, 1-3 resources, 1-3 reject-mode flow rules per resource with thresholds {0, fractional, small, large}, StatIntervalInMs in {0, default, reusable views, standalone windows}, associated-resource rules, optional isolation rule later in the chain; " +
			"20-80 requests with batches, held or exited, ticks biased to bucket/cycle boundaries and idle gaps). E1: every decision, TriggeredRule and TriggeredValue must equal the reference (admit iff for every rule in order W+b<=T). " +
			"E2 (25% of runs): k=2-4 callers interleaved at every atomic access between rule check and statistic record; admitted tokens certainly inside any aligned window <= T+(k-1)*max batch. " +
			"non-trivial = at least one rejection and one admission after a bucket boundary was crossed; distinct = hash(config, ops[, schedule])",
		Assumptions: []string{
			"a rule with StatIntervalInMs 0 or equal to the metric interval uses the resource's default metric view; another interval that tiles the global array is a view of it; otherwise a private window of n buckets (n = interval/global bucket if that divides and the interval lies between one global bucket and the whole array, else 1) created empty at load time",
			"E2: a request straddling a tick is attributed to no window (sound: only certain facts are premises)",
		},
		Real: []string{"api.Entry/Exit", "core/flow (slot, rule manager, reject checker, standalone stat slot)", "core/stat (nodes, leap array, sliding window views)", "core/isolation slot", "slot chain"},
		Stub: []string{"util.Clock (virtual clock)", "E2: goroutine scheduling (cooperative seeded scheduler)", "sync.Pool (SimPool, seeded)"},
	}
}

var geos = []harness.Geometry{{20, 10000, 2, 1000}, {20, 10000, 2, 1000}, {10, 10000, 1, 1000}, {10, 5000, 2, 1000}, {4, 2000, 1, 1000}, {5, 1000, 1, 1000}, {20, 10000, 1, 500}, {8, 4000, 4, 2000}}

func genStat(rng *sim.Rng, g harness.Geometry) uint32 {
	Lg := g.GlobalInterval / g.GlobalSamples
	switch rng.Intn(10) {
	case 0, 1, 2:
		return 0
	case 3:
		return g.MetricInterval
	case 4, 5: // reusable view: multiple of Lg dividing the global interval
		var c []uint32
		for m := uint32(1); m <= g.GlobalSamples; m++ {
			if g.GlobalInterval%(m*Lg) == 0 {
				c = append(c, m*Lg)
			}
		}
		return c[rng.Intn(len(c))]
	case 6:
		return []uint32{250, 300, 700, 50}[rng.Intn(4)]
	case 7:
		return Lg*3 + Lg/2
	case 8:
		return g.GlobalInterval * 2
	default:
		return Lg * uint32(rng.Range(1, int(g.GlobalSamples)))
	}
}

func (P) Gen(rng *sim.Rng, tier string) *harness.Case {
	cfg := Cfg{Geo: geos[rng.Intn(len(geos))], NRes: rng.Range(1, 3)}
	cfg.Conc = rng.Chance(0.25)
	Lg := uint64(cfg.Geo.GlobalInterval / cfg.Geo.GlobalSamples)
	Ig := uint64(cfg.Geo.GlobalInterval)
	cfg.Origin = 1700000000000 + rng.U64Range(0, 100000)
	if rng.Chance(0.3) {
		cfg.Origin -= cfg.Origin % Ig
	}
	id := 0
	for r := 0; r < cfg.NRes; r++ {
		for k, nr := 0, rng.Range(0, 3); k < nr; k++ {
			fr := FRule{ID: fmt.Sprintf("f%d", id), Res: r, Stat: genStat(rng, cfg.Geo)}
			id++
			switch rng.Intn(6) {
			case 0:
				fr.T = 0
			case 1:
				fr.T = float64(rng.Range(1, 6)) + []float64{0.5, 0.25, 0.999}[rng.Intn(3)]
			case 2:
				fr.T = float64(rng.Range(50, 1000))
			default:
				fr.T = float64(rng.Range(1, 12))
			}
			if !cfg.Conc && cfg.NRes > 1 && rng.Chance(0.2) {
				fr.Assoc = true
				fr.Ref = (r + 1 + rng.Intn(cfg.NRes-1)) % cfg.NRes
				// the known standalone+associated defect is generated at a reduced rate
				if standalone(fr.Stat, cfg.Geo) && !rng.Chance(0.15) {
					fr.Stat = 0
				}
			}
			cfg.Rules = append(cfg.Rules, fr)
		}
		if rng.Chance(0.25) {
			cfg.Iso = append(cfg.Iso, IsoRule{Res: r, N: uint32(rng.Range(1, 4))})
		}
	}
	if len(cfg.Rules) == 0 {
		cfg.Rules = append(cfg.Rules, FRule{ID: "f0", Res: 0, T: float64(rng.Range(1, 5))})
	}
	genReq := func() harness.Op {
		b := uint64(1)
		if rng.Chance(0.3) {
			b = uint64(rng.Range(1, 5))
		}
		if rng.Chance(0.03) {
			b = uint64(rng.Range(0, 2000))
		}
		return harness.Op{K: "req", R: rng.Intn(cfg.NRes), N: b, F: !cfg.Conc && rng.Chance(0.2)}
	}
	c := &harness.Case{}
	if cfg.Conc {
		k := rng.Range(2, 4)
		if tier == "thorough" && rng.Chance(0.3) {
			k = rng.Range(5, 7) // thorough: now and then a larger crowd
		}
		c.Callers = make([][]harness.Op, k)
		for i := range c.Callers {
			for j, m := 0, rng.Range(2, 8); j < m; j++ {
				c.Callers[i] = append(c.Callers[i], genReq())
			}
		}
		var ticks []uint64
		for i, nt := 0, rng.Range(0, 6); i < nt; i++ {
			ticks = append(ticks, tickFor(rng, cfg.Origin, Lg, Ig)*1e6)
		}
		c.Sched = harness.GenSched(rng, ticks, 400*k)
		c.Sched.MaxSteps = 60000
	} else {
		nops := rng.Range(20, 80)
		now := cfg.Origin
		held := 0
		var ops []harness.Op
		for len(ops) < nops {
			switch rng.Weighted([]int{60, 10, 30}) {
			case 0:
				op := genReq()
				if op.F {
					held++
				}
				ops = append(ops, op)
			case 1:
				if held > 0 {
					ops = append(ops, harness.Op{K: "exit", E: rng.Intn(held)})
				}
			default:
				d := tickFor(rng, now, Lg, Ig)
				now += d
				ops = append(ops, harness.Op{K: "tick", N: d})
			}
		}
		c.Callers = [][]harness.Op{ops}
	}
	c.Pool = harness.GenPool(rng)
	c.Cfg = harness.MustJSON(cfg)
	return c
}

func tickFor(rng *sim.Rng, now, L, I uint64) uint64 {
	toB := L - now%L
	switch rng.Intn(10) {
	case 0:
		return 0
	case 1:
		return 1
	case 2:
		return toB
	case 3:
		return toB - 1
	case 4:
		return L
	case 5:
		return 1000 - now%1000
	case 6:
		return I + rng.U64Range(0, L)
	case 7:
		return I - now%I
	default:
		return rng.U64Range(1, 2*L)
	}
}

// geometry of the statistic a rule reads: (bucket length, interval, standalone?)
func ruleWindow(stat uint32, g harness.Geometry) (L, I uint64, alone bool) {
	Lg := g.GlobalInterval / g.GlobalSamples
	if stat == 0 || stat == g.MetricInterval {
		return uint64(Lg), uint64(g.MetricInterval), false
	}
	n := uint32(1)
	if stat <= g.GlobalInterval && stat >= Lg && stat%Lg == 0 {
		n = stat / Lg
	}
	tiles := stat%n == 0 && g.GlobalInterval%stat == 0 && (stat/n)%Lg == 0
	if tiles {
		return uint64(Lg), uint64(stat), false
	}
	return uint64(stat / n), uint64(stat), true
}

func standalone(stat uint32, g harness.Geometry) bool {
	_, _, a := ruleWindow(stat, g)
	return a
}

type mrule struct {
	FRule
	L, I  uint64
	alone bool
	log   *model.WindowLog // standalone only
	ptr   *flow.Rule
}

type refModel struct {
	cfg   *Cfg
	pass  []*model.WindowLog // per resource, global array
	rules [][]*mrule         // per resource in load order
	iso   map[int]uint32
	live  []int
}

func newModel(cfg *Cfg) *refModel {
	m := &refModel{cfg: cfg, iso: map[int]uint32{}, live: make([]int, cfg.NRes)}
	Lg := uint64(cfg.Geo.GlobalInterval / cfg.Geo.GlobalSamples)
	for i := 0; i < cfg.NRes; i++ {
		m.pass = append(m.pass, &model.WindowLog{L: Lg, I: uint64(cfg.Geo.GlobalInterval)})
	}
	m.rules = make([][]*mrule, cfg.NRes)
	for _, r := range cfg.Rules {
		if r.Res < 0 || r.Res >= cfg.NRes || r.Ref < 0 || r.Ref >= cfg.NRes {
			continue
		}
		mr := &mrule{FRule: r}
		mr.L, mr.I, mr.alone = ruleWindow(r.Stat, cfg.Geo)
		if mr.alone {
			mr.log = &model.WindowLog{L: mr.L, I: mr.I}
		}
		m.rules[r.Res] = append(m.rules[r.Res], mr)
	}
	for _, ir := range cfg.Iso {
		m.iso[ir.Res] = ir.N
	}
	return m
}

func (m *refModel) statRes(r *mrule) int {
	if r.Assoc {
		return r.Ref
	}
	return r.Res
}

// window sum a rule sees at time t
func (m *refModel) W(r *mrule, t uint64) int64 {
	if r.alone {
		lo, hi := r.log.Range(t, r.I)
		return r.log.Sum(model.KPass, lo, hi)
	}
	lg := m.pass[m.statRes(r)]
	lo, hi := lg.Range(t, r.I)
	return lg.Sum(model.KPass, lo, hi)
}

// decide returns ("pass"|"flow"|"iso", blocking rule, W)
func (m *refModel) decide(res int, b uint32, t uint64) (string, *mrule, int64) {
	for _, r := range m.rules[res] {
		w := m.W(r, t)
		if float64(w)+float64(b) > r.T {
			return "flow", r, w
		}
	}
	if n, ok := m.iso[res]; ok {
		if uint64(m.live[res])+uint64(b) > uint64(n) {
			return "iso", nil, 0
		}
	}
	return "pass", nil, 0
}

func (m *refModel) admit(res int, b uint32, t uint64) {
	m.pass[res].Add(t, model.KPass, int64(b))
	for _, rs := range m.rules {
		for _, r := range rs {
			if r.alone && m.statRes(r) == res {
				r.log.Add(t, model.KPass, int64(b))
			}
		}
	}
	m.live[res]++
}

func loadRules(o *harness.Outcome, cfg *Cfg, m *refModel) bool {
	var fr []*flow.Rule
	for _, rs := range m.rules {
		for _, r := range rs {
			x := &flow.Rule{ID: r.ID, Resource: harness.ResName(r.Res), TokenCalculateStrategy: flow.Direct, ControlBehavior: flow.Reject,
				Threshold: r.T, StatIntervalInMs: r.Stat}
			if r.Assoc {
				x.RelationStrategy = flow.AssociatedResource
				x.RefResource = harness.ResName(r.Ref)
			}
			r.ptr = x
			fr = append(fr, x)
		}
	}
	var ir []*isolation.Rule
	for _, r := range cfg.Iso {
		if r.Res >= 0 && r.Res < cfg.NRes {
			ir = append(ir, &isolation.Rule{Resource: harness.ResName(r.Res), MetricType: isolation.Concurrency, Threshold: r.N})
		}
	}
	return harness.Call(o, "C02.panic", 0, func() {
		if _, err := flow.LoadRules(fr); err != nil {
			o.Fail("C02.load-error", 0, "flow.LoadRules: %v", err)
		}
		if len(ir) > 0 {
			if _, err := isolation.LoadRules(ir); err != nil {
				o.Fail("C02.load-error", 0, "isolation.LoadRules: %v", err)
			}
		}
	})
}

func (p P) Exec(c *harness.Case) *harness.Outcome {
	o := harness.NewOutcome()
	var cfg Cfg
	if err := json.Unmarshal(c.Cfg, &cfg); err != nil {
		o.Infra = err.Error()
		return o
	}
	if cfg.NRes <= 0 || cfg.Geo.GlobalSamples == 0 {
		return o
	}
	env := harness.Reset(cfg.Origin*1e6, cfg.Geo)
	pc := harness.InstallPool(c)
	defer func() {
		if pc != nil {
			o.PoolLog = append([]int{}, pc.Log...)
		}
		sim.SetPoolCtl(nil)
	}()
	m := newModel(&cfg)
	if !loadRules(o, &cfg, m) || o.Failed() {
		return o
	}
	if cfg.Conc {
		execConc(c, o, &cfg, m, env)
	} else {
		execSeq(c, o, &cfg, m, env)
	}
	return o
}

// knownKey: a resource guarded by an associated rule with a private window is subject to the
// recorded defect (the private window counts the rule's own resource, not the referenced one).
func (m *refModel) knownKey(res int) string {
	for _, r := range m.rules[res] {
		if r.Assoc && r.alone {
			return "C02.assoc-standalone-counts-own-resource"
		}
	}
	return ""
}

func execSeq(c *harness.Case, o *harness.Outcome, cfg *Cfg, m *refModel, env *harness.Env) {
	clk := env.Clock
	type held struct {
		e   *base.SentinelEntry
		res int
	}
	var hs []held
	crossed, rejected, admittedAfter := false, false, false
	if len(c.Callers) == 0 {
		return
	}
	for step, op := range c.Callers[0] {
		now := clk.NowMs()
		switch op.K {
		case "tick":
			L := uint64(cfg.Geo.GlobalInterval / cfg.Geo.GlobalSamples)
			if (now+op.N)/L != now/L {
				crossed = true
				o.Probe("bucket_boundary_crossed")
			}
			if (now+op.N)%L == 0 {
				o.Probe("tick_lands_on_boundary")
			}
			clk.AdvanceMs(op.N)
			o.SimMs += op.N
			for _, lg := range m.pass {
				lg.Prune(now, 3*uint64(cfg.Geo.GlobalInterval))
			}
		case "exit":
			if op.E >= 0 && op.E < len(hs) && hs[op.E].e != nil {
				h := hs[op.E]
				harness.Call(o, "C02.panic", step, func() { h.e.Exit() })
				m.live[h.res]--
				hs[op.E].e = nil
			}
		case "req":
			if op.R < 0 || op.R >= cfg.NRes {
				continue
			}
			b := uint32(op.N)
			want, wr, ww := m.decide(op.R, b, now)
			var e *base.SentinelEntry
			var be *base.BlockError
			harness.Call(o, "C02.panic", step, func() {
				e, be = sentinel.Entry(harness.ResName(op.R), harness.EntryOpts(b, false, nil, nil, nil)...)
			})
			if o.Failed() {
				return
			}
			got := "pass"
			if be != nil {
				switch be.BlockType() {
				case base.BlockTypeFlow:
					got = "flow"
				case base.BlockTypeIsolation:
					got = "iso"
				default:
					got = be.BlockType().String()
				}
			}
			if (e == nil) == (be == nil) {
				o.Fail("C02.outcome-shape", step, "Entry returned entry=%v blockErr=%v", e != nil, be != nil)
				return
			}
			if got != want {
				key := ""
				// attribute the mismatch: which rule disagrees?
				culprit := wr
				if want == "pass" || want == "iso" {
					if fr, ok := be.TriggeredRule().(*flow.Rule); be != nil && ok {
						for _, r := range m.rules[op.R] {
							if r.ptr == fr {
								culprit = r
							}
						}
					}
				}
				key = m.knownKey(op.R)
				desc := "no rule"
				if culprit != nil {
					desc = fmt.Sprintf("rule %s (T=%v stat=%d assoc=%v window L=%d I=%d standalone=%v) sees W=%d", culprit.ID, culprit.T, culprit.Stat, culprit.Assoc, culprit.L, culprit.I, culprit.alone, m.W(culprit, now))
				}
				o.Fail("C02.decision", step, "t=%d request res-%d batch %d: implementation %s, reference %s; %s", now, op.R, b, got, want, desc)
				o.V.Key = key
				return
			}
			if want == "flow" {
				rejected = true
				fr, _ := be.TriggeredRule().(*flow.Rule)
				if fr != wr.ptr {
					id := "<nil>"
					if fr != nil {
						id = fr.ID
					}
					o.Fail("C02.triggered-rule", step, "t=%d request res-%d batch %d blocked by rule %s, reference says first failing rule is %s", now, op.R, b, id, wr.ID)
					o.V.Key = m.knownKey(op.R)
					return
				}
				if v, ok := be.TriggeredValue().(float64); !ok || v != float64(ww) {
					o.Fail("C02.triggered-value", step, "t=%d blocked with TriggeredValue=%v, reference window holds %d", now, be.TriggeredValue(), ww)
					o.V.Key = m.knownKey(op.R)
					return
				}
				if wr.Assoc {
					o.Probe("blocked_by_associated_rule")
				}
				if wr.alone {
					o.Probe("blocked_by_standalone_window")
				}
			}
			if want == "iso" {
				o.Probe("rejected_later_in_chain")
			}
			if want == "pass" {
				if crossed && rejected {
					admittedAfter = true
				}
				m.admit(op.R, b, now)
				if op.F {
					hs = append(hs, held{e, op.R})
				} else {
					harness.Call(o, "C02.panic", step, func() { e.Exit() })
					m.live[op.R]--
				}
			}
		}
		if o.Failed() {
			return
		}
	}
	o.Nontrivial = admittedAfter
}

type creq struct {
	res          int
	b            uint32
	tInv, tRet   uint64
	admitted     bool
	done, flowBl bool
}

func execConc(c *harness.Case, o *harness.Outcome, cfg *Cfg, m *refModel, env *harness.Env) {
	clk := env.Clock
	k := len(c.Callers)
	per := make([][]*creq, k)
	for i, ops := range c.Callers {
		for _, op := range ops {
			if op.K == "req" && op.R >= 0 && op.R < cfg.NRes {
				per[i] = append(per[i], &creq{res: op.R, b: uint32(op.N)})
			}
		}
	}
	start := clk.NowMs()
	harness.RunE2(c, o, "C02", clk, k, func(task int) {
		for _, r := range per[task] {
			r.tInv = clk.NowMs()
			e, be := sentinel.Entry(harness.ResName(r.res), harness.EntryOpts(r.b, false, nil, nil, nil)...)
			if e != nil {
				r.admitted = true
				e.Exit()
			} else if be != nil && be.BlockType() == base.BlockTypeFlow {
				r.flowBl = true
			}
			r.tRet = clk.NowMs()
			r.done = true
		}
	}, nil)
	o.SimMs += clk.NowMs() - start
	if o.Failed() {
		return
	}
	var all []*creq
	maxb := uint32(0)
	for _, l := range per {
		for _, r := range l {
			if !r.done {
				o.Fail("C02.no-return", 0, "a caller did not return from Entry")
				return
			}
			all = append(all, r)
			if r.b > maxb {
				maxb = r.b
			}
		}
	}
	anyRej, anyAdm := false, false
	for _, rs := range m.rules {
		for _, r := range rs {
			if r.Assoc {
				continue
			}
			// window end positions: every bucket that holds a request
			ends := map[uint64]bool{}
			for _, q := range all {
				ends[q.tRet-q.tRet%r.L] = true
			}
			for hi := range ends {
				lo := int64(hi) - int64(r.I) + int64(r.L)
				var sum uint64
				for _, q := range all {
					if q.res != r.Res || !q.admitted {
						continue
					}
					bi, br := q.tInv-q.tInv%r.L, q.tRet-q.tRet%r.L
					if int64(bi) >= lo && br <= hi {
						sum += uint64(q.b)
					}
				}
				bound := r.T + float64(k-1)*float64(maxb)
				if float64(sum) > bound {
					o.Fail("C02.concurrent-excess", 0, "rule %s (T=%v, window L=%d I=%d): %d tokens admitted certainly inside window [%d,%d] with %d callers (bound T+(k-1)*maxBatch=%v)", r.ID, r.T, r.L, r.I, sum, lo, hi, k, bound)
					return
				}
			}
		}
	}
	// no spurious rejection: some rule must be able to have seen W+b > T
	for _, q := range all {
		if !q.flowBl {
			continue
		}
		justified := false
		for _, r := range m.rules[q.res] {
			lo := int64(q.tInv-q.tInv%r.L) - int64(r.I) + int64(r.L)
			var ub uint64
			sres := m.statRes(r)
			for _, x := range all {
				if x.admitted && x.res == sres && x.tInv <= q.tRet && int64(x.tRet-x.tRet%r.L) >= lo {
					ub += uint64(x.b)
				}
			}
			if float64(ub)+float64(q.b) > r.T {
				justified = true
			}
		}
		if !justified {
			o.Fail("C02.concurrent-spurious-reject", 0, "request res-%d batch %d at t=[%d,%d] was flow-rejected although no rule could have seen its window above the threshold", q.res, q.b, q.tInv, q.tRet)
			return
		}
	}
	for _, q := range all {
		if q.admitted {
			anyAdm = true
		}
		if q.flowBl {
			anyRej = true
		}
	}
	o.Nontrivial = anyAdm && anyRej
	if anyAdm && anyRej {
		o.Probe("concurrent_mixed_outcomes")
	}
}
