// Package c01: Entry/Exit accounting is conserved and correctly attributed
// (E1 operation-by-operation tally model; E2 conservation at quiescence).
package c01

import (
	"encoding/json"
	"errors"
	"fmt"
	"reflect"

	sentinel "github.com/alibaba/sentinel-golang/api"
	"github.com/alibaba/sentinel-golang/core/base"
	"github.com/alibaba/sentinel-golang/core/flow"
	"github.com/alibaba/sentinel-golang/core/hotspot"
	"github.com/alibaba/sentinel-golang/core/isolation"
	"github.com/alibaba/sentinel-golang/core/stat"

	"verif/harness"
	"verif/model"
	"verif/sim"
)

type Cfg struct {
	Origin  uint64 `json:"origin_ms"`
	NRes    int    `json:"nres"`
	FlowT   []int  `json:"flow_threshold"` // per resource, -1 none
	IsoN    []int  `json:"iso_threshold"`  // per resource, 0 none
	HotT    []int  `json:"hotspot_threshold"`
	Conc    bool   `json:"concurrent,omitempty"`
	ChkLate bool   `json:"scripted_check_before_rules,omitempty"`
	// NilPanic: the scripted slots panic with a nil value. The worker is built with //go:debug panicnil=1 (the
	// default of every main module that declares a Go version below 1.21), under which recover() then returns nil:
	// a recovery that recognises a panic by "recover() != nil" takes it for a normal return.
	NilPanic bool    `json:"nil_panic,omitempty"`
	_        float64 // keep struct comparable-free
}

// entry scripts (carried to the scripted slots in ctx.Input.Flag)
const (
	sPass = iota
	sBlock
	sPanicPrepare
	sPanicCheck
	sNilCheck
)

type P struct{}

func init() { harness.Register(P{}) }

func (P) ID() string     { return "C01" }
func (P) Engine() string { return "E1+E2" }

func (P) Describe() harness.Description {
	return harness.Description{
		MustHit: []string{"scripted_slots_panic_with_a_nil_value", "internal_panic_path", "late_trace_error", "repeated_or_late_exit", "pool_object_reused"},
		Level:   "exploration",
		Rule: "case = (1-3 resources with optional real flow / isolation / hotspot rules, chain = fresh default chain + scripted prepare slot + scripted rule-check slot + recording stat slot; 10-60 ops: Entry(batch 1..2^32-1, inbound/outbound, argument lists incl. un-hashable values that make the hotspot check panic, script pass/block/panic-in-prepare/panic-in-check/nil), TraceError, Exit, Exit(WithError), repeated and late calls, ticks); " +
			"after every op: one outcome per Entry, exactly one pass|block callback with the right resource and batch, exactly one completion per passed entry with its own last error and rt, none for blocked, late calls change nothing (callback log, figures, other live entries' Err()/Args), node and inbound concurrency == live entries (never negative), windowed sums == reference window of the tallied events. " +
			"E2 (25%): 2-4 callers, same conservation at quiescence and per-entry attribution. non-trivial = a pooled object was handed to a second entry or a panic path ran; distinct = hash(config, ops[, schedule])",
		Assumptions: []string{"panics inside user statistic slots or exit handlers are outside the domain (none are generated)", "E2 runs with the clock frozen so that all figures fall into one window"},
		Real:        []string{"api.Entry/TraceError, SentinelEntry.Exit", "core/base slot chain, entry, context pools", "core/stat stat slot, nodes, inbound node", "core/flow, core/isolation, core/hotspot slots and rule managers"},
		Stub:        []string{"util.Clock (virtual clock)", "sync.Pool (SimPool: reuse order seeded)", "E2: goroutine scheduling"},
	}
}

func genArgs(rng *sim.Rng, panicky bool) []string {
	n := rng.Range(0, 3)
	var a []string
	for i := 0; i < n; i++ {
		switch rng.Intn(6) {
		case 0:
			a = append(a, fmt.Sprintf("i:%d", rng.Intn(4)))
		case 1:
			a = append(a, fmt.Sprintf("s:v%d", rng.Intn(4)))
		case 2:
			a = append(a, fmt.Sprintf("st:%d", rng.Intn(3)))
		case 3:
			a = append(a, fmt.Sprintf("b:%v", rng.Chance(0.5)))
		default:
			a = append(a, fmt.Sprintf("i:%d", rng.Intn(100)))
		}
	}
	if panicky && n > 0 {
		a[0] = []string{"sl:1,2", "m:"}[rng.Intn(2)]
	}
	return a
}

func (P) Gen(rng *sim.Rng, tier string) *harness.Case {
	cfg := Cfg{NRes: rng.Range(1, 3), Origin: 1700000000000 + rng.U64Range(0, 100000)}
	cfg.Conc = rng.Chance(0.25)
	cfg.ChkLate = rng.Chance(0.5)
	cfg.NilPanic = rng.Chance(0.2)
	for r := 0; r < cfg.NRes; r++ {
		ft, in, ht := -1, 0, -1
		if rng.Chance(0.3) {
			ft = rng.Range(0, 6)
		}
		if rng.Chance(0.2) {
			in = rng.Range(1, 3)
		}
		if rng.Chance(0.35) {
			ht = rng.Range(1, 5)
		}
		cfg.FlowT, cfg.IsoN, cfg.HotT = append(cfg.FlowT, ft), append(cfg.IsoN, in), append(cfg.HotT, ht)
	}
	// the rule-check panic defect (recorded finding) is triggered at a reduced rate
	panicRate := 0.06
	scriptRate := 0.06
	gen := func(n int, ticks bool) []harness.Op {
		var ops []harness.Op
		entries := 0
		for len(ops) < n {
			switch rng.Weighted([]int{40, 15, 30, 15}) {
			case 0:
				b := uint64(1)
				if rng.Chance(0.25) {
					b = uint64(rng.Range(1, 7))
				}
				if rng.Chance(0.04) {
					b = rng.U64Range(1, 1<<32-1)
				}
				script := sPass
				if rng.Chance(scriptRate * 3) {
					script = []int{sBlock, sBlock, sNilCheck}[rng.Intn(3)]
				}
				if rng.Chance(scriptRate) {
					script = []int{sPanicPrepare, sPanicCheck}[rng.Intn(2)]
				}
				op := harness.Op{K: "entry", R: rng.Intn(cfg.NRes), N: b, F: rng.Chance(0.5), M: uint64(script), A: genArgs(rng, rng.Chance(panicRate))}
				ops = append(ops, op)
				entries++
			case 1:
				if entries > 0 {
					ops = append(ops, harness.Op{K: "trace", E: rng.Intn(entries)})
				}
			case 2:
				if entries > 0 {
					x := harness.Op{K: "exit", E: rng.Intn(entries), F: rng.Chance(0.3)}
					if ticks && rng.Chance(0.15) {
						x.M = 1 // an exit handler registered by the caller traces an error of its own
					}
					ops = append(ops, x)
				}
			default:
				if ticks && rng.Chance(0.12) {
					// clock fault: the wall clock is set back a little (an NTP correction) while entries are in flight
					ops = append(ops, harness.Op{K: "back", N: uint64(rng.Range(1, 400))})
				} else if ticks {
					ops = append(ops, harness.Op{K: "tick", N: []uint64{0, 1, 7, 100, 499, 500, 501, 1000, 3000, 12000}[rng.Intn(10)]})
				}
			}
		}
		return ops
	}
	c := &harness.Case{}
	if cfg.Conc {
		k := rng.Range(2, 4)
		if tier == "thorough" && rng.Chance(0.3) {
			k = rng.Range(5, 7) // thorough: now and then a larger crowd
		}
		c.Callers = make([][]harness.Op, k)
		var duels [][2]int
		for i := range c.Callers {
			c.Callers[i] = gen(rng.Range(3, 10), false)
			// Exit of an entry that another caller owns (and may be exiting or tracing on at the same moment)
			for j, n := 0, rng.Weighted([]int{50, 30, 20}); j < n; j++ {
				at := rng.Intn(len(c.Callers[i]) + 1)
				x := harness.Op{K: "xexit", R: rng.Intn(k), E: rng.Intn(6)}
				c.Callers[i] = append(c.Callers[i][:at], append([]harness.Op{x}, c.Callers[i][at:]...)...)
				duels = append(duels, [2]int{(i + 1 + x.R%k) % k, x.E})
			}
		}
		// the owner keeps tracing errors on an entry that another caller exits: a burst of
		// TraceError calls somewhere in the owner's list widens the overlap
		for _, d := range duels {
			if d[0] >= len(c.Callers) || !rng.Chance(0.6) {
				continue
			}
			l := c.Callers[d[0]]
			at := rng.Intn(len(l) + 1)
			burst := make([]harness.Op, rng.Range(2, 5))
			for j := range burst {
				burst[j] = harness.Op{K: "trace", E: d[1]}
			}
			c.Callers[d[0]] = append(l[:at:at], append(burst, l[at:]...)...)
		}
		c.Sched = harness.GenSched(rng, nil, 500*k)
		c.Sched.MaxSteps = 100000
		// half of the runs: a scheduling point after every atomic load as well, so that
		// a check (exited? first use?) and the plain write it guards can be separated
		c.Sched.PostLoad = rng.Chance(0.5)
	} else {
		c.Callers = [][]harness.Op{gen(rng.Range(10, 60), true)}
	}
	c.Pool = harness.GenPool(rng)
	c.Cfg = harness.MustJSON(cfg)
	return c
}

// ---- scripted slots and recorder -------------------------------------------------

// scriptNilPanic is set from the case's configuration before the run starts (read-only while callers run)
var scriptNilPanic bool

type prepSlot struct{}

func (prepSlot) Order() uint32 { return 2000 }
func (prepSlot) Prepare(ctx *base.EntryContext) {
	if ctx.Input.Flag&0xff == sPanicPrepare {
		if scriptNilPanic {
			var none error
			panic(none)
		}
		panic("scripted panic in prepare slot")
	}
}

type checkSlot struct{ order uint32 }

func (s checkSlot) Order() uint32 { return s.order }
func (s checkSlot) Check(ctx *base.EntryContext) *base.TokenResult {
	switch ctx.Input.Flag & 0xff {
	case sBlock:
		return base.NewTokenResultBlockedWithMessage(base.BlockTypeUnknown, "scripted block")
	case sPanicCheck:
		if scriptNilPanic {
			var none error
			panic(none)
		}
		panic("scripted panic in rule-check slot")
	case sNilCheck:
		return nil
	}
	return base.NewTokenResultPass()
}

type cbRec struct {
	kind   string // passed | blocked | completed
	serial int
	res    string
	batch  uint32
	err    string
	rt     uint64
}

type recorder struct{ log []cbRec }

func (r *recorder) Order() uint32 { return 9000 }
func (r *recorder) add(kind string, ctx *base.EntryContext) {
	e := ""
	if ctx.Err() != nil {
		e = ctx.Err().Error()
	}
	r.log = append(r.log, cbRec{kind: kind, serial: int(ctx.Input.Flag >> 8), res: ctx.Resource.Name(), batch: ctx.Input.BatchCount, err: e, rt: ctx.Rt()})
}
func (r *recorder) OnEntryPassed(ctx *base.EntryContext) { r.add("passed", ctx) }
func (r *recorder) OnEntryBlocked(ctx *base.EntryContext, _ *base.BlockError) {
	r.add("blocked", ctx)
}
func (r *recorder) OnCompleted(ctx *base.EntryContext) { r.add("completed", ctx) }

// ---- model -------------------------------------------------------------------------

type ment struct {
	serial  int
	res     int
	batch   uint32
	inbound bool
	args    []interface{}
	script  int
	e       *base.SentinelEntry
	be      *base.BlockError
	passed  bool
	exited  bool
	lastErr string
	start   uint64
	panicky bool // rule evaluation is expected to panic internally
	// uncounted: the entry was passed by an internal panic and the statistic slots
	// were told nothing (recorded finding); the model then expects no completion either.
	uncounted bool
	// shared: some other caller exited (or tried to exit) this entry; errs: every error any caller handed to it
	shared bool
	errs   map[string]bool
}

func (m *ment) noteErr(e string) {
	if m.errs == nil {
		m.errs = map[string]bool{}
	}
	m.errs[e] = true
}

const keyPanic = "C01.panic-pass-not-counted"

func buildChain(cfg *Cfg, rec *recorder) *base.SlotChain {
	sc := sentinel.BuildDefaultSlotChain()
	sc.AddStatPrepareSlot(prepSlot{})
	if cfg.ChkLate {
		sc.AddRuleCheckSlot(checkSlot{order: 500})
	} else {
		sc.AddRuleCheckSlot(checkSlot{order: 10000})
	}
	sc.AddStatSlot(rec)
	return sc
}

func loadRules(o *harness.Outcome, cfg *Cfg) {
	var fr []*flow.Rule
	var ir []*isolation.Rule
	var hr []*hotspot.Rule
	for r := 0; r < cfg.NRes && r < len(cfg.FlowT) && r < len(cfg.IsoN) && r < len(cfg.HotT); r++ {
		if cfg.FlowT[r] >= 0 {
			fr = append(fr, &flow.Rule{Resource: harness.ResName(r), Threshold: float64(cfg.FlowT[r]), TokenCalculateStrategy: flow.Direct, ControlBehavior: flow.Reject})
		}
		if cfg.IsoN[r] > 0 {
			ir = append(ir, &isolation.Rule{Resource: harness.ResName(r), MetricType: isolation.Concurrency, Threshold: uint32(cfg.IsoN[r])})
		}
		if cfg.HotT[r] >= 0 {
			hr = append(hr, &hotspot.Rule{Resource: harness.ResName(r), MetricType: hotspot.QPS, ControlBehavior: hotspot.Reject, ParamIndex: 0, Threshold: int64(cfg.HotT[r]), DurationInSec: 1, SpecificItems: map[interface{}]int64{}})
		}
	}
	harness.Call(o, "C01.panic", 0, func() {
		_, _ = flow.LoadRules(fr)
		_, _ = isolation.LoadRules(ir)
		_, _ = hotspot.LoadRules(hr)
	})
}

func errOf(serial, n int) error { return errors.New(fmt.Sprintf("err-%d-%d", serial, n)) }

type world struct {
	cfg     *Cfg
	o       *harness.Outcome
	rec     *recorder
	sc      *base.SlotChain
	ents    []*ment
	logs    []*model.WindowLog // per resource + [NRes] inbound
	live    []int              // per resource + inbound
	errSeq  int
	poolHit bool
	// errSlack: tokens of entries that were exited by one caller while another handed them an error; whether the
	// error reached the statistic before the completion was counted is open (per resource + inbound)
	errSlack []int64
}

func newWorld(cfg *Cfg, o *harness.Outcome) *world {
	w := &world{cfg: cfg, o: o, rec: &recorder{}}
	w.sc = buildChain(cfg, w.rec)
	for i := 0; i <= cfg.NRes; i++ {
		w.logs = append(w.logs, &model.WindowLog{L: 500, I: 10000})
	}
	w.live = make([]int, cfg.NRes+1)
	w.errSlack = make([]int64, cfg.NRes+1)
	return w
}

func (w *world) tally(res int, inbound bool, t uint64, kind int, amt int64) {
	w.logs[res].Add(t, kind, amt)
	if inbound {
		w.logs[w.cfg.NRes].Add(t, kind, amt)
	}
}

// doEntry performs the Entry call of op and returns the model entry (checks of
// the callback log are done by the caller).
func (w *world) doEntry(op harness.Op, serial int, step int, now uint64) *ment {
	m := &ment{serial: serial, res: op.R, batch: uint32(op.N), inbound: op.F, script: int(op.M), args: harness.DecodeArgs(op.A), start: now}
	if m.batch == 0 {
		m.batch = 1
	}
	if len(op.A) > 0 && !harness.Hashable(op.A[0]) && op.R < len(w.cfg.HotT) && w.cfg.HotT[op.R] >= 0 {
		m.panicky = true
	}
	opts := harness.EntryOpts(m.batch, m.inbound, m.args, nil, w.sc)
	opts = append(opts, sentinel.WithFlag(int32(m.script)|int32(serial)<<8))
	harness.Call(w.o, "C01.panic", step, func() {
		m.e, m.be = sentinel.Entry(harness.ResName(op.R), opts...)
	})
	return m
}

func (P) Exec(c *harness.Case) *harness.Outcome {
	o := harness.NewOutcome()
	var cfg Cfg
	if err := json.Unmarshal(c.Cfg, &cfg); err != nil {
		o.Infra = err.Error()
		return o
	}
	if cfg.NRes <= 0 || len(cfg.FlowT) < cfg.NRes || len(cfg.IsoN) < cfg.NRes || len(cfg.HotT) < cfg.NRes {
		return o
	}
	env := harness.Reset(cfg.Origin*1e6, harness.DefaultGeometry())
	scriptNilPanic = cfg.NilPanic
	if cfg.NilPanic {
		o.Probe("scripted_slots_panic_with_a_nil_value")
	}
	pc := harness.InstallPool(c)
	defer func() {
		if pc != nil {
			o.PoolLog = append([]int{}, pc.Log...)
			if pc.Reuses > 0 {
				o.Probe("pool_object_reused")
			}
		}
		sim.SetPoolCtl(nil)
	}()
	loadRules(o, &cfg)
	if o.Failed() {
		return o
	}
	w := newWorld(&cfg, o)
	if cfg.Conc {
		execConc(c, w, env)
	} else {
		execSeq(c, w, env)
	}
	if pc != nil && pc.Reuses > 1 {
		o.Nontrivial = true
	}
	return o
}

var kinds = []struct {
	k  int
	ev base.MetricEvent
}{{model.KPass, base.MetricEventPass}, {model.KBlock, base.MetricEventBlock}, {model.KComplete, base.MetricEventComplete}, {model.KError, base.MetricEventError}, {model.KRt, base.MetricEventRt}}

// checkFigures compares concurrency gauges and windowed sums with the model.
func (w *world) checkFigures(step int, now uint64) {
	o := w.o
	for r := 0; r <= w.cfg.NRes; r++ {
		var node *stat.ResourceNode
		name := "inbound"
		if r == w.cfg.NRes {
			node = stat.InboundNode()
		} else {
			name = harness.ResName(r)
			node = stat.GetResourceNode(name)
		}
		if node == nil {
			if len(w.logs[r].Evs) > 0 {
				o.Fail("C01.node-missing", step, "%s has recorded events but no statistic node", name)
			}
			continue
		}
		if got := int(node.CurrentConcurrency()); got != w.live[r] {
			inv := "C01.concurrency"
			if got < 0 {
				inv = "C01.concurrency-negative"
			}
			o.Fail(inv, step, "t=%d %s reports concurrency %d, %d passed entries are in flight", now, name, got, w.live[r])
			return
		}
		lo, hi := w.logs[r].Range(now, 1000)
		for _, k := range kinds {
			want := w.logs[r].Sum(k.k, lo, hi)
			if got := node.GetSum(k.ev); k.k == model.KError && w.errSlack[r] > 0 && got >= want && got <= want+w.errSlack[r] {
				continue
			}
			if got := node.GetSum(k.ev); got != want {
				o.Fail("C01.figure", step, "t=%d %s GetSum(event %d)=%d, tallied events in window [%d,%d] give %d", now, name, k.k, got, lo, hi, want)
				return
			}
		}
	}
}

// checkLive: every live passed entry still carries its own error and arguments.
func (w *world) checkLive(step int) {
	for _, m := range w.ents {
		if m == nil || !m.passed || m.exited || m.e == nil {
			continue
		}
		ctx := m.e.Context()
		if ctx == nil {
			w.o.Fail("C01.live-context-nil", step, "live entry #%d has no context", m.serial)
			return
		}
		got := ""
		if ctx.Err() != nil {
			got = ctx.Err().Error()
		}
		if got != m.lastErr && !(m.panicky || m.script == sPanicCheck || m.script == sPanicPrepare) {
			w.o.Fail("C01.foreign-error", step, "live entry #%d carries error %q, its caller last set %q", m.serial, got, m.lastErr)
			return
		}
		if ctx.Input == nil {
			continue
		}
		if len(m.args) > 0 || len(ctx.Input.Args) > 0 {
			if !reflect.DeepEqual(append([]interface{}{}, ctx.Input.Args...), append([]interface{}{}, m.args...)) {
				w.o.Fail("C01.args-changed", step, "live entry #%d (res-%d) has Input.Args %v, its caller passed %v", m.serial, m.res, ctx.Input.Args, m.args)
				w.o.V.Key = ""
				return
			}
		}
		if ctx.Input.BatchCount != m.batch {
			w.o.Fail("C01.batch-changed", step, "live entry #%d has BatchCount %d, its caller passed %d", m.serial, ctx.Input.BatchCount, m.batch)
			return
		}
	}
}

func execSeq(c *harness.Case, w *world, env *harness.Env) {
	o := w.o
	clk := env.Clock
	if len(c.Callers) == 0 {
		return
	}
	for step, op := range c.Callers[0] {
		now := clk.NowMs()
		logBefore := len(w.rec.log)
		switch op.K {
		case "tick":
			clk.AdvanceMs(op.N)
			o.SimMs += op.N
			for _, l := range w.logs {
				l.Prune(now, 30000)
			}
		case "back":
			// (not across a bucket boundary: a recorder that is behind the bucket of its slot is refused, which is
			// the statistic's business and C08 / C09's subject; here the subject is what an entry reports)
			d := op.N
			if m := now % 500; d > m {
				d = m
			}
			if d > 0 {
				clk.SetNs(clk.NowNs() - d*1e6)
				o.Fault("clock_stepped_back")
			}
		case "entry":
			if op.R < 0 || op.R >= w.cfg.NRes {
				w.ents = append(w.ents, nil)
				continue
			}
			serial := len(w.ents)
			m := w.doEntry(op, serial, step, now)
			w.ents = append(w.ents, m)
			if o.Failed() {
				return
			}
			if (m.e == nil) == (m.be == nil) {
				o.Fail("C01.outcome-shape", step, "Entry #%d returned entry=%v blockErr=%v", serial, m.e != nil, m.be != nil)
				return
			}
			m.passed = m.e != nil
			internalPanic := m.panicky || m.script == sPanicPrepare || m.script == sPanicCheck
			if internalPanic {
				o.Probe("internal_panic_path")
				o.Nontrivial = true
				if !m.passed && !(m.script == sPanicCheck && !w.cfg.ChkLate) && !(m.panicky) {
					// a rule ordered before the panicking slot may legitimately block first
				}
			}
			if m.script == sBlock && m.passed && !internalPanic {
				o.Fail("C01.scripted-block-passed", step, "Entry #%d: the rule-check slot blocked but an entry was returned", serial)
				return
			}
			// exactly one pass|block callback for this Entry, with the right resource and batch
			newCbs := w.rec.log[logBefore:]
			want := "blocked"
			if m.passed {
				want = "passed"
			}
			cnt := 0
			for _, cb := range newCbs {
				if cb.kind == "completed" {
					o.Fail("C01.completion-at-entry", step, "Entry #%d produced a completion callback", serial)
					return
				}
				if cb.serial != serial || cb.res != harness.ResName(op.R) || cb.batch != m.batch {
					o.Fail("C01.callback-attribution", step, "Entry #%d (res-%d batch %d) produced callback %+v", serial, op.R, m.batch, cb)
					return
				}
				if cb.kind == want {
					cnt++
				} else {
					o.Fail("C01.callback-kind", step, "Entry #%d outcome %s but statistic slots were told %s", serial, want, cb.kind)
					return
				}
			}
			if cnt == 0 && internalPanic && m.passed {
				o.KnownHit(keyPanic, "C01.outcome-not-counted-once", step, "Entry #%d was passed by an internal panic and no statistic slot was told about it", serial)
				m.uncounted = true
			} else if cnt != 1 {
				o.Fail("C01.outcome-not-counted-once", step, "Entry #%d outcome %s was reported to statistic slots %d times", serial, want, cnt)
				return
			}
			if m.uncounted {
				// tolerated: nothing tallied
			} else if m.passed {
				w.tally(op.R, m.inbound, now, model.KPass, int64(m.batch))
				w.live[op.R]++
				if m.inbound {
					w.live[w.cfg.NRes]++
				}
			} else {
				w.tally(op.R, m.inbound, now, model.KBlock, int64(m.batch))
				m.exited = true
			}
		case "trace":
			if op.E < 0 || op.E >= len(w.ents) || w.ents[op.E] == nil {
				continue
			}
			m := w.ents[op.E]
			w.errSeq++
			err := errOf(m.serial, w.errSeq)
			harness.Call(o, "C01.panic", step, func() { sentinel.TraceError(m.e, err) })
			if m.passed && !m.exited {
				m.lastErr = err.Error()
			} else {
				o.Probe("late_trace_error")
			}
			if len(w.rec.log) != logBefore {
				o.Fail("C01.trace-produced-callback", step, "TraceError on entry #%d produced statistic callbacks %+v", m.serial, w.rec.log[logBefore:])
				return
			}
		case "exit":
			if op.E < 0 || op.E >= len(w.ents) || w.ents[op.E] == nil {
				continue
			}
			m := w.ents[op.E]
			if m.e == nil {
				continue // blocked: the caller holds no entry
			}
			var err error
			if op.F {
				w.errSeq++
				err = errOf(m.serial, w.errSeq)
			}
			first := m.passed && !m.exited
			if first && err != nil {
				m.lastErr = err.Error()
			}
			if first && op.M == 1 {
				w.errSeq++
				hx := errOf(m.serial, w.errSeq)
				m.e.WhenExit(func(e *base.SentinelEntry, _ *base.EntryContext) error {
					sentinel.TraceError(e, hx)
					return nil
				})
				m.lastErr = hx.Error() // (runs after the error given to Exit was recorded)
				o.Probe("exit_handler_traces_an_error")
			}
			harness.Call(o, "C01.panic", step, func() {
				if err != nil {
					m.e.Exit(base.WithError(err))
				} else {
					m.e.Exit()
				}
			})
			if o.Failed() {
				return
			}
			newCbs := w.rec.log[logBefore:]
			if first && m.uncounted {
				m.exited = true
				if len(newCbs) != 0 {
					o.Fail("C01.completion-of-uncounted-entry", step, "entry #%d was never reported as passed, yet its Exit produced callbacks %+v", m.serial, newCbs)
					return
				}
			} else if first {
				m.exited = true
				internalPanic := m.panicky || m.script == sPanicPrepare || m.script == sPanicCheck
				if len(newCbs) != 1 || newCbs[0].kind != "completed" || newCbs[0].serial != m.serial {
					o.Fail("C01.completion-not-once", step, "first Exit of passed entry #%d produced callbacks %+v (expected exactly one completion)", m.serial, newCbs)
					return
				}
				cb := newCbs[0]
				rt := now - m.start
				if now < m.start {
					rt = 0 // the clock was set back meanwhile: a duration is not negative
				}
				if cb.res != harness.ResName(m.res) || cb.batch != m.batch || cb.rt != rt || (cb.err != m.lastErr && !internalPanic) {
					o.Fail("C01.completion-attribution", step, "completion of entry #%d reported res=%s batch=%d rt=%d err=%q; expected res-%d batch=%d rt=%d err=%q", m.serial, cb.res, cb.batch, cb.rt, cb.err, m.res, m.batch, rt, m.lastErr)
					return
				}
				w.tally(m.res, m.inbound, now, model.KComplete, int64(m.batch))
				w.tally(m.res, m.inbound, now, model.KRt, int64(rt))
				if cb.err != "" {
					w.tally(m.res, m.inbound, now, model.KError, int64(m.batch))
				}
				w.live[m.res]--
				if m.inbound {
					w.live[w.cfg.NRes]--
				}
			} else {
				o.Probe("repeated_or_late_exit")
				if len(newCbs) != 0 {
					o.Fail("C01.late-exit-produced-callback", step, "repeated Exit of entry #%d produced callbacks %+v", m.serial, newCbs)
					return
				}
			}
		}
		if o.Failed() {
			return
		}
		w.checkLive(step)
		if o.Failed() {
			return
		}
		w.checkFigures(step, clk.NowMs())
		if o.Failed() {
			return
		}
	}
}

func execConc(c *harness.Case, w *world, env *harness.Env) {
	o := w.o
	k := len(c.Callers)
	per := make([][]*ment, k)
	type tl struct {
		res     int
		inbound bool
		kind    int
		amt     int64
		m       *ment
	}
	tallies := make([][]tl, k)
	now := env.Clock.NowMs()
	serialBase := 0
	bases := make([]int, k)
	for i := range c.Callers {
		bases[i] = serialBase
		serialBase += len(c.Callers[i]) + 1
	}
	fails := make([]string, k)
	harness.RunE2(c, o, "C01", env.Clock, k, func(task int) {
		var ents []*ment
		errSeq := 0
		for step, op := range c.Callers[task] {
			switch op.K {
			case "entry":
				if op.R < 0 || op.R >= w.cfg.NRes {
					ents = append(ents, nil)
					continue
				}
				m := w.doEntry(op, bases[task]+len(ents), step, now)
				ents = append(ents, m)
				per[task] = ents
				m.passed = m.e != nil
				if (m.e == nil) == (m.be == nil) {
					fails[task] = fmt.Sprintf("Entry returned entry=%v blockErr=%v", m.e != nil, m.be != nil)
					return
				}
				if m.passed {
					tallies[task] = append(tallies[task], tl{op.R, m.inbound, model.KPass, int64(m.batch), m})
				} else {
					tallies[task] = append(tallies[task], tl{op.R, m.inbound, model.KBlock, int64(m.batch), m})
					m.exited = true
				}
			case "trace":
				if op.E >= 0 && op.E < len(ents) && ents[op.E] != nil {
					m := ents[op.E]
					errSeq++
					err := errOf(m.serial, errSeq)
					m.noteErr(err.Error())
					live := m.passed && !m.exited
					sentinel.TraceError(m.e, err)
					if live && (!m.exited || m.shared) {
						// (exited in the meantime by another caller: which of the two took effect first is open, see shared)
						m.lastErr = err.Error()
					}
				}
			case "xexit":
				victim := (task + 1 + op.R%k) % k
				if victim == task || op.E < 0 || op.E >= len(per[victim]) || per[victim][op.E] == nil || per[victim][op.E].e == nil {
					continue
				}
				m := per[victim][op.E]
				m.shared = true
				first := m.passed && !m.exited
				if first {
					m.exited = true
					o.Probe("entry_exited_by_other_goroutine")
				} else {
					o.Probe("repeated_exit_from_other_goroutine")
				}
				m.e.Exit()
				if first {
					tallies[task] = append(tallies[task], tl{m.res, m.inbound, model.KComplete, int64(m.batch), m})
				}
			case "exit":
				if op.E >= 0 && op.E < len(ents) && ents[op.E] != nil && ents[op.E].e != nil {
					m := ents[op.E]
					var err error
					if op.F {
						errSeq++
						err = errOf(m.serial, errSeq)
					}
					first := m.passed && !m.exited
					if first && err != nil {
						m.lastErr = err.Error()
					}
					if err != nil {
						m.noteErr(err.Error())
					}
					if first {
						m.exited = true // before the call: another caller may try to exit it while this Exit is in progress
					}
					if err != nil {
						m.e.Exit(base.WithError(err))
					} else {
						m.e.Exit()
					}
					if first {
						tallies[task] = append(tallies[task], tl{m.res, m.inbound, model.KComplete, int64(m.batch), m})
						if m.lastErr != "" {
							tallies[task] = append(tallies[task], tl{m.res, m.inbound, model.KError, int64(m.batch), m})
						}
					}
				}
			}
			// own live entries keep their own error and arguments
			for _, m := range ents {
				if m == nil || !m.passed || m.exited || m.e == nil || m.panicky || m.script == sPanicCheck || m.script == sPanicPrepare {
					continue
				}
				ctx := m.e.Context()
				got := ""
				if ctx.Err() != nil {
					got = ctx.Err().Error()
				}
				if got != m.lastErr {
					fails[task] = fmt.Sprintf("foreign-error: live entry #%d carries error %q, its caller last set %q", m.serial, got, m.lastErr)
					return
				}
				if (len(m.args) > 0 || len(ctx.Input.Args) > 0) && !reflect.DeepEqual(append([]interface{}{}, ctx.Input.Args...), append([]interface{}{}, m.args...)) {
					fails[task] = fmt.Sprintf("args-changed: live entry #%d has Input.Args %v, its caller passed %v", m.serial, ctx.Input.Args, m.args)
					return
				}
			}
		}
		per[task] = ents // what the caller did not exit stays live past the concurrent phase
	}, nil)
	if o.Failed() {
		return
	}
	// quiescent point with live entries (no call in progress): the in-flight gauges are exact
	{
		liveRes := make([]int, w.cfg.NRes)
		liveIn, amb := 0, false
		ambRes := make([]bool, w.cfg.NRes)
		for t := range per {
			for _, m := range per[t] {
				if m == nil || !m.passed || m.exited {
					continue
				}
				if m.panicky || m.script == sPanicCheck || m.script == sPanicPrepare {
					ambRes[m.res] = true
					if m.inbound {
						amb = true
					}
					continue
				}
				liveRes[m.res]++
				if m.inbound {
					liveIn++
				}
			}
		}
		for r := 0; r < w.cfg.NRes; r++ {
			if ambRes[r] {
				continue
			}
			got := int32(0)
			if n := stat.GetResourceNode(harness.ResName(r)); n != nil {
				got = n.CurrentConcurrency()
			}
			if int(got) != liveRes[r] {
				o.Fail("C01.concurrency", 0, "after the concurrent phase (no call in progress) res-%d reports concurrency %d, %d passed entries are in flight", r, got, liveRes[r])
				return
			}
			if liveRes[r] > 0 {
				o.Probe("quiescent_gauge_with_live_entries")
			}
		}
		if !amb {
			if got := stat.InboundNode().CurrentConcurrency(); int(got) != liveIn {
				o.Fail("C01.concurrency", 0, "after the concurrent phase (no call in progress) inbound reports concurrency %d, %d passed inbound entries are in flight", got, liveIn)
				return
			}
		}
	}
	// epilogue on one goroutine: exit whatever is still open
	for t := range per {
		for _, m := range per[t] {
			if m != nil && m.passed && !m.exited {
				if !harness.Call(o, "C01.panic", 0, func() { m.e.Exit() }) {
					return
				}
				m.exited = true
				tallies[t] = append(tallies[t], tl{m.res, m.inbound, model.KComplete, int64(m.batch), m})
				if m.lastErr != "" {
					tallies[t] = append(tallies[t], tl{m.res, m.inbound, model.KError, int64(m.batch), m})
				}
			}
		}
	}
	for t, f := range fails {
		if f != "" {
			o.Fail("C01.concurrent-attribution", 0, "caller %d: %s", t, f)
			return
		}
	}
	// per-entry callbacks: exactly one outcome, exactly one completion with its own error
	seenOutcome, seenDone := map[int]int{}, map[int]string{}
	doneCnt := map[int]int{}
	for _, cb := range w.rec.log {
		if cb.kind == "completed" {
			doneCnt[cb.serial]++
			seenDone[cb.serial] = cb.err
		} else {
			seenOutcome[cb.serial]++
		}
	}
	for t := range per {
		for _, m := range per[t] {
			if m == nil {
				continue
			}
			pan := m.panicky || m.script == sPanicCheck || m.script == sPanicPrepare
			if pan && m.passed && seenOutcome[m.serial] == 0 && doneCnt[m.serial] == 0 {
				o.KnownHit(keyPanic, "C01.outcome-not-counted-once", 0, "entry #%d was passed by an internal panic and no statistic slot was told about it", m.serial)
				m.uncounted = true
				continue
			}
			if seenOutcome[m.serial] != 1 {
				o.Fail("C01.outcome-not-counted-once", 0, "entry #%d outcome reported %d times", m.serial, seenOutcome[m.serial])
				return
			}
			wantDone := 0
			if m.passed {
				wantDone = 1
			}
			if doneCnt[m.serial] != wantDone {
				o.Fail("C01.completion-not-once", 0, "entry #%d (passed=%v) completion reported %d times", m.serial, m.passed, doneCnt[m.serial])
				return
			}
			if m.passed && !pan && m.shared {
				// exited by two callers at once: the completion carries no error or one that was handed to this entry
				if e := seenDone[m.serial]; e != "" && !m.errs[e] {
					o.Fail("C01.completion-attribution", 0, "entry #%d completed with error %q, which no caller ever handed to it", m.serial, e)
					return
				}
				continue
			}
			if m.passed && !pan && seenDone[m.serial] != m.lastErr {
				o.Fail("C01.completion-attribution", 0, "entry #%d completed with error %q, its caller last set %q", m.serial, seenDone[m.serial], m.lastErr)
				return
			}
		}
	}
	// figures at quiescence (rt: all zero with a frozen clock)
	for t := range tallies {
		for _, x := range tallies[t] {
			if x.m != nil && x.m.uncounted {
				continue
			}
			if x.kind == model.KError && x.m != nil && (x.m.panicky || x.m.script == sPanicCheck || x.m.script == sPanicPrepare) {
				continue
			}
			if x.kind == model.KError && x.m != nil && x.m.shared {
				continue
			}
			w.tally(x.res, x.inbound, now, x.kind, x.amt)
		}
	}
	for t := range per {
		for _, m := range per[t] {
			if m != nil && m.passed && m.shared && !m.uncounted && !(m.panicky || m.script == sPanicCheck || m.script == sPanicPrepare) && len(m.errs) > 0 {
				w.errSlack[m.res] += int64(m.batch)
				if m.inbound {
					w.errSlack[w.cfg.NRes] += int64(m.batch)
				}
			}
		}
	}
	// a counted panic-passed entry completes with the internal error
	for t := range per {
		for _, m := range per[t] {
			if m != nil && m.passed && !m.uncounted && (m.panicky || m.script == sPanicCheck || m.script == sPanicPrepare) {
				w.tally(m.res, m.inbound, now, model.KError, int64(m.batch))
			}
		}
	}
	for i := range w.live {
		w.live[i] = 0
	}
	w.checkFigures(0, now)
}
