// Package c08: sliding-window statistics equal the aligned-bucket reference
// for any history (engine E1: one simulated caller, virtual time).
package c08

import (
	"encoding/json"
	"math"

	"github.com/alibaba/sentinel-golang/core/base"
	"github.com/alibaba/sentinel-golang/core/stat"
	sbase "github.com/alibaba/sentinel-golang/core/stat/base"

	"verif/harness"
	"verif/model"
	"verif/sim"
)

type View struct {
	N uint32 `json:"n"`
	I uint32 `json:"i"`
}

type Cfg struct {
	N      uint32 `json:"n"` // array sample count
	I      uint32 `json:"i"` // array interval ms
	Views  []View `json:"views"`
	Origin uint64 `json:"origin_ms"`
	NodeV  View   `json:"node_view"` // metric view of the BaseStatNode (valid by construction)
}

type P struct{}

func init() { harness.Register(P{}) }

func (P) ID() string     { return "C08" }
func (P) Engine() string { return "E1" }

func (P) Describe() harness.Description {
	return harness.Description{
		MustHit: []string{"average_read_while_the_clock_moves", "bucket_recycled", "read_exactly_on_bucket_boundary", "idle_gap_longer_than_array", "previous_qps_checked", "per_second_items_nonempty"},
		Level:   "exploration",
		Rule: "case = (array geometry, 1-5 candidate views valid and invalid, virtual origin incl. near zero, 20-200 ops add/rt/conc/tick/read with ticks biased to bucket, cycle and second boundaries and idle gaps > array); " +
			"every read compares every getter of BucketLeapArray, SlidingWindowMetric views and a BaseStatNode with the event-log aggregate; non-trivial = at least one read saw a non-empty window after a bucket was recycled or read exactly on a bucket boundary; distinct = hash(config, ops)",
		Assumptions: []string{
			"an event belongs to the bucket of the clock value the recorder read; timestamps are >= 1 ms",
			"min RT is compared only below the documented statistic ceiling (60000 ms); with no RT in the window the value is unspecified",
			"node-level AvgRT may be the integer-truncated quotient (band floor(x)..x); view-level AvgRT is checked only when completes > 0",
			"previous-window QPS is claimed only for views with I_v + L_v <= I (and t >= L_v: before that the reference instant t - L_v does not exist)",
			"per-second items: all-zero items inside the window are tolerated; AvgRt of an item is checked only when completes > 0 (floor)",
		},
		Real: []string{"core/stat/base.LeapArray", "BucketLeapArray", "MetricBucket", "SlidingWindowMetric", "core/stat.BaseStatNode", "base.CheckValidityForReuseStatistic"},
		Stub: []string{"util.Clock (virtual clock)"},
	}
}

var lengths = []uint32{1, 2, 5, 10, 50, 100, 200, 250, 500, 1000, 2000}
var counts = []uint32{1, 2, 3, 4, 5, 8, 10, 20}

func (P) Gen(rng *sim.Rng, tier string) *harness.Case {
	n := counts[rng.Intn(len(counts))]
	L := lengths[rng.Intn(len(lengths))]
	cfg := Cfg{N: n, I: n * L}
	// candidate views: mostly valid, some invalid in each way
	nv := rng.Range(1, 5)
	for k := 0; k < nv; k++ {
		var v View
		switch rng.Intn(6) {
		case 0: // arbitrary
			v = View{uint32(rng.Range(0, 6)), uint32(rng.Range(0, int(cfg.I)*2))}
		case 1: // interval not dividing the array interval, bucket ok
			m := uint32(rng.Range(1, int(n)+2))
			v = View{m, m * L}
		default: // valid: bucket = k*L, interval divides I
			divs := []uint32{}
			for d := uint32(1); d <= n; d++ {
				if n%d == 0 {
					divs = append(divs, d)
				}
			}
			nb := divs[rng.Intn(len(divs))] // view spans nb array buckets
			sub := []uint32{}
			for d := uint32(1); d <= nb; d++ {
				if nb%d == 0 {
					sub = append(sub, d)
				}
			}
			sc := sub[rng.Intn(len(sub))]
			v = View{sc, nb * L}
		}
		cfg.Views = append(cfg.Views, v)
	}
	// node view: valid
	cfg.NodeV = View{1, cfg.I}
	for _, v := range cfg.Views {
		if viewTiles(v, cfg.N, cfg.I) && cfg.I%v.I == 0 {
			cfg.NodeV = v
			break
		}
	}
	I := uint64(cfg.I)
	switch rng.Intn(4) {
	case 0:
		cfg.Origin = rng.U64Range(0, 2*I+1)
	case 1:
		cfg.Origin = 1700000000000 + rng.U64Range(0, 86400000)
	case 2: // on a cycle boundary
		cfg.Origin = (1700000000000/I)*I + rng.U64Range(0, 2)
	default:
		cfg.Origin = (1700000000000/1000)*1000 + uint64(L)*rng.U64Range(0, uint64(n)) - rng.U64Range(0, 1)
	}
	nops := rng.Range(20, 120)
	if tier == "thorough" {
		nops = rng.Range(20, 200)
	}
	var ops []harness.Op
	now := cfg.Origin
	for len(ops) < nops {
		switch rng.Weighted([]int{30, 8, 8, 30, 24}) {
		case 0:
			amt := uint64(rng.Range(0, 5))
			if rng.Chance(0.1) {
				amt = rng.U64Range(0, 1<<33)
			}
			ops = append(ops, harness.Op{K: "add", E: rng.Intn(4), N: amt})
		case 1:
			rt := uint64(rng.Range(0, 300))
			if rng.Chance(0.1) {
				rt = rng.U64Range(0, 59999)
			}
			ops = append(ops, harness.Op{K: "rt", N: rt})
		case 2:
			ops = append(ops, harness.Op{K: "conc", N: uint64(rng.Range(0, 50))})
		case 3:
			d := genTick(rng, now, uint64(L), I)
			now += d
			ops = append(ops, harness.Op{K: "tick", N: d})
		default:
			if rng.Chance(0.12) {
				// clock fault: time moves on while an average is being read (between the two sums it divides)
				d := genTick(rng, now, uint64(L), I)
				if d > 0 {
					now += d
					ops = append(ops, harness.Op{K: "avgtick", N: d})
					break
				}
			}
			ops = append(ops, harness.Op{K: "read", F: rng.Chance(0.5)})
		}
	}
	ops = append(ops, harness.Op{K: "read"})
	return &harness.Case{Cfg: harness.MustJSON(cfg), Callers: [][]harness.Op{ops}}
}

// checkAvgAcrossTick reads every average while the clock moves on by d ms at the second clock reading of the
// call. "The window ending at the current bucket" is then the one of the instant before or of the instant after:
// the result must be the average of one of the two, not a quotient of sums taken from different windows.
func checkAvgAcrossTick(o *harness.Outcome, step int, cfg *Cfg, s *subject, ref *model.WindowLog, clk *sim.Clock, now, d uint64) {
	avgAt := func(t uint64, iv uint32) (float64, bool) {
		lo, hi := ref.Range(t, uint64(iv))
		comp := ref.Sum(model.KComplete, lo, hi)
		if comp <= 0 {
			return 0, false
		}
		return float64(ref.Sum(model.KRt, lo, hi)) / float64(comp), true
	}
	one := func(name string, iv uint32, isNode bool, read func() float64) {
		clk.SetNs(now * 1e6)
		reads, moved := 0, false
		clk.OnRead = func() {
			reads++
			if reads == 2 && !moved {
				moved = true
				clk.AdvanceMs(d)
			}
		}
		got := read()
		clk.OnRead = nil
		o.Probe("average_read_while_the_clock_moves")
		if moved {
			o.Probe("clock_read_twice_by_one_statistic_read")
		}
		x0, ok0 := avgAt(now, iv)
		x1, ok1 := avgAt(now+d, iv)
		match := func(x float64, ok bool) bool {
			if ok {
				return feq(got, x)
			}
			// no completion in that window: the node reports 0, a bare view divides by zero
			return (isNode && got == 0) || (!isNode && (math.IsNaN(got) || math.IsInf(got, 0)))
		}
		if !match(x0, ok0) && !match(x1, ok1) {
			o.Fail("C08.avgrt-mixes-two-windows", step, "%s(i=%d).AvgRT() while the clock moved from t=%d to t=%d during the call returned %v; the window at t=%d gives %v (has completions: %v), the one at t=%d gives %v (%v): the result is the average of neither", name, iv, now, now+d, got, now, x0, ok0, now+d, x1, ok1)
		}
	}
	for i, m := range s.views {
		m := m
		one("view", s.vcfg[i].I, false, m.AvgRT)
		if o.Failed() {
			return
		}
	}
	one("node", cfg.NodeV.I, true, s.node.AvgRT)
	clk.SetNs((now + d) * 1e6)
}

// genTick draws a time step biased to boundaries.
func genTick(rng *sim.Rng, now, L, I uint64) uint64 {
	toB := L - now%L // to next bucket boundary
	toC := I - now%I // to next cycle boundary
	toS := 1000 - now%1000
	switch rng.Intn(14) {
	case 0:
		return 0
	case 1:
		return 1
	case 2:
		return toB
	case 3:
		if toB > 1 {
			return toB - 1
		}
		return toB
	case 4:
		return toB + 1
	case 5:
		return toC
	case 6:
		if toC > 1 {
			return toC - 1
		}
		return toC
	case 7:
		return L
	case 8:
		return I
	case 9:
		return I + rng.U64Range(0, L)
	case 10:
		return I*uint64(rng.Range(1, 3)) + rng.U64Range(0, I)
	case 11:
		return toS
	case 12:
		return rng.U64Range(0, L)
	default:
		return rng.U64Range(0, 2*I)
	}
}

// viewTiles: the view's buckets are whole multiples of the array's buckets,
// its interval is a whole number of its buckets and fits in the array.
func viewTiles(v View, n, I uint32) bool {
	if v.N == 0 || v.I == 0 || v.I%v.N != 0 || n == 0 || I%n != 0 {
		return false
	}
	L := I / n
	return (v.I/v.N)%L == 0 && v.I <= I
}

var evOf = []base.MetricEvent{base.MetricEventPass, base.MetricEventBlock, base.MetricEventComplete, base.MetricEventError, base.MetricEventRt}

type subject struct {
	la    *sbase.BucketLeapArray
	views []*sbase.SlidingWindowMetric
	vcfg  []View
	node  *stat.BaseStatNode
}

func (P) Exec(c *harness.Case) *harness.Outcome {
	o := harness.NewOutcome()
	var cfg Cfg
	if err := json.Unmarshal(c.Cfg, &cfg); err != nil {
		o.Infra = err.Error()
		return o
	}
	if cfg.N == 0 || cfg.I == 0 || cfg.I%cfg.N != 0 {
		return o
	}
	env := harness.Reset(cfg.Origin*1e6, harness.Geometry{GlobalSamples: cfg.N, GlobalInterval: cfg.I, MetricSamples: cfg.NodeV.N, MetricInterval: cfg.NodeV.I})
	clk := env.Clock
	L := uint64(cfg.I / cfg.N)
	ref := &model.WindowLog{L: L, I: uint64(cfg.I)}
	var s subject
	ok := harness.Call(o, "C08.panic", 0, func() {
		s.la = sbase.NewBucketLeapArray(cfg.N, cfg.I)
		for _, v := range cfg.Views {
			m, err := sbase.NewSlidingWindowMetric(v.N, v.I, s.la)
			tiles := viewTiles(v, cfg.N, cfg.I)
			if err == nil && m != nil && !tiles {
				o.Fail("C08.view-constructible-but-not-tiling", 0, "view (n=%d,i=%d) over array (n=%d,i=%d) was constructed", v.N, v.I, cfg.N, cfg.I)
			}
			if (err != nil || m == nil) && tiles && cfg.I%v.I == 0 {
				o.Fail("C08.valid-view-refused", 0, "view (n=%d,i=%d) over array (n=%d,i=%d) refused: %v", v.N, v.I, cfg.N, cfg.I, err)
			}
			if err == nil && m != nil && tiles {
				s.views = append(s.views, m)
				s.vcfg = append(s.vcfg, v)
			}
		}
		s.node = stat.NewBaseStatNode(cfg.NodeV.N, cfg.NodeV.I)
	})
	if !ok || o.Failed() {
		return o
	}
	recycled := false
	lastWriteBucket := map[uint64]uint64{} // slot -> bucket start last written
	for step, op := range c.Callers[0] {
		now := clk.NowMs()
		switch op.K {
		case "tick":
			clk.AdvanceMs(op.N)
			o.SimMs += op.N
			if (now+op.N)%L == 0 {
				o.Probe("tick_lands_on_bucket_boundary")
			}
			if op.N > uint64(cfg.I) {
				o.Probe("idle_gap_longer_than_array")
			}
		case "add", "rt", "conc":
			slot := (now / L) % uint64(cfg.N)
			b := now - now%L
			if prev, ok := lastWriteBucket[slot]; ok && prev != b {
				recycled = true
				o.Probe("bucket_recycled")
			}
			lastWriteBucket[slot] = b
			harness.Call(o, "C08.panic", step, func() {
				switch op.K {
				case "add":
					if op.E < 0 || op.E > 3 {
						return
					}
					s.la.AddCount(evOf[op.E], int64(op.N))
					s.node.AddCount(evOf[op.E], int64(op.N))
					ref.Add(now, op.E, int64(op.N))
				case "rt":
					s.la.AddCount(base.MetricEventRt, int64(op.N))
					s.node.AddCount(base.MetricEventRt, int64(op.N))
					ref.Add(now, model.KRt, int64(op.N))
				case "conc":
					s.la.UpdateConcurrency(int32(op.N))
					s.node.UpdateConcurrency(int32(op.N))
					ref.Add(now, model.KConc, int64(op.N))
				}
			})
		case "avgtick":
			if op.N == 0 {
				continue
			}
			harness.Call(o, "C08.panic", step, func() { checkAvgAcrossTick(o, step, &cfg, &s, ref, clk, now, op.N) })
			o.SimMs += op.N
			o.Fault("clock_moved_on_during_a_read")
		case "read":
			if now%L == 0 {
				o.Probe("read_exactly_on_bucket_boundary")
				if len(ref.Evs) > 0 {
					o.Nontrivial = true
				}
			}
			if recycled && len(ref.Evs) > 0 {
				o.Nontrivial = true
			}
			harness.Call(o, "C08.panic", step, func() { checkRead(o, step, &cfg, &s, ref, now, op.F) })
			ref.Prune(now, 3*uint64(cfg.I)+2000)
		}
		if o.Failed() {
			return o
		}
	}
	return o
}

func feq(a, b float64) bool {
	if a == b {
		return true
	}
	return math.Abs(a-b) <= 1e-9*math.Max(1, math.Max(math.Abs(a), math.Abs(b)))
}

func checkRead(o *harness.Outcome, step int, cfg *Cfg, s *subject, ref *model.WindowLog, now uint64, refreshFirst bool) {
	L := ref.L
	I := ref.I
	arrayReads := func() {
		lo, hi := ref.Range(now, I)
		for k, ev := range evOf {
			got := s.la.Count(ev)
			want := ref.Sum(k, lo, hi)
			if got != want {
				o.Fail("C08.array-count", step, "t=%d BucketLeapArray.Count(event %d)=%d, reference window [%d,%d] holds %d", now, k, got, lo, hi, want)
			}
		}
		if m, ok := ref.MinRt(lo, hi); ok && m < base.DefaultStatisticMaxRt {
			if got := s.la.MinRt(); got != m {
				o.Fail("C08.array-minrt", step, "t=%d BucketLeapArray.MinRt()=%d, reference %d", now, got, m)
			}
		}
		if got, want := int64(s.la.MaxConcurrency()), ref.MaxConc(lo, hi); got != want {
			o.Fail("C08.array-maxconc", step, "t=%d BucketLeapArray.MaxConcurrency()=%d, reference %d", now, got, want)
		}
		// Values: every returned bucket lies in the aligned window and holds exactly its events
		for _, bw := range s.la.Values(now) {
			bs := bw.BucketStart
			if bs < lo || bs > hi {
				o.Fail("C08.array-values-outside-window", step, "t=%d Values() returned bucket start %d outside [%d,%d]", now, bs, lo, hi)
				continue
			}
			mb, _ := bw.Value.Load().(*sbase.MetricBucket)
			if mb == nil {
				continue
			}
			for k, ev := range evOf {
				if got, want := mb.Get(ev), ref.Sum(k, bs, bs); got != want {
					o.Fail("C08.array-bucket-content", step, "t=%d bucket %d event %d holds %d, reference %d", now, bs, k, got, want)
				}
			}
		}
	}
	if refreshFirst {
		arrayReads()
	}
	type rd interface {
		GetSum(base.MetricEvent) int64
		GetQPS(base.MetricEvent) float64
		GetPreviousQPS(base.MetricEvent) float64
		MinRT() float64
		AvgRT() float64
	}
	checkView := func(name string, m rd, v View, isNode bool) {
		Iv := uint64(v.I)
		Lv := uint64(v.I / v.N)
		lo, hi := ref.Range(now, Iv)
		for k, ev := range evOf {
			want := ref.Sum(k, lo, hi)
			if got := m.GetSum(ev); got != want {
				o.Fail("C08.view-sum", step, "t=%d %s(n=%d,i=%d).GetSum(event %d)=%d, reference window [%d,%d] holds %d", now, name, v.N, v.I, k, got, lo, hi, want)
			}
			if got, w := m.GetQPS(ev), float64(want)*1000/float64(Iv); !feq(got, w) {
				o.Fail("C08.view-qps", step, "t=%d %s(n=%d,i=%d).GetQPS(event %d)=%v, reference %v", now, name, v.N, v.I, k, got, w)
			}
			if Iv+Lv <= I && now >= Lv {
				plo, phi := ref.Range(now-Lv, Iv)
				w := float64(ref.Sum(k, plo, phi)) * 1000 / float64(Iv)
				if got := m.GetPreviousQPS(ev); !feq(got, w) {
					o.Fail("C08.view-prevqps", step, "t=%d %s(n=%d,i=%d).GetPreviousQPS(event %d)=%v, reference window [%d,%d] gives %v", now, name, v.N, v.I, k, got, plo, phi, w)
				}
				o.Probe("previous_qps_checked")
			}
		}
		if mn, ok := ref.MinRt(lo, hi); ok && mn < base.DefaultStatisticMaxRt {
			want := float64(mn)
			got := m.MinRT()
			if !(got == want || (mn == 0 && got == 1)) {
				o.Fail("C08.view-minrt", step, "t=%d %s(n=%d,i=%d).MinRT()=%v, reference %v", now, name, v.N, v.I, got, want)
			}
		}
		comp := ref.Sum(model.KComplete, lo, hi)
		if comp > 0 {
			x := float64(ref.Sum(model.KRt, lo, hi)) / float64(comp)
			got := m.AvgRT()
			if isNode {
				if !feq(got, x) {
					o.Fail("C08.node-avgrt", step, "t=%d node.AvgRT()=%v, reference %v", now, got, x)
				}
			} else if !feq(got, x) {
				o.Fail("C08.view-avgrt", step, "t=%d %s(n=%d,i=%d).AvgRT()=%v, reference %v", now, name, v.N, v.I, got, x)
			}
		}
	}
	for i, m := range s.views {
		v := s.vcfg[i]
		checkView("view", m, v, false)
		lo, hi := ref.Range(now, uint64(v.I))
		if got, want := int64(m.MaxConcurrency()), ref.MaxConc(lo, hi); got != want {
			o.Fail("C08.view-maxconc", step, "t=%d view(n=%d,i=%d).MaxConcurrency()=%d, reference %d", now, v.N, v.I, got, want)
		}
		for k, ev := range evOf[:4] {
			if got, want := m.GetMaxOfSingleBucket(ev), ref.MaxBucket(k, lo, hi); got != want {
				o.Fail("C08.view-maxbucket", step, "t=%d view(n=%d,i=%d).GetMaxOfSingleBucket(event %d)=%d, reference %d", now, v.N, v.I, k, got, want)
			}
		}
		// per-second items over the whole array window, two predicates
		alo, ahi := ref.Range(now, I)
		preds := []func(uint64) bool{
			func(uint64) bool { return true },
			func(b uint64) bool { return b >= alo+L && b+L <= ahi+L/2+1 },
		}
		for pi, pred := range preds {
			items := m.SecondMetricsOnCondition(pred)
			want := ref.Seconds(alo, ahi, pred)
			checkItems(o, step, now, pi, items, want, alo, ahi)
		}
	}
	checkView("node", s.node, cfg.NodeV, true)
	{
		lo, hi := ref.Range(now, uint64(cfg.NodeV.I))
		if got, want := int64(s.node.MaxConcurrency()), ref.MaxConc(lo, hi); got != want {
			o.Fail("C08.node-maxconc", step, "t=%d node.MaxConcurrency()=%d, reference %d", now, got, want)
		}
		for k, ev := range evOf[:4] {
			// the busiest bucket's rate per second: its count over the length of the bucket it was counted in - the
			// array's (the node's view only selects which buckets are looked at)
			want := float64(ref.MaxBucket(k, lo, hi)) / float64(L) * 1000
			if got := s.node.GetMaxAvg(ev); !feq(got, want) {
				o.Fail("C08.node-maxavg", step, "t=%d node.GetMaxAvg(event %d)=%v, reference %v", now, k, got, want)
			}
		}
		alo, ahi := ref.Range(now, I)
		items := s.node.MetricsOnCondition(func(uint64) bool { return true })
		checkItems(o, step, now, 2, items, ref.Seconds(alo, ahi, func(uint64) bool { return true }), alo, ahi)
	}
	if !refreshFirst {
		arrayReads()
	}
}

func checkItems(o *harness.Outcome, step int, now uint64, pi int, items []*base.MetricItem, want map[uint64]*model.SecItem, alo, ahi uint64) {
	seen := map[uint64]bool{}
	for _, it := range items {
		if it == nil {
			continue
		}
		if seen[it.Timestamp] {
			o.Fail("C08.items-duplicate-second", step, "t=%d per-second items contain second %d twice", now, it.Timestamp)
		}
		seen[it.Timestamp] = true
		w := want[it.Timestamp]
		if w == nil {
			w = &model.SecItem{}
		}
		if int64(it.PassQps) != w.Pass || int64(it.BlockQps) != w.Block || int64(it.CompleteQps) != w.Complete || int64(it.ErrorQps) != w.Error || int64(it.Concurrency) != w.Conc {
			o.Fail("C08.items-mismatch", step, "t=%d pred %d second %d: item pass=%d block=%d complete=%d error=%d conc=%d, reference window [%d,%d] gives %+v",
				now, pi, it.Timestamp, it.PassQps, it.BlockQps, it.CompleteQps, it.ErrorQps, it.Concurrency, alo, ahi, *w)
		}
		if w.Complete > 0 {
			if int64(it.AvgRt) != w.Rt/w.Complete {
				o.Fail("C08.items-avgrt", step, "t=%d second %d: AvgRt=%d, reference %d/%d", now, it.Timestamp, it.AvgRt, w.Rt, w.Complete)
			}
		}
	}
	for sec, w := range want {
		if !seen[sec] && !w.Zero() {
			o.Fail("C08.items-missing", step, "t=%d pred %d: no item for second %d, reference has %+v", now, pi, sec, *w)
		}
	}
	if len(want) > 0 {
		o.Probe("per_second_items_nonempty")
	}
}
