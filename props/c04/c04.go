// Package c04: isolation rules cap in-flight entries at the threshold
// (E1 exact model; E2 bound N+(k-1)).
package c04

import (
	"encoding/json"
	"fmt"

	sentinel "github.com/alibaba/sentinel-golang/api"
	"github.com/alibaba/sentinel-golang/core/base"
	"github.com/alibaba/sentinel-golang/core/isolation"
	"github.com/alibaba/sentinel-golang/core/stat"

	"verif/harness"
	"verif/sim"
)

type IsoRule struct {
	ID  string `json:"id"`
	Res int    `json:"res"`
	N   uint32 `json:"n"`
}

type Cfg struct {
	Origin uint64    `json:"origin_ms"`
	NRes   int       `json:"nres"`
	Rules  []IsoRule `json:"rules"`
	Conc   bool      `json:"concurrent,omitempty"`
}

type P struct{}

func init() { harness.Register(P{}) }

func (P) ID() string     { return "C04" }
func (P) Engine() string { return "E1+E2" }

func (P) Describe() harness.Description {
	return harness.Description{
		MustHit: []string{"capacity_reused_after_exit", "concurrent_rejections"},
		Level:   "exploration",
		Rule: "case = (1-3 resources (every second one entered as inbound traffic), 1-3 isolation rules per resource, 10-60 operations: requests with batches over the full uint32 range (>=1) held open, exits in any order, ticks). " +
			"E1: admit iff for every rule live(res)+b <= N in unbounded integers, TriggeredRule/TriggeredValue as the reference, node concurrency == live after every op. " +
			"E2 (30%): k=2-4 callers, in-flight entries (counted between return of Entry and invocation of Exit) never exceed N+(k-1); at quiescence concurrency is 0. " +
			"non-trivial = capacity was exhausted, then freed by an Exit and reused; distinct = hash(config, ops[, schedule])",
		Assumptions: []string{"batch >= 1 (with batch 0 the stated equivalence and the stated cap contradict each other)", "E2: in-flight is observed from outside (after Entry returned, before Exit is invoked), an under-approximation, hence sound"},
		Real:        []string{"api.Entry/Exit", "core/isolation (slot, rule manager)", "core/stat (node concurrency gauge, stat slot)", "slot chain"},
		Stub:        []string{"util.Clock (virtual clock)", "E2: goroutine scheduling (cooperative seeded scheduler)", "sync.Pool (SimPool, seeded)"},
	}
}

func (P) Gen(rng *sim.Rng, tier string) *harness.Case {
	cfg := Cfg{NRes: rng.Range(1, 3), Origin: 1700000000000 + rng.U64Range(0, 100000)}
	cfg.Conc = rng.Chance(0.3)
	id := 0
	for r := 0; r < cfg.NRes; r++ {
		for k, nr := 0, rng.Range(0, 3); k < nr; k++ {
			n := uint32(rng.Range(1, 5))
			if rng.Chance(0.1) {
				n = uint32(rng.U64Range(1, 1<<32-1))
			}
			cfg.Rules = append(cfg.Rules, IsoRule{ID: fmt.Sprintf("i%d", id), Res: r, N: n})
			id++
		}
	}
	if len(cfg.Rules) == 0 {
		cfg.Rules = append(cfg.Rules, IsoRule{ID: "i0", Res: 0, N: uint32(rng.Range(1, 4))})
	}
	genReq := func() harness.Op {
		b := uint64(1)
		switch rng.Intn(10) {
		case 0:
			b = uint64(rng.Range(1, 5))
		case 1:
			b = rng.U64Range(1<<32-4, 1<<32-1)
		case 2:
			b = rng.U64Range(1, 1<<32-1)
		}
		return harness.Op{K: "req", R: rng.Intn(cfg.NRes), N: b, F: rng.Chance(0.8)}
	}
	c := &harness.Case{}
	if cfg.Conc {
		k := rng.Range(2, 4)
		if tier == "thorough" && rng.Chance(0.3) {
			k = rng.Range(5, 7) // thorough: now and then a larger crowd
		}
		c.Callers = make([][]harness.Op, k)
		for i := range c.Callers {
			held := 0
			for j, m := 0, rng.Range(2, 8); j < m; j++ {
				if held > 0 && rng.Chance(0.35) {
					c.Callers[i] = append(c.Callers[i], harness.Op{K: "exit", E: rng.Intn(held), F: rng.Chance(0.3)})
				} else {
					op := genReq()
					op.N = uint64(rng.Range(1, 2))
					if op.F {
						held++
					}
					c.Callers[i] = append(c.Callers[i], op)
				}
			}
		}
		c.Sched = harness.GenSched(rng, nil, 300*k)
		c.Sched.MaxSteps = 60000
	} else {
		held := 0
		var ops []harness.Op
		for n := rng.Range(10, 60); len(ops) < n; {
			switch rng.Weighted([]int{55, 35, 10}) {
			case 0:
				op := genReq()
				if op.F {
					held++
				}
				ops = append(ops, op)
			case 1:
				if held > 0 {
					ops = append(ops, harness.Op{K: "exit", E: rng.Intn(held), F: rng.Chance(0.3)})
				}
			default:
				if rng.Chance(0.25) {
					// clock fault: the wall clock is stepped BACK (NTP correction) while entries may be in flight
					ops = append(ops, harness.Op{K: "back", N: rng.U64Range(1, 5000)})
				} else {
					ops = append(ops, harness.Op{K: "tick", N: rng.U64Range(0, 3000)})
				}
			}
		}
		c.Callers = [][]harness.Op{ops}
	}
	c.Pool = harness.GenPool(rng)
	c.Cfg = harness.MustJSON(cfg)
	return c
}

var errBiz = fmt.Errorf("business error")

type held struct {
	e   *base.SentinelEntry
	res int
}

func (P) Exec(c *harness.Case) *harness.Outcome {
	o := harness.NewOutcome()
	var cfg Cfg
	if err := json.Unmarshal(c.Cfg, &cfg); err != nil {
		o.Infra = err.Error()
		return o
	}
	if cfg.NRes <= 0 {
		return o
	}
	env := harness.Reset(cfg.Origin*1e6, harness.DefaultGeometry())
	pc := harness.InstallPool(c)
	defer func() {
		if pc != nil {
			o.PoolLog = append([]int{}, pc.Log...)
		}
		sim.SetPoolCtl(nil)
	}()
	rules := make([][]*isolation.Rule, cfg.NRes)
	var all []*isolation.Rule
	for _, r := range cfg.Rules {
		if r.Res < 0 || r.Res >= cfg.NRes || r.N == 0 {
			continue
		}
		x := &isolation.Rule{ID: r.ID, Resource: harness.ResName(r.Res), MetricType: isolation.Concurrency, Threshold: r.N}
		rules[r.Res] = append(rules[r.Res], x)
		all = append(all, x)
	}
	if !harness.Call(o, "C04.panic", 0, func() {
		if _, err := isolation.LoadRules(all); err != nil {
			o.Fail("C04.load-error", 0, "%v", err)
		}
	}) || o.Failed() {
		return o
	}
	if cfg.Conc {
		execConc(c, o, &cfg, rules, env)
		return o
	}
	clk := env.Clock
	live := make([]uint64, cfg.NRes)
	var hs []held
	exhausted, freed := make([]bool, cfg.NRes), make([]bool, cfg.NRes)
	if len(c.Callers) == 0 {
		return o
	}
	for step, op := range c.Callers[0] {
		switch op.K {
		case "tick":
			clk.AdvanceMs(op.N)
			o.SimMs += op.N
		case "back":
			if d := op.N * 1e6; d < clk.NowNs() {
				clk.SetNs(clk.NowNs() - d)
				o.Fault("clock_stepped_back")
			}
		case "exit":
			if op.E >= 0 && op.E < len(hs) && hs[op.E].e != nil {
				h := hs[op.E]
				harness.Call(o, "C04.panic", step, func() {
					if op.F {
						h.e.Exit(base.WithError(errBiz))
					} else {
						h.e.Exit()
					}
				})
				live[h.res]--
				hs[op.E].e = nil
				if exhausted[h.res] {
					freed[h.res] = true
				}
			}
		case "req":
			if op.R < 0 || op.R >= cfg.NRes || op.N == 0 {
				continue
			}
			b := uint32(op.N)
			var blockBy *isolation.Rule
			for _, r := range rules[op.R] {
				if live[op.R]+uint64(b) > uint64(r.Threshold) {
					blockBy = r
					break
				}
			}
			var e *base.SentinelEntry
			var be *base.BlockError
			harness.Call(o, "C04.panic", step, func() {
				e, be = sentinel.Entry(harness.ResName(op.R), harness.EntryOpts(b, op.R%2 == 1, nil, nil, nil)...)
			})
			if o.Failed() {
				return o
			}
			if (e == nil) == (be == nil) {
				o.Fail("C04.outcome-shape", step, "Entry returned entry=%v blockErr=%v", e != nil, be != nil)
				return o
			}
			if blockBy != nil {
				exhausted[op.R] = true
				if be == nil {
					if e != nil {
						e.Exit()
					}
					o.Fail("C04.over-admission", step, "res-%d: %d entries in flight, batch %d admitted although rule %s caps at %d", op.R, live[op.R], b, blockBy.ID, blockBy.Threshold)
					if uint64(uint32(live[op.R])+b) <= uint64(blockBy.Threshold) {
						o.V.Key = "C04.uint32-overflow"
					}
					return o
				}
				if be.BlockType() != base.BlockTypeIsolation {
					o.Fail("C04.block-type", step, "blocked with %s, expected isolation", be.BlockType())
					return o
				}
				if tr, _ := be.TriggeredRule().(*isolation.Rule); tr != blockBy {
					o.Fail("C04.triggered-rule", step, "blocked by %v, reference first failing rule %s", be.TriggeredRule(), blockBy.ID)
					return o
				}
				if v, ok := be.TriggeredValue().(uint32); !ok || uint64(v) != live[op.R] {
					o.Fail("C04.triggered-value", step, "TriggeredValue=%v, %d entries in flight", be.TriggeredValue(), live[op.R])
					return o
				}
			} else {
				if be != nil {
					o.Fail("C04.spurious-rejection", step, "res-%d: %d entries in flight, batch %d rejected (%s) although every rule allows it", op.R, live[op.R], b, be.BlockType())
					return o
				}
				if freed[op.R] {
					o.Nontrivial = true
					o.Probe("capacity_reused_after_exit")
				}
				live[op.R]++
				if op.F {
					hs = append(hs, held{e, op.R})
				} else {
					harness.Call(o, "C04.panic", step, func() { e.Exit() })
					live[op.R]--
				}
			}
		}
		for r := 0; r < cfg.NRes; r++ {
			if n := stat.GetResourceNode(harness.ResName(r)); n != nil {
				if got := int64(n.CurrentConcurrency()); got != int64(live[r]) {
					o.Fail("C04.gauge", step, "res-%d reports %d entries in flight, %d are", r, got, live[r])
					return o
				}
			}
			for _, ru := range rules[r] {
				if live[r] > uint64(ru.Threshold) {
					o.Fail("C04.cap-exceeded", step, "res-%d has %d entries in flight, rule %s caps at %d", r, live[r], ru.ID, ru.Threshold)
					return o
				}
			}
		}
	}
	return o
}

func execConc(c *harness.Case, o *harness.Outcome, cfg *Cfg, rules [][]*isolation.Rule, env *harness.Env) {
	k := len(c.Callers)
	inflight := make([]int, cfg.NRes)
	maxIn := make([]int, cfg.NRes)
	blocked := 0
	heldAll := make([][]held, k)
	harness.RunE2(c, o, "C04", env.Clock, k, func(task int) {
		var hs []held
		for _, op := range c.Callers[task] {
			switch op.K {
			case "req":
				if op.R < 0 || op.R >= cfg.NRes || op.N == 0 {
					continue
				}
				e, be := sentinel.Entry(harness.ResName(op.R), harness.EntryOpts(uint32(op.N), op.R%2 == 1, nil, nil, nil)...)
				if be != nil {
					blocked++
				}
				if e != nil {
					inflight[op.R]++
					if inflight[op.R] > maxIn[op.R] {
						maxIn[op.R] = inflight[op.R]
					}
					if op.F {
						hs = append(hs, held{e, op.R})
					} else {
						inflight[op.R]--
						e.Exit()
					}
				}
			case "exit":
				if op.E >= 0 && op.E < len(hs) && hs[op.E].e != nil {
					inflight[hs[op.E].res]--
					if op.F {
						hs[op.E].e.Exit(base.WithError(errBiz))
					} else {
						hs[op.E].e.Exit()
					}
					hs[op.E].e = nil
				}
			}
		}
		heldAll[task] = hs // what the caller did not exit stays live past the concurrent phase
	}, nil)
	if o.Failed() {
		return
	}
	// quiescent point with live entries (no call in progress): the gauge is exact and so is the next decision
	for r := 0; r < cfg.NRes; r++ {
		n := stat.GetResourceNode(harness.ResName(r))
		got := int32(0)
		if n != nil {
			got = n.CurrentConcurrency()
		}
		if int(got) != inflight[r] {
			o.Fail("C04.gauge", 0, "after the concurrent phase (no call in progress) res-%d reports %d entries in flight, %d are live", r, got, inflight[r])
			return
		}
		if inflight[r] > 0 {
			o.Probe("quiescent_gauge_with_live_entries")
		}
		want := true
		for _, ru := range rules[r] {
			if uint64(inflight[r])+1 > uint64(ru.Threshold) {
				want = false
			}
		}
		var e *base.SentinelEntry
		var be *base.BlockError
		if !harness.Call(o, "C04.panic", 0, func() {
			e, be = sentinel.Entry(harness.ResName(r), harness.EntryOpts(1, r%2 == 1, nil, nil, nil)...)
		}) {
			return
		}
		if (e != nil) != want {
			o.Fail("C04.decision-after-concurrency", 0, "single request (batch 1) on res-%d after the concurrent phase with %d entries live: admitted=%v (block %v), rules %v say %v", r, inflight[r], e != nil, be, ruleStr(rules[r]), want)
			return
		}
		if e != nil {
			e.Exit()
		}
	}
	for _, hs := range heldAll {
		for _, h := range hs {
			if h.e != nil {
				inflight[h.res]--
				h.e.Exit()
			}
		}
	}
	for r := 0; r < cfg.NRes; r++ {
		for _, ru := range rules[r] {
			if uint64(maxIn[r]) > uint64(ru.Threshold)+uint64(k-1) {
				o.Fail("C04.concurrent-excess", 0, "res-%d reached %d entries in flight with %d callers; rule %s caps at %d (bound N+k-1)", r, maxIn[r], k, ru.ID, ru.Threshold)
				return
			}
		}
		if n := stat.GetResourceNode(harness.ResName(r)); n != nil && n.CurrentConcurrency() != 0 {
			o.Fail("C04.gauge-not-zero", 0, "res-%d reports %d entries in flight after every entry was exited", r, n.CurrentConcurrency())
			return
		}
	}
	if blocked > 0 {
		o.Nontrivial = true
		o.Probe("concurrent_rejections")
	}
}

func ruleStr(l []*isolation.Rule) string {
	s := ""
	for _, r := range l {
		s += fmt.Sprintf("[%s N=%d]", r.ID, r.Threshold)
	}
	return s
}
