// Package c20: outlier ejection never removes more than the allowed share of
// nodes (discrete-event simulation: virtual clock, the recycler / retryer task
// queues are consumed by the harness with the workers' own loop bodies, their
// time.AfterFunc timers live in the simulator's timer queue and same-instant
// timers fire in a seeded order).
package c20

import (
	"encoding/json"
	"errors"
	"fmt"
	"sort"
	"sync"

	sentinel "github.com/alibaba/sentinel-golang/api"
	"github.com/alibaba/sentinel-golang/core/base"
	cb "github.com/alibaba/sentinel-golang/core/circuitbreaker"
	"github.com/alibaba/sentinel-golang/core/outlier"

	"verif/harness"
	"verif/model"
	"verif/sim"
)

type Cfg struct {
	Nodes    int               `json:"nodes"`
	PctNum   int               `json:"pct_num"` // MaxEjectionPercent = PctNum / PctDen
	PctDen   int               `json:"pct_den"`
	Active   bool              `json:"active_recovery"`
	RecycleS uint32            `json:"recycle_s"`
	RecovMs  uint32            `json:"recovery_ms"`
	Attempts uint32            `json:"max_attempts"`
	Rule     model.BreakerRule `json:"breaker"`
	Healthy  []bool            `json:"healthy"` // per node: does the active recovery check succeed
}

type P struct{}

func init() { harness.Register(P{}) }

func (P) ID() string     { return "C20" }
func (P) Engine() string { return "E1" }

func (P) Describe() harness.Description {
	return harness.Description{
		MustHit: []string{"rule_reloaded_with_another_recycle_interval", "request_for_a_resource_without_outlier_rule", "same_instant_timers_ordered_by_seed", "node_filtered", "filter_capped_by_percentage", "node_half_open", "node_recycled", "node_kept_after_success", "active_recovery_check_ran"},
		Level:   "exploration",
		Rule: "case = (1-12 nodes, MaxEjectionPercent k/100 or k/1000 incl. 0 and 1, active recovery on (scripted RecoveryCheckFunc) or off, recycle interval 1-5 s, recovery interval, per-node breaker rule (error count / error ratio, retry timeout 200-3000 ms, probe number 0-1); 20-120 ops: request (choose a node, duration, success or failure), advance fake time). Chain = default slots + the real outlier slots; the recycler / retryer workers, their channels and timers live inside the bubble; after every step the driver waits for quiescence. " +
			"Oracle at every request: FilterNodes has no duplicates and is a subset of the nodes the per-node reference breaker rejects now; |FilterNodes| <= floor(k*n/den) in integer arithmetic with n = known nodes; HalfOpenNodes == nodes in passive half-open probing (none with active recovery); a node that completed a request successfully since it was scheduled for recycling is still known after the recycle interval, and no unknown node appears. " +
			"non-trivial = nodes were filtered with the cap binding and a node was recycled or kept by a success; distinct = hash(config, ops)",
		Assumptions: []string{"MaxEjectionPercent is k/100 or k/1000 and the bound is floor(k*n/den) in integers", "removal of a node that never recovered is permitted, not demanded (the statement only protects nodes that completed successfully)", "known nodes are read through the overlay-only accessor outlier.VerifNodeBreakers"},
		Real:        []string{"core/outlier (slot, stat slot, rule manager, recycler and retryer: task queues, the loop body of the two workers, timer callbacks)", "core/circuitbreaker breakers per node", "api.Entry/TraceCallee/TraceError/Exit"},
		Stub:        []string{"time.AfterFunc / time.Now of core/outlier (simulator timer queue on the virtual clock; timers due at the same instant fire in a seeded order)", "the two worker goroutines (the harness consumes the task channels with the generated VerifDrain functions = the workers' own loop bodies, in a seeded order)", "iteration order of the node map in checkAllNodes (seeded permutation of the sorted keys)", "util.Clock (virtual clock)", "RecoveryCheckFunc (scripted health of each node instead of a TCP dial)"},
	}
}

func (P) Gen(rng *sim.Rng, tier string) *harness.Case {
	cfg := Cfg{Nodes: rng.Range(1, 12), Active: rng.Chance(0.4)}
	if rng.Chance(0.5) {
		cfg.PctDen = 100
		cfg.PctNum = []int{0, 10, 25, 30, 33, 50, 57, 67, 90, 100, 29, 7}[rng.Intn(12)]
	} else {
		cfg.PctDen = 1000
		cfg.PctNum = []int{0, 125, 333, 334, 500, 999, 1000, 666, 83}[rng.Intn(9)]
	}
	cfg.RecycleS = uint32(rng.Range(1, 5))
	cfg.RecovMs = uint32([]int{100, 500, 1000}[rng.Intn(3)])
	cfg.Attempts = uint32(rng.Range(1, 3))
	r := model.BreakerRule{Strategy: []int{model.ErrCount, model.ErrCount, model.ErrRatio}[rng.Intn(3)], StatMs: []uint64{1000, 5000, 10000}[rng.Intn(3)], Buckets: []uint32{0, 1, 2}[rng.Intn(3)]}
	r.RetryMs = []uint64{200, 500, 1000, 3000}[rng.Intn(4)]
	r.MinReq = uint64(rng.Range(1, 2))
	r.ProbeNum = uint64(rng.Intn(2))
	if r.Strategy == model.ErrCount {
		r.Threshold = float64(rng.Range(1, 3))
	} else {
		r.Threshold = []float64{0.5, 1.0}[rng.Intn(2)]
	}
	cfg.Rule = r
	for i := 0; i < cfg.Nodes; i++ {
		cfg.Healthy = append(cfg.Healthy, rng.Chance(0.5))
	}
	var ops []harness.Op
	for n := rng.Range(20, 120); len(ops) < n; {
		if rng.Chance(0.04) {
			// the rule is loaded again with another recycle interval (everything else, the breaker rule included, unchanged)
			ops = append(ops, harness.Op{K: "reload", N: uint64([]int{1, 2, 5, 30, 3600}[rng.Intn(5)])})
		} else if rng.Chance(0.08) {
			// a request for another resource, one without an outlier rule, through the same slots (the next to
			// use the pooled context of an earlier request)
			ops = append(ops, harness.Op{K: "other"})
		} else if rng.Chance(0.7) {
			// M == 1: if this request's completion closes the node's breaker, the node's recycle timer (when one is
			// armed) gets to fire right then - between the steps of the completing caller
			ops = append(ops, harness.Op{K: "req", R: rng.Intn(cfg.Nodes), N: uint64([]int{0, 0, 1, 5, 20}[rng.Intn(5)]), F: rng.Chance(0.55), M: uint64(rng.Intn(3) / 2)})
		} else {
			ops = append(ops, harness.Op{K: "sleep", N: []uint64{1, 50, 100, 199, 200, 201, 500, 1000, 1001, 2000, 3000, 5000, 6000}[rng.Intn(13)]})
		}
	}
	return &harness.Case{Cfg: harness.MustJSON(cfg), Callers: [][]harness.Op{ops}}
}

const res = "svc"

func addr(i int) string { return fmt.Sprintf("10.0.0.%d:80", i+1) }

// sched is one reading of a node's recycle schedule.
type sched struct {
	pending   bool   // scheduled for recycling
	recycleAt uint64 // ms
	recovered bool   // a request to the node completed successfully since it was scheduled (must be kept)
}

type node struct {
	m *model.Breaker
	// alts: the readings of the node's recycle schedule that are possible now. There is one until the rule is
	// loaded again: the property does not say whether a load keeps the pending recycles or voids them (a node
	// that is still ejected is then scheduled again by the next request that finds it so), so both readings are
	// followed from there on, and the implementation has to agree with one of them whenever a node is gone.
	alts  []sched
	hadOK bool // completed at least one request successfully since it became known
}

func newNode(m *model.Breaker) *node { return &node{m: m, alts: []sched{{}}} }

func (n *node) dedupe() {
	out := n.alts[:0]
	for _, a := range n.alts {
		dup := false
		for _, b := range out {
			dup = dup || a == b
		}
		if !dup {
			out = append(out, a)
		}
	}
	n.alts = out
}

// nextRecycle returns the earliest pending recycle instant over the readings.
func (n *node) nextRecycle() (at uint64, ok bool) {
	for _, a := range n.alts {
		if a.pending && (!ok || a.recycleAt < at) {
			at, ok = a.recycleAt, true
		}
	}
	return
}

func (P) Exec(c *harness.Case) *harness.Outcome {
	o := harness.NewOutcome()
	var cfg Cfg
	if err := json.Unmarshal(c.Cfg, &cfg); err != nil {
		o.Infra = err.Error()
		return o
	}
	if cfg.Nodes <= 0 || cfg.PctDen <= 0 || cfg.PctNum < 0 || cfg.PctNum > cfg.PctDen || cfg.Rule.StatMs == 0 || cfg.Rule.RetryMs == 0 || len(cfg.Healthy) < cfg.Nodes || len(c.Callers) == 0 {
		return o
	}
	env := harness.Reset(1700000000000*1e6, harness.DefaultGeometry())
	clk := env.Clock
	nowMs := func() uint64 { return clk.NowMs() }
	// the order in which the slot visits the nodes of a resource (a Go map in the implementation) decides WHICH
	// outliers are filtered when the cap bites: drawn from the case's PRNG (overlay: verifMapOrder)
	mr := sim.NewRng(c.Seed, 0xc20a, uint64(c.Run))
	tq := &sim.TimerQ{Clk: clk, Pick: func(n int) int { return mr.Intn(n) }}
	sim.Timers = tq
	defer func() { sim.Timers = nil }()
	// drain: let the two workers consume what the slot queued (seeded order of the two; until both are empty)
	drain := func() {
		for {
			n := 0
			if mr.Intn(2) == 0 {
				n = outlier.VerifDrainRecycler() + outlier.VerifDrainRetryer()
			} else {
				n = outlier.VerifDrainRetryer() + outlier.VerifDrainRecycler()
			}
			if n == 0 {
				return
			}
		}
	}
	outlier.VerifMapOrder = func(keys []string) []string {
		for i := len(keys) - 1; i > 0; i-- {
			j := mr.Intn(i + 1)
			keys[i], keys[j] = keys[j], keys[i]
		}
		return keys
	}
	defer func() { outlier.VerifMapOrder = nil }()
	var mu sync.Mutex
	nodes := map[string]*node{}
	checks := 0
	strat := []cb.Strategy{cb.SlowRequestRatio, cb.ErrorRatio, cb.ErrorCount}
	rule := &outlier.Rule{
		Rule: &cb.Rule{Id: "o", Resource: res, Strategy: strat[cfg.Rule.Strategy], RetryTimeoutMs: uint32(cfg.Rule.RetryMs), MinRequestAmount: cfg.Rule.MinReq,
			StatIntervalMs: uint32(cfg.Rule.StatMs), StatSlidingWindowBucketCount: cfg.Rule.Buckets, Threshold: cfg.Rule.Threshold, ProbeNum: cfg.Rule.ProbeNum},
		EnableActiveRecovery: cfg.Active, MaxEjectionPercent: float64(cfg.PctNum) / float64(cfg.PctDen), RecoveryIntervalMs: cfg.RecovMs,
		RecycleIntervalS: cfg.RecycleS, MaxRecoveryAttempts: cfg.Attempts,
	}
	rule.RecoveryCheckFunc = func(a string) bool {
		mu.Lock()
		defer mu.Unlock()
		checks++
		ok := false
		for i := 0; i < cfg.Nodes; i++ {
			if addr(i) == a {
				ok = cfg.Healthy[i]
			}
		}
		if ok {
			if n := nodes[a]; n != nil {
				// the retryer reports a successful zero-duration request to the node's breaker and marks it recovered
				n.m.Complete(nowMs(), 0, false)
			}
		}
		return ok
	}
	if !harness.Call(o, "C20.panic", 0, func() {
		outlier.VerifResetWorkers()
		if _, err := outlier.LoadRules([]*outlier.Rule{rule}); err != nil {
			o.Fail("C20.load-error", 0, "%v", err)
		}
	}) || o.Failed() {
		return o
	}
	defer func() {
		harness.Call(o, "C20.panic", 0, drain) // let the workers consume what is queued while the rule still exists
		_ = outlier.ClearRules()
	}()
	// timer race (ops with M == 1): a listener runs inside the breaker's OnRequestComplete, right after the
	// transition to Closed - the place where another goroutine (here: the recycle timer) can get in before the
	// completing caller goes on
	raceArmed, raceAt, raceT0 := false, uint64(0), uint64(0)
	cb.ClearStateChangeListeners()
	cb.RegisterStateChangeListeners(&closeHook{func() {
		if !raceArmed {
			return
		}
		raceArmed = false
		if now := nowMs(); raceAt == now+1 {
			raceT0 = now
			o.Fault("recycle_timer_fired_inside_a_completion")
			tq.AdvanceMs(1, drain)
		}
	}})
	defer cb.ClearStateChangeListeners()
	sc := sentinel.BuildDefaultSlotChain()
	sc.AddRuleCheckSlot(outlier.DefaultSlot)
	sc.AddStatSlot(outlier.DefaultMetricStatSlot)
	start := nowMs()
	sawFilter, sawCap, sawRecycleOrKeep := false, false, false
	// processTimers applies the recycle timers that are due in the model and compares the known sets
	processTimers := func(step int) bool {
		mu.Lock()
		defer mu.Unlock()
		var impl map[string]cb.CircuitBreaker
		if !harness.Call(o, "C20.panic", step, func() { impl = outlier.VerifNodeBreakers(res) }) {
			return false
		}
		now := nowMs()
		for _, a := range sortedKeys(impl) {
			if nodes[a] == nil {
				o.Fail("C20.unknown-node", step, "node %s is known to the outlier module but never completed a request (or was recycled and not seen since)", a)
				return false
			}
		}
		for _, a := range sortedKeys(nodes) {
			n := nodes[a]
			_, known := impl[a]
			// the recycle timers that are due, per reading
			permitted, dueRecovered := !n.hadOK, false
			var dueAt uint64
			for i := range n.alts {
				al := &n.alts[i]
				due := al.pending && now >= al.recycleAt
				if due {
					al.pending = false
					if al.recovered {
						dueRecovered, dueAt = true, al.recycleAt
					}
				}
				// a node that has not recovered since it was scheduled may be dropped, also early (permitted, not
				// demanded); one that recovered, or that is not scheduled and has served requests, may not
				if (due || al.pending) && !al.recovered {
					permitted = true
				}
			}
			n.dedupe()
			if known {
				if dueRecovered {
					o.Probe("node_kept_after_success")
					sawRecycleOrKeep = true
				}
				continue
			}
			if !permitted {
				if dueRecovered {
					o.Fail("C20.recovered-node-recycled", step, "node %s completed a request successfully after it was scheduled for recycling, yet it is no longer known %d ms later (recycle interval %d s)", a, now-(dueAt-uint64(cfg.RecycleS)*1000), cfg.RecycleS)
				} else {
					o.Fail("C20.node-vanished", step, "node %s completed requests successfully and is not awaiting recycling after a failure, yet it is no longer known (readings of its schedule: %+v)", a, n.alts)
				}
				return false
			}
			o.Probe("node_recycled")
			sawRecycleOrKeep = true
			delete(nodes, a)
		}
		return true
	}
	for step, op := range c.Callers[0] {
		switch op.K {
		case "sleep":
			harness.Call(o, "C20.panic", step, func() { tq.AdvanceMs(op.N, drain) })
			if o.Failed() || !processTimers(step) {
				return o
			}
		case "reload":
			if op.N == 0 || op.N > 1000000 {
				continue
			}
			cfg.RecycleS = uint32(op.N)
			nr := *rule
			br := *rule.Rule
			nr.Rule, nr.RecycleIntervalS = &br, cfg.RecycleS
			harness.Call(o, "C20.panic", step, func() {
				if _, err := outlier.LoadRules([]*outlier.Rule{&nr}); err != nil {
					o.Fail("C20.load-error", step, "%v", err)
				}
			})
			if o.Failed() {
				return o
			}
			{
				// The property does not say what a load does to the recycles that are pending: kept (the
				// schedule is the node's) or void (it was made under the replaced rule; a node that is still
				// ejected is scheduled again, with the new interval, by the next request that finds it so).
				// Both readings are followed from here on. (That a timer armed under a replaced rule must not
				// act under the rule in force is C13's business and checked there.)
				mu.Lock()
				for _, n := range nodes {
					n.alts = append(n.alts, sched{})
					n.dedupe()
				}
				mu.Unlock()
				o.Probe("rule_replaced_with_recycles_pending")
			}
			o.Probe("rule_reloaded_with_another_recycle_interval")
		case "other":
			var filter, half []string
			harness.Call(o, "C20.panic", step, func() {
				if e, _ := sentinel.Entry("res-without-outlier-rule", sentinel.WithSlotChain(sc)); e != nil {
					filter = append([]string{}, e.Context().FilterNodes()...)
					half = append([]string{}, e.Context().HalfOpenNodes()...)
					e.Exit()
				}
			})
			if o.Failed() {
				return o
			}
			o.Probe("request_for_a_resource_without_outlier_rule")
			if len(filter) != 0 || len(half) != 0 {
				o.Fail("C20.nodes-reported-for-resource-without-rule", step, "a request for a resource that has no outlier rule and no known node was told to filter %v (half-open %v): the lists of an earlier request for another resource", filter, half)
				return o
			}
		case "req":
			if op.R < 0 || op.R >= cfg.Nodes {
				continue
			}
			now := nowMs()
			// reference: every known node's breaker is asked (this also performs passive Open->HalfOpen)
			mu.Lock()
			var rejecting, halfs []string
			known := len(nodes)
			var names []string
			for a := range nodes {
				names = append(names, a)
			}
			sort.Strings(names)
			for _, a := range names {
				n := nodes[a]
				pass, _ := n.m.TryPass(now)
				if pass {
					if !cfg.Active && n.m.State == model.HalfOpen {
						halfs = append(halfs, a)
					}
				} else {
					rejecting = append(rejecting, a)
				}
			}
			for _, a := range rejecting {
				n := nodes[a]
				for i := range n.alts {
					if !n.alts[i].pending {
						n.alts[i] = sched{pending: true, recycleAt: now + uint64(cfg.RecycleS)*1000}
					}
				}
				n.dedupe()
			}
			mu.Unlock()
			var e *base.SentinelEntry
			var be *base.BlockError
			var filter, half []string
			harness.Call(o, "C20.panic", step, func() {
				e, be = sentinel.Entry(res, sentinel.WithSlotChain(sc))
				if e != nil {
					filter = append([]string{}, e.Context().FilterNodes()...)
					half = append([]string{}, e.Context().HalfOpenNodes()...)
				}
			})
			if o.Failed() {
				return o
			}
			if e == nil {
				o.Fail("C20.request-blocked", step, "the outlier slot blocked a request (%v); it only reports nodes", be)
				return o
			}
			// (1) filter: no duplicates, subset of rejecting, capped
			seen := map[string]bool{}
			for _, a := range filter {
				if seen[a] {
					o.Fail("C20.filter-duplicate", step, "FilterNodes %v lists %s twice", filter, a)
					return o
				}
				seen[a] = true
				if !contains(rejecting, a) {
					o.Fail("C20.filter-not-rejecting", step, "t=%d FilterNodes %v contains %s whose breaker does not reject traffic now (rejecting: %v)", now-start, filter, a, rejecting)
					return o
				}
			}
			limit := cfg.PctNum * known / cfg.PctDen
			if len(filter) > limit {
				o.Fail("C20.filter-exceeds-share", step, "FilterNodes %v has %d nodes; MaxEjectionPercent %d/%d of %d known nodes allows %d", filter, len(filter), cfg.PctNum, cfg.PctDen, known, limit)
				return o
			}
			if len(filter) > 0 {
				o.Probe("node_filtered")
				sawFilter = true
			}
			if len(rejecting) > limit {
				o.Probe("filter_capped_by_percentage")
				sawCap = true
			}
			// (2) half-open nodes
			sort.Strings(half)
			if fmt.Sprint(half) != fmt.Sprint(halfs) && !(len(half) == 0 && len(halfs) == 0) {
				o.Fail("C20.half-open-nodes", step, "t=%d HalfOpenNodes %v, the nodes in passive half-open probing are %v (active recovery %v)", now-start, half, halfs, cfg.Active)
				return o
			}
			if len(halfs) > 0 {
				o.Probe("node_half_open")
			}
			// the workers schedule their timers now
			harness.Call(o, "C20.panic", step, drain)
			// pick a node like a load balancer would: the requested one unless it is filtered
			target := addr(op.R)
			for k := 0; k < cfg.Nodes && contains(filter, target); k++ {
				target = addr((op.R + k + 1) % cfg.Nodes)
			}
			// timer race: the request lasts until one millisecond before the target's recycle timer is due (passive
			// recovery only: with active recovery the retryer's own completions for the node could fall into the
			// same millisecond, and a completion between a breaker's closing and the reset of its statistic is a
			// race of its own that no property speaks about)
			raceT0 = 0
			arm := false
			rt := op.N
			if op.M == 1 && !op.F && !cfg.Active {
				mu.Lock()
				if n := nodes[target]; n != nil {
					if at, ok := n.nextRecycle(); ok && at > nowMs()+op.N+1 && at-nowMs() < 100000 {
						arm, raceAt = true, at
						rt = at - 1 - nowMs()
					}
				}
				mu.Unlock()
			}
			harness.Call(o, "C20.panic", step, func() {
				sentinel.TraceCallee(e, target)
				if rt > 0 {
					tq.AdvanceMs(rt, drain)
				}
			})
			// timers that fired while the request was running are applied before its completion
			if o.Failed() || (rt > 0 && !processTimers(step)) {
				return o
			}
			if arm {
				// (the timers that fired meanwhile may have changed the target's situation)
				mu.Lock()
				n := nodes[target]
				arm = false
				if n != nil {
					at, ok := n.nextRecycle()
					arm = ok && at == raceAt && raceAt == nowMs()+1
				}
				mu.Unlock()
			}
			harness.Call(o, "C20.panic", step, func() {
				if op.F {
					sentinel.TraceError(e, errors.New("node failure"))
				}
				// (armed for the completion of THIS request only: the workers drained afterwards report completions
				// of their own, from inside timer callbacks)
				raceArmed = arm
				e.Exit()
				raceArmed = false
				drain()
			})
			raceArmed = false
			if o.Failed() {
				return o
			}
			done := nowMs()
			if raceT0 != 0 {
				done = raceT0 // the request completed before the timer ran
			}
			mu.Lock()
			n := nodes[target]
			if n == nil {
				n = newNode(model.NewBreaker(cfg.Rule))
				nodes[target] = n
			}
			n.m.Complete(done, rt, op.F)
			if !op.F {
				n.hadOK = true
				for i := range n.alts {
					if n.alts[i].pending {
						n.alts[i].recovered = true
					}
				}
				n.dedupe()
			}
			mu.Unlock()
			if !processTimers(step) {
				return o
			}
		}
	}
	if cfg.Active && checks > 0 {
		o.Probe("active_recovery_check_ran")
	}
	if !cfg.Active {
		o.ProbeN("active_recovery_check_ran", 0)
	}
	o.SimMs += nowMs() - start
	if tq.Fired > 0 {
		o.Faults["timer_fired"] += tq.Fired
	}
	if tq.Ties > 0 {
		o.ProbeN("same_instant_timers_ordered_by_seed", tq.Ties)
	}
	o.Nontrivial = sawFilter && sawCap && sawRecycleOrKeep
	return o
}

type closeHook struct{ f func() }

func (h *closeHook) OnTransformToClosed(prev cb.State, rule cb.Rule)              { h.f() }
func (h *closeHook) OnTransformToOpen(prev cb.State, rule cb.Rule, _ interface{}) {}
func (h *closeHook) OnTransformToHalfOpen(prev cb.State, rule cb.Rule)            {}

func contains(l []string, s string) bool {
	for _, x := range l {
		if x == s {
			return true
		}
	}
	return false
}

func sortedKeys[V any](m map[string]V) []string {
	l := make([]string, 0, len(m))
	for k := range m {
		l = append(l, k)
	}
	sort.Strings(l)
	return l
}
