// Package c15: the public API is race free and rule switches are atomic under
// live traffic (engine E2r: the seeded cooperative scheduler under the Go race
// detector; the scheduler hands over by spinning on a plain word in norace
// code, so the detector sees only the program's own synchronisation).
package c15

import (
	"encoding/json"
	"errors"
	"fmt"
	"sort"
	"strings"
	"sync/atomic"

	sentinel "github.com/alibaba/sentinel-golang/api"
	"github.com/alibaba/sentinel-golang/core/base"
	cb "github.com/alibaba/sentinel-golang/core/circuitbreaker"
	"github.com/alibaba/sentinel-golang/core/flow"
	"github.com/alibaba/sentinel-golang/core/hotspot"
	"github.com/alibaba/sentinel-golang/core/isolation"
	"github.com/alibaba/sentinel-golang/core/outlier"
	"github.com/alibaba/sentinel-golang/core/stat"
	"github.com/alibaba/sentinel-golang/core/system"

	"verif/harness"
	"verif/sim"
)

type Cfg struct {
	Origin uint64 `json:"origin_ms"`
	// HotCap: ParamsMaxCapacity of the hot-parameter rules (0 = default). With 2 the three argument values of
	// the workload do not fit: every lookup evicts, and the two per-value caches of a QPS rule are touched one
	// after the other.
	HotCap int64 `json:"hot_cap,omitempty"`
}

type P struct{}

func init() { harness.Register(P{}) }

func (P) ID() string     { return "C15" }
func (P) Engine() string { return "E2r" }

func (P) Describe() harness.Description {
	return harness.Description{
		MustHit: []string{"request_on_the_budget_resource", "fresh_value_checked_at_rest", "outlier_breakers_checked_at_rest", "trace_error_on_an_entry_of_another_caller", "per_value_caches_smaller_than_the_value_set", "request_raced_with_rule_switch", "both_rule_lists_observed", "getter_ran_concurrently", "stable_resource_checked"},
		Level:   "exploration",
		Rule: "case = 3-6 simulated callers with 4-14 operations each: traffic (Entry with arguments / TraceError / Exit on a flow-churned, an isolation-churned, a hotspot-churned, a stable-blocking and a free resource), rule churn (LoadRulesOfResource switching among four distinguishable rule lists (2-3 rules each, exactly one always-blocking rule block<n> at a different position, the others never blocking; switches keep, move, drop and add controllers) for flow, isolation and hotspot; whole-set LoadRules / ClearRules for circuit breaker, system and outlier on other resources), readers (all GetRules / GetRulesOfResource, resource node list and statistics getters). " +
			"The worker is built with -race; the seeded scheduler (random walk / PCT) picks the runner at every atomic access and lock operation. Oracles: (1) any race-detector report ends the run as a violation (replay = the regenerated case and its seeded schedule); (2) no panic escapes, no deadlock among the callers, every caller finishes; (3) every request on a churned resource is blocked by a block<n> rule - never admitted and never blocked by anything else (a mixed reading of two lists); (4) requests on the stable and the free resource are decided as if there were no churn. " +
			"non-trivial = a request overlapped a rule switch of its resource and both lists were observed; distinct = hash(config, ops, (task, access kind) sequence)",
		Assumptions: []string{"listener and generator registration (documented as not thread-safe) are outside the domain", "the race detector's shadow memory is bounded: runs are kept short", "a race report kills the worker (halt_on_error); the case in flight is regenerated from the progress file, it is not minimised"},
		Real:        []string{"api.Entry/TraceError/Exit", "all rule managers (load / clear / getters)", "core/stat node storage and getters", "slot chain, context and option pools"},
		Stub:        []string{"goroutine scheduling (cooperative seeded scheduler, spin hand-off in norace code)", "util.Clock (virtual clock)", "sync.Pool (SimPool)"},
	}
}

// resources
const (
	rFlow   = "churn-flow"
	rIso    = "churn-iso"
	rHot    = "churn-hot"
	rStable = "stable"
	rFree   = "free"
	rOther  = "other"
	// rBudget: a hot-parameter resource whose two rule lists both reject the workload's request, for different
	// reasons: list 0 = [per-user, threshold 2, used up at start], list 1 = [per-user, threshold 100; deny-tenant,
	// threshold 0 on the second argument]. A request decided by list 0's controllers on list 1's budget is admitted.
	rBudget = "churn-budget"
	// rBudget2: one hot-parameter rule whose threshold the churn moves between 1000 and 1 (the same rule, edited);
	// every request on it carries a value nobody has used before. At rest, under the threshold-1 rule, a value
	// that was used once has at most one token left (its one request may have fallen between the copy of the
	// budget and the switch) - the new rule never decides on a budget of 1000 written by the old one.
	rBudget2 = "churn-budget2"
)

var resNames = []string{rFlow, rIso, rHot, rStable, rFree}

func (P) Gen(rng *sim.Rng, tier string) *harness.Case {
	cfg := Cfg{Origin: 1700000000000 + rng.U64Range(0, 100000)}
	if rng.Chance(0.3) {
		cfg.HotCap = int64(rng.Range(1, 2))
	}
	k := rng.Range(3, 6)
	callers := make([][]harness.Op, k)
	for i := range callers {
		role := rng.Intn(3)
		if i == 0 {
			role = 0
		}
		if i == 1 {
			role = 1
		}
		held := 0
		for j, m := 0, rng.Range(4, 14); j < m; j++ {
			switch role {
			case 0: // traffic
				switch rng.Intn(5) {
				case 0:
					if held > 0 {
						callers[i] = append(callers[i], harness.Op{K: "exit", E: rng.Intn(held), F: rng.Chance(0.3)})
						continue
					}
					fallthrough
				case 1:
					if rng.Chance(0.25) {
						callers[i] = append(callers[i], harness.Op{K: "breq"})
						continue
					}
					if rng.Chance(0.2) {
						callers[i] = append(callers[i], harness.Op{K: "breq2", N: uint64(i*100 + j)})
						continue
					}
					if rng.Chance(0.3) {
						// TraceError on an entry another caller holds (and may be exiting at the same moment)
						callers[i] = append(callers[i], harness.Op{K: "xtrace", R: rng.Intn(k), E: rng.Intn(3)})
						continue
					}
					// a request through the outlier slots (custom chain) on a resource with an outlier rule
					callers[i] = append(callers[i], harness.Op{K: "oreq", R: rng.Intn(3), F: rng.Chance(0.5)})
				default:
					op := harness.Op{K: "req", R: rng.Intn(len(resNames)), F: rng.Chance(0.3), N: uint64(rng.Intn(3))}
					if cfg.HotCap > 0 && rng.Chance(0.6) {
						op.R = 2 // the hot-parameter resource: more values in rotation than its caches hold
					}
					if op.F {
						held++
					}
					callers[i] = append(callers[i], op)
				}
			case 1: // churn: R selects the module, N the list
				callers[i] = append(callers[i], harness.Op{K: "churn", R: rng.Intn(8), N: uint64(rng.Intn(4)), F: rng.Chance(0.15)})
			default: // reader
				callers[i] = append(callers[i], harness.Op{K: "read", R: rng.Intn(9)})
			}
		}
	}
	c := &harness.Case{Cfg: harness.MustJSON(cfg), Callers: callers}
	// in 40 % of the cases the clock moves while the callers run (bucket and window boundaries are crossed between a
	// caller's reading of the time and its use of it)
	var ticks []uint64
	if rng.Chance(0.4) {
		for i, n := 0, rng.Range(2, 12); i < n; i++ {
			// (10 s is the cycle of the resource statistic: a caller that read the time a whole cycle ago meets, in
			// the slot it selects, a bucket of the next cycle)
			ticks = append(ticks, []uint64{1, 250, 499, 500, 501, 1000, 2000, 10000, 10000, 10000, 10000, 20000}[rng.Intn(12)]*1e6)
		}
	}
	c.Sched = harness.GenSched(rng, ticks, 800*k)
	c.Sched.MaxSteps = 200000
	c.Pool = harness.GenPool(rng)
	return c
}

// the distinguishable lists per churned module. Every list contains exactly one rule that blocks every request of
// the workload (ID "block<n>") and one or two that never block; the lists differ in order and length so that a
// switch keeps, moves, drops and adds controllers in every combination (a kept first rule followed by dropped ones
// is the case where a loader that edits the live list in place exposes a list that is neither the old nor the new).
func flowList(n uint64) []*flow.Rule {
	mk := func(id string, t float64) *flow.Rule {
		return &flow.Rule{ID: id, Resource: rFlow, TokenCalculateStrategy: flow.Direct, ControlBehavior: flow.Reject, Threshold: t}
	}
	// a never-blocking rule limited by the traffic of ANOTHER resource (the free one) with a statistic of its own:
	// its window is fed, through the manager's reference index, by requests on that other resource while this
	// resource's list is being switched
	assoc := func(id string) *flow.Rule {
		return &flow.Rule{ID: id, Resource: rFlow, TokenCalculateStrategy: flow.Direct, ControlBehavior: flow.Reject, Threshold: 1e9,
			RelationStrategy: flow.AssociatedResource, RefResource: rFree, StatIntervalInMs: 20000}
	}
	switch n % 4 {
	case 0:
		return []*flow.Rule{mk("pass0", 1e9), mk("block0", 0)}
	case 1:
		return []*flow.Rule{mk("block1", 0), mk("pass1", 1e9)}
	case 2:
		return []*flow.Rule{mk("block2", 0), mk("pass2", 5e8), assoc("pass2b")}
	}
	return []*flow.Rule{mk("pass3", 5e8), assoc("pass3b"), mk("block3", 0)}
}

func budgetList(n uint64) []*hotspot.Rule {
	per := func(t int64) *hotspot.Rule {
		return &hotspot.Rule{ID: "per-user", Resource: rBudget, MetricType: hotspot.QPS, ControlBehavior: hotspot.Reject, ParamIndex: 0, Threshold: t, DurationInSec: 1000000, SpecificItems: map[interface{}]int64{}}
	}
	if n%2 == 0 {
		return []*hotspot.Rule{per(2)}
	}
	return []*hotspot.Rule{per(100), {ID: "deny-tenant", Resource: rBudget, MetricType: hotspot.QPS, ControlBehavior: hotspot.Reject, ParamIndex: 1, Threshold: 0, DurationInSec: 1000000, SpecificItems: map[interface{}]int64{}}}
}

func budget2List(n uint64) []*hotspot.Rule {
	t := int64(1000)
	if n%2 == 1 {
		t = 1
	}
	return []*hotspot.Rule{{ID: "per-value", Resource: rBudget2, MetricType: hotspot.QPS, ControlBehavior: hotspot.Reject, ParamIndex: 0, Threshold: t, DurationInSec: 1000000, SpecificItems: map[interface{}]int64{}}}
}

func isoList(n uint64) []*isolation.Rule {
	mk := func(id string, t uint32) *isolation.Rule {
		return &isolation.Rule{ID: id, Resource: rIso, MetricType: isolation.Concurrency, Threshold: t}
	}
	switch n % 4 {
	case 0:
		return []*isolation.Rule{mk("pass0", 1000000), mk("block0", 2)}
	case 1:
		return []*isolation.Rule{mk("block1", 1), mk("pass1", 1000000)}
	case 2:
		return []*isolation.Rule{mk("block2", 1), mk("pass2", 500000), mk("pass2b", 1000000)}
	}
	return []*isolation.Rule{mk("pass3", 500000), mk("pass3b", 1000000), mk("block3", 2)}
}

func hotList(n uint64, capacity int64) []*hotspot.Rule {
	mk := func(id string, t int64) *hotspot.Rule {
		return &hotspot.Rule{ID: id, Resource: rHot, MetricType: hotspot.QPS, ControlBehavior: hotspot.Reject, ParamIndex: 0, Threshold: t, DurationInSec: 1, SpecificItems: map[interface{}]int64{}, ParamsMaxCapacity: capacity}
	}
	switch n % 4 {
	case 0:
		return []*hotspot.Rule{mk("pass0", 1000000), mk("block0", 0)}
	case 1:
		return []*hotspot.Rule{mk("block1", 0), mk("pass1", 1000000)}
	case 2:
		return []*hotspot.Rule{mk("block2", 0), mk("pass2", 500000), mk("pass2b", 1000000)}
	}
	return []*hotspot.Rule{mk("pass3", 500000), mk("pass3b", 1000000), mk("block3", 0)}
}

type result struct {
	res      int
	admitted bool
	btype    base.BlockType
	ruleID   string
	inv, ret uint64
}

type churnRec struct {
	module   int
	inv, ret uint64
}

func ruleID(be *base.BlockError) string {
	switch r := be.TriggeredRule().(type) {
	case *flow.Rule:
		return r.ID
	case *isolation.Rule:
		return r.ID
	case *hotspot.Rule:
		return r.ID
	}
	return fmt.Sprintf("%v", be.TriggeredRule())
}

func (P) Exec(c *harness.Case) *harness.Outcome {
	o := harness.NewOutcome()
	var cfg Cfg
	if err := json.Unmarshal(c.Cfg, &cfg); err != nil {
		o.Infra = err.Error()
		return o
	}
	if len(c.Callers) == 0 {
		return o
	}
	env := harness.Reset(cfg.Origin*1e6, harness.DefaultGeometry())
	pc := harness.InstallPool(c)
	defer func() {
		if pc != nil {
			o.PoolLog = append([]int{}, pc.Log...)
		}
		sim.SetPoolCtl(nil)
	}()
	// initial state: list 0 everywhere, the stable rule
	if !harness.Call(o, "C15.panic", 0, func() {
		_, _ = flow.LoadRulesOfResource(rFlow, flowList(0))
		_, _ = flow.LoadRulesOfResource(rStable, []*flow.Rule{{ID: "stable-block", Resource: rStable, TokenCalculateStrategy: flow.Direct, ControlBehavior: flow.Reject, Threshold: 0}})
		_, _ = isolation.LoadRulesOfResource(rIso, isoList(0))
		_, _ = hotspot.LoadRulesOfResource(rHot, hotList(0, cfg.HotCap))
		// the free resource carries a hot-parameter CONCURRENCY rule that never blocks: every admitted request on it
		// looks its value up in the per-value counter cache on entry, on pass and on completion
		_, _ = hotspot.LoadRulesOfResource(rFree, []*hotspot.Rule{{ID: "free-conc", Resource: rFree, MetricType: hotspot.Concurrency, ParamIndex: 0, Threshold: 1000000}})
		_, _ = hotspot.LoadRulesOfResource(rBudget2, budget2List(0))
		_, _ = hotspot.LoadRulesOfResource(rBudget, budgetList(0))
		for i := 0; i < 2; i++ {
			if e, _ := sentinel.Entry(rBudget, harness.EntryOpts(1, false, []interface{}{"u1", "t1"}, nil, nil)...); e != nil {
				e.Exit()
			}
		}
	}) {
		return o
	}
	osc := sentinel.BuildDefaultSlotChain()
	osc.AddRuleCheckSlot(outlier.DefaultSlot)
	osc.AddStatSlot(outlier.DefaultMetricStatSlot)
	harness.Call(o, "C15.panic", 0, func() {
		_, _ = outlier.LoadRules([]*outlier.Rule{{Rule: &cb.Rule{Id: "out-init", Resource: rOther, Strategy: cb.ErrorCount, RetryTimeoutMs: 1000, MinRequestAmount: 1, StatIntervalMs: 1000, Threshold: 1}, MaxEjectionPercent: 0.5}})
	})
	k := len(c.Callers)
	results := make([][]*result, k)
	churns := make([][]*churnRec, k)
	reads := make([]int, k)
	bizErr := errors.New("biz")
	// what each caller holds, visible to the others (xtrace). Published with a real atomic store / load: handing
	// a pointer to another goroutine needs synchronisation in any program, and without that edge the race
	// detector would report the other caller's first touch of the entry against its construction.
	shared := make([][8]atomic.Pointer[base.SentinelEntry], k)
	xtraces := make([]int, k)
	budgetLeaks, budgetReqs := make([]int, k), make([]int, k)
	getterSeen := make([][]string, k) // what the per-resource getters reported during the concurrent section, per caller
	fresh := make([][]string, k)
	harness.RunE2(c, o, "C15", env.Clock, k, func(task int) {
		var held []*base.SentinelEntry
		for _, op := range c.Callers[task] {
			switch op.K {
			case "xtrace":
				if op.R >= 0 && op.R < k && op.R != task && op.E >= 0 && op.E < 8 {
					if e := shared[op.R][op.E].Load(); e != nil {
						xtraces[task]++
						sentinel.TraceError(e, bizErr)
					}
				}
			case "req":
				if op.R < 0 || op.R >= len(resNames) {
					continue
				}
				r := &result{res: op.R, inv: sim.NextSeq()}
				// (a few distinct argument values: the per-value caches then hold several entries and every lookup reorders them)
				e, be := sentinel.Entry(resNames[op.R], harness.EntryOpts(3, false, []interface{}{7 + int(op.N%3)}, nil, nil)...)
				r.ret = sim.NextSeq()
				if e != nil {
					r.admitted = true
					if op.F {
						if len(held) < 8 {
							shared[task][len(held)].Store(e)
						}
						held = append(held, e)
					} else {
						e.Exit()
					}
				} else if be != nil {
					r.btype = be.BlockType()
					r.ruleID = ruleID(be)
				}
				results[task] = append(results[task], r)
			case "breq":
				if e, _ := sentinel.Entry(rBudget, harness.EntryOpts(1, false, []interface{}{"u1", "t1"}, nil, nil)...); e != nil {
					budgetLeaks[task]++
					e.Exit()
				}
				budgetReqs[task]++
			case "breq2":
				v := fmt.Sprintf("fresh-%d", op.N)
				if e, _ := sentinel.Entry(rBudget2, harness.EntryOpts(1, false, []interface{}{v}, nil, nil)...); e != nil {
					e.Exit()
				}
				fresh[task] = append(fresh[task], v)
			case "oreq":
				if e, _ := sentinel.Entry(rOther, sentinel.WithSlotChain(osc)); e != nil {
					_ = e.Context().FilterNodes()
					sentinel.TraceCallee(e, fmt.Sprintf("10.1.1.%d:80", op.R))
					if op.F {
						sentinel.TraceError(e, bizErr)
					}
					e.Exit()
				}
			case "exit":
				if op.E >= 0 && op.E < len(held) && held[op.E] != nil {
					if op.F {
						sentinel.TraceError(held[op.E], bizErr)
					}
					held[op.E].Exit()
					held[op.E] = nil
				}
			case "churn":
				cr := &churnRec{module: op.R, inv: sim.NextSeq()}
				switch op.R {
				case 0:
					_, _ = flow.LoadRulesOfResource(rFlow, flowList(op.N))
				case 1:
					_, _ = isolation.LoadRulesOfResource(rIso, isoList(op.N))
				case 2:
					_, _ = hotspot.LoadRulesOfResource(rHot, hotList(op.N, cfg.HotCap))
				case 3:
					if op.F {
						_ = cb.ClearRules()
					} else {
						_, _ = cb.LoadRules([]*cb.Rule{{Id: fmt.Sprintf("cb%d", op.N), Resource: rOther, Strategy: cb.ErrorCount, RetryTimeoutMs: 1000 + uint32(op.N), MinRequestAmount: 5, StatIntervalMs: 1000, Threshold: 3}})
					}
				case 6:
					_, _ = hotspot.LoadRulesOfResource(rBudget, budgetList(op.N))
				case 7:
					_, _ = hotspot.LoadRulesOfResource(rBudget2, budget2List(op.N))
				case 4:
					if op.F {
						_ = system.ClearRules()
					} else {
						_, _ = system.LoadRules([]*system.Rule{{ID: fmt.Sprintf("sys%d", op.N), MetricType: system.Concurrency, TriggerCount: 1e9 + float64(op.N), Strategy: system.NoAdaptive}})
					}
				default:
					if op.F {
						_ = outlier.ClearRules()
					} else {
						// (the breaker rules of the lists differ in a field, the retry timeout: a node breaker can then be told
						// from one built for another list - rules that differ in their ID only share their breakers)
						_, _ = outlier.LoadRules([]*outlier.Rule{{Rule: &cb.Rule{Id: fmt.Sprintf("out%d", op.N), Resource: rOther, Strategy: cb.ErrorCount, RetryTimeoutMs: 2000 + uint32(op.N), MinRequestAmount: 1, StatIntervalMs: 1000, Threshold: 1}, MaxEjectionPercent: 0.5 + float64(op.N)/10}})
					}
				}
				cr.ret = sim.NextSeq()
				churns[task] = append(churns[task], cr)
			case "read":
				reads[task]++
				switch op.R {
				case 0:
					_ = flow.GetRules()
					var ids []string
					for _, r := range flow.GetRulesOfResource(rFlow) {
						ids = append(ids, r.ID)
					}
					getterSeen[task] = append(getterSeen[task], "flow "+strings.Join(ids, ","))
				case 1:
					_ = isolation.GetRules()
					_ = isolation.GetRulesOfResource(rIso)
				case 2:
					_ = hotspot.GetRules()
					var ids []string
					for _, r := range hotspot.GetRulesOfResource(rHot) {
						ids = append(ids, r.ID)
					}
					getterSeen[task] = append(getterSeen[task], "hotspot "+strings.Join(ids, ","))
				case 3:
					_ = cb.GetRules()
					_ = cb.GetRulesOfResource(rOther)
				case 4:
					_ = system.GetRules()
				case 5:
					_ = outlier.GetRules()
				case 6:
					// (the list comes out of a Go map in the runtime's random order: sorted, so that one seed is one
					// schedule - the determinism self-test found run 17 of seed 7 parting ways here)
					nodes := stat.ResourceNodeList()
					sort.Slice(nodes, func(i, j int) bool { return nodes[i].ResourceName() < nodes[j].ResourceName() })
					for _, n := range nodes {
						_ = n.GetQPS(base.MetricEventPass)
						_ = n.CurrentConcurrency()
					}
				case 7:
					if n := stat.GetResourceNode(rFree); n != nil {
						_ = n.GetSum(base.MetricEventPass)
						_ = n.AvgRT()
						_ = n.MinRT()
						_ = n.MaxConcurrency()
					}
				default:
					_ = stat.InboundNode().GetQPS(base.MetricEventPass)
				}
			}
		}
		for _, e := range held {
			if e != nil {
				e.Exit()
			}
		}
	}, nil)
	if o.Failed() {
		return o
	}
	// a getter never reports a list that nobody loaded: the lists of the workload differ in their IDs, rules that come
	// again with the same fields under another ID keep their controller - what is reported switches with the list
	{
		loaded := map[string]bool{}
		for n := uint64(0); n < 4; n++ {
			var a, b []string
			for _, r := range flowList(n) {
				a = append(a, r.ID)
			}
			for _, r := range hotList(n, cfg.HotCap) {
				b = append(b, r.ID)
			}
			loaded["flow "+strings.Join(a, ",")], loaded["hotspot "+strings.Join(b, ",")] = true, true
		}
		var all []string
		for _, l := range getterSeen {
			all = append(all, l...)
		}
		for _, g := range all {
			o.Probe("per_resource_getter_checked_during_churn")
			if !loaded[g] {
				o.Fail("C15.getter-reports-a-list-nobody-loaded", 0, "during the rule churn GetRulesOfResource reported the rules [%s]: none of the four lists the workload loads for that resource (IDs in order) - a rule switch was seen half done", g)
				return o
			}
		}
	}
	// a panic inside Sentinel that the slot chain recovered is still a panic: the request was waved through
	// unchecked and unrecorded (the workload passes no argument that makes a rule check panic by itself)
	for _, m := range env.Log.ErrMsgs() {
		if strings.Contains(m, "panic") {
			o.Fail("C15.internal-panic", 0, "Sentinel logged %q during the run (all error messages: %q)", m, env.Log.ErrMsgs())
			return o
		}
	}
	if cfg.HotCap > 0 {
		o.Probe("per_value_caches_smaller_than_the_value_set")
	}
	// the outlier module at rest: every node breaker of the resource was built from the rule in force now (a
	// completion that raced with a rule switch must not leave a breaker of the replaced rule behind: requests that
	// start after the switch would be decided by the new rule together with a breaker of the old one, for good)
	{
		cur := uint32(0)
		for _, r := range outlier.GetRules() {
			if r.Rule != nil && r.Resource == rOther {
				cur = r.RetryTimeoutMs
			}
		}
		var stale []string
		harness.Call(o, "C15.panic", 0, func() {
			for addr, b := range outlier.VerifNodeBreakers(rOther) {
				if b == nil || b.BoundRule() == nil || b.BoundRule().RetryTimeoutMs != cur {
					id := "?"
					if b != nil && b.BoundRule() != nil {
						id = fmt.Sprintf("%s (retry timeout %d)", b.BoundRule().Id, b.BoundRule().RetryTimeoutMs)
					}
					stale = append(stale, addr+" <- rule "+id)
				}
			}
		})
		sort.Strings(stale)
		o.Probe("outlier_breakers_checked_at_rest")
		if len(stale) > 0 {
			o.Fail("C15.breaker-of-replaced-rule-left-behind", 0, "the outlier rule in force for %s has retry timeout %d (0 = no rule), but these node breakers were built from another rule: %v", rOther, cur, stale)
			return o
		}
	}
	{
		leaks, reqs := 0, 0
		for t := range budgetLeaks {
			leaks += budgetLeaks[t]
			reqs += budgetReqs[t]
		}
		if reqs > 0 {
			o.Probe("request_on_the_budget_resource")
		}
		if leaks > 0 {
			o.Fail("C15.mixed-rule-list", 0, "%d of %d requests on %s were admitted: its old rule list (per-user threshold 2, used up) rejects them and its new one (per-user threshold 100, deny-tenant threshold 0) rejects them - they were decided by controllers of one list on the token budget of the other", leaks, reqs, rBudget)
			return o
		}
	}
	// at rest, under the threshold-1 rule: no value used once during the run is admitted more than once
	{
		var passed int
		var which string
		if !harness.Call(o, "C15.panic", 0, func() {
			_, _ = hotspot.LoadRulesOfResource(rBudget2, budget2List(1))
			for _, vs := range fresh {
				for _, v := range vs {
					n := 0
					for i := 0; i < 3; i++ {
						if e, _ := sentinel.Entry(rBudget2, harness.EntryOpts(1, false, []interface{}{v}, nil, nil)...); e != nil {
							e.Exit()
							n++
						}
					}
					if n > passed {
						passed, which = n, v
					}
					o.Probe("fresh_value_checked_at_rest")
				}
			}
		}) {
			return o
		}
		if passed > 1 {
			o.Fail("C15.new-rule-on-the-old-rules-budget", 0, "%s carries one hot-parameter rule whose threshold the run moved between 1000 and 1 per 1000000 s; at rest, with the threshold-1 rule in force, the value %q - used exactly once during the run - was admitted %d more times of 3: the rule in force decides on a budget the replaced rule wrote (a request that raced with the switch may add one, never more)", rBudget2, which, passed)
			return o
		}
	}
	for _, n := range xtraces {
		if n > 0 {
			o.ProbeN("trace_error_on_an_entry_of_another_caller", n)
		}
	}
	seen := map[string]bool{}
	for t := range results {
		for _, r := range results[t] {
			name := resNames[r.res]
			switch name {
			case rFlow, rIso, rHot:
				want := map[string]base.BlockType{rFlow: base.BlockTypeFlow, rIso: base.BlockTypeIsolation, rHot: base.BlockTypeHotSpotParamFlow}[name]
				if r.admitted || r.btype != want || !strings.HasPrefix(r.ruleID, "block") {
					o.Fail("C15.mixed-rule-list", int(r.ret), "request on %s: admitted=%v block=%s rule=%q; under every rule list it must be blocked by that list's block<n> rule (the request saw a mixture of two lists, or a half-built one)", name, r.admitted, r.btype, r.ruleID)
					return o
				}
				seen[name+r.ruleID] = true
				// did it overlap a switch of its own module?
				mod := map[string]int{rFlow: 0, rIso: 1, rHot: 2}[name]
				for _, l := range churns {
					for _, cr := range l {
						if cr.module == mod && cr.inv < r.ret && cr.ret > r.inv {
							o.Probe("request_raced_with_rule_switch")
							o.Nontrivial = true
						}
					}
				}
			case rStable:
				o.Probe("stable_resource_checked")
				if r.admitted || r.btype != base.BlockTypeFlow || r.ruleID != "stable-block" {
					o.Fail("C15.other-resource-affected", int(r.ret), "request on the stable resource: admitted=%v block=%s rule=%q; its own rule (threshold 0) must block it whatever happens to other resources", r.admitted, r.btype, r.ruleID)
					return o
				}
			case rFree:
				if !r.admitted {
					o.Fail("C15.other-resource-affected", int(r.ret), "request on the resource without rules was blocked: %s %q", r.btype, r.ruleID)
					return o
				}
			}
		}
	}
	for _, n := range []string{rFlow, rIso, rHot} {
		d := 0
		for i := 0; i < 4; i++ {
			if seen[fmt.Sprintf("%sblock%d", n, i)] {
				d++
			}
		}
		if d >= 2 {
			o.Probe("both_rule_lists_observed")
		}
	}
	nr := 0
	for _, x := range reads {
		nr += x
	}
	if nr > 0 {
		o.ProbeN("getter_ran_concurrently", nr)
	}
	return o
}
