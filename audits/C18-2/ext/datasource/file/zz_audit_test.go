package file

import (
	"fmt"
	"io/ioutil"
	"os"
	"path/filepath"
	"sync"
	"testing"
	"time"

	"github.com/alibaba/sentinel-golang/core/flow"
	"github.com/alibaba/sentinel-golang/core/hotspot"
	"github.com/alibaba/sentinel-golang/ext/datasource"
)

func auditFlowRulesInForce() string {
	return fmt.Sprintf("%+v", flow.GetRulesOfResource("audit-a")) + fmt.Sprintf("%+v", flow.GetRulesOfResource("audit-b"))
}

// Finding 1: a hotspot payload whose rule carries a specific item that cannot be decoded
// (valKind int, valStr "1000x") is neither rejected nor applied as written: Handle reports
// success and the rule goes into force WITHOUT that item.
func TestAuditHotspotRuleWithUndecodableSpecificItemIsHalfApplied(t *testing.T) {
	defer hotspot.ClearRules()
	h := datasource.NewHotSpotParamRulesHandler(datasource.HotSpotParamRuleJsonArrayParser)

	previous := `[{"resource":"audit-prev","metricType":1,"durationInSec":1,"threshold":5}]`
	if err := h.Handle([]byte(previous)); err != nil {
		t.Fatalf("setup: %v", err)
	}
	if len(hotspot.GetRulesOfResource("audit-prev")) != 1 {
		t.Fatalf("setup: previous rule not in force")
	}

	// value 1000 is meant to be banned (threshold 0), everything else gets 100 per second;
	// the value string has a typo.
	payload := `[{"resource":"audit-hs","metricType":1,"durationInSec":1,"paramIndex":0,"threshold":100,
		"specificItems":[{"valKind":0,"valStr":"1000x","threshold":0},{"valKind":1,"valStr":"vip","threshold":500}]}]`
	err := h.Handle([]byte(payload))
	inForce := hotspot.GetRulesOfResource("audit-hs")
	prev := hotspot.GetRulesOfResource("audit-prev")

	if err != nil {
		// rejected: fine, as long as the previous rules stay
		if len(prev) != 1 || len(inForce) != 0 {
			t.Fatalf("payload rejected (%v) but the previous rules were not left in force: prev=%+v new=%+v", err, prev, inForce)
		}
		return
	}
	if len(inForce) == 0 {
		// the whole rule was treated as invalid and left out: also faithful
		return
	}
	if len(inForce[0].SpecificItems) != 2 {
		t.Fatalf("HALF-APPLIED PAYLOAD: Handle returned nil for a hotspot rule with 2 specific items, one of them undecodable "+
			"(valKind int, valStr \"1000x\"); the rule is in force with only %d specific item(s): %+v. "+
			"The property demands that a payload is applied faithfully (exactly the listed rules) or rejected with an error "+
			"leaving the previous rules in force - never a rule that differs from the one that was written",
			len(inForce[0].SpecificItems), inForce[0].SpecificItems)
	}
}

// Finding 2: RefreshableFileDataSource.Initialize reads the file first and registers the inotify
// watch afterwards. A write that lands between the two is never seen: the datasource does not
// converge to the file's content.
func TestAuditFileWriteBetweenInitialReadAndWatchIsLost(t *testing.T) {
	flow.ClearRules()
	defer flow.ClearRules()
	dir := t.TempDir()
	path := filepath.Join(dir, "flow.json")
	contentA := `[{"resource":"audit-a","threshold":1}]`
	contentB := `[{"resource":"audit-b","threshold":2}]`
	if err := ioutil.WriteFile(path, []byte(contentA), 0644); err != nil {
		t.Fatal(err)
	}

	// The converter runs inside Initialize, after the initial read of the file and before the
	// watch is added. Another writer (its own goroutine) rewrites the file at exactly that moment.
	var once sync.Once
	converter := func(src []byte) (interface{}, error) {
		once.Do(func() {
			done := make(chan struct{})
			go func() {
				defer close(done)
				_ = ioutil.WriteFile(path, []byte(contentB), 0644)
			}()
			<-done
		})
		return datasource.FlowRuleJsonArrayParser(src)
	}
	ds := NewFileDataSource(path, datasource.NewFlowRulesHandler(converter))
	if err := ds.Initialize(); err != nil {
		t.Fatalf("Initialize: %v", err)
	}
	defer ds.Close()

	deadline := time.Now().Add(3 * time.Second)
	for time.Now().Before(deadline) {
		if len(flow.GetRulesOfResource("audit-b")) == 1 && len(flow.GetRulesOfResource("audit-a")) == 0 {
			return // converged
		}
		time.Sleep(50 * time.Millisecond)
	}
	onDisk, _ := ioutil.ReadFile(path)
	t.Fatalf("LOST WRITE: the file was rewritten while Initialize was between its initial read and watcher.Add; "+
		"3s after Initialize returned the file contains %s but the rules in force are still those of the old content: %s. "+
		"The property demands that the file datasource converges to the file's current content after each write",
		onDisk, auditFlowRulesInForce())
}

// Finding 3: removing the watched file while any process still holds it open does not clear the
// rules: inotify delivers only IN_ATTRIB (fsnotify Chmod) at unlink time, the datasource tries to
// re-read the file, gets ENOENT, logs it and keeps the old rules. IN_DELETE_SELF arrives only when
// the last descriptor is closed - possibly never.
func TestAuditFileRemovedWhileHeldOpenDoesNotClearTheRules(t *testing.T) {
	flow.ClearRules()
	defer flow.ClearRules()
	dir := t.TempDir()
	path := filepath.Join(dir, "flow.json")
	if err := ioutil.WriteFile(path, []byte(`[{"resource":"audit-a","threshold":1}]`), 0644); err != nil {
		t.Fatal(err)
	}
	ds := NewFileDataSource(path, datasource.NewFlowRulesHandler(datasource.FlowRuleJsonArrayParser))
	if err := ds.Initialize(); err != nil {
		t.Fatalf("Initialize: %v", err)
	}
	defer ds.Close()
	if len(flow.GetRulesOfResource("audit-a")) != 1 {
		t.Fatalf("setup: the file's rule is not in force")
	}

	// some other reader (tail -f, a backup job, an editor) has the file open
	other, err := os.Open(path)
	if err != nil {
		t.Fatal(err)
	}
	defer other.Close()

	if err := os.Remove(path); err != nil {
		t.Fatal(err)
	}
	deadline := time.Now().Add(3 * time.Second)
	for time.Now().Before(deadline) {
		if len(flow.GetRulesOfResource("audit-a")) == 0 {
			return // cleared
		}
		time.Sleep(50 * time.Millisecond)
	}
	_, statErr := os.Stat(path)
	t.Fatalf("RULES SURVIVE THE REMOVAL OF THE FILE: the watched file was removed 3s ago (stat: %v) while another descriptor "+
		"on it was open; the rules in force are still %s. The property demands that the file datasource clears the rules "+
		"when the file is removed", statErr, auditFlowRulesInForce())
}
