package outlier

import (
	"errors"
	"testing"
	"time"

	sentinel "github.com/alibaba/sentinel-golang/api"
	"github.com/alibaba/sentinel-golang/core/base"
	"github.com/alibaba/sentinel-golang/core/circuitbreaker"
)

// auditClosedListener stands for any state change listener (they are called synchronously from within
// CircuitBreaker.OnRequestComplete): onClosed runs after the breaker of the node has become Closed and
// before MetricStatSlot.OnCompleted goes on to tell the recycler about the successful completion.
type auditClosedListener struct {
	onClosed func()
}

func (l *auditClosedListener) OnTransformToClosed(_ circuitbreaker.State, _ circuitbreaker.Rule) {
	if l.onClosed != nil {
		l.onClosed()
	}
}
func (l *auditClosedListener) OnTransformToOpen(_ circuitbreaker.State, _ circuitbreaker.Rule, _ interface{}) {
}
func (l *auditClosedListener) OnTransformToHalfOpen(_ circuitbreaker.State, _ circuitbreaker.Rule) {}

func auditRecyclerHas(resource, node string) bool {
	recyclerMutex.Lock()
	r := recyclers[resource]
	recyclerMutex.Unlock()
	if r == nil {
		return false
	}
	r.mtx.Lock()
	defer r.mtx.Unlock()
	_, ok := r.status[node]
	return ok
}

func auditWaitFor(cond func() bool, limit time.Duration) bool {
	deadline := time.Now().Add(limit)
	for time.Now().Before(deadline) {
		if cond() {
			return true
		}
		time.Sleep(time.Millisecond)
	}
	return cond()
}

// A passive probe of an ejected node completes successfully and closes the node's breaker shortly before the
// node's recycle timer is due. MetricStatSlot.OnCompleted updates the breaker first and marks the node as
// recovered in the recycler afterwards, without anything that keeps the timer out in between: a timer that
// fires between the two steps still finds the node "not recovered" and recycles it - a node whose successful
// completion has already closed its breaker.
func TestAuditSuccessfulProbeCompletingWhileRecycleTimerFiresIsRecycled(t *testing.T) {
	const res = "audit4-recycle-vs-completion"
	const bad, good = "10.0.0.1:80", "10.0.0.2:80"

	sc := base.NewSlotChain()
	sc.AddRuleCheckSlot(DefaultSlot)
	sc.AddStatSlot(DefaultMetricStatSlot)

	defer func() {
		circuitbreaker.ClearStateChangeListeners()
		_ = ClearRules()
	}()
	_ = ClearRules()
	if _, err := LoadRules([]*Rule{{
		Rule: &circuitbreaker.Rule{
			Resource:         res,
			Strategy:         circuitbreaker.ErrorCount,
			RetryTimeoutMs:   300,
			MinRequestAmount: 1,
			StatIntervalMs:   60000,
			Threshold:        1,
		},
		EnableActiveRecovery: false,
		MaxEjectionPercent:   1.0,
		RecycleIntervalS:     1,
	}}); err != nil {
		t.Fatal(err)
	}

	call := func(pick func(filter, half []string) string, callErr error) (filter, half []string) {
		e, b := sentinel.Entry(res, sentinel.WithSlotChain(sc))
		if b != nil {
			t.Fatalf("unexpected block: %v", b)
		}
		filter = append([]string(nil), e.Context().FilterNodes()...)
		half = append([]string(nil), e.Context().HalfOpenNodes()...)
		sentinel.TraceCallee(e, pick(filter, half))
		if callErr != nil {
			sentinel.TraceError(e, callErr)
		}
		e.Exit()
		return
	}
	to := func(addr string) func(_, _ []string) string { return func(_, _ []string) string { return addr } }

	// both nodes become known; the bad one fails once and is ejected (threshold 1)
	call(to(good), nil)
	call(to(bad), errors.New("boom"))
	if st := getNodeBreakersOfResource(res)[bad].CurrentState(); st != circuitbreaker.Open {
		t.Fatalf("setup: breaker of %s is %v, want Open", bad, st)
	}

	// the next request is told to filter the bad node; this schedules the node for recycling in 1 s
	filter, _ := call(to(good), nil)
	if len(filter) != 1 || filter[0] != bad {
		t.Fatalf("setup: filter nodes %v, want [%s]", filter, bad)
	}
	if !auditWaitFor(func() bool { return auditRecyclerHas(res, bad) }, time.Second) {
		t.Fatal("setup: the bad node was not scheduled for recycling")
	}

	// The probe's completion closes the breaker BEFORE the recycle timer is due; the listener (any slow
	// listener, a log write, a descheduled goroutine ...) keeps the completing goroutine between
	// breaker.OnRequestComplete and recycler.recover until the timer has fired.
	closedAt := time.Time{}
	var recycledWhileCompleting bool
	circuitbreaker.RegisterStateChangeListeners(&auditClosedListener{onClosed: func() {
		closedAt = time.Now()
		recycledWhileCompleting = auditWaitFor(func() bool { return !auditRecyclerHas(res, bad) }, 3*time.Second)
	}})

	// after the retry timeout the bad node is offered as the half-open node and the probe succeeds
	time.Sleep(350 * time.Millisecond)
	_, half := call(func(_, half []string) string {
		if len(half) != 1 || half[0] != bad {
			t.Fatalf("setup: half-open nodes %v, want [%s]", half, bad)
		}
		return bad
	}, nil)
	_ = half
	if closedAt.IsZero() || !recycledWhileCompleting {
		t.Fatalf("setup: the probe did not close the breaker / the recycle timer did not fire (closedAt=%v)", closedAt)
	}

	if _, known := getNodeBreakersOfResource(res)[bad]; !known {
		t.Fatalf("node %s completed its probe request successfully (its breaker went HalfOpen -> Closed before the recycle "+
			"timer was due), yet the recycle timer that fired while MetricStatSlot.OnCompleted was between "+
			"breaker.OnRequestComplete and recycler.recover removed it: known nodes are now %v. The property demands that "+
			"a node that completes a request successfully is not recycled.", bad, auditKeys(getNodeBreakersOfResource(res)))
	}
}

func auditKeys(m map[string]circuitbreaker.CircuitBreaker) []string {
	keys := make([]string, 0, len(m))
	for k := range m {
		keys = append(keys, k)
	}
	return keys
}
