package flow_test

// Audit tests for the property "Adaptive thresholds stay inside their configured envelope".
// Each test drives the unmodified library through the public API (api.Entry) in virtual time and
// FAILS because a valid warm-up rule never reaches its full threshold under sustained demand.

import (
	"fmt"
	"sync"
	"testing"
	"time"

	sentinel "github.com/alibaba/sentinel-golang/api"
	"github.com/alibaba/sentinel-golang/core/base"
	"github.com/alibaba/sentinel-golang/core/config"
	"github.com/alibaba/sentinel-golang/core/flow"
	"github.com/alibaba/sentinel-golang/logging"
	"github.com/alibaba/sentinel-golang/util"
)

// auditClock is a virtual clock: time only moves when the test moves it (or when the library sleeps).
type auditClock struct {
	mu  sync.Mutex
	now time.Time
}

func (c *auditClock) Now() time.Time {
	c.mu.Lock()
	defer c.mu.Unlock()
	return c.now
}
func (c *auditClock) Sleep(d time.Duration) {
	if d > 0 {
		c.mu.Lock()
		c.now = c.now.Add(d)
		c.mu.Unlock()
	}
}
func (c *auditClock) CurrentTimeMillis() uint64 { return uint64(c.Now().UnixNano()) / 1e6 }
func (c *auditClock) CurrentTimeNano() uint64   { return uint64(c.Now().UnixNano()) }
func (c *auditClock) setMs(ms uint64) {
	c.mu.Lock()
	c.now = time.Unix(0, int64(ms)*1e6)
	c.mu.Unlock()
}

var (
	auditInitOnce sync.Once
	auditResSeq   int
	// virtual time starts after the real time (the global statistic nodes were created with the real
	// clock) and only ever moves forward, across all audit tests
	auditNowMs = uint64(time.Now().UnixNano()/1e6) + 3600*1000
)

func auditInit(t *testing.T) *auditClock {
	auditInitOnce.Do(func() {
		conf := config.NewDefaultConfig()
		conf.Sentinel.Log.Logger = logging.NewConsoleLogger()
		conf.Sentinel.Log.Metric.FlushIntervalSec = 0
		conf.Sentinel.Stat.System.CollectIntervalMs = 0
		conf.Sentinel.Stat.System.CollectMemoryIntervalMs = 0
		conf.Sentinel.Stat.System.CollectCpuIntervalMs = 0
		conf.Sentinel.Stat.System.CollectLoadIntervalMs = 0
		if err := sentinel.InitWithConfig(conf); err != nil {
			t.Fatal(err)
		}
		logging.ResetGlobalLoggerLevel(logging.ErrorLevel)
	})
	clk := &auditClock{}
	clk.setMs(auditNowMs)
	util.SetClock(clk)
	return clk
}

// auditLoad loads the rule for a fresh resource (an idle one: no traffic before) and returns the start
// of the next statistic interval.
func auditLoad(t *testing.T, clk *auditClock, r flow.Rule, intervalMs uint64) (res string, startMs uint64) {
	auditResSeq++
	res = fmt.Sprintf("audit-c11-%d", auditResSeq)
	r.Resource = res
	auditNowMs += 10 * 600 * 1000
	startMs = auditNowMs - auditNowMs%intervalMs + intervalMs
	clk.setMs(startMs - 1)
	if err := flow.IsValidRule(&r); err != nil {
		t.Fatalf("the rule must be valid: %v", err)
	}
	if _, err := flow.LoadRulesOfResource(res, []*flow.Rule{&r}); err != nil {
		t.Fatal(err)
	}
	return res, startMs
}

// auditSaturate issues perInterval evenly spaced single-token requests in each of n statistic intervals
// and returns the tokens admitted per interval.
func auditSaturate(clk *auditClock, res string, startMs, intervalMs uint64, n, perInterval int) []int {
	out := make([]int, n)
	for i := 0; i < n; i++ {
		for j := 0; j < perInterval; j++ {
			clk.setMs(startMs + uint64(i)*intervalMs + uint64(j)*intervalMs/uint64(perInterval))
			e, b := sentinel.Entry(res, sentinel.WithTrafficType(base.Inbound))
			if b == nil {
				out[i]++
				e.Exit()
			}
		}
	}
	auditNowMs = startMs + uint64(n)*intervalMs
	return out
}

// Finding 1: the tokens that passed in the previous interval are recomputed from a QPS figure
// (sum / (interval/1000)) * interval / 1000, which for many interval lengths does not give the sum
// back but a value just below it (3 -> 2.9999999999999996 for 900 ms, 65 -> 64.99999999999999 for one
// minute). The low-traffic test then sees "fewer than threshold/coldFactor" although exactly
// threshold/coldFactor tokens passed, and refills the bucket for ever.
func TestAuditWarmUpNeverWarmsWhenPassCountRoundTripsBelowTheColdRate(t *testing.T) {
	clk := auditInit(t)
	defer util.SetClock(util.NewRealClock())

	cases := []struct {
		name       string
		rule       flow.Rule
		intervalMs uint64
	}{
		{"9 per 900ms, warm-up 9s", flow.Rule{TokenCalculateStrategy: flow.WarmUp, ControlBehavior: flow.Reject,
			Threshold: 9, WarmUpPeriodSec: 9, WarmUpColdFactor: 3, StatIntervalInMs: 900}, 900},
		{"195 per minute, warm-up 1h", flow.Rule{TokenCalculateStrategy: flow.WarmUp, ControlBehavior: flow.Reject,
			Threshold: 195, WarmUpPeriodSec: 3600, WarmUpColdFactor: 3, StatIntervalInMs: 60000}, 60000},
		// control: the same thresholds with an interval for which the round trip is exact
		{"control: 9 per second, warm-up 9s", flow.Rule{TokenCalculateStrategy: flow.WarmUp, ControlBehavior: flow.Reject,
			Threshold: 9, WarmUpPeriodSec: 9, WarmUpColdFactor: 3, StatIntervalInMs: 1000}, 1000},
		{"control: 198 per minute, warm-up 1h", flow.Rule{TokenCalculateStrategy: flow.WarmUp, ControlBehavior: flow.Reject,
			Threshold: 198, WarmUpPeriodSec: 3600, WarmUpColdFactor: 3, StatIntervalInMs: 60000}, 60000},
	}
	for _, c := range cases {
		res, start := auditLoad(t, clk, c.rule, c.intervalMs)
		periodIntervals := int(uint64(c.rule.WarmUpPeriodSec) * 1000 / c.intervalMs)
		n := 4 * periodIntervals // sustained demand for FOUR warm-up periods
		perInterval := 2*int(c.rule.Threshold) + 2
		out := auditSaturate(clk, res, start, c.intervalMs, n, perInterval)
		max := 0
		for _, v := range out {
			if v > max {
				max = v
			}
		}
		last := out[n-1]
		t.Logf("%s: admitted per interval: first %v ... last %v (max %d)", c.name, out[:3], out[n-3:], max)
		if max > int(c.rule.Threshold) {
			t.Errorf("%s: %d tokens admitted in one interval, the threshold is %v", c.name, max, c.rule.Threshold)
		}
		if last < int(c.rule.Threshold) {
			t.Errorf("%s: after a demand of %d requests per interval sustained for %d intervals (4 x the warm-up period of %d intervals) "+
				"the rule still admits only %d per interval (it started at %d, threshold/coldFactor = %v) and never admitted more than %d; "+
				"the property demands that the admitted rate reaches the full threshold %v after sustained demand for the warm-up period",
				c.name, perInterval, n, periodIntervals, last, out[0], c.rule.Threshold/float64(c.rule.WarmUpColdFactor), max, c.rule.Threshold)
		}
	}
}

// Finding 2: warm-up + throttling with MaxQueueingTimeMs = 0. A throttled request passes only when it
// arrives after the paced pass time, so with any demand of finite density the passes are spaced a bit
// wider than 1/coldRate and the pass QPS stays just BELOW threshold/coldFactor: the warm-up bucket
// takes that for low traffic, refills for ever and the rule stays at its cold rate however long the
// demand lasts (here: 250 requests per second against a threshold of 100).
func TestAuditWarmUpThrottlingNeverWarmsUnderSustainedDemand(t *testing.T) {
	clk := auditInit(t)
	defer util.SetClock(util.NewRealClock())

	const threshold = 100
	run := func(requestsPerSecond int) (perSec []int) {
		r := flow.Rule{TokenCalculateStrategy: flow.WarmUp, ControlBehavior: flow.Throttling,
			Threshold: threshold, WarmUpPeriodSec: 10, WarmUpColdFactor: 3, MaxQueueingTimeMs: 0}
		res, start := auditLoad(t, clk, r, 1000)
		// evenly spaced single-token requests for 4 warm-up periods
		return auditSaturate(clk, res, start, 1000, 40, requestsPerSecond)
	}

	// control: one request every 5 ms; 5 ms divides the cold pacing interval of 30 ms, 33-34 pass per second
	control := run(200)
	t.Logf("control, 200 requests/s: admitted per second: first %v ... last %v", control[:3], control[37:])
	if control[39] < 3*threshold/4 {
		t.Errorf("control run (200 requests/s) did not warm up either: last second admitted %d", control[39])
	}

	// one request every 4 ms: a pass every 32 ms instead of every 30 ms, 31-32 per second, "low traffic"
	out := run(250)
	max := 0
	for _, v := range out {
		if v > max {
			max = v
		}
	}
	t.Logf("250 requests/s: admitted per second: first %v ... last %v (max %d)", out[:3], out[37:], max)
	if max > threshold {
		t.Errorf("%d tokens admitted in one second, the threshold is %d", max, threshold)
	}
	// fully warm the rule would pace one pass per 12 ms (10 ms rounded up to the request spacing): 83 per second
	if out[39] < 3*threshold/4 {
		t.Errorf("warm-up + throttling rule {Threshold 100, WarmUpPeriodSec 10, WarmUpColdFactor 3, MaxQueueingTimeMs 0}: after a steady demand of "+
			"250 single-token requests per second (2.5 x the threshold) sustained for 40 s (4 x the warm-up period) the rule still admits only %d per second "+
			"(first second %d, cold rate threshold/coldFactor = 33.3, never more than %d in any second); "+
			"the property demands that the admitted rate reaches the full threshold after sustained demand for the warm-up period "+
			"(with the LOWER demand of 200 requests per second the same rule admits %d per second at the end)",
			out[39], out[0], max, control[39])
	}
}
