package outlier

import (
	"errors"
	"testing"
	"time"

	"github.com/alibaba/sentinel-golang/core/base"
	"github.com/alibaba/sentinel-golang/core/circuitbreaker"
)

func auditCtx(res string, address string) *base.EntryContext {
	ctx := base.NewEmptyEntryContext()
	ctx.Resource = base.NewResourceWrapper(res, base.ResTypeRPC, base.Outbound)
	ctx.Input = &base.SentinelInput{BatchCount: 1}
	ctx.RuleCheckResult = base.NewTokenResultPass()
	ctx.Data = make(map[interface{}]interface{})
	if address != "" {
		ctx.SetPair("address", address)
	}
	return ctx
}

func auditFiltered(res string, node string) bool {
	ctx := auditCtx(res, "")
	r := DefaultSlot.Check(ctx)
	for _, n := range r.FilterNodes() {
		if n == node {
			return true
		}
	}
	return false
}

func auditRule(res string, recycleIntervalS uint32) *Rule {
	return &Rule{
		Rule: &circuitbreaker.Rule{
			Resource:         res,
			Strategy:         circuitbreaker.ErrorCount,
			RetryTimeoutMs:   3600 * 1000, // an ejected node stays ejected for an hour
			MinRequestAmount: 1,
			StatIntervalMs:   3600 * 1000,
			Threshold:        1,
		},
		EnableActiveRecovery: false,
		MaxEjectionPercent:   1.0,
		RecycleIntervalS:     recycleIntervalS,
	}
}

// After a load returns, the rules loaded before are gone: nothing of them may decide about traffic.
// The recycle timer that was started for an ejected node under the replaced rule (RecycleIntervalS 1)
// survives the load and, when it fires, removes the node's breaker that now belongs to the rule in force
// (RecycleIntervalS 3600): the node is taken back into the pool after the interval of the rule that is
// gone, long before either the retry timeout or the recycle interval of the rule in force has passed.
func TestAudit_RecycleTimerOfReplacedRuleRemovesNodeUnderRuleInForce(t *testing.T) {
	const res, node = "audit-outlier-recycle", "10.0.0.1:80"
	if err := ClearRules(); err != nil {
		t.Fatal(err)
	}
	defer ClearRules()

	v1 := auditRule(res, 1)
	if changed, err := LoadRules([]*Rule{v1}); err != nil || !changed {
		t.Fatalf("LoadRules(v1): changed=%v err=%v", changed, err)
	}
	// two failed calls of the node: its breaker opens (error count 2 > threshold 1)
	for i := 0; i < 2; i++ {
		ctx := auditCtx(res, node)
		ctx.SetError(errors.New("call failed"))
		DefaultMetricStatSlot.OnCompleted(ctx)
	}
	if !auditFiltered(res, node) { // (this check also hands the node to the recycler)
		t.Fatalf("set-up: the node is expected to be ejected under v1")
	}
	time.Sleep(100 * time.Millisecond) // let the recycler goroutine schedule the node

	// The rule is replaced: the same circuit breaking part, but nodes are to be recycled after an hour.
	v2 := auditRule(res, 3600)
	if changed, err := LoadRules([]*Rule{v2}); err != nil || !changed {
		t.Fatalf("LoadRules(v2): changed=%v err=%v", changed, err)
	}
	got := GetRules()
	if len(got) != 1 || got[0].RecycleIntervalS != 3600 {
		t.Fatalf("the getter does not report v2: %+v", got)
	}
	if !auditFiltered(res, node) {
		t.Fatalf("set-up: the node is expected to be still ejected right after loading v2")
	}

	time.Sleep(1500 * time.Millisecond)

	if !auditFiltered(res, node) {
		t.Fatalf("outlier rule v2 (RecycleIntervalS 3600, RetryTimeoutMs 3600000) is the only rule loaded and reported for %q, "+
			"and node %s was ejected; 1.5 s later the node is no longer filtered: its breaker was removed by the recycle "+
			"timer started under the replaced rule v1 (RecycleIntervalS 1). The property demands that after a load returns "+
			"the previously loaded rules of the scope are gone and only the rules of the most recent load govern traffic.",
			res, node)
	}
}
