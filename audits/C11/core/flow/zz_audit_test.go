package flow

import (
	"fmt"
	"runtime"
	"sync/atomic"
	"testing"
	"time"

	"github.com/alibaba/sentinel-golang/core/base"
	"github.com/alibaba/sentinel-golang/core/stat"
	"github.com/alibaba/sentinel-golang/util"
)

// ---------------------------------------------------------------------------------------------
// helpers: a settable virtual clock and a miniature "entry" that does what the slot chain does for
// one resource: flow rule check, then (when admitted) the pass is recorded in the resource node and
// in the rules' standalone statistics.
// ---------------------------------------------------------------------------------------------

type auditClock struct{ ns int64 }

func (c *auditClock) Now() time.Time            { return time.Unix(0, atomic.LoadInt64(&c.ns)) }
func (c *auditClock) Sleep(d time.Duration)     { atomic.AddInt64(&c.ns, int64(d)) }
func (c *auditClock) CurrentTimeMillis() uint64 { return uint64(atomic.LoadInt64(&c.ns)) / 1e6 }
func (c *auditClock) CurrentTimeNano() uint64   { return uint64(atomic.LoadInt64(&c.ns)) }
func (c *auditClock) setMs(ms int64)            { atomic.StoreInt64(&c.ns, ms*1e6) }

const auditT0 = int64(1700000000000) // ms, a multiple of 1000

var auditSeq int32

type auditSim struct {
	clk  *auditClock
	res  string
	ctx  *base.EntryContext
	node *stat.ResourceNode
}

func newAuditSim(t *testing.T, mk func(res string) *Rule) *auditSim {
	res := fmt.Sprintf("zz-audit-c11-%d", atomic.AddInt32(&auditSeq, 1))
	clk := &auditClock{}
	clk.setMs(auditT0)
	util.SetClock(clk)
	node := stat.GetOrCreateResourceNode(res, base.ResTypeCommon)
	rule := mk(res)
	if err := IsValidRule(rule); err != nil {
		t.Fatalf("the rule of the scenario is not a valid rule: %v", err)
	}
	if _, err := LoadRules([]*Rule{rule}); err != nil {
		t.Fatal(err)
	}
	if len(getTrafficControllerListFor(res)) != 1 {
		t.Fatalf("rule was not loaded")
	}
	t.Cleanup(func() {
		_ = ClearRules()
		util.SetClock(util.NewRealClock())
	})
	return &auditSim{
		clk: clk, res: res, node: node,
		ctx: &base.EntryContext{
			Resource: base.NewResourceWrapper(res, base.ResTypeCommon, base.Outbound),
			StatNode: node,
			Input:    &base.SentinelInput{BatchCount: 1},
		},
	}
}

// tryOne issues one single-token request at the current virtual time; true = admitted.
func (s *auditSim) tryOne() bool {
	if r := (&Slot{}).Check(s.ctx); r != nil && r.IsBlocked() {
		return false
	}
	s.node.AddCount(base.MetricEventPass, 1)
	StandaloneStatSlot{}.OnEntryPassed(s.ctx)
	return true
}

// second issues n single-token requests evenly spread over the second that starts at startMs and
// returns how many were admitted.
func (s *auditSim) second(startMs int64, n int) int {
	pass := 0
	for i := 0; i < n; i++ {
		s.clk.setMs(startMs + int64(i)*1000/int64(n))
		if s.tryOne() {
			pass++
		}
	}
	return pass
}

// ---------------------------------------------------------------------------------------------
// Finding 1: a warm-up rule with StatIntervalInMs of 2 s or more never leaves the cold rate.
// ---------------------------------------------------------------------------------------------

func TestAudit_WarmUpWithLongStatIntervalNeverReachesThreshold(t *testing.T) {
	const (
		threshold  = 100.0 // tokens per StatIntervalInMs
		intervalMs = 2000
		periodSec  = 5
		coldFactor = 3
		runSec     = 60 // 12 warm-up periods of saturating demand
	)
	s := newAuditSim(t, func(res string) *Rule {
		return &Rule{Resource: res, TokenCalculateStrategy: WarmUp, ControlBehavior: Reject,
			Threshold: threshold, StatIntervalInMs: intervalMs, WarmUpPeriodSec: periodSec, WarmUpColdFactor: coldFactor}
	})
	perWindow := make([]int, 0, runSec*1000/intervalMs)
	for sec := 0; sec < runSec; sec++ {
		p := s.second(auditT0+int64(sec)*1000, 400) // 400 requests/s = 800 per window, 8x the threshold
		if sec%(intervalMs/1000) == 0 {
			perWindow = append(perWindow, 0)
		}
		perWindow[len(perWindow)-1] += p
	}
	for i, p := range perWindow {
		if float64(p) > threshold {
			t.Fatalf("window %d admitted %d > threshold %v", i, p, threshold)
		}
	}
	last := perWindow[len(perWindow)-1]
	if float64(last) < 0.9*threshold {
		t.Fatalf("warm-up rule {Threshold: %v per StatIntervalInMs=%dms, WarmUpPeriodSec: %d, ColdFactor: %d} under saturating demand "+
			"for %d s (= %d warm-up periods) still admits only %d per %d ms window (threshold/coldFactor = %.1f); admitted per window: %v. "+
			"The property demands that the admitted rate reaches the full threshold (%v per window) after sustained demand for the warm-up period.",
			threshold, intervalMs, periodSec, coldFactor, runSec, runSec/periodSec, last, intervalMs, threshold/coldFactor, perWindow, threshold)
	}
}

// ---------------------------------------------------------------------------------------------
// Finding 2: when threshold*period is small compared with the cold factor, both token marks are
// truncated to 0 and the rule has no cold phase at all.
// ---------------------------------------------------------------------------------------------

func TestAudit_WarmUpSmallThresholdLargeColdFactorStartsAtFullThreshold(t *testing.T) {
	cases := []struct {
		threshold  float64
		coldFactor uint32
		periodSec  uint32
	}{
		{5, 100, 10},
		{10, 30, 1},
		{4, 10, 1},
	}
	var failures []string
	for _, c := range cases {
		c := c
		s := newAuditSim(t, func(res string) *Rule {
			return &Rule{Resource: res, TokenCalculateStrategy: WarmUp, ControlBehavior: Reject,
				Threshold: c.threshold, WarmUpPeriodSec: c.periodSec, WarmUpColdFactor: c.coldFactor}
		})
		demand := int(c.threshold) * 4
		// first second of a freshly loaded rule (never used before = idle since ever)
		fresh := s.second(auditT0, demand)
		// use it for a while, leave it idle for an hour, first second afterwards
		for sec := 1; sec < 5; sec++ {
			s.second(auditT0+int64(sec)*1000, demand)
		}
		afterIdle := s.second(auditT0+3600*1000, demand)
		// threshold/coldFactor is below 1 in all cases; one token per second is what "a single-token
		// demand is not starved" needs. Allow twice that.
		const coldBound = 2
		if fresh > coldBound || afterIdle > coldBound {
			calc := getTrafficControllerListFor(s.res)[0].flowCalculator.(*WarmUpTrafficShapingCalculator)
			failures = append(failures, fmt.Sprintf(
				"{Threshold: %v, WarmUpColdFactor: %d, WarmUpPeriodSec: %d}: admitted %d in the first second after loading and %d in the first second after one hour idle "+
					"(threshold/coldFactor = %.2f, at most about 1 expected); warningToken=%d maxToken=%d",
				c.threshold, c.coldFactor, c.periodSec, fresh, afterIdle, c.threshold/float64(c.coldFactor), calc.warningToken, calc.maxToken))
		}
	}
	if len(failures) > 0 {
		msg := ""
		for _, f := range failures {
			msg += "\n  " + f
		}
		t.Fatalf("valid warm-up rules start at the FULL threshold after idle; the property demands that the admitted rate starts no higher than about threshold/coldFactor:%s", msg)
	}
}

// ---------------------------------------------------------------------------------------------
// Finding 3: two callers racing over a second boundary after an idle period empty the token bucket
// (unsigned underflow of "currentTime - lastFilledTime"), the rule starts hot.
// ---------------------------------------------------------------------------------------------

// boundaryClock is a monotonic clock that is read as T+999ms once and as T+1000ms ever after, i.e. the
// first reader looks at the clock in the last millisecond of a second, everybody else just after it.
type boundaryClock struct {
	reads int64
	t     int64 // ms, multiple of 1000
}

func (c *boundaryClock) ms() uint64 {
	if atomic.AddInt64(&c.reads, 1) == 1 {
		return uint64(c.t + 999)
	}
	return uint64(c.t + 1000)
}
func (c *boundaryClock) Now() time.Time            { return time.Unix(0, int64(c.ms())*1e6) }
func (c *boundaryClock) Sleep(time.Duration)       {}
func (c *boundaryClock) CurrentTimeMillis() uint64 { return c.ms() }
func (c *boundaryClock) CurrentTimeNano() uint64   { return c.ms() * 1e6 }

func TestAudit_WarmUpRaceAtSecondBoundaryStartsHotAfterIdle(t *testing.T) {
	if runtime.GOMAXPROCS(0) < 2 {
		t.Skip("needs two threads to interleave")
	}
	const (
		threshold  = 1000.0
		periodSec  = 10
		coldFactor = 3
		maxIters   = 400000 // the interleaving is hit about once in 2-3 thousand attempts
	)
	s := newAuditSim(t, func(res string) *Rule {
		return &Rule{Resource: res, TokenCalculateStrategy: WarmUp, ControlBehavior: Reject,
			Threshold: threshold, WarmUpPeriodSec: periodSec, WarmUpColdFactor: coldFactor}
	})
	calc := getTrafficControllerListFor(s.res)[0].flowCalculator.(*WarmUpTrafficShapingCalculator)

	for i := 0; i < maxIters; i++ {
		// Each round is 1000 s of virtual time: at T the (idle) rule is looked at once - it is cold,
		// the bucket is full. Then nobody calls for 500 s, then two callers arrive together, one
		// reads the clock at T+500s+999ms, the other at T+500s+1000ms.
		T := auditT0 + int64(i+1)*1000000
		s.clk.setMs(T)
		util.SetClock(s.clk)
		if a := calc.CalculateAllowedTokens(1, 0); a > threshold/coldFactor*1.01 {
			t.Fatalf("round %d: rule not cold after 500 s idle: %v", i, a)
		}
		util.SetClock(&boundaryClock{t: T + 500000})
		var ready, done int32
		go func() {
			atomic.AddInt32(&ready, 1)
			for atomic.LoadInt32(&ready) < 2 {
			}
			calc.syncToken(0) // previous-second pass QPS of an idle resource is 0
			atomic.AddInt32(&done, 1)
		}()
		atomic.AddInt32(&ready, 1)
		for atomic.LoadInt32(&ready) < 2 {
		}
		calc.syncToken(0)
		for atomic.LoadInt32(&done) < 1 {
			runtime.Gosched()
		}

		// one millisecond later a single caller asks for the allowed rate
		s.clk.setMs(T + 500000 + 1001)
		util.SetClock(s.clk)
		stored := atomic.LoadInt64(&calc.storedTokens)
		lastFilled := atomic.LoadUint64(&calc.lastFilledTime)
		allowed := calc.CalculateAllowedTokens(1, 0)
		if allowed > threshold/coldFactor*1.5 {
			t.Fatalf("round %d: after 500 s without traffic two concurrent callers crossed a second boundary (clock read as ...999 ms by one, "+
				"...000 ms by the other); afterwards storedTokens=%d (maxToken=%d, warningToken=%d), lastFilledTime moved back to %d (now %d), and the "+
				"allowed rate 1 ms later is %v = the full threshold %v. The property demands that after idle the rate starts no higher than about "+
				"threshold/coldFactor = %.1f.",
				i, stored, calc.maxToken, calc.warningToken, lastFilled, T+500000+1001, allowed, threshold, threshold/coldFactor)
		}
	}
	t.Logf("interleaving not hit in %d rounds (timing dependent)", maxIters)
}
