package circuitbreaker_test

import (
	"errors"
	"fmt"
	"runtime"
	"strings"
	"sync"
	"sync/atomic"
	"testing"
	"time"

	sentinel "github.com/alibaba/sentinel-golang/api"
	"github.com/alibaba/sentinel-golang/core/base"
	cb "github.com/alibaba/sentinel-golang/core/circuitbreaker"
	"github.com/alibaba/sentinel-golang/util"
)

// auditClock is a util.Clock for the audit tests. Its time only ever moves forward. It is driven by the
// test, and it offers one hook: when a hook is armed, the first read of the clock that is made from inside
// the function named in the hook triggers it, once.
//   - stall: the reading goroutine is held inside the read until the test releases it (a goroutine that is
//     descheduled at that point: every clock read is a point at which that can happen)
//   - tick:  the read returns the current millisecond and the clock moves on by one millisecond right
//     afterwards (time passes between two reads of the clock, as it does with a real clock)
type auditClock struct {
	nowMs uint64

	mu       sync.Mutex
	armed    bool
	inFunc   string
	tick     bool
	hit      chan struct{}
	release  chan struct{}
	released bool
}

func newAuditClock(startMs uint64) *auditClock {
	return &auditClock{nowMs: startMs}
}

func (c *auditClock) armStall(inFunc string) {
	c.mu.Lock()
	defer c.mu.Unlock()
	c.armed, c.inFunc, c.tick = true, inFunc, false
	c.hit, c.release, c.released = make(chan struct{}), make(chan struct{}), false
}

func (c *auditClock) armTick(inFunc string) {
	c.mu.Lock()
	defer c.mu.Unlock()
	c.armed, c.inFunc, c.tick = true, inFunc, true
	c.hit = make(chan struct{})
}

func (c *auditClock) releaseStalled() {
	c.mu.Lock()
	defer c.mu.Unlock()
	if c.release != nil && !c.released {
		c.released = true
		close(c.release)
	}
}

func (c *auditClock) advance(ms uint64) { atomic.AddUint64(&c.nowMs, ms) }

func calledFrom(name string) bool {
	pcs := make([]uintptr, 64)
	n := runtime.Callers(2, pcs)
	frames := runtime.CallersFrames(pcs[:n])
	for {
		f, more := frames.Next()
		if strings.HasSuffix(f.Function, name) {
			return true
		}
		if !more {
			return false
		}
	}
}

func (c *auditClock) CurrentTimeMillis() uint64 {
	c.mu.Lock()
	if c.armed && calledFrom(c.inFunc) {
		c.armed = false
		if c.tick {
			now := atomic.LoadUint64(&c.nowMs)
			atomic.AddUint64(&c.nowMs, 1)
			close(c.hit)
			c.mu.Unlock()
			return now
		}
		hit, release := c.hit, c.release
		c.mu.Unlock()
		close(hit)
		<-release
		return atomic.LoadUint64(&c.nowMs)
	}
	c.mu.Unlock()
	return atomic.LoadUint64(&c.nowMs)
}

func (c *auditClock) CurrentTimeNano() uint64 { return c.CurrentTimeMillis() * uint64(time.Millisecond) }
func (c *auditClock) Now() time.Time          { return time.Unix(0, int64(c.CurrentTimeNano())) }
func (c *auditClock) Sleep(d time.Duration)   { c.advance(uint64(d / time.Millisecond)) }

// auditListener records the transitions that the state-change listeners are told about.
type auditListener struct {
	mu     sync.Mutex
	events []string
}

func (l *auditListener) add(s string) {
	l.mu.Lock()
	l.events = append(l.events, s)
	l.mu.Unlock()
}
func (l *auditListener) list() string {
	l.mu.Lock()
	defer l.mu.Unlock()
	return strings.Join(l.events, ", ")
}
func (l *auditListener) OnTransformToClosed(prev cb.State, rule cb.Rule) {
	l.add(fmt.Sprintf("%s->Closed", prev.String()))
}
func (l *auditListener) OnTransformToOpen(prev cb.State, rule cb.Rule, snapshot interface{}) {
	l.add(fmt.Sprintf("%s->Open(snapshot %v)", prev.String(), snapshot))
}
func (l *auditListener) OnTransformToHalfOpen(prev cb.State, rule cb.Rule) {
	l.add(fmt.Sprintf("%s->HalfOpen", prev.String()))
}

// auditSetup installs the clock, one rule and a listener, and returns a slot chain that holds nothing but
// the circuit breaker's rule check slot and its statistic slot (only the public API is used).
func auditSetup(t *testing.T, clock *auditClock, rule *cb.Rule) (*base.SlotChain, *auditListener) {
	util.SetClock(clock)
	cb.ClearStateChangeListeners()
	l := &auditListener{}
	cb.RegisterStateChangeListeners(l)
	if _, err := cb.LoadRules([]*cb.Rule{rule}); err != nil {
		t.Fatalf("LoadRules: %v", err)
	}
	sc := base.NewSlotChain()
	sc.AddRuleCheckSlot(cb.DefaultSlot)
	sc.AddStatSlot(cb.DefaultMetricStatSlot)
	t.Cleanup(func() {
		clock.releaseStalled()
		_ = cb.ClearRules()
		cb.ClearStateChangeListeners()
		util.SetClock(util.NewRealClock())
	})
	return sc, l
}

func auditEnter(sc *base.SlotChain, res string) (*base.SentinelEntry, *base.BlockError) {
	return sentinel.Entry(res, sentinel.WithSlotChain(sc))
}

func auditMustEnter(t *testing.T, sc *base.SlotChain, res string, what string) *base.SentinelEntry {
	e, b := auditEnter(sc, res)
	if b != nil {
		t.Fatalf("setup: %s was blocked: %v", what, b)
	}
	return e
}

var errAudit = errors.New("business error")

// Finding 1. A completion that has examined the breaker in one Closed period opens it in a LATER Closed
// period: fromClosedToOpen() swaps "Closed" for "Open" by the bare state, not by the period (generation) the
// caller has looked at. A completion that found the threshold reached and is descheduled before its
// compare-and-swap (here: at the clock read of updateNextRetryTimestamp, which lies between its look at the
// state and the swap) comes back after the breaker was opened by somebody else, probed and closed, and opens
// it again - although the statistics were cleared on closing and the window holds nothing that reaches the
// threshold.
func TestAuditStaleCompletionOpensBreakerOfALaterClosedPeriod(t *testing.T) {
	const res = "audit-c03-stale-opener"
	clock := newAuditClock(600000) // start of a statistic bucket: everything below happens within this one bucket
	sc, l := auditSetup(t, clock, &cb.Rule{
		Resource:         res,
		Strategy:         cb.ErrorCount,
		Threshold:        2,
		MinRequestAmount: 1,
		StatIntervalMs:   60000,
		RetryTimeoutMs:   1000,
	})

	r1 := auditMustEnter(t, sc, res, "request 1")
	r2 := auditMustEnter(t, sc, res, "request 2")
	r3 := auditMustEnter(t, sc, res, "request 3")

	// t=600000: request 1 fails. 1 error < 2: the breaker stays closed.
	r1.Exit(base.WithError(errAudit))

	// t=600000: request 2 fails, on a goroutine of its own. It counts the second error, finds the threshold
	// reached and the breaker Closed, and is descheduled inside fromClosedToOpen before its compare-and-swap.
	clock.armStall("fromClosedToOpen")
	done := make(chan struct{})
	go func() {
		defer close(done)
		r2.Exit(base.WithError(errAudit))
	}()
	select {
	case <-clock.hit:
	case <-time.After(5 * time.Second):
		t.Fatalf("setup: the completion of request 2 never reached fromClosedToOpen")
	}

	// t=600000: request 3 fails as well: 3 errors >= 2, the breaker opens (this one wins the race).
	r3.Exit(base.WithError(errAudit))
	if e, b := auditEnter(sc, res); b == nil {
		e.Exit()
		t.Fatalf("setup: the breaker did not open on the third error; transitions: %s", l.list())
	}

	// t=601000: the retry timeout has elapsed, the probe is admitted and succeeds: the breaker closes and
	// clears its statistics.
	clock.advance(1000)
	probe := auditMustEnter(t, sc, res, "the probe after the retry timeout")
	probe.Exit()
	// t=601001: an ordinary successful request in the new closed period.
	clock.advance(1)
	r5 := auditMustEnter(t, sc, res, "a request after the breaker closed")
	r5.Exit()
	if got, want := l.list(), "Closed->Open(snapshot 3), Open->HalfOpen, HalfOpen->Closed"; got != want {
		t.Fatalf("setup: transitions so far are %q, expected %q", got, want)
	}

	// t=601002: the descheduled completion of request 2 runs on.
	clock.advance(1)
	clock.releaseStalled()
	select {
	case <-done:
	case <-time.After(5 * time.Second):
		t.Fatalf("setup: the completion of request 2 did not finish")
	}

	// Since the breaker closed (and cleared its statistics) exactly one request has completed, without error.
	// Request 2's own error is the only other thing that can be put into the window: 1 error < threshold 2.
	// Whatever moment the completion of request 2 is taken to have happened at - before request 3's (then it
	// opened the breaker of the first closed period, which has been probed and closed since) or now (then
	// the window holds one error) - the breaker must be Closed now.
	clock.advance(1)
	e, b := auditEnter(sc, res)
	if b != nil {
		t.Errorf("the breaker (ErrorCount, threshold 2) was opened, probed after its retry timeout and closed by a successful probe, "+
			"which cleared its statistics; since then one request completed, successfully. Then the completion of a request that had "+
			"failed in the FIRST closed period (descheduled inside fromClosedToOpen meanwhile) ran on and opened the breaker of the "+
			"SECOND closed period: the next request was rejected with %q. Transitions reported to the listener: [%s]. "+
			"The property demands that the breaker opens exactly when, on a completion while closed, the window holds the minimum "+
			"amount and the error count reaches the threshold - the window holds at most 1 error here - so the breaker must still be "+
			"Closed and the listener must have seen only Closed->Open, Open->HalfOpen, HalfOpen->Closed.", b.Error(), l.list())
		return
	}
	e.Exit()
}

// Finding 2. OnRequestComplete reads the clock twice: once to find the bucket the completion is counted in
// (currentCounter) and once to collect the buckets of the window it then sums up (allCounter -> Values). With
// one bucket per interval (the default bucket count) a completion whose two reads fall on the two sides of
// an interval boundary is counted in the bucket of the interval that has just ended and evaluated on the
// window of the interval that has just begun: it is in neither. The breaker does not open on it, and the
// count is gone for good (the bucket is recycled by the next completion).
func TestAuditCompletionAtIntervalBoundaryIsCountedInNoWindow(t *testing.T) {
	const res = "audit-c03-boundary"
	clock := newAuditClock(600999) // the last millisecond of the statistic interval [600000, 601000)
	sc, l := auditSetup(t, clock, &cb.Rule{
		Resource:         res,
		Strategy:         cb.ErrorCount,
		Threshold:        1,
		MinRequestAmount: 1,
		StatIntervalMs:   1000,
		RetryTimeoutMs:   5000,
	})

	r1 := auditMustEnter(t, sc, res, "request 1")
	// Request 1 fails. The clock shows 600999 when the completion looks up its bucket and moves on to 601000
	// right afterwards (it only ever moves forward, by one millisecond, once).
	clock.armTick("currentCounter")
	r1.Exit(base.WithError(errAudit))
	select {
	case <-clock.hit:
	default:
		t.Fatalf("setup: the completion did not read the clock inside currentCounter")
	}
	if now := clock.CurrentTimeMillis(); now != 601000 {
		t.Fatalf("setup: clock is at %d, expected 601000", now)
	}

	// One failed request has completed, at 600999 or at 601000. Every window that contains the moment of
	// its completion contains this error: error count 1 >= threshold 1 with 1 >= minimum 1 request.
	e, b := auditEnter(sc, res)
	if b == nil {
		e.Exit()
		t.Errorf("rule ErrorCount, threshold 1, minimum amount 1, interval 1000 ms in one bucket: a request failed and completed while the "+
			"clock moved from 600999 to 601000 (between the completion's look-up of its bucket and its summing up of the window). "+
			"The breaker did not open: the next request (t=601000) was admitted; transitions reported to the listener: [%s]. "+
			"The property demands that the breaker opens when, on a completion while closed, the window holds the minimum amount and "+
			"the error count reaches the threshold: this completion alone makes 1 error of 1 request, at whichever of the two "+
			"milliseconds it is taken to have happened. (The error was counted in the bucket of [600000,601000) and the sum was taken "+
			"over the window of 601000, in which that bucket is expired; the count is lost for the new window as well.)", l.list())
	}
}
