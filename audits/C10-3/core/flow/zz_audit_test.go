package flow

import (
	"sync"
	"testing"
	"time"

	"github.com/alibaba/sentinel-golang/core/base"
	"github.com/alibaba/sentinel-golang/core/config"
	"github.com/alibaba/sentinel-golang/core/stat"
	"github.com/alibaba/sentinel-golang/util"
)

// auditClock is a purely virtual clock: Sleep advances it, nothing really sleeps.
type auditClock struct {
	mu  sync.Mutex
	now time.Time
}

func (c *auditClock) Now() time.Time {
	c.mu.Lock()
	defer c.mu.Unlock()
	return c.now
}
func (c *auditClock) Sleep(d time.Duration) {
	if d <= 0 {
		return
	}
	c.mu.Lock()
	c.now = c.now.Add(d)
	c.mu.Unlock()
}
func (c *auditClock) CurrentTimeMillis() uint64 { return uint64(c.Now().UnixNano()) / 1e6 }
func (c *auditClock) CurrentTimeNano() uint64   { return uint64(c.Now().UnixNano()) }

// A rule that leaves StatIntervalInMs unset (0) is, by the documentation of flow.Rule, counted over
// "the default metric statistic of resource", and "Threshold means the threshold during StatIntervalInMs".
// The length of that default statistic is a setting of the process (sentinel.stat.metricStatisticIntervalMs).
// With that setting at 2000 ms a Reject rule with Threshold 10 admits 10 tokens per 2000 ms, the warm-up
// calculator takes the threshold per 2000 ms, too - but the throttling checker hard-codes 1000 ms: it spaces
// the pass times threshold-per-SECOND (100 ms apart instead of 200 ms) and admits twice the configured rate.
func TestAudit_ThrottlingUnsetStatIntervalIgnoresConfiguredDefaultInterval(t *testing.T) {
	const res = "audit-c10-default-interval"

	oldClock := util.CurrentClock()
	clk := &auditClock{now: time.Unix(1700000000, 0)}
	util.SetClock(clk)
	defer util.SetClock(oldClock)

	// a valid, non-default configuration: the resource's default statistic spans 2000 ms (2 buckets of 1000 ms)
	entity := config.NewDefaultConfig()
	entity.Sentinel.Stat.MetricStatisticIntervalMs = 2000
	entity.Sentinel.Stat.MetricStatisticSampleCount = 2
	if err := config.CheckValid(entity); err != nil {
		t.Fatalf("test set-up: the configuration is expected to be valid: %v", err)
	}
	config.ResetGlobalConfig(entity)
	defer config.ResetGlobalConfig(config.NewDefaultConfig())

	defer func() { _ = ClearRules() }()

	const intervalMs = 2000 // = config.MetricStatisticIntervalMs()
	const threshold = 10.0
	// what the property demands: pass times at least batch/threshold of the statistic interval apart
	wantSpacing := time.Duration(float64(intervalMs)/threshold*1e6) * time.Nanosecond // 200 ms

	// --- reference: the very same numbers under control behaviour Reject are 10 tokens per 2000 ms
	if _, err := LoadRules([]*Rule{{Resource: res + "-reject", Threshold: threshold, ControlBehavior: Reject, StatIntervalInMs: 0}}); err != nil {
		t.Fatal(err)
	}
	rejNode := stat.GetOrCreateResourceNode(res+"-reject", base.ResTypeCommon)
	rejTc := getTrafficControllerListFor(res + "-reject")[0]
	rejectAdmitted := 0
	for i := 0; i < 40; i++ { // one request every 50 ms for 2000 ms
		if r := canPassCheck(rejTc, rejNode, 1); r == nil || r.IsPass() {
			rejectAdmitted++
			rejNode.AddCount(base.MetricEventPass, 1)
		}
		clk.Sleep(50 * time.Millisecond)
	}
	t.Logf("reference: Reject rule, Threshold 10, StatIntervalInMs unset, default interval 2000 ms: %d admitted in 2000 ms", rejectAdmitted)

	// --- the throttling rule
	if _, err := LoadRules([]*Rule{{Resource: res, Threshold: threshold, ControlBehavior: Throttling, MaxQueueingTimeMs: 0, StatIntervalInMs: 0}}); err != nil {
		t.Fatal(err)
	}
	node := stat.GetOrCreateResourceNode(res, base.ResTypeCommon)
	tcs := getTrafficControllerListFor(res)
	if len(tcs) != 1 {
		t.Fatalf("test set-up: expected one controller, got %d", len(tcs))
	}
	tc := tcs[0]

	clk.Sleep(10 * time.Second) // idle
	var passTimes []time.Time
	start := clk.Now()
	for i := 0; i < 40; i++ { // one request every 50 ms for 2000 ms, no queueing allowed
		r := canPassCheck(tc, node, 1)
		if r == nil || r.IsPass() {
			passTimes = append(passTimes, clk.Now())
		} else if r.Status() == base.ResultStatusShouldWait {
			t.Fatalf("MaxQueueingTimeMs is 0, yet the request was asked to wait %v", r.NanosToWait())
		}
		clk.Sleep(50 * time.Millisecond)
	}
	minGap := time.Duration(1<<63 - 1)
	for i := 1; i < len(passTimes); i++ {
		if g := passTimes[i].Sub(passTimes[i-1]); g < minGap {
			minGap = g
		}
	}
	t.Logf("throttling rule: %d admitted within %v, smallest distance of two pass times %v", len(passTimes), clk.Now().Sub(start), minGap)

	if minGap < wantSpacing {
		t.Errorf("throttling rule with Threshold %.0f and StatIntervalInMs unset, while the default statistic interval of the process is %d ms "+
			"(a Reject rule with the same numbers admitted %d tokens in %d ms): %d requests were admitted in %d ms with pass times only %v apart; "+
			"the property demands consecutive pass times at least batch/threshold of the statistic interval = %v apart (at most %d admissions here). "+
			"NewThrottlingChecker takes an unset interval for 1000 ms whatever the configured default interval is",
			threshold, intervalMs, rejectAdmitted, intervalMs, len(passTimes), intervalMs, minGap, wantSpacing, intervalMs/int(wantSpacing/time.Millisecond))
	}

	// --- the same with a queue: the wait a queued request is asked to sleep is half of what the spacing demands
	if _, err := LoadRules([]*Rule{{Resource: res, Threshold: threshold, ControlBehavior: Throttling, MaxQueueingTimeMs: 1000, StatIntervalInMs: 0}}); err != nil {
		t.Fatal(err)
	}
	tc = getTrafficControllerListFor(res)[0]
	clk.Sleep(10 * time.Second) // idle
	if r := canPassCheck(tc, node, 1); !(r == nil || r.IsPass()) {
		t.Fatalf("first request after idle time should pass at once, got %v", r)
	}
	r := canPassCheck(tc, node, 1) // same instant
	if r == nil || r.Status() != base.ResultStatusShouldWait {
		t.Fatalf("second request at the same instant should be queued, got %v", r)
	}
	if r.NanosToWait() < wantSpacing {
		t.Errorf("queued request right behind an admitted one was asked to wait %v; with Threshold %.0f per default interval of %d ms "+
			"the property demands its pass time at least %v after the previous one", r.NanosToWait(), threshold, intervalMs, wantSpacing)
	}
}
