package circuitbreaker_test

import (
	"errors"
	"sync/atomic"
	"testing"
	"time"

	sentinel "github.com/alibaba/sentinel-golang/api"
	"github.com/alibaba/sentinel-golang/core/base"
	"github.com/alibaba/sentinel-golang/core/circuitbreaker"
	"github.com/alibaba/sentinel-golang/core/config"
	"github.com/alibaba/sentinel-golang/util"
)

// ---------------------------------------------------------------------------------------------
// helpers
// ---------------------------------------------------------------------------------------------

func auditSetup(t *testing.T) *base.SlotChain {
	t.Helper()
	clock := util.NewMockClock()
	util.SetClock(clock)
	// Step the mock clock to 1 ms after the start of a 10 s statistic window, so that the whole
	// scenario (a few milliseconds of mock time) lies inside one bucket of a 10 s / 1 bucket statistic.
	now := util.CurrentTimeMillis()
	util.Sleep(time.Duration(10000-now%10000+1) * time.Millisecond)

	circuitbreaker.ClearStateChangeListeners()
	if err := circuitbreaker.ClearRules(); err != nil {
		t.Fatal(err)
	}
	if err := sentinel.InitWithConfig(config.NewDefaultConfig()); err != nil {
		t.Fatal(err)
	}
	sc := base.NewSlotChain()
	sc.AddRuleCheckSlot(&circuitbreaker.Slot{})
	sc.AddStatSlot(&circuitbreaker.MetricStatSlot{})
	t.Cleanup(func() {
		_ = circuitbreaker.ClearRules()
		util.SetClock(util.NewRealClock())
	})
	return sc
}

// call runs one invocation of res through the circuit breaker slots. It reports whether the invocation
// was let through; a passed invocation completes with the given business error.
func call(sc *base.SlotChain, res string, bizErr error) (passed bool) {
	e, b := sentinel.Entry(res, sentinel.WithSlotChain(sc))
	if b != nil {
		return false
	}
	if bizErr != nil {
		sentinel.TraceError(e, bizErr)
	}
	util.Sleep(time.Millisecond)
	e.Exit()
	return true
}

// ---------------------------------------------------------------------------------------------
// Finding 1
// ---------------------------------------------------------------------------------------------

// A breaker rule (Id "orders-errors", ErrorCount, 5 errors in 10 s) has seen 4 errors. A reload modifies
// only its RetryTimeoutMs (the statistic parameters Strategy / StatIntervalMs / StatSlidingWindowBucketCount
// are unchanged) and, in the same load, adds another rule with the same statistic parameters.
// The property: "A modified rule whose statistic parameters are unchanged keeps its accumulated statistics",
// "no matter which other rules were added, removed or modified in the same load". So the 5th error after
// the reload must open the breaker - and it does if the added rule is listed AFTER the modified one, but
// not if it is listed BEFORE it: then the added rule is handed the 4 errors and the modified rule starts
// from zero.
func TestAudit_ModifiedBreakerRuleKeepsItsStatisticWhateverElseIsLoaded(t *testing.T) {
	const res = "audit-orders"
	bizErr := errors.New("biz error")

	scenario := func(t *testing.T, addedRuleFirst bool) (blockedAfterFifthError bool) {
		sc := auditSetup(t)
		old := &circuitbreaker.Rule{
			Id: "orders-errors", Resource: res, Strategy: circuitbreaker.ErrorCount,
			RetryTimeoutMs: 3000, MinRequestAmount: 0, StatIntervalMs: 10000, Threshold: 5,
		}
		if _, err := circuitbreaker.LoadRules([]*circuitbreaker.Rule{old}); err != nil {
			t.Fatal(err)
		}
		for i := 0; i < 4; i++ {
			if !call(sc, res, bizErr) {
				t.Fatalf("setup: call %d was blocked although only %d errors were recorded", i+1, i)
			}
		}

		modified := &circuitbreaker.Rule{
			Id: "orders-errors", Resource: res, Strategy: circuitbreaker.ErrorCount,
			RetryTimeoutMs: 60000 /* the only edit */, MinRequestAmount: 0, StatIntervalMs: 10000, Threshold: 5,
		}
		added := &circuitbreaker.Rule{
			Id: "orders-errors-coarse", Resource: res, Strategy: circuitbreaker.ErrorCount,
			RetryTimeoutMs: 3000, MinRequestAmount: 0, StatIntervalMs: 10000, Threshold: 1000,
		}
		list := []*circuitbreaker.Rule{modified, added}
		if addedRuleFirst {
			list = []*circuitbreaker.Rule{added, modified}
		}
		if _, err := circuitbreaker.LoadRules(list); err != nil {
			t.Fatal(err)
		}

		// the 5th error inside the same 10 s window
		if !call(sc, res, bizErr) {
			t.Fatalf("the 5th failing call itself must still pass (4 errors < 5)")
		}
		return !call(sc, res, nil)
	}

	t.Run("added rule listed after the modified rule", func(t *testing.T) {
		if !scenario(t, false) {
			t.Errorf("breaker %q did not open on its 5th error", "orders-errors")
		}
	})
	t.Run("added rule listed before the modified rule", func(t *testing.T) {
		if !scenario(t, true) {
			t.Errorf("rule Id=orders-errors had 4 errors in its 10 s window; a reload changed only its RetryTimeoutMs "+
				"and added rule Id=orders-errors-coarse IN FRONT of it. The 5th error (same window) did NOT open the breaker: "+
				"the added rule was given the 4 accumulated errors and the modified rule restarted from 0. "+
				"The property demands that a modified rule whose statistic parameters are unchanged keeps its accumulated "+
				"statistics no matter which other rules were added in the same load (it does when the added rule is listed last).")
		}
	})
}

// ---------------------------------------------------------------------------------------------
// Finding 2
// ---------------------------------------------------------------------------------------------

// quotaBreaker is a user-defined circuit breaker for a custom strategy (registered through the public
// SetCircuitBreakerGenerator): it opens after Threshold errors and stays open for RetryTimeoutMs.
type quotaBreaker struct {
	rule     *circuitbreaker.Rule
	errs     int64
	open     int32
	deadline uint64
}

func (q *quotaBreaker) BoundRule() *circuitbreaker.Rule { return q.rule }
func (q *quotaBreaker) BoundStat() interface{}          { return nil }
func (q *quotaBreaker) CurrentState() circuitbreaker.State {
	if atomic.LoadInt32(&q.open) == 1 {
		return circuitbreaker.Open
	}
	return circuitbreaker.Closed
}
func (q *quotaBreaker) TryPass(_ *base.EntryContext) bool {
	if atomic.LoadInt32(&q.open) == 0 {
		return true
	}
	if util.CurrentTimeMillis() >= atomic.LoadUint64(&q.deadline) {
		atomic.StoreInt64(&q.errs, 0)
		atomic.StoreInt32(&q.open, 0)
		return true
	}
	return false
}
func (q *quotaBreaker) OnRequestComplete(_ uint64, err error) {
	if err == nil {
		return
	}
	if float64(atomic.AddInt64(&q.errs, 1)) >= q.rule.Threshold {
		atomic.StoreUint64(&q.deadline, util.CurrentTimeMillis()+uint64(q.rule.RetryTimeoutMs))
		atomic.StoreInt32(&q.open, 1)
	}
}

// A rule of a custom strategy is loaded, its breaker opens (retry timeout 60 s). Then the WHOLE SET is
// loaded again: the rule is there again, field for field identical (even the very same *Rule object is not
// recognised), and the only edit is a new rule for a DIFFERENT resource. The property demands that the
// reload is invisible for the unchanged rule: "an open breaker stays open with the same deadline".
// Rule.isEqualsTo answers false for every strategy it does not know, so the breaker is thrown away and
// generated anew: the resource is let through 1 ms after the breaker opened.
func TestAudit_UnchangedRuleOfCustomStrategyKeepsItsOpenBreaker(t *testing.T) {
	const custom = circuitbreaker.Strategy(100)
	const res = "audit-custom"
	bizErr := errors.New("biz error")

	scenario := func(t *testing.T, strategy circuitbreaker.Strategy, samePointer bool) (blockedAfterReload bool) {
		sc := auditSetup(t)
		if err := circuitbreaker.SetCircuitBreakerGenerator(custom, func(r *circuitbreaker.Rule, _ interface{}) (circuitbreaker.CircuitBreaker, error) {
			return &quotaBreaker{rule: r}, nil
		}); err != nil {
			t.Fatal(err)
		}
		defer func() { _ = circuitbreaker.RemoveCircuitBreakerGenerator(custom) }()

		mk := func() *circuitbreaker.Rule {
			return &circuitbreaker.Rule{
				Id: "r1", Resource: res, Strategy: strategy,
				RetryTimeoutMs: 60000, MinRequestAmount: 0, StatIntervalMs: 10000, Threshold: 2,
			}
		}
		first := mk()
		if _, err := circuitbreaker.LoadRules([]*circuitbreaker.Rule{first}); err != nil {
			t.Fatal(err)
		}
		call(sc, res, bizErr)
		call(sc, res, bizErr)
		if call(sc, res, nil) {
			t.Fatalf("setup: the breaker must be open after 2 errors")
		}

		again := first
		if !samePointer {
			again = mk()
		}
		other := &circuitbreaker.Rule{
			Id: "r2", Resource: "audit-some-other-resource", Strategy: circuitbreaker.ErrorCount,
			RetryTimeoutMs: 1000, MinRequestAmount: 0, StatIntervalMs: 10000, Threshold: 10,
		}
		if _, err := circuitbreaker.LoadRules([]*circuitbreaker.Rule{again, other}); err != nil {
			t.Fatal(err)
		}
		return !call(sc, res, nil)
	}

	t.Run("built-in ErrorCount strategy (reference)", func(t *testing.T) {
		if !scenario(t, circuitbreaker.ErrorCount, false) {
			t.Errorf("reference scenario: the open ErrorCount breaker was closed by the reload")
		}
	})
	t.Run("custom strategy, field-identical copy of the rule", func(t *testing.T) {
		if !scenario(t, custom, false) {
			t.Errorf("the breaker of the custom-strategy rule on %q was OPEN with 60 s to go; LoadRules was called with a "+
				"field-for-field identical copy of that rule plus one new rule for another resource; the next call on %q "+
				"(a few ms later) was LET THROUGH: the breaker was discarded and regenerated (Closed). The property demands that "+
				"reloading is invisible for an unchanged rule: an open breaker stays open with the same deadline.", res, res)
		}
	})
	t.Run("custom strategy, the very same *Rule object", func(t *testing.T) {
		if !scenario(t, custom, true) {
			t.Errorf("even with the very same *Rule object in the new list the open breaker of the custom-strategy rule "+
				"on %q was discarded and regenerated (Closed) by a reload whose only edit was a new rule for another resource; "+
				"the property demands that an open breaker of an unchanged rule stays open with the same deadline.", res)
		}
	})
}
