package hotspot

import (
	"testing"
	"time"

	"github.com/alibaba/sentinel-golang/util"
)

// Finding 1 (cae2669 x ccc95af).
//
// carryOverTokens looks up (RuleTokenCounter.Get) only the counters whose budget changes. A Get moves the
// entry to the front of the token LRU, the refill-time LRU is not touched: after a reload that changes the
// specific threshold of SOME values the two LRUs of the rule no longer evict in step. A value that is then
// evicted from the time cache but not from the token cache is, since ccc95af, judged by the tokens it had
// left under a window that passed long ago.
func TestReviewCarryOverLeavesTheTwoCachesOutOfStep(t *testing.T) {
	oldClock := util.CurrentClock()
	clock := util.NewMockClock()
	util.SetClock(clock)
	defer util.SetClock(oldClock)
	defer func() { _ = ClearRules() }()
	_ = ClearRules()

	const res = "zz-review-hotspot-carry-over"
	mk := func(specific map[interface{}]int64) *Rule {
		return &Rule{
			ID:                "r",
			Resource:          res,
			MetricType:        QPS,
			ControlBehavior:   Reject,
			ParamIndex:        0,
			Threshold:         2,
			DurationInSec:     1,
			ParamsMaxCapacity: 2, // a small cache: the third value evicts the least recently used one
			SpecificItems:     specific,
		}
	}
	pass := func(arg interface{}) bool {
		tcs := getTrafficControllersFor(res)
		if len(tcs) != 1 {
			t.Fatalf("expected one controller for %s, got %d", res, len(tcs))
		}
		r := tcs[0].PerformChecking(arg, 1)
		return r == nil || !r.IsBlocked()
	}

	if _, err := LoadRules([]*Rule{mk(nil)}); err != nil {
		t.Fatal(err)
	}
	// A uses up its budget of 2, then B is seen: in both caches A is the least recently used value.
	if !pass("A") || !pass("A") {
		t.Fatal("setup: the first two requests of A must pass under threshold 2")
	}
	if pass("A") {
		t.Fatal("setup: the third request of A inside the window must be rejected")
	}
	if !pass("B") {
		t.Fatal("setup: the first request of B must pass")
	}

	// The reload lowers the threshold of A only (2 -> 1). The statistic is taken over (same ID, reusable).
	if _, err := LoadRules([]*Rule{mk(map[interface{}]int64{"A": 1})}); err != nil {
		t.Fatal(err)
	}

	// Ten windows later. C is new: it evicts the least recently used value of either cache, which by the
	// requests made is A in both of them.
	clock.Sleep(10 * time.Second)
	if !pass("C") {
		t.Fatal("setup: the first request of C must pass")
	}

	// A was last seen ten windows ago (and, with a cache of two values and B, C seen since, is not even
	// remembered): its request must pass, under any reading of the rule.
	tc := getTrafficControllersFor(res)[0]
	timeKeys, tokenKeys := tc.BoundMetric().RuleTimeCounter.Keys(), tc.BoundMetric().RuleTokenCounter.Keys()
	if !pass("A") {
		t.Fatalf("a request of value A was rejected 10 s after A's last request (window 1 s, threshold of A 1): "+
			"it should pass. The reload looked up the token counter of A only, which made A the most recently "+
			"used value of the token cache but not of the time cache; C then evicted A's refill time and B's "+
			"tokens, and A was judged by the 0 tokens it had left ten windows ago. Before the request the time cache held %v "+
			"and the token cache %v (they should hold the same values).", timeKeys, tokenKeys)
	}
}
