package flow

import (
	"testing"
	"time"

	"github.com/alibaba/sentinel-golang/core/base"
	"github.com/alibaba/sentinel-golang/core/stat"
	"github.com/alibaba/sentinel-golang/util"
)

// reviewEntry does what api.Entry does, on the given chain.
func reviewEntry(sc *base.SlotChain, res string, batch uint32) (passed bool) {
	rw := base.NewResourceWrapper(res, base.ResTypeCommon, base.Inbound)
	ctx := sc.GetPooledContext()
	ctx.Resource = rw
	ctx.Input.BatchCount = batch
	e := base.NewSentinelEntry(ctx, rw, sc)
	ctx.SetEntry(e)
	r := sc.Entry(ctx)
	passed = r == nil || !r.IsBlocked()
	e.Exit()
	return passed
}

// Finding 2 (0b24155).
//
// The repair is about 'a warm-up rule never warmed up under a demand of requests of several tokens'. It
// covers the case where such requests pass at the cold rate but their sum stays below the low-traffic
// bound. The same demand through another path is left as it was (and is now spelled out in the code:
// 'an interval in which nothing passed at all is low traffic whatever the request size'): when one request
// is larger than the cold rate threshold/coldFactor, none of them passes, 'nothing passed' is taken for an
// idle resource, the bucket is refilled in every interval and the rule stays cold for good. Requests of a
// size the rule admits (4 <= threshold 10) are rejected for ever, however long and heavy the demand is.
func TestReviewWarmUpNeverWarmsUpForRequestsAboveTheColdRate(t *testing.T) {
	oldClock := util.CurrentClock()
	clock := util.NewMockClock()
	util.SetClock(clock)
	defer util.SetClock(oldClock)
	defer func() { _ = ClearRules() }()
	_ = ClearRules()

	const res = "zz-review-flow-warm-up"
	if _, err := LoadRules([]*Rule{{
		Resource:               res,
		TokenCalculateStrategy: WarmUp,
		ControlBehavior:        Reject,
		Threshold:              10,
		WarmUpPeriodSec:        3,
		WarmUpColdFactor:       3,
		StatIntervalInMs:       1000,
	}}); err != nil {
		t.Fatal(err)
	}

	sc := base.NewSlotChain()
	sc.AddStatPrepareSlot(stat.DefaultResourceNodePrepareSlot)
	sc.AddRuleCheckSlot(DefaultSlot)
	sc.AddStatSlot(stat.DefaultSlot)
	sc.AddStatSlot(DefaultStandaloneStatSlot)

	// control: the same rule on another resource under the same demand of requests of 3 tokens (below the
	// cold rate) warms up - the test drives the rule as a caller does
	const ctl = "zz-review-flow-warm-up-control"
	if _, err := LoadRulesOfResource(ctl, []*Rule{{
		Resource:               ctl,
		TokenCalculateStrategy: WarmUp,
		ControlBehavior:        Reject,
		Threshold:              10,
		WarmUpPeriodSec:        3,
		WarmUpColdFactor:       3,
		StatIntervalInMs:       1000,
	}}); err != nil {
		t.Fatal(err)
	}
	lastSecond := 0
	for s := 0; s < 15; s++ {
		lastSecond = 0
		for i := 0; i < 20; i++ {
			if reviewEntry(sc, ctl, 3) {
				lastSecond++
			}
			clock.Sleep(50 * time.Millisecond)
		}
	}
	if lastSecond != 3 {
		t.Fatalf("control: requests of 3 tokens should warm the rule up to 3 requests per second, got %d", lastSecond)
	}

	// Two minutes (forty warm-up periods) of steady demand: a request of 4 tokens every 50 ms. A warm rule
	// admits two of them per second (8 <= 10), the cold rate is 10/3 tokens per second.
	const seconds = 120
	passed := 0
	firstPass := -1
	for s := 0; s < seconds; s++ {
		for i := 0; i < 20; i++ {
			if reviewEntry(sc, res, 4) {
				passed++
				if firstPass < 0 {
					firstPass = s
				}
			}
			clock.Sleep(50 * time.Millisecond)
		}
	}
	if passed == 0 {
		t.Fatalf("warm-up rule (threshold 10 per second, cold factor 3, warm-up period 3 s) under a steady demand of 20 "+
			"requests of 4 tokens per second for %d s: not one request passed. The rule should leave its cold rate "+
			"under demand and admit 2 such requests per second once it is warm; it stays cold for ever because an "+
			"interval in which the demand was rejected completely counts as an idle one and refills the bucket.", seconds)
	}
	t.Logf("passed %d requests, the first one in second %d", passed, firstPass)
}

// Finding 3 (67e71b8 / e6c5007).
//
// Since e6c5007 'an ID decides which old rule a new one continues'. The ID the matching looks at is the one
// of the rule object bound to the old controller - and a controller that is kept for a rule with the same
// fields under ANOTHER ID (pass 1, e.g. rules that are given IDs, or an ID that is renamed) keeps its old rule
// object: the ID it is known by from then on is one that is no longer loaded. At the next load a rule
// that uses that stale ID is 'served first' and takes the controller away from the rule it belongs to,
// although that rule is in both loads, unchanged, under its own ID.
func TestReviewControllerKeptByFieldsIsKnownByAStaleID(t *testing.T) {
	defer func() { _ = ClearRules() }()
	_ = ClearRules()

	const res = "zz-review-flow-stale-id"
	mk := func(id string) *Rule {
		return &Rule{
			ID:                     id,
			Resource:               res,
			TokenCalculateStrategy: Direct,
			ControlBehavior:        Reject,
			Threshold:              10,
			// an interval that cannot be served by the resource's statistic: the rule counts for itself
			StatIntervalInMs: 1500,
		}
	}
	controllerOf := func(id string) *TrafficShapingController {
		// the i-th controller of a resource belongs to the i-th (valid) rule of the load
		rules := currentRules[res]
		tcs := getTrafficControllerListFor(res)
		if len(rules) != len(tcs) {
			t.Fatalf("%d rules loaded but %d controllers", len(rules), len(tcs))
		}
		for i, r := range rules {
			if r.ID == id {
				return tcs[i]
			}
		}
		t.Fatalf("no rule with ID %q loaded", id)
		return nil
	}

	// load 1: the rule is known as "a"
	if _, err := LoadRules([]*Rule{mk("a")}); err != nil {
		t.Fatal(err)
	}
	tcA := controllerOf("a")
	tcA.boundStat.writeOnlyMetric.AddCount(base.MetricEventPass, 7) // its state: 7 of 10 used

	// load 2: the same rule is renamed to "b" - nothing else changes, the controller stays (by its fields)
	if _, err := LoadRules([]*Rule{mk("b")}); err != nil {
		t.Fatal(err)
	}
	if controllerOf("b") != tcA {
		t.Fatal("setup: a rule that only changes its ID keeps its controller")
	}

	// load 3: rule "b" is listed again, unchanged, and a NEW rule is added that happens to be called "a"
	if _, err := LoadRules([]*Rule{mk("b"), mk("a")}); err != nil {
		t.Fatal(err)
	}
	if got := controllerOf("b"); got != tcA {
		ids := make([]string, 0, 2)
		for _, r := range GetRulesOfResource(res) {
			ids = append(ids, r.ID)
		}
		t.Fatalf("rule \"b\" is in load 2 and in load 3 with the same ID and the same fields, but load 3 rebuilt its "+
			"controller (passed tokens counted: %d, should be 7) and gave the one it had (%d counted) to the rule "+
			"\"a\" that was new in load 3: the kept controller was still known by the ID \"a\" of load 1, which load 2 "+
			"had dropped. GetRulesOfResource reports the IDs %v.",
			got.boundStat.readOnlyMetric.GetSum(base.MetricEventPass),
			controllerOf("a").boundStat.readOnlyMetric.GetSum(base.MetricEventPass), ids)
	}
}
