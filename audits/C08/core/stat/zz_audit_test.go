package stat

import (
	"sync"
	"sync/atomic"
	"testing"
	"time"

	"github.com/alibaba/sentinel-golang/core/base"
	sbase "github.com/alibaba/sentinel-golang/core/stat/base"
	"github.com/alibaba/sentinel-golang/util"
)

// auditClock is a util.Clock whose millisecond value is set by the test.
// If script is non-empty, every CurrentTimeMillis call consumes the next
// scripted value (the last one is repeated); the values are non-decreasing.
type auditClock struct {
	mu     sync.Mutex
	ms     uint64
	script []uint64
}

func (c *auditClock) set(ms uint64) {
	c.mu.Lock()
	c.ms = ms
	c.script = nil
	c.mu.Unlock()
}

func (c *auditClock) play(script ...uint64) {
	c.mu.Lock()
	c.script = script
	c.mu.Unlock()
}

func (c *auditClock) CurrentTimeMillis() uint64 {
	c.mu.Lock()
	defer c.mu.Unlock()
	if len(c.script) > 0 {
		c.ms = c.script[0]
		if len(c.script) > 1 {
			c.script = c.script[1:]
		}
	}
	return c.ms
}
func (c *auditClock) CurrentTimeNano() uint64 { return c.CurrentTimeMillis() * 1000000 }

// fixedClock is a lock-free util.Clock that never moves.
type fixedClock uint64

func (c fixedClock) CurrentTimeMillis() uint64 { return uint64(c) }
func (c fixedClock) CurrentTimeNano() uint64   { return uint64(c) * 1000000 }
func (c fixedClock) Now() time.Time            { return time.Unix(0, int64(c.CurrentTimeNano())) }
func (c fixedClock) Sleep(time.Duration)       {}
func (c *auditClock) Now() time.Time           { return time.Unix(0, int64(c.CurrentTimeNano())) }
func (c *auditClock) Sleep(time.Duration)      {}

// Finding 1: the timestamp 0 is treated as "no time".
//
// (a) With the default geometry (array 20 x 500ms, view 2 x 500ms) one pass is recorded at t=30ms.
// At t=500ms the previous-window QPS is read. The previous window is the view window one view
// bucket (500ms) earlier, i.e. the bucket-aligned window ending at the bucket [0,500), which
// contains the event. The library computes 500-500=0 as the read time and the leap array answers
// "no buckets" for a read time of 0.
// (b) An event recorded at t=0 is silently dropped, so a read at t=1 (same bucket) misses it.
func TestAuditTimestampZeroLosesEvents(t *testing.T) {
	clk := &auditClock{}
	util.SetClock(clk)
	defer util.SetClock(util.NewRealClock())

	// (a)
	clk.set(30)
	n := NewBaseStatNode(2, 1000) // view 2 x 500ms over the default 20 x 500ms array
	n.AddCount(base.MetricEventPass, 1)
	clk.set(499)
	if got := n.GetQPS(base.MetricEventPass); got != 1 {
		t.Fatalf("setup: QPS at t=499 is %v, expected 1", got)
	}
	clk.set(500)
	// current window [0,1000) still holds the event, and so does the previous window (-500,500)
	if got := n.GetQPS(base.MetricEventPass); got != 1 {
		t.Fatalf("setup: QPS at t=500 is %v, expected 1", got)
	}
	if got := n.GetPreviousQPS(base.MetricEventPass); got != 1 {
		t.Errorf("one pass recorded at t=30ms; previous-window QPS read at t=500ms (view 2x500ms over array 20x500ms) "+
			"is %v, but the previous window is the aligned window ending at bucket [0,500) which contains the event, "+
			"so the property demands 1 (nothing inside the window may be lost; timestamps near zero are in scope). "+
			"At t=501 the same read gives %v.", got, func() float64 { clk.set(501); return n.GetPreviousQPS(base.MetricEventPass) }())
	}

	// (b)
	clk.set(0)
	arr := sbase.NewBucketLeapArray(2, 1000)
	m, err := sbase.NewSlidingWindowMetric(2, 1000, arr)
	if err != nil {
		t.Fatal(err)
	}
	arr.AddCount(base.MetricEventPass, 1)
	clk.set(1)
	if got := m.GetSum(base.MetricEventPass); got != 1 {
		t.Errorf("one pass recorded at t=0ms; sum read at t=1ms (same bucket [0,500)) is %d, the property demands 1: "+
			"the event at timestamp 0 was dropped", got)
	}
}

// Finding 2: the average response time is computed from two window sums that are taken at two
// different clock readings. If the clock crosses a bucket boundary between the two readings, the
// quotient mixes the completion count of one window with the RT sum of the next one and equals the
// average of neither window.
func TestAuditAvgRtMixesTwoWindows(t *testing.T) {
	clk := &auditClock{}
	util.SetClock(clk)
	defer util.SetClock(util.NewRealClock())

	const T = uint64(1700000000000) // aligned to 500ms and 1000ms
	record := func(add func(base.MetricEvent, int64)) {
		clk.set(T + 100) // bucket [T, T+500)
		add(base.MetricEventRt, 100)
		add(base.MetricEventComplete, 1)
		clk.set(T + 600) // bucket [T+500, T+1000)
		add(base.MetricEventRt, 10)
		add(base.MetricEventComplete, 1)
	}
	// window ending at the bucket of T+999 = [T, T+1000): avg (100+10)/2 = 55
	// window ending at the bucket of T+1000 = [T+500, T+1500): avg 10/1 = 10
	check := func(name string, got float64) {
		if got != 55 && got != 10 {
			t.Errorf("%s: two completions recorded, RT 100ms at T+100 and RT 10ms at T+600. A read that starts at T+999 and "+
				"during which the clock ticks to T+1000 returned an average RT of %v ms. The aligned window at T+999 has "+
				"average 55, the one at T+1000 has average 10; the property demands the value of the window ending at the "+
				"current bucket; %v is the average of no window (completion count and RT sum come from different windows)", name, got, got)
		}
	}

	clk.set(T)
	n := NewBaseStatNode(2, 1000)
	record(n.AddCount)
	clk.set(T + 999)
	if got := n.AvgRT(); got != 55 {
		t.Fatalf("setup: avg RT at T+999 = %v, expected 55", got)
	}
	clk.play(T+999, T+1000) // monotone clock: first reading T+999, every later one T+1000
	check("BaseStatNode.AvgRT", n.AvgRT())

	clk.set(T)
	n2 := NewBaseStatNode(2, 1000)
	record(n2.AddCount)
	rs, err := n2.GenerateReadStat(2, 1000)
	if err != nil {
		t.Fatal(err)
	}
	clk.play(T+999, T+1000)
	check("SlidingWindowMetric.AvgRT (GenerateReadStat)", rs.AvgRT())
}

// Finding 3: minimum RT and peak concurrency are maintained with a load / compare / store sequence
// that is not atomic, so of two concurrent recordings into one bucket the worse value can overwrite
// the better one: a recorded minimum / maximum is lost although its event is inside the window.
func TestAuditConcurrentMinRtAndPeakConcurrencyLost(t *testing.T) {
	util.SetClock(fixedClock(1700000000001))
	defer util.SetClock(util.NewRealClock())

	const G = 4
	deadline := time.Now().Add(10 * time.Second)
	rounds, lostMin, lostMax := 0, 0, 0
	var firstMin float64
	var firstMax int32
	for time.Now().Before(deadline) && (lostMin == 0 || lostMax == 0) {
		rounds++
		n := NewBaseStatNode(2, 1000)
		var start int32
		var wg sync.WaitGroup
		for g := 0; g < G; g++ {
			wg.Add(1)
			go func(g int) {
				defer wg.Done()
				for atomic.LoadInt32(&start) == 0 {
				}
				n.IncreaseConcurrency()                     // records 1..G, each value exactly once
				n.AddCount(base.MetricEventRt, int64(10+g)) // records RT 10..10+G-1
			}(g)
		}
		atomic.StoreInt32(&start, 1)
		wg.Wait()
		// the clock never moved: all events are in the current bucket, i.e. inside the window
		if got := n.MinRT(); got != 10 {
			if lostMin == 0 {
				firstMin = got
			}
			lostMin++
		}
		if got := n.MaxConcurrency(); got != G {
			if lostMax == 0 {
				firstMax = got
			}
			lostMax++
		}
	}
	if lostMin > 0 {
		t.Errorf("%d goroutines each recorded one RT (10..%d ms) at the same timestamp; after all returned, MinRT() = %v "+
			"(round %d), the property demands the minimum of the recorded events in the window = 10", G, 10+G-1, firstMin, rounds)
	}
	if lostMax > 0 {
		t.Errorf("%d goroutines each called IncreaseConcurrency() once at the same timestamp (recording 1..%d); after all "+
			"returned, MaxConcurrency() = %d, the property demands the peak of the recorded values in the window = %d",
			G, G, firstMax, G)
	}
	t.Logf("rounds=%d lostMin=%d lostMax=%d", rounds, lostMin, lostMax)
}
