package api

import (
	"sync/atomic"
	"testing"
	"time"

	"github.com/alibaba/sentinel-golang/core/base"
	"github.com/alibaba/sentinel-golang/core/stat"
	"github.com/alibaba/sentinel-golang/util"
)

// auditClock is a virtual clock: it reads whatever millisecond value the test puts in it.
type auditClock struct{ ms int64 }

func (c *auditClock) Now() time.Time            { return time.Unix(0, atomic.LoadInt64(&c.ms)*int64(time.Millisecond)) }
func (c *auditClock) Sleep(d time.Duration)     { atomic.AddInt64(&c.ms, int64(d/time.Millisecond)) }
func (c *auditClock) CurrentTimeMillis() uint64 { return uint64(atomic.LoadInt64(&c.ms)) }
func (c *auditClock) CurrentTimeNano() uint64 {
	return uint64(atomic.LoadInt64(&c.ms)) * uint64(time.Millisecond)
}

// Finding 1.
// The inbound total (stat.InboundNode()) is a package-level node whose bucket array is laid out
// at package initialisation with the wall clock of that moment. Every later write whose clock
// value lies before that moment is refused by the leap array ("Provided time ... is already
// behind old.BucketStart") and BaseStatNode.AddCount drops it silently. So for any virtual time
// earlier than the start of the process (a simulation that starts at t=1_000_000ms, a
// testing/synctest bubble that starts at 2000-01-01, a wall clock that was stepped back) an
// inbound request is counted on its resource but NOT on the inbound total, although the
// inbound concurrency gauge (a plain atomic) does move.
func TestAuditInboundTotalNotCountedAtVirtualTimeBeforeProcessStart(t *testing.T) {
	clk := &auditClock{ms: 1000000} // virtual time 1000s: monotonic from here on, never stepped back
	util.SetClock(clk)
	defer util.SetClock(util.NewRealClock())

	const res = "audit-inbound-early-clock"
	const batch = 3

	e, b := Entry(res, WithTrafficType(base.Inbound), WithBatchCount(batch))
	if b != nil || e == nil {
		t.Fatalf("unexpected block without any rule: %v", b)
	}
	in := stat.InboundNode()
	rn := stat.GetResourceNode(res)
	if rn == nil {
		t.Fatalf("no resource node for %q", res)
	}
	resPass, inPass := rn.GetSum(base.MetricEventPass), in.GetSum(base.MetricEventPass)
	inConc := in.CurrentConcurrency()

	atomic.AddInt64(&clk.ms, 7)
	e.Exit()
	resDone, inDone := rn.GetSum(base.MetricEventComplete), in.GetSum(base.MetricEventComplete)
	resRt, inRt := rn.GetSum(base.MetricEventRt), in.GetSum(base.MetricEventRt)

	// control: the resource itself was accounted correctly at the very same clock values
	if resPass != batch || resDone != batch || resRt != 7 {
		t.Fatalf("control failed: resource node has pass=%d complete=%d rt=%d, want %d/%d/7", resPass, resDone, resRt, batch, batch)
	}
	// the same figures read with the wall clock again: were they perhaps written and only not visible at the virtual time?
	util.SetClock(util.NewRealClock())
	inPassWall, inDoneWall := in.GetSum(base.MetricEventPass), in.GetSum(base.MetricEventComplete)

	if inPass != batch || inDone != batch || inRt != 7 {
		t.Errorf("inbound Entry(%q, batch=%d) at virtual time 1000000ms, Exit 7ms later: the resource was counted (pass=%d complete=%d rt=%d) "+
			"but the inbound total has pass=%d complete=%d rt=%d (in-flight inbound concurrency gauge was %d; read back with the wall clock: pass=%d complete=%d). "+
			"The property demands that every outcome is counted exactly once on the resource AND on the inbound total when the traffic is inbound, at any virtual time; "+
			"the inbound node's buckets were laid out with the wall clock at package init, and writes with an earlier clock value are dropped.",
			res, batch, resPass, resDone, resRt, inPass, inDone, inRt, inConc, inPassWall, inDoneWall)
	}
}

// nilPanicCheckSlot is a rule-check slot that panics with a nil value: `panic(err)` with an
// error variable that happens to be nil.
type nilPanicCheckSlot struct{}

func (s *nilPanicCheckSlot) Order() uint32 { return 10 }
func (s *nilPanicCheckSlot) Check(ctx *base.EntryContext) *base.TokenResult {
	var err error
	panic(err)
}

type auditRecordingSlot struct {
	passed, blocked, completed int64
}

func (s *auditRecordingSlot) Order() uint32 { return 9000 }
func (s *auditRecordingSlot) OnEntryPassed(ctx *base.EntryContext) {
	atomic.AddInt64(&s.passed, int64(ctx.Input.BatchCount))
}
func (s *auditRecordingSlot) OnEntryBlocked(ctx *base.EntryContext, _ *base.BlockError) {
	atomic.AddInt64(&s.blocked, int64(ctx.Input.BatchCount))
}
func (s *auditRecordingSlot) OnCompleted(ctx *base.EntryContext) {
	atomic.AddInt64(&s.completed, int64(ctx.Input.BatchCount))
}

// Finding 2.
// SlotChain.Entry decides "an internal panic passed this request before the statistic slots saw
// it" (ctx.skipCompletion) inside `if err := recover(); err != nil`. With GODEBUG=panicnil=1 -
// the default of every program whose main module declares go < 1.21, as this library's own
// go.mod (go 1.18) did - recover() returns nil for panic(nil) / panic(error(nil)). The panic is
// swallowed all the same, Entry returns nil and the request is passed, but skipCompletion stays
// false: Exit reports a completion for a request that was never reported as passed and the
// concurrency gauge of the resource becomes -1 with nothing in flight.
func TestAuditNilPanicInRuleCheckIsCompletedWithoutPass(t *testing.T) {
	t.Setenv("GODEBUG", "panicnil=1")

	sc := base.NewSlotChain()
	sc.AddStatPrepareSlot(stat.DefaultResourceNodePrepareSlot)
	sc.AddRuleCheckSlot(&nilPanicCheckSlot{})
	rec := &auditRecordingSlot{}
	sc.AddStatSlot(stat.DefaultSlot)
	sc.AddStatSlot(rec)

	const res = "audit-nil-panic"
	e, b := Entry(res, WithSlotChain(sc), WithBatchCount(2))
	if b != nil || e == nil {
		t.Fatalf("a request whose rule check panics must be passed, got entry=%v blockErr=%v", e, b)
	}
	rn := stat.GetResourceNode(res)
	if rn == nil {
		t.Fatalf("no resource node for %q", res)
	}
	passSeen := atomic.LoadInt64(&rec.passed)
	passStat := rn.GetSum(base.MetricEventPass)
	e.Exit()
	e.Exit()
	doneSeen := atomic.LoadInt64(&rec.completed)
	doneStat := rn.GetSum(base.MetricEventComplete)
	conc := rn.CurrentConcurrency()

	if conc != 0 || doneSeen != passSeen || doneStat != passStat {
		t.Errorf("rule-check slot panicked with a nil value (GODEBUG=panicnil=1), request passed, then exited: "+
			"recording slot saw passed=%d completed=%d, resource node has pass=%d complete=%d, concurrency with no entry in flight = %d. "+
			"The property demands that the concurrency is exactly zero and never negative when nothing is in flight, 'including when rule evaluation panics internally "+
			"and the request is passed', and that only entries counted as passed contribute a completion; SlotChain.Entry recognises the panic only by recover() != nil.",
			passSeen, doneSeen, passStat, doneStat, conc)
	}
}
