package micro

import (
	"context"
	"fmt"
	"sync"
	"testing"
	"time"

	"github.com/micro/go-micro/v2/client"
	"github.com/micro/go-micro/v2/registry"

	sentinel "github.com/alibaba/sentinel-golang/api"
	"github.com/alibaba/sentinel-golang/core/base"
	"github.com/alibaba/sentinel-golang/core/stat"
)

// auditFailingClient stands in for the go-micro rpc client behind the Sentinel wrapper. Like
// rpcClient.Call it applies the call options it is given, wraps its call function in the call wrappers
// found there and calls one node; the call always fails. Before it reads its options it waits until
// both callers have arrived, which fixes one legal interleaving of two concurrent callers (each
// goroutine has left the Sentinel wrapper and has not read its options yet).
type auditFailingClient struct {
	client.Client
	arrived *sync.WaitGroup
}

func (f *auditFailingClient) Call(ctx context.Context, req client.Request, rsp interface{}, opts ...client.CallOption) error {
	f.arrived.Done()
	f.arrived.Wait()

	var callOpts client.CallOptions
	for _, o := range opts {
		o(&callOpts)
	}
	var call client.CallFunc = func(ctx context.Context, node *registry.Node, req client.Request, rsp interface{}, opts client.CallOptions) error {
		return fmt.Errorf("audit: call of %s on %s failed", req.Service(), node.Address)
	}
	for i := len(callOpts.CallWrappers); i > 0; i-- {
		call = callOpts.CallWrappers[i-1](call)
	}
	return call(ctx, &registry.Node{Id: "n1", Address: "10.0.0.1:8080"}, req, rsp, callOpts)
}

// auditTwoFailingCalls makes two concurrent calls (one to service svcA, one to svcB) through the Sentinel
// client wrapper in outlier mode; both are admitted, both fail. It returns how many completions and how
// many errors Sentinel recorded for either service.
func auditTwoFailingCalls(t *testing.T, svcA, svcB string, optsFor func() []client.CallOption) (completeA, errA, completeB, errB int64, retA, retB error) {
	arrived := &sync.WaitGroup{}
	arrived.Add(2)
	wrapped := NewClientWrapper(WithEnableOutlier(func(ctx context.Context) bool { return true }))(&auditFailingClient{arrived: arrived})

	done := &sync.WaitGroup{}
	done.Add(2)
	go func() {
		defer done.Done()
		retA = wrapped.Call(context.Background(), client.NewRequest(svcA, "Test.Ping", &struct{}{}), nil, optsFor()...)
	}()
	go func() {
		defer done.Done()
		retB = wrapped.Call(context.Background(), client.NewRequest(svcB, "Test.Ping", &struct{}{}), nil, optsFor()...)
	}()
	fin := make(chan struct{})
	go func() { done.Wait(); close(fin) }()
	select {
	case <-fin:
	case <-time.After(10 * time.Second):
		t.Fatalf("the two calls did not return")
	}
	na, nb := stat.GetResourceNode(svcA), stat.GetResourceNode(svcB)
	if na == nil || nb == nil {
		t.Fatalf("no statistics for %s / %s: the wrapper did not ask Sentinel for an entry", svcA, svcB)
	}
	return na.GetSum(base.MetricEventComplete), na.GetSum(base.MetricEventError),
		nb.GetSum(base.MetricEventComplete), nb.GetSum(base.MetricEventError), retA, retB
}

// Two goroutines call through the Sentinel client wrapper (outlier mode) with the SAME option slice,
// built once with spare capacity (opts := make([]client.CallOption, 0, 4); opts = append(opts, retries)),
// which is an ordinary way to keep default call options around and is safe with the plain go-micro
// client, because that one only reads the slice.
// The wrapper appends its per-request options (node filter and call wrapper, both bound to the entry of
// THIS request) to the slice it was given, i.e. into the spare capacity of the caller's array. The
// second caller overwrites what the first one put there, so both calls are run with the wrapper of one
// entry: the failure of the other call is traced on an entry that does not belong to it, and its own
// entry is exited without any error.
func TestAuditMicroOutlierCallTracesErrorOnAnotherRequestsEntry(t *testing.T) {
	if err := sentinel.InitDefault(); err != nil {
		t.Fatalf("Unexpected error: %+v", err)
	}

	// control: the same two failing calls, every caller with an option slice of its own
	cA, eA, cB, eB, rA, rB := auditTwoFailingCalls(t, "audit.ctl.svcA", "audit.ctl.svcB", func() []client.CallOption {
		return []client.CallOption{client.WithRetries(0)}
	})
	if rA == nil || rB == nil || cA != 1 || cB != 1 || eA != 1 || eB != 1 {
		t.Fatalf("control broken: with separate option slices expected either entry to be exited once with its error traced, "+
			"got svcA complete=%d error=%d (returned %v), svcB complete=%d error=%d (returned %v)", cA, eA, rA, cB, eB, rB)
	}

	shared := make([]client.CallOption, 0, 4)
	shared = append(shared, client.WithRetries(0))
	cA, eA, cB, eB, rA, rB = auditTwoFailingCalls(t, "audit.svcA", "audit.svcB", func() []client.CallOption { return shared })
	if rA == nil || rB == nil {
		t.Fatalf("test assumption broken: both calls must fail, got %v / %v", rA, rB)
	}
	if cA != 1 || cB != 1 {
		t.Fatalf("entries were completed svcA=%d svcB=%d times, the property demands exactly one exit each", cA, cB)
	}
	if eA != 1 || eB != 1 {
		t.Fatalf("micro client wrapper, outlier mode, two concurrent admitted calls given the same option slice (len 1, cap 4): "+
			"both wrapped calls failed (svcA: %q, svcB: %q), but Sentinel recorded %d error(s) on the entry of svcA and %d on the entry of svcB; "+
			"the wrapper appended its per-entry call wrapper into the callers' shared array, so one call was traced on the other request's entry. "+
			"The property demands that every admitted request has its own handler error traced on its own entry before that entry is exited",
			rA, rB, eA, eB)
	}
}
