package gear

import (
	"errors"
	"io"
	"log"
	"net/http"
	"net/http/httptest"
	"sync"
	"testing"
	"time"

	sentinel "github.com/alibaba/sentinel-golang/api"
	"github.com/alibaba/sentinel-golang/core/base"
	"github.com/teambition/gear"
)

// auditProbeSlot is a statistic slot that records, per resource, with which error every
// admitted entry was completed (OnCompleted is what entry.Exit() runs).
type auditProbeSlot struct {
	mu        sync.Mutex
	completed map[string][]error
	signal    chan struct{}
}

func (s *auditProbeSlot) Order() uint32                                           { return 9000 }
func (s *auditProbeSlot) OnEntryPassed(_ *base.EntryContext)                      {}
func (s *auditProbeSlot) OnEntryBlocked(_ *base.EntryContext, _ *base.BlockError) {}
func (s *auditProbeSlot) OnCompleted(ctx *base.EntryContext) {
	s.mu.Lock()
	s.completed[ctx.Resource.Name()] = append(s.completed[ctx.Resource.Name()], ctx.Err())
	s.mu.Unlock()
	select {
	case s.signal <- struct{}{}:
	default:
	}
}
func (s *auditProbeSlot) get(res string) []error {
	s.mu.Lock()
	defer s.mu.Unlock()
	return append([]error(nil), s.completed[res]...)
}

var (
	auditProbe     = &auditProbeSlot{completed: map[string][]error{}, signal: make(chan struct{}, 16)}
	auditProbeOnce sync.Once
)

// An admitted request whose gear handler fails: a gear handler is a func(ctx) error, the error it
// returns is the failure of the request (gear answers with it). The Sentinel middleware exits the
// entry in an end hook that passes no error, and nothing else traces it.
func TestAuditGearHandlerErrorIsNotTraced(t *testing.T) {
	if err := sentinel.InitDefault(); err != nil {
		t.Fatalf("Unexpected error: %+v", err)
	}
	auditProbeOnce.Do(func() { sentinel.GlobalSlotChain().AddStatSlot(auditProbe) })

	handlerErr := errors.New("audit: handler failed")
	handlerRuns := 0

	app := gear.New()
	app.Set(gear.SetLogger, log.New(io.Discard, "", 0)) // keep the expected 500 out of the test output
	router := gear.NewRouter()
	router.Use(SentinelMiddleware())
	router.Handle(http.MethodGet, "/audit/fail", func(ctx *gear.Context) error {
		handlerRuns++
		return handlerErr
	})
	app.UseHandler(router)

	r := httptest.NewRequest(http.MethodGet, "/audit/fail", nil)
	w := httptest.NewRecorder()
	app.ServeHTTP(w, r)

	if handlerRuns != 1 {
		t.Fatalf("the handler of the admitted request ran %d times, want exactly once", handlerRuns)
	}
	if w.Code != http.StatusInternalServerError {
		t.Fatalf("test assumption broken: gear answered %d to a handler that returned an error, expected 500", w.Code)
	}
	// end hooks run in their own goroutine once the response has been written
	select {
	case <-auditProbe.signal:
	case <-time.After(5 * time.Second):
		t.Fatalf("the entry of the admitted request was never exited")
	}
	time.Sleep(50 * time.Millisecond) // a second (forbidden) exit would show up here
	got := auditProbe.get("GET:/audit/fail")
	if len(got) != 1 {
		t.Fatalf("entry of GET:/audit/fail was completed %d times, the property demands exactly one exit", len(got))
	}
	if got[0] == nil {
		t.Fatalf("gear SentinelMiddleware: the handler of an admitted request returned the error %q (gear answered %d), "+
			"but the entry was exited with NO error traced; the property demands that the entry is exited exactly once "+
			"on every path, including handler errors, which are traced", handlerErr, w.Code)
	}
}
