package goframe

import (
	"context"
	"errors"
	"net/http"
	"net/http/httptest"
	"sync"
	"testing"

	sentinel "github.com/alibaba/sentinel-golang/api"
	"github.com/alibaba/sentinel-golang/core/base"
	"github.com/gogf/gf/v2/frame/g"
	"github.com/gogf/gf/v2/net/ghttp"
)

// auditProbeSlot is a statistic slot that records, per resource, with which error every
// admitted entry was completed (OnCompleted is what entry.Exit() runs).
type auditProbeSlot struct {
	mu        sync.Mutex
	completed map[string][]error
}

func (s *auditProbeSlot) Order() uint32                                           { return 9000 }
func (s *auditProbeSlot) OnEntryPassed(_ *base.EntryContext)                      {}
func (s *auditProbeSlot) OnEntryBlocked(_ *base.EntryContext, _ *base.BlockError) {}
func (s *auditProbeSlot) OnCompleted(ctx *base.EntryContext) {
	s.mu.Lock()
	defer s.mu.Unlock()
	s.completed[ctx.Resource.Name()] = append(s.completed[ctx.Resource.Name()], ctx.Err())
}
func (s *auditProbeSlot) get(res string) []error {
	s.mu.Lock()
	defer s.mu.Unlock()
	return append([]error(nil), s.completed[res]...)
}

var (
	auditProbe     = &auditProbeSlot{completed: map[string][]error{}}
	auditProbeOnce sync.Once
)

func auditInstallProbe(t *testing.T) {
	if err := sentinel.InitDefault(); err != nil {
		t.Fatalf("Unexpected error: %+v", err)
	}
	auditProbeOnce.Do(func() { sentinel.GlobalSlotChain().AddStatSlot(auditProbe) })
}

type auditFailReq struct {
	g.Meta `path:"/audit/fail" method:"get"`
}
type auditFailRes struct{}

// An admitted request whose goframe handler fails. goframe has handlers that return an error
// (func(ctx, req) (res, err)); the framework stores that error on the request, where every
// middleware reads it with r.GetError() after r.Middleware.Next(). The Sentinel middleware
// must trace it on the entry; it exits the entry without any error instead.
func TestAuditGoframeHandlerErrorIsNotTraced(t *testing.T) {
	auditInstallProbe(t)

	handlerErr := errors.New("audit: handler failed")
	handlerRuns := 0
	var seenByOuterMiddleware error

	s := g.Server("audit-goframe-handler-error")
	s.SetDumpRouterMap(false)
	s.Group("/", func(group *ghttp.RouterGroup) {
		// an ordinary middleware placed around the Sentinel one: shows what the framework
		// makes available to a middleware once Next() has returned
		group.Middleware(func(r *ghttp.Request) {
			r.Middleware.Next()
			seenByOuterMiddleware = r.GetError()
		})
		group.Middleware(SentinelMiddleware())
		group.Bind(func(ctx context.Context, req *auditFailReq) (res *auditFailRes, err error) {
			handlerRuns++
			return nil, handlerErr
		})
	})
	s.Start()

	r := httptest.NewRequest(http.MethodGet, "/audit/fail", nil)
	w := httptest.NewRecorder()
	s.ServeHTTP(w, r)

	if handlerRuns != 1 {
		t.Fatalf("the handler of the admitted request ran %d times, want exactly once", handlerRuns)
	}
	if !errors.Is(seenByOuterMiddleware, handlerErr) {
		t.Fatalf("test assumption broken: goframe did not expose the handler error to middlewares (r.GetError() = %v)", seenByOuterMiddleware)
	}
	got := auditProbe.get("GET:/audit/fail")
	if len(got) != 1 {
		t.Fatalf("entry of GET:/audit/fail was completed %d times, the property demands exactly one exit", len(got))
	}
	if got[0] == nil {
		t.Fatalf("goframe SentinelMiddleware: the handler of an admitted request returned the error %q "+
			"(a middleware reads it from r.GetError() after Next(): %v), but the entry was exited with NO error traced; "+
			"the property demands that the entry is exited exactly once on every path, including handler errors, which are traced",
			handlerErr, seenByOuterMiddleware)
	}
}
