package datasource_test

// Audit of the property "datasource payloads are applied faithfully or rejected, never half-applied".
// Every test in this file FAILS on the unmodified code; see AUDIT.md at the repository root.

import (
	"io/ioutil"
	"os"
	"path/filepath"
	"testing"
	"time"

	"github.com/alibaba/sentinel-golang/core/flow"
	"github.com/alibaba/sentinel-golang/core/hotspot"
	"github.com/alibaba/sentinel-golang/ext/datasource"
	"github.com/alibaba/sentinel-golang/ext/datasource/file"
)

func auditWaitFor(cond func() bool, d time.Duration) bool {
	deadline := time.Now().Add(d)
	for time.Now().Before(deadline) {
		if cond() {
			return true
		}
		time.Sleep(10 * time.Millisecond)
	}
	return cond()
}

func auditFlowResources() []string {
	rs := flow.GetRules()
	out := make([]string, 0, len(rs))
	for _, r := range rs {
		out = append(out, r.Resource)
	}
	return out
}

// Finding 1: hotspot.Rule's wire format has a "paramKey" member, the datasource parser drops it.
func TestAuditHotspotParamKeyIsLostByTheDatasourceParser(t *testing.T) {
	_ = hotspot.ClearRules()
	defer hotspot.ClearRules()

	h := datasource.NewHotSpotParamRulesHandler(datasource.HotSpotParamRuleJsonArrayParser)

	// (a) a valid rule that selects its parameter by attachment key
	payload := `[{"resource":"audit-hs","metricType":1,"controlBehavior":0,"paramKey":"uid","threshold":1,"durationInSec":1}]`
	if err := h.Handle([]byte(payload)); err != nil {
		t.Fatalf("valid hotspot payload was rejected: %v", err)
	}
	got := hotspot.GetRulesOfResource("audit-hs")
	if len(got) != 1 {
		t.Fatalf("expected exactly the one rule of the payload in force, got %+v", got)
	}
	if got[0].ParamKey != "uid" {
		t.Errorf("payload %s describes a hotspot rule with paramKey=\"uid\" (json tag of hotspot.Rule.ParamKey), "+
			"but the rule in force has ParamKey=%q ParamIndex=%d: the rule now limits positional argument 0 instead of attachment \"uid\". "+
			"The property demands that a rule list in the module's JSON wire format decodes to exactly the rules it describes.",
			payload, got[0].ParamKey, got[0].ParamIndex)
	}

	// (b) a rule that hotspot.IsValidRule rejects (paramIndex>0 together with paramKey) must not be in force
	payload = `[{"resource":"audit-hs2","metricType":1,"paramIndex":1,"paramKey":"uid","threshold":1,"durationInSec":1}]`
	want := &hotspot.Rule{Resource: "audit-hs2", MetricType: hotspot.QPS, ParamIndex: 1, ParamKey: "uid", Threshold: 1, DurationInSec: 1}
	if hotspot.IsValidRule(want) == nil {
		t.Fatalf("test premise broken: the described rule is expected to be invalid")
	}
	if err := h.Handle([]byte(payload)); err != nil {
		t.Fatalf("hotspot payload was rejected: %v", err)
	}
	if got := hotspot.GetRulesOfResource("audit-hs2"); len(got) != 0 {
		t.Errorf("payload %s describes a rule that hotspot.IsValidRule rejects (paramIndex and paramKey are mutually exclusive), "+
			"so only the list's valid rules - none - may be in force; but a different, mutilated rule is in force: %+v", payload, got)
	}
}

// Finding 2: replacing the watched file atomically (write a temp file, rename it over the path) - the way
// editors, `sed -i`, config management and most "safe write" helpers write a file - clears the rules and
// kills the datasource for good instead of converging to the file's new content.
func TestAuditFileDatasourceDiesOnAtomicReplaceOfTheFile(t *testing.T) {
	_ = flow.ClearRules()
	defer flow.ClearRules()

	dir := t.TempDir()
	p := filepath.Join(dir, "flow-rules.json")
	if err := ioutil.WriteFile(p, []byte(`[{"resource":"audit-file-a","threshold":5}]`), 0644); err != nil {
		t.Fatal(err)
	}
	ds := file.NewFileDataSource(p, datasource.NewFlowRulesHandler(datasource.FlowRuleJsonArrayParser))
	if err := ds.Initialize(); err != nil {
		t.Fatal(err)
	}
	if r := auditFlowResources(); len(r) != 1 || r[0] != "audit-file-a" {
		t.Fatalf("initial content not loaded: %v", r)
	}

	// write #1: atomic replace
	tmp := p + ".tmp"
	if err := ioutil.WriteFile(tmp, []byte(`[{"resource":"audit-file-b","threshold":7}]`), 0644); err != nil {
		t.Fatal(err)
	}
	if err := os.Rename(tmp, p); err != nil {
		t.Fatal(err)
	}
	okB := auditWaitFor(func() bool { r := auditFlowResources(); return len(r) == 1 && r[0] == "audit-file-b" }, 3*time.Second)
	afterReplace := auditFlowResources()

	// write #2: a plain in-place write of the (existing) file afterwards
	if err := ioutil.WriteFile(p, []byte(`[{"resource":"audit-file-c","threshold":9}]`), 0644); err != nil {
		t.Fatal(err)
	}
	okC := auditWaitFor(func() bool { r := auditFlowResources(); return len(r) == 1 && r[0] == "audit-file-c" }, 3*time.Second)
	afterWrite := auditFlowResources()

	if !okB {
		t.Errorf("the file was rewritten by rename(tmp, path) and now holds the rule list [audit-file-b], "+
			"but 3s later the flow rules in force are %v: the datasource treated the write as a removal and cleared the rules. "+
			"The property demands that the file datasource converges to the file's current content after each write.", afterReplace)
	}
	if !okC {
		t.Errorf("after the atomic replace the file was written in place and now holds [audit-file-c], "+
			"but 3s later the flow rules in force are %v: the datasource stopped watching for good (its goroutine called Close() on itself). "+
			"The property demands convergence to the file's current content after each write.", afterWrite)
	}
}

// Finding 3: the first payload a handler ever receives is silently dropped when it is empty,
// so the empty payload does not clear the rules that are in force.
func TestAuditEmptyFirstPayloadDoesNotClearTheRules(t *testing.T) {
	_ = flow.ClearRules()
	defer flow.ClearRules()

	// rules are in force before the handler sees its first payload (loaded by the application at start-up,
	// or by another handler / datasource of the same rule type)
	if _, err := flow.LoadRules([]*flow.Rule{{Resource: "audit-default", Threshold: 1}}); err != nil {
		t.Fatal(err)
	}
	if r := auditFlowResources(); len(r) != 1 {
		t.Fatalf("premise: one rule in force, got %v", r)
	}

	h := datasource.NewFlowRulesHandler(datasource.FlowRuleJsonArrayParser)
	if err := h.Handle([]byte{}); err != nil {
		t.Fatalf("empty payload returned an error: %v", err)
	}
	if r := auditFlowResources(); len(r) != 0 {
		t.Errorf("an empty payload was delivered to a flow rule handler and Handle returned nil, but the flow rules in force are still %v. "+
			"The property demands that an empty payload clears the rules (it is not a re-delivery: it is the first payload of this handler). "+
			"Delivering \"[]\" instead does clear them.", r)
	}

	// contrast: the equivalent non-empty spelling of "no rules" works on a fresh handler
	_, _ = flow.LoadRules([]*flow.Rule{{Resource: "audit-default", Threshold: 1}})
	h2 := datasource.NewFlowRulesHandler(datasource.FlowRuleJsonArrayParser)
	if err := h2.Handle([]byte("[]")); err != nil || len(auditFlowResources()) != 0 {
		t.Logf("note: \"[]\" did not clear either: err=%v rules=%v", err, auditFlowResources())
	}
}
