package flow

import (
	"sync"
	"testing"
	"time"

	"github.com/alibaba/sentinel-golang/core/base"
	"github.com/alibaba/sentinel-golang/core/config"
	"github.com/alibaba/sentinel-golang/core/stat"
	"github.com/alibaba/sentinel-golang/util"
)

// reviewClock is a settable clock.
type reviewClock struct {
	mu sync.Mutex
	ms uint64
}

func (c *reviewClock) set(ms uint64) { c.mu.Lock(); c.ms = ms; c.mu.Unlock() }
func (c *reviewClock) get() uint64   { c.mu.Lock(); defer c.mu.Unlock(); return c.ms }
func (c *reviewClock) Now() time.Time {
	return time.Unix(0, int64(c.get())*int64(time.Millisecond))
}
func (c *reviewClock) Sleep(d time.Duration) {
	if d > 0 {
		c.mu.Lock()
		c.ms += uint64(d / time.Millisecond)
		c.mu.Unlock()
	}
}
func (c *reviewClock) CurrentTimeMillis() uint64 { return c.get() }
func (c *reviewClock) CurrentTimeNano() uint64   { return c.get() * uint64(time.Millisecond) }

// reviewSaturate offers one single-token request every 10 ms for the given number of statistic intervals to the
// only controller of res (exactly what flow.Slot + stat slot do: check, and record the pass) and returns
// what was admitted in each interval.
func reviewSaturate(t *testing.T, clock *reviewClock, startMs uint64, res string, rule *Rule, intervalMs uint64, intervals int) []int {
	t.Helper()
	clock.set(startMs)
	if _, err := LoadRulesOfResource(res, []*Rule{rule}); err != nil {
		t.Fatalf("load: %v", err)
	}
	tcs := getTrafficControllerListFor(res)
	if len(tcs) != 1 {
		t.Fatalf("expected one controller for %s, got %d", res, len(tcs))
	}
	tc := tcs[0]
	node := stat.GetOrCreateResourceNode(res, base.ResTypeCommon)
	admitted := make([]int, intervals)
	for ms := uint64(0); ms < intervalMs*uint64(intervals); ms += 10 {
		clock.set(startMs + ms)
		r := tc.PerformChecking(node, 1, 0)
		if r == nil || !r.IsBlocked() {
			node.AddCount(base.MetricEventPass, 1)
			admitted[ms/intervalMs]++
		}
	}
	return admitted
}

// Finding 1 (commit c14c346).
//
// c14c346 made the warm-up bucket work in units of the rule's statistic interval, but it takes that
// interval from rule.StatIntervalInMs alone and falls back to 1000 ms when the field is 0. A rule with
// StatIntervalInMs == 0 is bound to the resource's DEFAULT statistic, whose interval is the configured
// metricStatisticIntervalMs - its threshold counts tokens per THAT interval. With the default statistic
// configured to 2 s, the rule is exactly in the situation the commit describes ("never left its cold rate"),
// while the same rule written with StatIntervalInMs: 2000 warms up.
func TestReviewWarmUpWithConfiguredDefaultStatIntervalNeverWarmsUp(t *testing.T) {
	oldClock := util.CurrentClock()
	clock := &reviewClock{}
	util.SetClock(clock)
	defer util.SetClock(oldClock)
	const start = uint64(1700000000000) // a multiple of 10 s

	newRule := func(res string, statIntervalMs uint32) *Rule {
		return &Rule{
			Resource:               res,
			TokenCalculateStrategy: WarmUp,
			ControlBehavior:        Reject,
			Threshold:              100, // per statistic interval
			WarmUpPeriodSec:        4,
			WarmUpColdFactor:       3,
			StatIntervalInMs:       statIntervalMs,
		}
	}
	const intervals = 30 // one minute of saturating demand, 15 warm-up periods

	// Control: default configuration (default statistic of 1 s), the rule names its interval of 2 s itself.
	ctl := reviewSaturate(t, clock, start, "review-warmup-explicit-2s", newRule("review-warmup-explicit-2s", 2000), 2000, intervals)
	defer func() { _, _ = LoadRulesOfResource("review-warmup-explicit-2s", nil) }()
	if ctl[0] > 40 || ctl[intervals-1] < 95 {
		t.Fatalf("control does not behave as c14c346 promises: StatIntervalInMs=2000 admitted %v per interval", ctl)
	}

	// Subject: the default statistic is configured to 2 s (4 buckets of 500 ms, a valid configuration), the
	// rule leaves StatIntervalInMs at 0 = "use the resource's default statistic".
	oldCfg := config.NewDefaultConfig()
	cfg := config.NewDefaultConfig()
	cfg.Sentinel.Stat.MetricStatisticIntervalMs = 2000
	cfg.Sentinel.Stat.MetricStatisticSampleCount = 4
	if err := config.CheckValid(cfg); err != nil {
		t.Fatalf("the configuration is supposed to be valid: %v", err)
	}
	config.ResetGlobalConfig(cfg)
	defer config.ResetGlobalConfig(oldCfg)

	got := reviewSaturate(t, clock, start+120000, "review-warmup-default-2s", newRule("review-warmup-default-2s", 0), 2000, intervals)
	defer func() { _, _ = LoadRulesOfResource("review-warmup-default-2s", nil) }()
	t.Logf("explicit StatIntervalInMs=2000      : admitted per 2 s interval %v", ctl)
	t.Logf("default statistic configured to 2 s : admitted per 2 s interval %v", got)
	if got[0] > 40 {
		t.Fatalf("the rule is not cold at the start: %v", got)
	}
	if got[intervals-1] < 95 {
		t.Errorf("warm-up rule (threshold 100 per interval, period 4 s, cold factor 3) bound to the resource's default "+
			"statistic of 2 s still admits %d per interval after 60 s of saturating demand (cold rate, for ever); "+
			"it should have reached its threshold of 100 after the warm-up period, as the same rule with "+
			"StatIntervalInMs=2000 does (%d)", got[intervals-1], ctl[intervals-1])
	}
}

// Finding 2 (commit 093d61b).
//
// 093d61b: "a reload that changes a threshold by less than 1e-8 must replace the rule ... [otherwise] the
// getters went on reporting the old rule ... Thresholds are now compared exactly, like every other field."
// One field is still not compared at all: Rule.isEqualsTo ignores the ID. A reload that changes only the ID
// of a rule is detected by LoadRules (reflect.DeepEqual) and reported as loaded, but the old controller,
// bound to the old rule object, stays in place: GetRules / GetRulesOfResource - and the TriggeredRule of
// every block error - go on reporting the ID that is no longer loaded.
func TestReviewFlowReloadThatChangesOnlyTheIDKeepsReportingTheOldRule(t *testing.T) {
	const res = "review-flow-id-only"
	defer func() { _, _ = LoadRulesOfResource(res, nil) }()

	if _, err := LoadRulesOfResource(res, []*Rule{{ID: "rule-a", Resource: res, Threshold: 0}}); err != nil {
		t.Fatal(err)
	}
	loaded, err := LoadRulesOfResource(res, []*Rule{{ID: "rule-b", Resource: res, Threshold: 0}})
	if err != nil || !loaded {
		t.Fatalf("the second load is a change and must be reported as loaded: loaded=%v err=%v", loaded, err)
	}
	got := GetRulesOfResource(res)
	if len(got) != 1 {
		t.Fatalf("expected one rule, got %+v", got)
	}
	if got[0].ID != "rule-b" {
		t.Errorf("after loading [{ID: rule-b}] over [{ID: rule-a}] (reported as loaded) GetRulesOfResource reports ID %q; "+
			"it should report the rule that was loaded, ID \"rule-b\"", got[0].ID)
	}
	tc := getTrafficControllerListFor(res)[0]
	node := stat.GetOrCreateResourceNode(res, base.ResTypeCommon)
	if r := tc.PerformChecking(node, 1, 0); r == nil || !r.IsBlocked() {
		t.Fatalf("threshold 0 must block")
	} else if rule, ok := r.BlockError().TriggeredRule().(*Rule); !ok || rule.ID != "rule-b" {
		t.Errorf("the block error names the rule %v as its cause; the rule in force is ID \"rule-b\"", r.BlockError().TriggeredRule())
	}
}
