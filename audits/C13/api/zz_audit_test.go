package api

import (
	"errors"
	"fmt"
	"testing"
	"time"

	"github.com/alibaba/sentinel-golang/core/base"
	"github.com/alibaba/sentinel-golang/core/circuitbreaker"
	"github.com/alibaba/sentinel-golang/core/flow"
	"github.com/alibaba/sentinel-golang/core/outlier"
	"github.com/alibaba/sentinel-golang/core/stat"
	"github.com/alibaba/sentinel-golang/util"
)

// auditMockClock installs a mock clock (so that statistic windows do not roll over in the middle
// of a probe) and returns the function restoring the previous one.
func auditMockClock() func() {
	prev := util.CurrentClock()
	util.SetClock(util.NewMockClock())
	return func() { util.SetClock(prev) }
}

// auditFailingCalls sends n calls that end with an error to res through the default slot chain and
// returns how many of them were blocked.
func auditFailingCalls(res string, n int) (blocked int) {
	for i := 0; i < n; i++ {
		e, b := Entry(res)
		if b != nil {
			blocked++
			continue
		}
		TraceError(e, errors.New("biz error"))
		e.Exit()
	}
	return blocked
}

// Finding 1: the circuit breaker getters are served from a rule list (breakerRules) that is kept
// next to the list of breakers that is enforced (breakers), and the two lists diverge whenever
// BuildResourceCircuitBreaker drops a rule that passed IsValidRule.
func TestAudit_CircuitBreakerGettersReportRulesThatAreNotEnforced(t *testing.T) {
	defer auditMockClock()()
	_ = circuitbreaker.ClearRules()
	defer circuitbreaker.ClearRules()

	mk := func(res string, s circuitbreaker.Strategy) *circuitbreaker.Rule {
		return &circuitbreaker.Rule{
			Resource:         res,
			Strategy:         s,
			RetryTimeoutMs:   600000,
			MinRequestAmount: 1,
			StatIntervalMs:   600000,
			Threshold:        1, // error count: open after the first failed call
		}
	}

	// (a) per-resource load of "A" with a list that also carries a rule made for resource "B"
	const resA, resB = "audit-cb-A", "audit-cb-B"
	if _, err := circuitbreaker.LoadRulesOfResource(resA, []*circuitbreaker.Rule{
		mk(resA, circuitbreaker.ErrorCount),
		mk(resB, circuitbreaker.ErrorCount),
	}); err != nil {
		t.Fatalf("LoadRulesOfResource: %v", err)
	}
	blockedA := auditFailingCalls(resA, 5)
	blockedB := auditFailingCalls(resB, 5)
	if blockedA != 4 {
		t.Fatalf("probe is broken: the rule of %s must open its breaker after the first failed call, blocked=%d", resA, blockedA)
	}
	reportedForB := 0
	for _, r := range circuitbreaker.GetRules() {
		if r.Resource == resB {
			reportedForB++
		}
	}
	ofA := circuitbreaker.GetRulesOfResource(resA)
	if reportedForB != 0 && blockedB == 0 || len(ofA) != 1 {
		t.Errorf("after LoadRulesOfResource(%q, [rule for %q, rule for %q]): GetRules() reports %d rule(s) for %q and "+
			"GetRulesOfResource(%q) reports %d rules, but only ONE breaker exists: 5 failing calls to %q were blocked %d times "+
			"(the reported error-count-1 rule would have blocked 4) and %q is governed by a single rule. "+
			"The property demands that the rules returned by the getters are exactly those being enforced.",
			resA, resA, resB, reportedForB, resB, resA, len(ofA), resB, blockedB, resA)
	}

	// (b) whole-set load with a rule whose Strategy has no breaker generator: IsValidRule accepts it
	_ = circuitbreaker.ClearRules()
	const resC = "audit-cb-C"
	if _, err := circuitbreaker.LoadRules([]*circuitbreaker.Rule{mk(resC, circuitbreaker.Strategy(7))}); err != nil {
		t.Fatalf("LoadRules: %v", err)
	}
	reported := circuitbreaker.GetRulesOfResource(resC)
	blockedC := auditFailingCalls(resC, 20)
	if len(reported) != 0 && blockedC == 0 {
		t.Errorf("after LoadRules([rule with Strategy=7]) GetRulesOfResource(%q) reports %d rule(s) %+v, but no breaker was "+
			"built for it and 20 failing calls all passed: the getters report a rule that is not enforced "+
			"(either the rule is invalid and must not be reported, or it is valid and must govern traffic).",
			resC, len(reported), reported)
	}
}

// Finding 2: outlier.LoadRules keys the raw list by resource BEFORE validating, so an invalid rule
// listed after a valid one for the same resource replaces it, and the resource ends up unprotected.
func TestAudit_OutlierInvalidRuleSuppressesValidRuleOfSameResource(t *testing.T) {
	defer auditMockClock()()
	_, _ = outlier.LoadRules(nil)
	defer outlier.LoadRules(nil)

	const res, ctl = "audit-outlier", "audit-outlier-control"
	mk := func(res string, maxEjection float64) *outlier.Rule {
		return &outlier.Rule{
			Rule: &circuitbreaker.Rule{
				Resource:         res,
				Strategy:         circuitbreaker.ErrorCount,
				RetryTimeoutMs:   600000,
				MinRequestAmount: 1,
				StatIntervalMs:   600000,
				Threshold:        1,
			},
			MaxEjectionPercent: maxEjection,
			RecoveryIntervalMs: 600000,
			RecycleIntervalS:   600000,
		}
	}
	valid, invalid := mk(res, 1.0), mk(res, 2.0) // MaxEjectionPercent 2.0 fails outlier.IsValidRule
	if outlier.IsValidRule(valid) != nil || outlier.IsValidRule(invalid) == nil {
		t.Fatalf("test premise broken")
	}
	// the control resource gets the valid rule alone
	if _, err := outlier.LoadRules([]*outlier.Rule{valid, invalid, mk(ctl, 1.0)}); err != nil {
		t.Fatalf("LoadRules: %v", err)
	}

	sc := base.NewSlotChain()
	sc.AddStatPrepareSlot(stat.DefaultResourceNodePrepareSlot)
	sc.AddRuleCheckSlot(outlier.DefaultSlot)
	sc.AddStatSlot(outlier.DefaultMetricStatSlot)
	probe := func(res string) (ejected []string, panicked interface{}) {
		defer func() { panicked = recover() }()
		for i := 0; i < 3; i++ {
			e, b := Entry(res, WithSlotChain(sc))
			if b != nil {
				continue
			}
			TraceCallee(e, "10.0.0.1:80")
			TraceError(e, errors.New("node failure"))
			e.Exit()
		}
		e, b := Entry(res, WithSlotChain(sc))
		if b == nil {
			ejected = e.Context().FilterNodes()
			e.Exit()
		}
		return ejected, nil
	}
	if ejectedCtl, _ := probe(ctl); len(ejectedCtl) != 1 {
		t.Fatalf("probe is broken: with the valid rule alone the failing node must be ejected, got %v", ejectedCtl)
	}
	ejected, panicked := probe(res)

	got := 0
	for _, r := range outlier.GetRules() {
		if r.Resource == res {
			got++
		}
	}
	if got != 1 || len(ejected) != 1 {
		t.Errorf("after outlier.LoadRules([valid rule for %q, rule for %q with MaxEjectionPercent=2]): GetRules() returns %d rule(s) for it "+
			"and %d failing node(s) are ejected (probe panic: %v), while the control resource with the valid rule alone ejects the node. The valid rule of the most recent load "+
			"must be in force and reported; the rule failing the validity check must not influence any decision, "+
			"yet it wiped the valid rule out.", res, res, got, len(ejected), panicked)
	}
}

// Finding 3: a reload whose rule differs from the loaded one only in fields / amounts that the
// "equal rule" test of the reuse logic ignores (ID; a threshold less than 1e-8 away) is reported as
// a real load (true), yet the previously loaded rule stays in force and is what the getters return.
func TestAudit_FlowReloadKeepsPreviousRuleInForce(t *testing.T) {
	defer auditMockClock()()
	_ = flow.ClearRules()
	defer flow.ClearRules()

	const res, ctl = "audit-flow", "audit-flow-control"
	mk := func(r string, id string, th float64) *flow.Rule {
		return &flow.Rule{ID: id, Resource: r, Threshold: th, TokenCalculateStrategy: flow.Direct,
			ControlBehavior: flow.Reject, StatIntervalInMs: 1000}
	}
	if _, err := flow.LoadRules([]*flow.Rule{mk(res, "v1", 1.0)}); err != nil {
		t.Fatal(err)
	}
	// most recent load: one call no longer fits (0 + 1 > 0.999999999); the control resource gets the same rule fresh
	const newTh = 0.999999999
	changed, err := flow.LoadRules([]*flow.Rule{mk(res, "v2", newTh), mk(ctl, "v2", newTh)})
	if err != nil || !changed {
		t.Fatalf("second load: changed=%v err=%v", changed, err)
	}
	util.Sleep(5 * time.Second) // mock clock: leave every window the first load could have touched

	pass := func(r string) (bool, string) {
		e, b := Entry(r)
		if b != nil {
			id := ""
			if fr, ok := b.TriggeredRule().(*flow.Rule); ok {
				id = fr.ID
			}
			return false, id
		}
		e.Exit()
		return true, ""
	}
	ctlPassed, _ := pass(ctl)
	resPassed, _ := pass(res)
	if ctlPassed {
		t.Fatalf("probe is broken: a freshly loaded rule with Threshold=%v must reject a single call", newTh)
	}
	got := flow.GetRulesOfResource(res)
	desc := fmt.Sprintf("%d rules", len(got))
	if len(got) == 1 {
		desc = fmt.Sprintf("{ID:%q Threshold:%v}", got[0].ID, got[0].Threshold)
	}
	if resPassed || len(got) != 1 || got[0].ID != "v2" || got[0].Threshold != newTh {
		t.Errorf("LoadRules([{ID:v1 Threshold:1}]) then LoadRules([{ID:v2 Threshold:%v}]) returned changed=true, but "+
			"GetRulesOfResource reports %s and a single call to %q passed=%v, while the very same rule freshly loaded on %q "+
			"rejects it. The property demands that after a load returns the rules in force (and reported) are exactly the valid "+
			"rules of the most recent load; here the previous load's rule object is still the one enforced.",
			newTh, desc, res, resPassed, ctl)
	}
}
