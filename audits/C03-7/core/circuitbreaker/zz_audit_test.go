package circuitbreaker

import (
	"errors"
	"fmt"
	"math"
	"math/rand"
	"strings"
	"sync/atomic"
	"testing"
	"time"

	"github.com/alibaba/sentinel-golang/core/base"
	"github.com/alibaba/sentinel-golang/util"
)

type fzClock struct{ ms uint64 }

func (c *fzClock) Now() time.Time            { return time.Unix(0, int64(atomic.LoadUint64(&c.ms))*1e6) }
func (c *fzClock) Sleep(d time.Duration)     {}
func (c *fzClock) CurrentTimeMillis() uint64 { return atomic.LoadUint64(&c.ms) }
func (c *fzClock) CurrentTimeNano() uint64   { return atomic.LoadUint64(&c.ms) * 1e6 }

type fzListener struct{ ev []string }

func (l *fzListener) OnTransformToClosed(prev State, rule Rule) {
	l.ev = append(l.ev, fmt.Sprintf("%s:%s->Closed", rule.Id, prev.String()))
}
func (l *fzListener) OnTransformToOpen(prev State, rule Rule, snapshot interface{}) {
	l.ev = append(l.ev, fmt.Sprintf("%s:%s->Open", rule.Id, prev.String()))
}
func (l *fzListener) OnTransformToHalfOpen(prev State, rule Rule) {
	l.ev = append(l.ev, fmt.Sprintf("%s:%s->HalfOpen", rule.Id, prev.String()))
}

var fzTotal int

type fzComp struct {
	t   uint64
	bad bool
}
type fzModel struct {
	r        *Rule
	state    State
	deadline uint64
	probeCnt uint64
	comps    []fzComp
}

func (m *fzModel) isBad(rt uint64, err error) bool {
	if m.r.Strategy == SlowRequestRatio {
		return rt > m.r.MaxAllowedRtMs
	}
	return err != nil
}

func (m *fzModel) window(now uint64) (total, bad uint64) {
	bc := getRuleStatSlidingWindowBucketCount(m.r)
	bl := uint64(m.r.StatIntervalMs / bc)
	for _, c := range m.comps {
		ws := c.t - c.t%bl
		if now-ws < uint64(m.r.StatIntervalMs) {
			total++
			if c.bad {
				bad++
			}
		}
	}
	return
}

func (m *fzModel) complete(now uint64, rt uint64, err error, ev *[]string) {
	bad := m.isBad(rt, err)
	m.comps = append(m.comps, fzComp{now, bad})
	switch m.state {
	case Open:
		return
	case HalfOpen:
		if bad {
			m.state = Open
			m.deadline = now + uint64(m.r.RetryTimeoutMs)
			m.probeCnt = 0
			*ev = append(*ev, m.r.Id+":HalfOpen->Open")
		} else {
			m.probeCnt++
			if m.r.ProbeNum == 0 || m.probeCnt >= m.r.ProbeNum {
				m.comps = nil
				m.state = Closed
				m.probeCnt = 0
				*ev = append(*ev, m.r.Id+":HalfOpen->Closed")
			}
		}
		return
	}
	total, nbad := m.window(now)
	if total < m.r.MinRequestAmount {
		return
	}
	reached := false
	if m.r.Strategy == ErrorCount {
		reached = nbad >= uint64(math.Ceil(m.r.Threshold))
	} else {
		reached = float64(nbad)/float64(total) >= m.r.Threshold
	}
	if reached {
		m.state = Open
		m.deadline = now + uint64(m.r.RetryTimeoutMs)
		*ev = append(*ev, m.r.Id+":Closed->Open")
	}
}

func fzEntry(sc *base.SlotChain, res string) (*base.SentinelEntry, *base.BlockError) {
	rw := base.NewResourceWrapper(res, base.ResTypeCommon, base.Inbound)
	ctx := sc.GetPooledContext()
	ctx.Resource = rw
	e := base.NewSentinelEntry(ctx, rw, sc)
	ctx.SetEntry(e)
	r := sc.Entry(ctx)
	if r == nil {
		return e, nil
	}
	if r.Status() == base.ResultStatusBlocked {
		be := base.NewBlockErrorFromDeepCopy(r.BlockError())
		e.Exit()
		return nil, be
	}
	return e, nil
}

// TestAuditDifferentialModel is NOT a finding: audit 7 found no new violation of the circuit breaker
// property (see AUDIT.md). It is the harness the audit used and it PASSES on the code as it is: random
// rule sets (1-3 breakers on one resource, all strategies, thresholds, minimum amounts, retry timeouts,
// intervals, bucket counts, probe numbers), random histories of request starts, completions (errors,
// durations, stragglers) and rule reloads under a clock that only moves forward, driven through the
// real slot chain and compared step by step (admission, blocking rule, state of every breaker, listener
// events) with a reference model of the property. The model contains the behaviours that are already
// known and still in the code (a half-open breaker with ProbeNum >= 1 admits every request; any
// completion during half-open is taken for the probe) and upstream's roll-back of a probe that another
// breaker rejected.
func TestAuditDifferentialModel(t *testing.T) {
	defer util.SetClock(util.NewRealClock())
	defer ClearStateChangeListeners()
	defer ClearRules()
	sc := base.NewSlotChain()
	sc.AddRuleCheckSlot(DefaultSlot)
	sc.AddStatSlot(DefaultMetricStatSlot)

	thresholdsRatio := []float64{0, 0.1, 0.25, 1.0 / 3, 0.5, 0.75, 1}
	thresholdsCnt := []float64{0, 0.5, 1, 2, 2.5, 3, 5}
	defer func() { t.Logf("events %d", fzTotal) }()
	for seed := int64(1); seed <= 4000; seed++ {
		rnd := rand.New(rand.NewSource(seed))
		clk := &fzClock{ms: 1700000000000 + uint64(rnd.Intn(100000))}
		util.SetClock(clk)
		ClearRules()
		ClearStateChangeListeners()
		lis := &fzListener{}
		RegisterStateChangeListeners(lis)
		n := 1 + rnd.Intn(3)
		rules := make([]*Rule, 0, n)
		models := make([]*fzModel, 0, n)
		for i := 0; i < n; i++ {
			r := &Rule{
				Id:                           fmt.Sprintf("r%d", i),
				Resource:                     "res",
				Strategy:                     Strategy(rnd.Intn(3)),
				RetryTimeoutMs:               []uint32{1, 5, 20, 100, 1000}[rnd.Intn(5)],
				MinRequestAmount:             uint64(rnd.Intn(5)),
				StatIntervalMs:               []uint32{1, 10, 100, 1000}[rnd.Intn(4)],
				StatSlidingWindowBucketCount: []uint32{0, 1, 2, 3, 4, 5, 10}[rnd.Intn(7)],
				MaxAllowedRtMs:               []uint64{0, 5, 20}[rnd.Intn(3)],
				ProbeNum:                     []uint64{0, 0, 1, 2, 3}[rnd.Intn(5)],
			}
			if r.Strategy == ErrorCount {
				r.Threshold = thresholdsCnt[rnd.Intn(len(thresholdsCnt))]
			} else {
				r.Threshold = thresholdsRatio[rnd.Intn(len(thresholdsRatio))]
			}
			rules = append(rules, r)
			models = append(models, &fzModel{r: r})
		}
		if _, err := LoadRules(rules); err != nil {
			t.Fatal(err)
		}
		cbs := getBreakersOfResource("res")
		if len(cbs) != n {
			t.Fatalf("seed %d: %d breakers", seed, len(cbs))
		}
		type inflight struct {
			e     *base.SentinelEntry
			start uint64
		}
		var fl []inflight
		var mev []string
		var log []string
		fail := func(format string, args ...interface{}) {
			msg := fmt.Sprintf(format, args...)
			var rs []string
			for _, r := range rules {
				rs = append(rs, fmt.Sprintf("%+v", *r))
			}
			for _, cb := range cbs {
				rs = append(rs, fmt.Sprintf("cb bound %+v state %v", *cb.BoundRule(), cb.CurrentState()))
			}
			t.Fatalf("seed %d: %s\nrules:\n%s\nlog:\n%s\nlib events: %v\nmodel events: %v", seed, msg, strings.Join(rs, "\n"), strings.Join(log, "\n"), lis.ev, mev)
		}
		defer func() { fzTotal += len(mev) }()
		doReload := seed%2 == 0
		nextId := 10
		steps := 20 + rnd.Intn(150)
		for s := 0; s < steps; s++ {
			adv := []uint64{0, 0, 0, 1, 1, 2, 5, 10, 20, 50, 100, 200, 1000, 5000}[rnd.Intn(14)]
			clk.ms += adv
			now := clk.ms
			if doReload && rnd.Intn(12) == 0 {
				var nrules []*Rule
				var nmodels []*fzModel
				for i, r := range rules {
					switch rnd.Intn(5) {
					case 0: // remove
						continue
					case 1: // modify
						c := *r
						switch rnd.Intn(6) {
						case 0:
							c.RetryTimeoutMs += 3
						case 1:
							c.MinRequestAmount++
						case 2:
							c.ProbeNum++
						case 3:
							if c.Strategy == ErrorCount {
								c.Threshold += 1
							} else if c.Threshold < 0.5 {
								c.Threshold += 0.125
							} else {
								c.Threshold -= 0.125
							}
						case 4:
							c.StatIntervalMs *= 2
						case 5:
							c.MaxAllowedRtMs += 7
						}
						nm := &fzModel{r: &c}
						if r.isStatReusable(&c) {
							nm.comps = models[i].comps
						}
						if r.isEqualsTo(&c) { // MaxAllowedRtMs change of a non-slow rule
							nm = models[i]
							nm.r = &c
						}
						nrules = append(nrules, &c)
						nmodels = append(nmodels, nm)
					default: // keep (fresh object)
						c := *r
						models[i].r = &c
						nrules = append(nrules, &c)
						nmodels = append(nmodels, models[i])
					}
				}
				if rnd.Intn(3) == 0 {
					c := *rules[rnd.Intn(len(rules))]
					nextId++
					c.Id = fmt.Sprintf("r%d", nextId)
					c.StatIntervalMs = uint32(100000 + nextId*7919)
					nrules = append(nrules, &c)
					nmodels = append(nmodels, &fzModel{r: &c})
				}
				if len(nrules) == 0 {
					continue
				}
				rnd.Shuffle(len(nrules), func(a, b int) {
					nrules[a], nrules[b] = nrules[b], nrules[a]
					nmodels[a], nmodels[b] = nmodels[b], nmodels[a]
				})
				rules, models = nrules, nmodels
				if _, err := LoadRules(rules); err != nil {
					t.Fatal(err)
				}
				cbs = getBreakersOfResource("res")
				var ids []string
				for _, r := range rules {
					ids = append(ids, r.Id)
				}
				log = append(log, fmt.Sprintf("t=%d reload %v", now, ids))
				for _, r := range rules {
					log = append(log, fmt.Sprintf("     %+v", *r))
				}
				if len(cbs) != len(rules) {
					fail("breaker count after reload")
				}
			} else if len(fl) > 0 && rnd.Intn(2) == 0 {
				k := rnd.Intn(len(fl))
				f := fl[k]
				fl = append(fl[:k], fl[k+1:]...)
				var err error
				if rnd.Intn(2) == 0 {
					err = errors.New("biz")
					f.e.SetError(err)
				}
				rt := now - f.start
				log = append(log, fmt.Sprintf("t=%d complete(start=%d rt=%d err=%v)", now, f.start, rt, err != nil))
				f.e.Exit()
				for _, m := range models {
					m.complete(now, rt, err, &mev)
				}
			} else {
				e, b := fzEntry(sc, "res")
				// model
				blockedBy := -1
				var owners []*fzModel
				for i, m := range models {
					switch m.state {
					case Closed:
						continue
					case Open:
						if now >= m.deadline {
							m.state = HalfOpen
							mev = append(mev, m.r.Id+":Open->HalfOpen")
							owners = append(owners, m)
							continue
						}
						blockedBy = i
					case HalfOpen:
						if m.r.ProbeNum > 0 {
							continue
						}
						blockedBy = i
					}
					break
				}
				if blockedBy >= 0 {
					for _, m := range owners {
						m.state = Open
						m.deadline = 0
						mev = append(mev, m.r.Id+":HalfOpen->Open")
					}
				}
				log = append(log, fmt.Sprintf("t=%d entry -> lib blocked=%v model blockedBy=%d", now, b != nil, blockedBy))
				if (b != nil) != (blockedBy >= 0) {
					fail("admission differs")
				}
				if b != nil {
					if b.BlockType() != base.BlockTypeCircuitBreaking {
						fail("block type")
					}
					if r, ok := b.TriggeredRule().(*Rule); !ok || *r != *rules[blockedBy] {
						fail("blocking rule differs: %v", b.TriggeredRule())
					}
				} else {
					fl = append(fl, inflight{e, now})
				}
			}
			for i, m := range models {
				if cbs[i].CurrentState() != m.state {
					fail("state of breaker %d: lib %v model %v", i, cbs[i].CurrentState(), m.state)
				}
			}
			if strings.Join(lis.ev, ",") != strings.Join(mev, ",") {
				fail("events differ")
			}
		}
	}
}
