package api

import (
	"errors"
	"os"
	"os/exec"
	"strings"
	"sync"
	"testing"
)

const auditRaceChildEnv = "ZZ_AUDIT_RACE_CHILD"

// Property (C15): Entry, Exit, TraceError ... may be called concurrently from any number of goroutines
// WITHOUT DATA RACES (sampled under the race detector).
//
// TraceError(entry, err) -> SentinelEntry.SetError writes EntryContext.err while holding entry.ctxMu.
// entry.Exit() reads and writes the same field WITHOUT that mutex: Exit(WithError(e)) stores into
// ctx.err, and SlotChain.exit runs the statistic slots, which read ctx.Err() (stat.Slot.OnCompleted,
// circuitbreaker.MetricStatSlot.OnCompleted, outlier.MetricStatSlot.OnCompleted). Exit takes ctxMu only
// at the very end, to set the exited flag. So a TraceError from one goroutine (e.g. the goroutine that
// did the work and got the error) that overlaps the Exit of the same entry in another goroutine (e.g. a
// deferred Exit in the goroutine that gave up waiting) is an unsynchronized write/read of a two-word
// interface value. (For TraceCallee / SetPair against outlier.MetricStatSlot.OnCompleted's
// ctx.GetPair("address") the same gap is an unsynchronized map write/read, i.e. a possible
// "fatal error: concurrent map read and map write".)
//
// A data race is only visible to the race detector, so this test runs its body in a child
// "go test -race" of this package and fails when the detector reports a race.
func TestAudit_TraceErrorRacesWithExitOfTheSameEntry(t *testing.T) {
	if os.Getenv(auditRaceChildEnv) == "1" {
		auditTraceErrorVersusExit(t)
		return
	}
	goBin, err := exec.LookPath("go")
	if err != nil {
		t.Skipf("go tool not found, cannot run the race detector: %v", err)
	}
	cmd := exec.Command(goBin, "test", "-race", "-vet=off", "-count=1", "-run", "^TestAudit_TraceErrorRacesWithExitOfTheSameEntry$", ".")
	cmd.Env = append(os.Environ(), auditRaceChildEnv+"=1")
	out, runErr := cmd.CombinedOutput()
	report := string(out)
	if idx := strings.Index(report, "WARNING: DATA RACE"); idx >= 0 {
		// keep the two access stacks of the first report, library frames only
		first := report[idx:]
		if end := strings.Index(first, "Goroutine "); end > 0 {
			first = first[:end]
		}
		var lines []string
		for _, l := range strings.Split(first, "\n") {
			if strings.HasPrefix(l, "WARNING") || strings.HasPrefix(l, "Read at") || strings.HasPrefix(l, "Write at") ||
				strings.HasPrefix(l, "Previous") || (strings.HasPrefix(l, "  github.com/alibaba/sentinel-golang/") && !strings.Contains(l, "zz_audit_test")) {
				lines = append(lines, strings.TrimSpace(l))
			}
		}
		t.Fatalf("TraceError(entry, err) in one goroutine and entry.Exit() in another are a data race on EntryContext.err "+
			"(SetError writes under entry.ctxMu, Exit and the statistic slots it runs access the field without it). "+
			"The property demands that Entry, Exit and TraceError can be called concurrently without data races. Race detector:\n%s",
			strings.Join(lines, "\n"))
	}
	if runErr != nil {
		t.Skipf("could not run the child test under the race detector (%v):\n%.2000s", runErr, report)
	}
}

func auditTraceErrorVersusExit(t *testing.T) {
	if err := InitDefault(); err != nil {
		t.Fatal(err)
	}
	for i := 0; i < 500; i++ {
		e, b := Entry("zz-audit-trace-vs-exit")
		if b != nil {
			t.Fatal(b)
		}
		var wg sync.WaitGroup
		wg.Add(2)
		go func() { defer wg.Done(); TraceError(e, errors.New("biz error")) }()
		go func() { defer wg.Done(); e.Exit() }()
		wg.Wait()
	}
}
