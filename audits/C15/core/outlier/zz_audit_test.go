package outlier_test

import (
	"strings"
	"sync/atomic"
	"testing"
	"time"

	sentinel "github.com/alibaba/sentinel-golang/api"
	"github.com/alibaba/sentinel-golang/core/base"
	"github.com/alibaba/sentinel-golang/core/circuitbreaker"
	"github.com/alibaba/sentinel-golang/core/outlier"
	"github.com/alibaba/sentinel-golang/core/stat"
	"github.com/alibaba/sentinel-golang/util"
)

// pausingClock is the real clock; when armed, the next CurrentTimeNano call reports that it has been
// reached and waits until it is released. It changes no time value: it only holds the calling
// goroutine where the Go scheduler could hold it just as well.
// (CurrentTimeNano is only used by the rule managers, for their "time cost" log lines.)
type pausingClock struct {
	*util.RealClock
	armed   int32
	reached chan struct{}
	release chan struct{}
}

func (c *pausingClock) CurrentTimeNano() uint64 {
	if atomic.CompareAndSwapInt32(&c.armed, 1, 0) {
		close(c.reached)
		<-c.release
	}
	return c.RealClock.CurrentTimeNano()
}

// Property (C15): Entry and every module's rule loading/clearing functions may be called
// concurrently without data races, PANICS or deadlock; a request racing with a rule update is decided
// ENTIRELY BY THE OLD OR ENTIRELY BY THE NEW rule list of its resource.
//
// outlier.LoadRules / ClearRules switch the rules in two separate steps: onRuleUpdate publishes the new
// outlierRules/breakerRules maps under updateMux, and only afterwards updateAllBreakers() builds and
// publishes the new nodeBreakers map under a second acquisition of updateMux. The check slot reads
// nodeBreakers and outlierRules with separate read locks as well. A request that runs between the two
// steps sees the NEW rule list (here: no rule any more) together with the OLD node breakers, and
// dereferences the nil rule: "invalid memory address or nil pointer dereference" in outlier.Slot.Check.
func TestAudit_OutlierRuleSwitchIsNotAtomicCheckPanics(t *testing.T) {
	if err := sentinel.InitDefault(); err != nil {
		t.Fatal(err)
	}
	clock := &pausingClock{RealClock: util.NewRealClock()}
	util.SetClock(clock)
	defer util.SetClock(util.NewRealClock())

	// the slot chain the outlier adapters (micro, kratos, kitex) build
	chain := base.NewSlotChain()
	chain.AddStatPrepareSlot(stat.DefaultResourceNodePrepareSlot)
	chain.AddRuleCheckSlot(outlier.DefaultSlot)
	chain.AddStatSlot(stat.DefaultSlot)
	chain.AddStatSlot(outlier.DefaultMetricStatSlot)

	const res = "zz-audit-outlier-switch"
	rule := &outlier.Rule{
		Rule: &circuitbreaker.Rule{
			Resource:         res,
			Strategy:         circuitbreaker.ErrorCount,
			RetryTimeoutMs:   1000,
			MinRequestAmount: 1,
			StatIntervalMs:   1000,
			Threshold:        10,
		},
		EnableActiveRecovery: false,
		MaxEjectionPercent:   1.0,
	}
	if _, err := outlier.LoadRules([]*outlier.Rule{rule}); err != nil {
		t.Fatal(err)
	}
	defer outlier.ClearRules()

	// one completed call to a callee: the resource now has a node breaker for that address
	e, b := sentinel.Entry(res, sentinel.WithSlotChain(chain))
	if b != nil {
		t.Fatal(b)
	}
	sentinel.TraceCallee(e, "10.0.0.1:8080")
	e.Exit()

	// sanity: under the old rule list alone a request is checked without any internal error
	e, b = sentinel.Entry(res, sentinel.WithSlotChain(chain))
	if b != nil {
		t.Fatal(b)
	}
	if err := e.Context().Err(); err != nil {
		t.Fatalf("unexpected internal error before the rule update: %v", err)
	}
	sentinel.TraceCallee(e, "10.0.0.1:8080")
	e.Exit()

	// ClearRules in another goroutine, held between its two publication steps
	clock.reached = make(chan struct{})
	clock.release = make(chan struct{})
	atomic.StoreInt32(&clock.armed, 1)
	loaded := make(chan error, 1)
	go func() { loaded <- outlier.ClearRules() }()
	select {
	case <-clock.reached:
	case <-time.After(5 * time.Second):
		t.Fatal("ClearRules did not reach updateAllBreakers")
	}

	// a request racing with the update
	e, b = sentinel.Entry(res, sentinel.WithSlotChain(chain))
	var internalErr error
	if e != nil {
		internalErr = e.Context().Err()
	}

	close(clock.release)
	if err := <-loaded; err != nil {
		t.Fatalf("ClearRules: %v", err)
	}
	if e != nil {
		e.Exit()
	}
	if b != nil {
		t.Fatalf("unexpected block: %v", b)
	}
	if internalErr != nil {
		what := "an internal error"
		if strings.Contains(internalErr.Error(), "nil pointer dereference") {
			what = "a nil pointer panic in outlier.Slot.Check (recovered by SlotChain.Entry, the request is waved through unchecked and unrecorded)"
		}
		t.Fatalf("Entry racing with outlier.ClearRules hit %s: the request saw the new rule list (no rule) together with the old node breakers. "+
			"The property demands no panics, and a decision taken entirely by the old or entirely by the new rule list. Internal error: %.200s",
			what, internalErr.Error())
	}
}
