package hotspot_test

import (
	"sync"
	"testing"
	"time"

	sentinel "github.com/alibaba/sentinel-golang/api"
	"github.com/alibaba/sentinel-golang/core/hotspot"
	"github.com/alibaba/sentinel-golang/util"
)

// Property (C15): Entry may be called concurrently from any number of goroutines without
// data races, panics or DEADLOCK.
//
// A hotspot QPS/Reject controller keeps two independent LRU caches per rule: the time of the last
// refill per parameter value (RuleTimeCounter) and the tokens left per value (RuleTokenCounter).
// A request touches first the one, then the other, each under that cache's own lock. Two requests
// with different values that interleave between those two steps leave the two LRU lists in a
// different order, so once the caches are full they evict DIFFERENT values. A value that is still
// in the time cache but no longer in the token cache sends PerformChecking into its
// "else { tokenCounter.Get(arg) -> not found -> runtime.Gosched(); retry }" branch, which can only
// be left when the statistic window (DurationInSec) has passed since that value's last refill:
// Entry busy-spins for up to DurationInSec seconds (here: an hour), burning a CPU, and with it
// hangs every request for that value that is not helped out by traffic for other values.
//
// The test only uses the public API: bursts of concurrent Entry calls for a few values, then,
// with no other traffic, one Entry per value. The clock is a frozen mock clock, so "until the
// window has passed" is "forever" and the state the burst left behind can be inspected at leisure.
func TestAudit_HotspotRejectEntrySpinsAfterConcurrentEvictions(t *testing.T) {
	if err := sentinel.InitDefault(); err != nil {
		t.Fatal(err)
	}
	clock := util.NewMockClock()
	util.SetClock(clock)
	defer util.SetClock(util.NewRealClock())

	const res = "zz-audit-hotspot-spin"
	values := []string{"A", "B", "C"}
	rule := &hotspot.Rule{
		Resource:          res,
		MetricType:        hotspot.QPS,
		ControlBehavior:   hotspot.Reject,
		ParamIndex:        0,
		Threshold:         1 << 40, // never short of tokens: nothing in this test may be blocked
		DurationInSec:     3600,
		ParamsMaxCapacity: int64(len(values) - 1), // the cache is one short of the values in use: evictions happen
	}
	if _, err := hotspot.LoadRules([]*hotspot.Rule{rule}); err != nil {
		t.Fatal(err)
	}
	defer hotspot.ClearRules()

	var running sync.WaitGroup
	enter := func(v string, n int) {
		defer running.Done()
		for i := 0; i < n; i++ {
			e, b := sentinel.Entry(res, sentinel.WithArgs(v))
			if b != nil {
				t.Errorf("unexpected block for %q: %v", v, b)
				return
			}
			e.Exit()
		}
	}
	waitOrHang := func(d time.Duration) bool {
		done := make(chan struct{})
		go func() { running.Wait(); close(done) }()
		select {
		case <-done:
			return true
		case <-time.After(d):
			return false
		}
	}
	release := func() {
		// let the spinning goroutines go: move the clock past the statistic window
		clock.Sleep(2 * time.Hour)
		waitOrHang(5 * time.Second)
	}

	deadline := time.Now().Add(90 * time.Second)
	for round := 0; time.Now().Before(deadline); round++ {
		// concurrent traffic for the values
		start := make(chan struct{})
		for i := 0; i < 2*len(values); i++ {
			running.Add(1)
			go func(v string) { <-start; enter(v, 50) }(values[i%len(values)])
		}
		close(start)
		if !waitOrHang(3 * time.Second) {
			release()
			t.Fatalf("round %d: concurrent Entry calls (values %v, cache capacity %d, nothing blocked) did not return within 3s "+
				"although the clock stands still and nobody holds a lock: Entry busy-spins in hotspot PerformChecking because a value is "+
				"present in RuleTimeCounter but was evicted from RuleTokenCounter. The property demands that concurrent Entry calls never hang.",
				round, values, rule.ParamsMaxCapacity)
		}
		// quiet now: one request per value, one after the other
		for _, v := range values {
			running.Add(1)
			go enter(v, 1)
			if !waitOrHang(3 * time.Second) {
				release()
				t.Fatalf("round %d: after a burst of concurrent Entry calls had completed, a single Entry(%q, WithArgs(%q)) did not return within 3s "+
					"(it would spin until DurationInSec=%ds have passed since the value's last refill): the two LRU caches of the rule evicted "+
					"different values, the value is in RuleTimeCounter but not in RuleTokenCounter. The property demands that Entry never hangs.",
					round, res, v, rule.DurationInSec)
			}
		}
	}
	t.Log("no hang sampled in this run (the interleaving is a matter of scheduling); run again")
}
