package flow

import (
	"testing"
	"time"

	"github.com/alibaba/sentinel-golang/core/base"
	"github.com/alibaba/sentinel-golang/core/stat"
	"github.com/alibaba/sentinel-golang/util"
)

// zzAuditPassTimes sends n single-token requests for res through the flow slot, all of them arriving
// one after the other without any idle time in between, and returns the pass time of each admitted one
// (arrival time + the wait the slot made it sleep; the mock clock's Sleep advances the clock by exactly
// the wait, so the pass time is the clock value when Check returns). A rejected request yields -1.
func zzAuditPassTimes(res string, n int) []int64 {
	slot := &Slot{}
	ctx := &base.EntryContext{
		Resource: base.NewResourceWrapper(res, base.ResTypeCommon, base.Inbound),
		StatNode: stat.GetOrCreateResourceNode(res, base.ResTypeCommon),
		Input:    &base.SentinelInput{BatchCount: 1},
	}
	out := make([]int64, 0, n)
	for i := 0; i < n; i++ {
		r := slot.Check(ctx)
		if r != nil && r.IsBlocked() {
			out = append(out, -1)
			continue
		}
		out = append(out, int64(util.CurrentTimeNano()))
	}
	return out
}

// A throttling rule object is loaded, the application then edits that same object (lower threshold)
// and loads it again. The rule manager remembers the last load by the caller's *Rule pointers, so the
// reload is compared with itself, reported as "unchanged" and dropped: the throttler keeps pacing by the
// threshold that is no longer the rule's.
func TestAuditThrottlingRuleEditedInPlaceAndReloadedKeepsOldSpacing(t *testing.T) {
	oldClock := util.CurrentClock()
	util.SetClock(util.NewMockClock())
	defer util.SetClock(oldClock)
	defer func() { _ = ClearRules() }()
	_ = ClearRules()

	const res = "zz-audit-throttle-inplace"
	rule := &Rule{
		Resource:               res,
		TokenCalculateStrategy: Direct,
		ControlBehavior:        Throttling,
		Threshold:              10, // 10 per second: 100 ms apart
		StatIntervalInMs:       1000,
		MaxQueueingTimeMs:      60000,
	}
	if _, err := LoadRules([]*Rule{rule}); err != nil {
		t.Fatal(err)
	}
	before := zzAuditPassTimes(res, 3)
	for i := 1; i < len(before); i++ {
		if d := before[i] - before[i-1]; d != int64(100*time.Millisecond) {
			t.Fatalf("precondition: with threshold 10/s consecutive pass times should be 100ms apart, got %v", time.Duration(d))
		}
	}

	// the application lowers the threshold of its rule and loads it again
	rule.Threshold = 2 // 2 per second: 500 ms apart
	loaded, err := LoadRules([]*Rule{rule})
	if err != nil {
		t.Fatal(err)
	}
	reported := GetRulesOfResource(res)
	if len(reported) != 1 {
		t.Fatalf("expected one rule in force, got %d", len(reported))
	}

	// let the queue of the first phase drain, so that only the rule now in force matters
	util.Sleep(2 * time.Second)
	after := zzAuditPassTimes(res, 4)
	want := int64(500 * time.Millisecond)
	for i := 1; i < len(after); i++ {
		if after[i] < 0 || after[i-1] < 0 {
			t.Fatalf("request rejected although the queueing limit is 60s: %v", after)
		}
		if d := after[i] - after[i-1]; d < want {
			t.Fatalf("throttling rule reloaded with Threshold=2 per 1000ms (LoadRules returned loaded=%v; GetRulesOfResource reports Threshold=%v): "+
				"consecutive admitted requests got pass times only %v apart; the property demands at least batch/threshold of the statistic interval = %v. "+
				"The reload of the edited rule object was taken for an identical reload and the old threshold (10/s) is still enforced.",
				loaded, reported[0].Threshold, time.Duration(d), time.Duration(want))
		}
	}
}
