package outlier

// Audit tests for the property "Outlier ejection never removes more than the allowed share of nodes".
// Every test in this file FAILS on the unmodified code; see AUDIT.md at the repository root.

import (
	"errors"
	"testing"
	"time"

	sentinel "github.com/alibaba/sentinel-golang/api"
	"github.com/alibaba/sentinel-golang/core/base"
	"github.com/alibaba/sentinel-golang/core/circuitbreaker"
	"github.com/alibaba/sentinel-golang/util"
)

// auditChain is what the kratos / kitex / micro adapters build: a chain with the outlier rule-check slot and
// the outlier statistic slot.
func auditChain() *base.SlotChain {
	sc := base.NewSlotChain()
	sc.AddRuleCheckSlot(DefaultSlot)
	sc.AddStatSlot(DefaultMetricStatSlot)
	return sc
}

// auditRule: a node is ejected by its first failed request (error count >= 1).
func auditRule(res string, retryTimeoutMs uint32, recycleIntervalS uint32) *Rule {
	return &Rule{
		Rule: &circuitbreaker.Rule{
			Resource:         res,
			Strategy:         circuitbreaker.ErrorCount,
			RetryTimeoutMs:   retryTimeoutMs,
			MinRequestAmount: 1,
			StatIntervalMs:   10000,
			Threshold:        1,
		},
		EnableActiveRecovery: false,
		MaxEjectionPercent:   1.0,
		RecycleIntervalS:     recycleIntervalS,
	}
}

// auditCall performs one request the way the adapters do: Entry, read the node lists, call the node
// (TraceCallee / TraceError), Exit. It returns copies of the lists reported to this request.
func auditCall(sc *base.SlotChain, res, addr string, err error) (filter []string, halfOpen []string) {
	e, b := sentinel.Entry(res, sentinel.WithSlotChain(sc))
	if b != nil {
		panic("unexpected block: " + b.Error())
	}
	filter = append([]string(nil), e.Context().FilterNodes()...)
	halfOpen = append([]string(nil), e.Context().HalfOpenNodes()...)
	if addr != "" {
		sentinel.TraceCallee(e, addr)
	}
	if err != nil {
		sentinel.TraceError(e, err)
	}
	e.Exit()
	return filter, halfOpen
}

func auditKnownNode(res, addr string) bool {
	_, ok := getNodeBreakersOfResource(res)[addr]
	return ok
}

// Finding 1: the node lists of a request are kept in the pooled EntryContext (TokenResult.filterNodes /
// halfOpenNodes are not cleared by EntryContext.Reset -> TokenResult.ResetToPass), and Slot.Check returns
// without touching them when the resource has no rule. A later request that gets the recycled context
// reports the ejected / half-open nodes of an EARLIER request - of another resource, or of the same
// resource before its rule was removed - although no breaker at all exists for the resource it asks for.
func TestAuditStaleNodeListsFromPooledContext(t *testing.T) {
	const r1, other = "audit-pool-r1", "audit-pool-other"
	clock := util.NewMockClock()
	util.SetClock(clock)
	t.Cleanup(func() {
		util.SetClock(util.NewRealClock())
		_ = ClearRules()
	})
	sc := auditChain()
	if _, err := LoadRules([]*Rule{auditRule(r1, 1000, 3600)}); err != nil {
		t.Fatal(err)
	}

	auditCall(sc, r1, "a:1", errors.New("boom")) // a:1 is ejected
	auditCall(sc, r1, "b:1", nil)                // b:1 is known and healthy
	if f, _ := auditCall(sc, r1, "b:1", nil); len(f) != 1 || f[0] != "a:1" {
		t.Fatalf("precondition: a request for %s should report a:1 for filtering, got %v", r1, f)
	}

	// (a) a resource that never had an outlier rule and has no node breaker
	if n := len(getNodeBreakersOfResource(other)); n != 0 || getOutlierRuleOfResource(other) != nil {
		t.Fatalf("precondition: %s must have no rule and no nodes", other)
	}
	for i := 0; i < 20; i++ {
		if f, h := auditCall(sc, other, "", nil); len(f) != 0 || len(h) != 0 {
			t.Errorf("request #%d for resource %q, which has NO outlier rule and no node breaker, was told to filter nodes %v "+
				"(half-open %v): these are the nodes of an earlier request for %q left in the pooled context; the property demands "+
				"that the reported set contains only nodes whose breaker currently rejects traffic (here: none)", i, other, f, h, r1)
			break
		}
	}

	// (b) the half-open list is left behind as well; a:1 is probed successfully and is healthy again afterwards
	clock.Sleep(1001 * time.Millisecond)
	if _, h := auditCall(sc, r1, "a:1", nil); len(h) != 1 || h[0] != "a:1" {
		t.Fatalf("precondition: after the retry timeout the request for %s should report a:1 as half-open, got %v", r1, h)
	}
	if st := getNodeBreakersOfResource(r1)["a:1"].CurrentState(); st != circuitbreaker.Closed {
		t.Fatalf("precondition: a:1 should be closed after its successful probe, is %v", st)
	}
	for i := 0; i < 20; i++ {
		if f, h := auditCall(sc, other, "", nil); len(f) != 0 || len(h) != 0 {
			t.Errorf("request #%d for resource %q (no outlier rule) was told that nodes %v are half-open (filter %v) although no node "+
				"of any resource is being probed: every breaker is closed; the property demands that the nodes reported as half-open "+
				"are exactly those being passively probed", i, other, h, f)
			break
		}
	}

	// (c) the same resource after its rule was removed: its node breakers are gone, the lists are still reported
	auditCall(sc, r1, "a:1", errors.New("boom")) // a:1 ejected again
	if f, _ := auditCall(sc, r1, "b:1", nil); len(f) != 1 || f[0] != "a:1" {
		t.Fatalf("precondition: a request for %s should report a:1 for filtering, got %v", r1, f)
	}
	if err := ClearRules(); err != nil {
		t.Fatal(err)
	}
	if n := len(getNodeBreakersOfResource(r1)); n != 0 {
		t.Fatalf("precondition: ClearRules should drop the node breakers, %d left", n)
	}
	for i := 0; i < 20; i++ {
		if f, h := auditCall(sc, r1, "b:1", nil); len(f) != 0 || len(h) != 0 {
			t.Errorf("request #%d for %q AFTER ClearRules (no rule, 0 known nodes) was still told to filter %v (half-open %v); "+
				"the property demands a set of at most floor(MaxEjectionPercent * 0 known nodes) = 0 nodes whose breaker rejects traffic",
				i, r1, f, h)
			break
		}
	}
}

// Finding 2: the Recycler of a resource is created once (by the first successful completion or the first
// ejection) and cached in the package map `recyclers` for the life of the process; its interval is the
// RecycleIntervalS of the rule in force at that moment. LoadRules / LoadRuleOfResource / ClearRules never
// refresh or drop it. After a reload with another RecycleIntervalS the old interval stays in use: with the
// rule saying 3600 s the timer still fires after 1 s, consumes the "completed successfully" mark of the node,
// and the next timer recycles the node although it has completed a request successfully well within the
// recycle interval of the rule that is loaded.
func TestAuditRecyclerIgnoresReloadedRecycleInterval(t *testing.T) {
	const res = "audit-recycle-reload"
	t.Cleanup(func() { _ = ClearRules() })
	sc := auditChain()

	// first version of the rule: recycle ejected nodes after 1 s
	if _, err := LoadRules([]*Rule{auditRule(res, 3600000, 1)}); err != nil {
		t.Fatal(err)
	}
	auditCall(sc, res, "a:1", nil) // one successful request: a:1 known (this also creates the resource's Recycler)

	// the rule is reloaded: ejected nodes are to be kept for an hour. (Removing the rule first does not help either.)
	if err := ClearRules(); err != nil {
		t.Fatal(err)
	}
	loaded, err := LoadRules([]*Rule{auditRule(res, 3600000, 3600)})
	if err != nil || !loaded {
		t.Fatalf("reload failed: loaded=%v err=%v", loaded, err)
	}
	if got := getOutlierRuleOfResource(res).RecycleIntervalS; got != 3600 {
		t.Fatalf("precondition: rule in force should say 3600 s, says %d", got)
	}
	auditCall(sc, res, "a:1", nil)

	start := time.Now()
	slow, b := sentinel.Entry(res, sentinel.WithSlotChain(sc)) // a slow request to b:1, still running
	if b != nil {
		t.Fatal(b)
	}
	auditCall(sc, res, "b:1", errors.New("boom")) // b:1 fails: ejected
	if f, _ := auditCall(sc, res, "a:1", nil); len(f) != 1 || f[0] != "b:1" {
		t.Fatalf("precondition: b:1 should be reported for filtering, got %v", f)
	}
	time.Sleep(300 * time.Millisecond)
	sentinel.TraceCallee(slow, "b:1")
	slow.Exit() // t=0.3s: b:1 completes a request successfully
	successAt := time.Since(start)

	time.Sleep(900 * time.Millisecond)
	auditCall(sc, res, "a:1", nil) // t=1.2s: an ordinary request; b:1 is still ejected (retry timeout 1 h)
	time.Sleep(1300 * time.Millisecond)

	if !auditKnownNode(res, "b:1") {
		t.Errorf("node b:1 was recycled %v after it had completed a request successfully (at %v) although the loaded rule says "+
			"RecycleIntervalS=3600: the resource's cached Recycler still runs with the 1 s interval of the rule that was loaded "+
			"first (interval in use: %v), its early timer consumed the success mark and the following one removed the node; "+
			"the property demands that a node that completes a request successfully is not recycled",
			(time.Since(start) - successAt).Round(100*time.Millisecond), successAt.Round(100*time.Millisecond),
			getRecyclerOfResource(res).interval)
	}
}
