package circuitbreaker

// Audit of the property "reloading rules does not disturb the runtime state of unchanged rules".
//
// NOTE: no finding of a NEW kind came out of this audit (see AUDIT.md). The two tests below are
// RESIDUAL VARIANTS of findings that are already known for this property (the "rules that differ
// only in the ID are taken for one another" family): the two-pass matching that repaired them
// (BuildResourceCircuitBreaker, pass 0 by ID, pass 1 ignoring the ID) still lets them through.
// They are kept as executable evidence, not as additional findings.

import (
	"errors"
	"testing"

	"github.com/alibaba/sentinel-golang/core/base"
	"github.com/alibaba/sentinel-golang/logging"
)

func auditCtx(res string) *base.EntryContext {
	ctx := base.NewEmptyEntryContext()
	ctx.Resource = base.NewResourceWrapper(res, base.ResTypeCommon, base.Inbound)
	ctx.Input = &base.SentinelInput{BatchCount: 1}
	return ctx
}

// auditRequest sends one request through the rule check slot; if it passes it is completed with err.
func auditRequest(res string, err error) (passed bool) {
	ctx := auditCtx(res)
	ctx.SetEntry(base.NewSentinelEntry(ctx, ctx.Resource, nil))
	if p, _ := checkPass(ctx); !p {
		return false
	}
	if err != nil {
		ctx.SetError(err)
	}
	DefaultMetricStatSlot.OnCompleted(ctx)
	return true
}

// Variant of the known "[X]; load [X, Y]; load [Y]: Y decides with X's breaker" - the copy has NO Id.
// Pass 0 skips a rule without Id, pass 1 hands it the first old breaker with equal fields, which is
// the one of the removed rule X, although the rule's own (closed) breaker is in the old list too.
func TestAuditResidual_UnchangedRuleWithoutIdInheritsOpenBreakerOfRemovedTwin(t *testing.T) {
	logging.ResetGlobalLoggerLevel(logging.ErrorLevel)
	defer ClearRules()
	ClearRules()
	const res = "audit-res-1"
	mk := func(id string) *Rule {
		return &Rule{Id: id, Resource: res, Strategy: ErrorCount, RetryTimeoutMs: 3600 * 1000,
			MinRequestAmount: 1, StatIntervalMs: 3600 * 1000, Threshold: 1}
	}
	if _, err := LoadRules([]*Rule{mk("x")}); err != nil {
		t.Fatal(err)
	}
	if !auditRequest(res, errors.New("biz")) {
		t.Fatal("setup: first request must pass")
	}
	if auditRequest(res, nil) {
		t.Fatal("setup: breaker of x must be open after one error")
	}
	// add Z: the same fields as x, no Id. Its breaker is new and closed.
	if _, err := LoadRules([]*Rule{mk("x"), mk("")}); err != nil {
		t.Fatal(err)
	}
	cbs := getBreakersOfResource(res)
	if len(cbs) != 2 || cbs[0].CurrentState() != Open || cbs[1].CurrentState() != Closed {
		t.Fatalf("setup: expect [x:Open, z:Closed], got %d breakers", len(cbs))
	}
	// remove x; Z is field-for-field identical in the old and in the new list
	if _, err := LoadRules([]*Rule{mk("")}); err != nil {
		t.Fatal(err)
	}
	cbs = getBreakersOfResource(res)
	if len(cbs) != 1 {
		t.Fatalf("expect one breaker, got %d", len(cbs))
	}
	st := cbs[0].CurrentState()
	if st != Closed || !auditRequest(res, nil) {
		t.Fatalf("rule z (no Id) is identical in the old list [x, z] and the new list [z] and its breaker was Closed (it never saw a completion); "+
			"after the load its breaker is %s and the request is rejected: it was given the open breaker of the REMOVED rule x. "+
			"The property demands that the reload is invisible for the unchanged rule z", st.String())
	}
}

// Variant of the known "a modified breaker rule loses its accumulated statistic to another rule of the
// same load": the other rule is a NEW rule (own Id y) whose fields are those of x BEFORE x was modified.
// Pass 1 (equal fields, Id ignored) runs before the hold-back of x's breaker for the modified x, so y takes
// the whole breaker of x and the modified x starts from an empty statistic.
func TestAuditResidual_ModifiedRuleLosesStatisticToNewRuleWithItsOldFields(t *testing.T) {
	logging.ResetGlobalLoggerLevel(logging.ErrorLevel)
	defer ClearRules()
	ClearRules()
	const res = "audit-res-2"
	mk := func(id string, threshold float64) *Rule {
		return &Rule{Id: id, Resource: res, Strategy: ErrorCount, RetryTimeoutMs: 3600 * 1000,
			MinRequestAmount: 1, StatIntervalMs: 3600 * 1000, Threshold: threshold}
	}
	if _, err := LoadRules([]*Rule{mk("x", 3)}); err != nil {
		t.Fatal(err)
	}
	if !auditRequest(res, errors.New("biz")) { // x: 1 error of 3
		t.Fatal("setup: request must pass")
	}
	// x is modified (Threshold 3 -> 2, statistic parameters untouched); y is new and looks like the old x
	if _, err := LoadRules([]*Rule{mk("x", 2), mk("y", 3)}); err != nil {
		t.Fatal(err)
	}
	if !auditRequest(res, errors.New("biz")) { // x: 2 errors of 2 -> must open
		t.Fatal("second request must pass (x has 1 error of 2, y none)")
	}
	if !auditRequest(res, nil) {
		return // x opened: its statistic was kept
	}
	t.Fatalf("rule x was modified without touching its statistic parameters (Threshold 3 -> 2) after 1 error; one more error makes 2 >= 2 and must open it, "+
		"but the third request passes: the new rule y (Id y, fields of the old x) was given x's breaker and statistic, the modified x started from zero. "+
		"The property demands that a modified rule whose statistic parameters are unchanged keeps its accumulated statistics")
}
