package api

import (
	"fmt"
	"os"
	"os/exec"
	"strings"
	"sync"
	"sync/atomic"
	"testing"
	"time"

	"github.com/alibaba/sentinel-golang/core/hotspot"
	"github.com/alibaba/sentinel-golang/logging"
	"github.com/alibaba/sentinel-golang/util"
)

// Property: "A request racing with a rule update is decided entirely by the old or entirely by the
// new rule list of its resource."
//
// hotspot.LoadRules (and LoadRulesOfResource) build the controllers of the new rule list first and
// publish them afterwards. While building, a modified QPS/Reject rule that takes over the counters of
// the rule it replaces has the token counters of all known values rewritten to the NEW rule's budget
// (rule_manager.go, carryOverTokens, called from buildResourceTrafficShapingController). These counters
// are the very objects the still published OLD controllers decide with. Until the new list is
// published - for LoadRules that is after the controllers of all other resources have been built -
// requests are decided by the old rule list on the new rule's budget: a mixture that neither list makes.
//
// Scenario (the clock is frozen, so no token is ever refilled):
//
//	old list of "audit-res": per-user limit   {ID per-user, param 0, threshold 2}
//	new list of "audit-res": per-user limit   {ID per-user, param 0, threshold 100}   (relaxed)
//	                         tenant deny rule {ID deny-tenant, param 1, threshold 0}  (blocks everything)
//
// User "u1" has used up its 2 tokens. The old list rejects every further request of u1 (no tokens left),
// the new list rejects every request (deny rule). So whatever a racing request is decided by, it must be
// rejected. The test switches between the two lists under traffic and counts admitted requests.
func TestAuditHotspotRuleSwitchAdmitsRequestsNeitherRuleListAdmits(t *testing.T) {
	logging.ResetGlobalLoggerLevel(logging.ErrorLevel)
	util.SetClock(util.NewMockClock()) // frozen: it is never advanced
	defer util.SetClock(util.NewRealClock())
	defer hotspot.ClearRules()

	const res = "audit-res"
	oldList := []*hotspot.Rule{
		{ID: "per-user", Resource: res, MetricType: hotspot.QPS, ControlBehavior: hotspot.Reject, ParamIndex: 0, Threshold: 2, DurationInSec: 1},
	}
	newList := []*hotspot.Rule{
		{ID: "per-user", Resource: res, MetricType: hotspot.QPS, ControlBehavior: hotspot.Reject, ParamIndex: 0, Threshold: 100, DurationInSec: 1},
		{ID: "deny-tenant", Resource: res, MetricType: hotspot.QPS, ControlBehavior: hotspot.Reject, ParamIndex: 1, Threshold: 0, DurationInSec: 1},
	}
	// Rules of other resources that change with every load. They have nothing to do with "audit-res";
	// building their controllers only takes time between the build and the publication of a load.
	others := func(round int) []*hotspot.Rule {
		rs := make([]*hotspot.Rule, 0, 2000)
		for i := 0; i < 2000; i++ {
			rs = append(rs, &hotspot.Rule{Resource: fmt.Sprintf("audit-other-%d", i), MetricType: hotspot.QPS, ControlBehavior: hotspot.Reject,
				ParamIndex: 0, Threshold: int64(round + 1), DurationInSec: 1})
		}
		return rs
	}
	request := func() bool {
		e, b := Entry(res, WithArgs("u1", "t1"))
		if b != nil {
			return false
		}
		e.Exit()
		return true
	}

	if _, err := hotspot.LoadRules(append(append([]*hotspot.Rule{}, oldList...), others(0)...)); err != nil {
		t.Fatal(err)
	}
	if !request() || !request() {
		t.Fatal("setup: the first two requests of u1 must pass under the old list (threshold 2)")
	}
	if request() {
		t.Fatal("setup: the third request of u1 must be rejected under the old list (tokens used up, clock frozen)")
	}
	// sanity: under the new list alone everything is rejected, and again under the old list afterwards
	if _, err := hotspot.LoadRules(append(append([]*hotspot.Rule{}, newList...), others(0)...)); err != nil {
		t.Fatal(err)
	}
	if request() {
		t.Fatal("setup: the new list must reject every request (deny rule with threshold 0)")
	}
	if _, err := hotspot.LoadRules(append(append([]*hotspot.Rule{}, oldList...), others(0)...)); err != nil {
		t.Fatal(err)
	}
	if request() {
		t.Fatal("setup: back under the old list u1 must still be rejected (it has consumed its 2 tokens)")
	}

	var stop int32
	var admitted, total int64
	var wg sync.WaitGroup
	for g := 0; g < 4; g++ {
		wg.Add(1)
		go func() {
			defer wg.Done()
			for atomic.LoadInt32(&stop) == 0 {
				atomic.AddInt64(&total, 1)
				if request() {
					atomic.AddInt64(&admitted, 1)
				}
			}
		}()
	}
	for round := 1; round <= 10; round++ {
		list := newList
		if round%2 == 0 {
			list = oldList
		}
		if _, err := hotspot.LoadRules(append(append([]*hotspot.Rule{}, list...), others(round)...)); err != nil {
			t.Error(err)
		}
	}
	atomic.StoreInt32(&stop, 1)
	wg.Wait()

	if admitted > 0 {
		t.Fatalf("%d of %d requests of value \"u1\" were ADMITTED while hotspot.LoadRules switched resource %q between its old rule list "+
			"[per-user threshold 2, used up] and its new rule list [per-user threshold 100, deny-tenant threshold 0]. "+
			"The old list rejects every one of them (no tokens left, clock frozen), the new list rejects every one of them (deny rule): "+
			"they were decided by the OLD list's controllers on token counters already rewritten to the NEW rule's budget "+
			"(carryOverTokens runs while the new list is built, before it is published). "+
			"The property demands that a request racing with a rule update is decided entirely by the old or entirely by the new rule list.",
			admitted, total, res)
	}
}

// Property: "every module's rule loading/clearing/getter functions ... may be called concurrently from
// any number of goroutines without data races, panics or deadlock."
//
// hotspot.GetRules / GetRulesOfResource are documented as "based on copy. It doesn't take effect for
// hotspot module if user changes the returned rules". The copy is `*rule`, a shallow copy of the struct:
// its SpecificItems field is the very map object the live controller of the rule reads, without any
// lock, on every Entry (traffic_shaping.go: c.specificItems[arg]; the controller takes r.SpecificItems
// as it is). A goroutine that does what the documentation allows - edit what the getter returned, e.g.
// to prepare the next LoadRules - therefore writes a map that concurrent Entry calls read: a data race
// which the Go runtime usually turns into "fatal error: concurrent map read and map write", i.e. the
// process is gone. The edit also takes effect on live traffic at once, without any rule switch.
//
// The test shows the sharing deterministically (an edit of the returned value changes the decision of
// the next Entry although nothing was loaded) and then lets a child process run the concurrent scenario
// (one goroutine edits the value returned by GetRules, others call Entry / Exit) to see what the
// runtime makes of it.
func TestAuditHotspotGetRulesHandsOutTheMapTheLiveControllerReads(t *testing.T) {
	const res = "audit-getrules"
	load := func() {
		_, err := hotspot.LoadRules([]*hotspot.Rule{{ID: "r", Resource: res, MetricType: hotspot.QPS, ControlBehavior: hotspot.Reject,
			ParamIndex: 0, Threshold: 1 << 40, DurationInSec: 1, SpecificItems: map[interface{}]int64{"vip": 1 << 41}}})
		if err != nil {
			t.Fatal(err)
		}
	}
	request := func(user string) bool {
		e, b := Entry(res, WithArgs(user))
		if b != nil {
			return false
		}
		e.Exit()
		return true
	}

	if os.Getenv("AUDIT_GETRULES_CHILD") == "1" {
		// child: the concurrent scenario. Exits normally if the runtime does not notice anything.
		logging.ResetGlobalLoggerLevel(logging.ErrorLevel)
		load()
		var stop int32
		var wg sync.WaitGroup
		for g := 0; g < 4; g++ {
			wg.Add(1)
			go func(g int) {
				defer wg.Done()
				for i := 0; atomic.LoadInt32(&stop) == 0; i++ {
					request(fmt.Sprintf("u%d", (g*1000+i)%64))
				}
			}(g)
		}
		wg.Add(1)
		go func() {
			defer wg.Done()
			for i := 0; atomic.LoadInt32(&stop) == 0; i++ {
				got := hotspot.GetRules() // "based on copy"
				for k := range got {
					if got[k].Resource == res {
						got[k].SpecificItems[fmt.Sprintf("new-vip-%d", i%64)] = 1 << 41 // the user changes the returned rule
					}
				}
			}
		}()
		time.Sleep(3 * time.Second)
		atomic.StoreInt32(&stop, 1)
		wg.Wait()
		return
	}

	logging.ResetGlobalLoggerLevel(logging.ErrorLevel)
	defer hotspot.ClearRules()
	load()
	if !request("u1") {
		t.Fatal("setup: u1 must pass (threshold 2^40)")
	}
	got := hotspot.GetRulesOfResource(res)
	if len(got) != 1 {
		t.Fatalf("setup: expected one rule, got %d", len(got))
	}
	got[0].SpecificItems["u1"] = 0 // an edit of the returned value; nothing is loaded
	admittedAfterEdit := request("u1")
	_, leakedIntoModule := hotspot.GetRules()[0].SpecificItems["u1"]

	childReport := "child process not run"
	cmd := exec.Command(os.Args[0], "-test.run=^TestAuditHotspotGetRulesHandsOutTheMapTheLiveControllerReads$", "-test.count=1")
	cmd.Env = append(os.Environ(), "AUDIT_GETRULES_CHILD=1")
	out, err := cmd.CombinedOutput()
	switch {
	case strings.Contains(string(out), "fatal error: concurrent map"):
		line := string(out)[strings.Index(string(out), "fatal error: concurrent map"):]
		if i := strings.IndexByte(line, '\n'); i >= 0 {
			line = line[:i]
		}
		childReport = fmt.Sprintf("a child process in which one goroutine edits the rules returned by GetRules() while four others call Entry/Exit was ABORTED by the runtime: %q (%v)", line, err)
	case err != nil:
		childReport = fmt.Sprintf("the child process running the concurrent scenario failed: %v", err)
	default:
		childReport = "the child process running the concurrent scenario survived this time (the runtime's check is best effort; the race is there all the same)"
	}

	if !admittedAfterEdit || leakedIntoModule {
		t.Fatalf("hotspot.GetRulesOfResource / GetRules promise a copy (\"It doesn't take effect for hotspot module if user changes the returned rules\"), "+
			"but the SpecificItems map of the returned rule IS the map the live controller reads on every Entry: after got[0].SpecificItems[\"u1\"] = 0, "+
			"with nothing loaded, Entry for u1 admitted=%v (was admitted before; threshold 2^40) and the module's own rules contain the edit=%v. "+
			"So editing what the getter returned while other goroutines call Entry is an unsynchronised map write against map reads in "+
			"baseTrafficShapingController (c.specificItems[arg]): %s. "+
			"The property demands that the getters, Entry and Exit can be used concurrently without data races or panics.",
			admittedAfterEdit, leakedIntoModule, childReport)
	}
}
