package hotspot_test

// Audit of the property "hot-parameter concurrency is capped per value and its counters conserved".
// Every test drives the UNMODIFIED library through its public API only (api.Entry / entry.Exit /
// hotspot.LoadRules) and keeps its own, exact book of the live entries per value; the library's
// admissions are judged against that book.

import (
	"fmt"
	"sync"
	"sync/atomic"
	"testing"
	"time"

	sentinel "github.com/alibaba/sentinel-golang/api"
	"github.com/alibaba/sentinel-golang/core/base"
	"github.com/alibaba/sentinel-golang/core/hotspot"
)

// auditChain is the smallest chain that contains the hotspot feature: the rule check slot and the
// concurrency statistic slot, exactly the two objects the default chain registers for it.
func auditChain(extra ...base.RuleCheckSlot) *base.SlotChain {
	sc := base.NewSlotChain()
	sc.AddRuleCheckSlot(hotspot.DefaultSlot)
	for _, s := range extra {
		sc.AddRuleCheckSlot(s)
	}
	sc.AddStatSlot(hotspot.DefaultConcurrencyStatSlot)
	return sc
}

func auditLoad(t *testing.T, rules ...*hotspot.Rule) {
	t.Helper()
	if _, err := hotspot.LoadRules(rules); err != nil {
		t.Fatalf("LoadRules: %v", err)
	}
}

func auditEnter(sc *base.SlotChain, res string, args ...interface{}) *base.SentinelEntry {
	e, b := sentinel.Entry(res, sentinel.WithSlotChain(sc), sentinel.WithArgs(args...))
	if b != nil {
		return nil
	}
	return e
}

// rendezvousSlot is an ordinary user rule-check slot that runs right after the hotspot check
// (order 4001 > 4000). It never blocks a request; it only holds the caller until `parties`
// callers have arrived, i.e. it makes a scheduling that is possible anyway happen every time:
// all callers have finished hotspot.Slot.Check before any of them reaches
// ConcurrencyStatSlot.OnEntryPassed.
type rendezvousSlot struct {
	mu      sync.Mutex
	parties int
	arrived int
	release chan struct{}
}

func (s *rendezvousSlot) Order() uint32 { return hotspot.RuleCheckSlotOrder + 1 }

func (s *rendezvousSlot) Check(ctx *base.EntryContext) *base.TokenResult {
	s.mu.Lock()
	s.arrived++
	if s.arrived == s.parties {
		close(s.release)
	}
	ch := s.release
	s.mu.Unlock()
	select {
	case <-ch:
	case <-time.After(2 * time.Second): // a blocked sibling never arrives: go on alone
	}
	return nil
}

// Finding 1: the check (hotspot.Slot.Check reads the counter) and the update
// (ConcurrencyStatSlot.OnEntryPassed increments it) are two separate steps in two separate slots,
// with the whole rest of the rule-check phase in between. Callers that are between the two steps
// are invisible to each other.
func TestAuditConcurrencyCheckThenCountAdmitsAboveThreshold(t *testing.T) {
	defer hotspot.ClearRules()
	const res = "audit-c06-toctou"
	const threshold = 1
	const callers = 8
	auditLoad(t, &hotspot.Rule{Resource: res, MetricType: hotspot.Concurrency, ParamIndex: 0, Threshold: threshold})

	// (a) forced interleaving
	rv := &rendezvousSlot{parties: callers, release: make(chan struct{})}
	sc := auditChain(rv)
	var admitted int32
	entries := make([]*base.SentinelEntry, callers)
	var wg sync.WaitGroup
	for i := 0; i < callers; i++ {
		wg.Add(1)
		go func(i int) {
			defer wg.Done()
			if e := auditEnter(sc, res, "v"); e != nil {
				atomic.AddInt32(&admitted, 1)
				entries[i] = e
			}
		}(i)
	}
	wg.Wait()
	forced := atomic.LoadInt32(&admitted)
	for _, e := range entries {
		if e != nil {
			e.Exit()
		}
	}

	// (b) no helper slot at all: plain goroutines hammering one value through the plain chain
	plain := auditChain()
	var live, maxLive int32
	var wg2 sync.WaitGroup
	deadline := time.Now().Add(1500 * time.Millisecond)
	for g := 0; g < 16; g++ {
		wg2.Add(1)
		go func() {
			defer wg2.Done()
			for time.Now().Before(deadline) && atomic.LoadInt32(&maxLive) <= threshold {
				e := auditEnter(plain, res, "w")
				if e == nil {
					continue
				}
				n := atomic.AddInt32(&live, 1)
				for {
					m := atomic.LoadInt32(&maxLive)
					if n <= m || atomic.CompareAndSwapInt32(&maxLive, m, n) {
						break
					}
				}
				atomic.AddInt32(&live, -1) // before Exit: `live` never exceeds the true figure
				e.Exit()
			}
		}()
	}
	wg2.Wait()
	t.Logf("free-running stress without any helper slot: max simultaneously live admitted entries for value \"w\" = %d (threshold %d)", maxLive, threshold)

	if forced > threshold {
		t.Errorf("concurrency rule with threshold %d for value \"v\": %d callers were admitted and were in flight at the same time "+
			"(free-running stress without helper slot reached %d). The property demands that a request is admitted iff the entries "+
			"in flight for the value are FEWER than the threshold, from one or many goroutines; the library reads the counter in "+
			"hotspot.Slot.Check and increments it only later in ConcurrencyStatSlot.OnEntryPassed, so concurrent callers all see 0",
			threshold, forced, maxLive)
	}
}

// Finding 2: at exit the library does not release the unit the entry took. It looks up the
// controllers that are loaded NOW and extracts the argument with THEIR parameter position, and
// decrements whatever counter that leads to.
func TestAuditConcurrencyExitIsResolvedAgainstRulesLoadedAtExitTime(t *testing.T) {
	defer hotspot.ClearRules()
	sc := auditChain()

	t.Run("unit released from a counter the entry never occupied", func(t *testing.T) {
		const res = "audit-c06-reload-under"
		hotspot.ClearRules()
		// e0 is opened while no rule exists: it occupies nothing.
		e0 := auditEnter(sc, res, "A")
		if e0 == nil {
			t.Fatal("setup: entry without any rule must pass")
		}
		auditLoad(t, &hotspot.Rule{Resource: res, MetricType: hotspot.Concurrency, ParamIndex: 0, Threshold: 1})
		e1 := auditEnter(sc, res, "A") // counter(A) 0 -> 1
		if e1 == nil {
			t.Fatal("setup: first entry under the rule must pass")
		}
		if x := auditEnter(sc, res, "A"); x != nil {
			x.Exit()
			t.Fatal("setup: second entry under threshold 1 must be blocked")
		}
		e0.Exit() // releases a unit e0 never took: counter(A) 1 -> 0 although e1 is live
		e2 := auditEnter(sc, res, "A")
		if e2 != nil {
			t.Errorf("threshold 1 for value \"A\": e1 (admitted under the rule) is still in flight, yet a second entry was admitted "+
				"after an entry that had been opened BEFORE the rule was loaded exited. The property demands that each admitted entry "+
				"releases exactly the unit it occupies (e0 occupied none) and that the in-flight figure equals the true number of live entries (1, not 0)")
			e2.Exit()
		}
		e1.Exit()
		// now nothing is live; the figure must be 0, i.e. exactly one entry fits
		a := auditEnter(sc, res, "A")
		b := auditEnter(sc, res, "A")
		if a != nil && b != nil {
			t.Errorf("all entries have exited, threshold 1: two entries for \"A\" are admitted at the same time (the counter went negative); " +
				"the property demands that the figure returns to zero")
		}
		for _, e := range []*base.SentinelEntry{a, b} {
			if e != nil {
				e.Exit()
			}
		}
	})

	t.Run("unit never released after the parameter position of the rule changed", func(t *testing.T) {
		const res = "audit-c06-reload-leak"
		hotspot.ClearRules()
		auditLoad(t, &hotspot.Rule{Resource: res, MetricType: hotspot.Concurrency, ParamIndex: 0, Threshold: 1})
		e1 := auditEnter(sc, res, "A", "B") // occupies the unit of "A" (position 0)
		if e1 == nil {
			t.Fatal("setup: first entry must pass")
		}
		// Same rule, now bound to position 1. Rule.IsStatReusable ignores ParamIndex, so the new
		// controller takes over the counter table of the old one.
		auditLoad(t, &hotspot.Rule{Resource: res, MetricType: hotspot.Concurrency, ParamIndex: 1, Threshold: 1})
		e1.Exit() // extracts "B" (position 1), finds no counter for it, releases nothing
		// Nothing is in flight any more.
		e2 := auditEnter(sc, res, "x", "A")
		if e2 == nil {
			t.Errorf("threshold 1, NO entry in flight at all, yet a request for value \"A\" is blocked (and stays blocked for ever): " +
				"the unit e1 took for \"A\" was not released by e1.Exit() because the exit extracted the argument with the parameter " +
				"position of the rule loaded at exit time. The property demands that an entry releases exactly its unit when it is exited " +
				"and that the figure returns to zero when all entries have exited")
		} else {
			e2.Exit()
		}
		// and back to position 0: still stuck
		auditLoad(t, &hotspot.Rule{Resource: res, MetricType: hotspot.Concurrency, ParamIndex: 0, Threshold: 1})
		e3 := auditEnter(sc, res, "A", "y")
		if e3 == nil {
			t.Errorf("after restoring the original rule (position 0) and with no entry in flight, value \"A\" is still blocked: its counter is stuck at 1")
		} else {
			e3.Exit()
		}
	})
}

// Finding 3: the per-value counters live in an LRU cache (Rule.ParamsMaxCapacity, default 4000
// values). A counter is evicted no matter whether it is zero: once more distinct values than the
// capacity have been seen, the counter of a value that still has live entries is thrown away and
// the value starts again from zero.
func TestAuditConcurrencyLiveCounterEvictedFromLRU(t *testing.T) {
	defer hotspot.ClearRules()
	sc := auditChain()

	run := func(t *testing.T, res string, capacity int64, distinct int) {
		hotspot.ClearRules()
		auditLoad(t, &hotspot.Rule{Resource: res, MetricType: hotspot.Concurrency, ParamIndex: 0, Threshold: 1, ParamsMaxCapacity: capacity})
		first := auditEnter(sc, res, "hot")
		if first == nil {
			t.Fatal("setup: first entry for \"hot\" must pass")
		}
		if x := auditEnter(sc, res, "hot"); x != nil {
			x.Exit()
			t.Fatal("setup: second entry for \"hot\" must be blocked")
		}
		var others []*base.SentinelEntry
		for i := 0; i < distinct; i++ {
			if e := auditEnter(sc, res, fmt.Sprintf("other-%d", i)); e != nil {
				others = append(others, e)
			}
		}
		second := auditEnter(sc, res, "hot")
		if second != nil {
			t.Errorf("ParamsMaxCapacity=%d (0 = default %d), threshold 1: the first entry for value \"hot\" is still in flight, yet a second one "+
				"was admitted after %d requests for other values. The property demands that a value is judged by its own in-flight entries, "+
				"independently of every other value, and that the figure always equals the true number of live entries (1): the LRU cache evicted the live counter",
				capacity, hotspot.ConcurrencyMaxCount, distinct)
		}
		for _, e := range others {
			e.Exit()
		}
		first.Exit()
		if second != nil {
			second.Exit()
			// every entry has exited: exactly one must fit
			a := auditEnter(sc, res, "hot")
			b := auditEnter(sc, res, "hot")
			if a != nil && b != nil {
				t.Errorf("all entries have exited, threshold 1: two entries for \"hot\" are admitted together, the re-created counter went to -1 " +
					"(the evicted entry's exit was charged to it); the property demands that the figure returns to zero")
			}
			for _, e := range []*base.SentinelEntry{a, b} {
				if e != nil {
					e.Exit()
				}
			}
		}
	}
	t.Run("capacity 2", func(t *testing.T) { run(t, "audit-c06-lru-2", 2, 2) })
	t.Run("default capacity", func(t *testing.T) { run(t, "audit-c06-lru-default", 0, hotspot.ConcurrencyMaxCount) })
}
