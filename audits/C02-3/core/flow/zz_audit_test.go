package flow_test

import (
	"sync/atomic"
	"testing"
	"time"

	sentinel "github.com/alibaba/sentinel-golang/api"
	"github.com/alibaba/sentinel-golang/core/flow"
	"github.com/alibaba/sentinel-golang/logging"
	"github.com/alibaba/sentinel-golang/util"
)

// auditClock is a settable wall clock (util.MockClock can only be moved forward by Sleep).
type auditClock struct{ ms uint64 }

func (c *auditClock) Now() time.Time            { return time.Unix(0, int64(atomic.LoadUint64(&c.ms))*1e6) }
func (c *auditClock) Sleep(d time.Duration)     { atomic.AddUint64(&c.ms, uint64(d/time.Millisecond)) }
func (c *auditClock) CurrentTimeMillis() uint64 { return atomic.LoadUint64(&c.ms) }
func (c *auditClock) CurrentTimeNano() uint64   { return atomic.LoadUint64(&c.ms) * 1e6 }
func (c *auditClock) set(ms uint64)             { atomic.StoreUint64(&c.ms, ms) }

// offer sends n single-token requests at the current clock value and returns how many were admitted.
func offer(res string, n int) int {
	admitted := 0
	for i := 0; i < n; i++ {
		if e, b := sentinel.Entry(res); b == nil {
			admitted++
			e.Exit()
		}
	}
	return admitted
}

// The wall clock (util.CurrentTimeMillis is time.Now().UnixNano(), i.e. not monotonic) is set back -
// an NTP step, an operator correcting a clock that ran ahead, a VM restored from a snapshot.
// From then on, and until the clock has caught up with the time stamps that the statistic buckets
// carry from before, the reject-mode QPS rule admits EVERYTHING: the buckets stamped "in the future"
// are taken for expired by the reader (unsigned now-start wraps), and the passes are either dropped
// (window of several buckets: "Provided time is already behind old.BucketStart") or booked into that
// future bucket (window of one bucket), so the sum the checker reads stays 0.
func TestAuditClockSetBackSwitchesQpsRuleOff(t *testing.T) {
	lvl := logging.GetGlobalLoggerLevel()
	logging.ResetGlobalLoggerLevel(logging.ErrorLevel + 1) // every dropped pass logs an error
	defer logging.ResetGlobalLoggerLevel(lvl)
	defer util.SetClock(util.NewRealClock())
	defer flow.ClearRules()

	const T = 5

	t.Run("default interval, clock set back by one minute", func(t *testing.T) {
		const res = "audit-c02-clock-default"
		clk := &auditClock{}
		t0 := uint64(1700000000000)
		clk.set(t0)
		util.SetClock(clk)
		if _, err := flow.LoadRules([]*flow.Rule{{Resource: res, Threshold: T, ControlBehavior: flow.Reject, TokenCalculateStrategy: flow.Direct}}); err != nil {
			t.Fatal(err)
		}
		// 10 seconds of ordinary traffic, 4 requests per second (well below T): every bucket of the
		// resource's statistic gets a time stamp of these 10 seconds.
		for s := uint64(0); s < 10; s++ {
			for _, off := range []uint64{0, 500} {
				clk.set(t0 + s*1000 + off)
				if got := offer(res, 2); got != 2 {
					t.Fatalf("warm-up traffic: %d of 2 admitted", got)
				}
			}
		}
		// sanity: the rule works
		clk.set(t0 + 10500)
		if got := offer(res, 50); got != T {
			t.Fatalf("sanity: %d of 50 admitted in a fresh window, want %d", got, T)
		}
		// the clock is set back by one minute
		back := t0 + 10500 - 60000
		for _, at := range []uint64{back, back + 1000, back + 20000, back + 45000} {
			clk.set(at)
			// the aligned window at this instant holds nothing admitted after the clock change
			if got := offer(res, 100); got > T {
				t.Errorf("clock set back from %d to %d, now %d: %d of 100 single-token requests offered at this one instant were admitted under a reject rule with threshold %d per 1000ms; "+
					"the property demands that in every aligned window the admitted tokens never exceed T (a request is admitted iff window sum + b <= T)",
					t0+10500, back, at, got, T)
			}
		}
	})

	t.Run("rule with a window of its own, clock set back by one second", func(t *testing.T) {
		const res = "audit-c02-clock-standalone"
		clk := &auditClock{}
		t0 := uint64(1700000000000) // a multiple of 20000
		clk.set(t0 + 500)
		util.SetClock(clk)
		if _, err := flow.LoadRules([]*flow.Rule{{Resource: res, Threshold: T, StatIntervalInMs: 20000}}); err != nil {
			t.Fatal(err)
		}
		if got := offer(res, 50); got != T {
			t.Fatalf("sanity: %d of 50 admitted, want %d", got, T)
		}
		// one second back, which happens to cross the start of the 20s window
		clk.set(t0 - 500)
		if got := offer(res, 100); got > T {
			t.Errorf("clock set back by 1s (from %d to %d) across the start of the rule's 20000ms window: %d of 100 single-token requests offered at this one instant were admitted, threshold is %d; "+
				"the property demands that in every aligned window the admitted tokens never exceed T", t0+500, t0-500, got, T)
		}
	})
}
