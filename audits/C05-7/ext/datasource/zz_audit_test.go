package datasource

import (
	"testing"
	"time"

	"github.com/alibaba/sentinel-golang/core/base"
	"github.com/alibaba/sentinel-golang/core/hotspot"
	"github.com/alibaba/sentinel-golang/util"
)

type auditClock struct{ ms int64 }

func (c *auditClock) Now() time.Time            { return time.Unix(0, c.ms*int64(time.Millisecond)) }
func (c *auditClock) Sleep(d time.Duration)     { c.ms += int64(d / time.Millisecond) }
func (c *auditClock) CurrentTimeMillis() uint64 { return uint64(c.ms) }
func (c *auditClock) CurrentTimeNano() uint64   { return uint64(c.ms) * uint64(time.Millisecond) }

func auditHotspotCheck(res string, batch uint32, arg interface{}) bool {
	ctx := base.NewEmptyEntryContext()
	ctx.Resource = base.NewResourceWrapper(res, base.ResTypeCommon, base.Inbound)
	ctx.Input = &base.SentinelInput{BatchCount: batch, Args: []interface{}{arg}}
	ctx.RuleCheckResult = base.NewTokenResultPass()
	r := hotspot.DefaultSlot.Check(ctx)
	return r == nil || !r.IsBlocked()
}

// A hotspot QPS rule that comes from a data source (the JSON rule format of this library) carries a
// specific threshold for the float value 3.1415926. The converter stores the item under the value
// rounded to five decimals (3.14159), while the argument of a request is looked up as it is.
func TestAuditFloatSpecificItemFromDataSourceIsFiledUnderAnotherValue(t *testing.T) {
	clk := &auditClock{ms: 1700000000000}
	util.SetClock(clk)
	defer util.SetClock(util.NewRealClock())
	defer hotspot.ClearRules()

	src := []byte(`[{
		"resource": "audit-float",
		"metricType": 1,
		"controlBehavior": 0,
		"paramIndex": 0,
		"threshold": 1,
		"burstCount": 0,
		"durationInSec": 1,
		"specificItems": [ {"valKind": 3, "valStr": "3.1415926", "threshold": 5} ]
	}]`)
	rules, err := HotSpotParamRuleJsonArrayParser(src)
	if err != nil {
		t.Fatalf("parser: %v", err)
	}
	if err := HotSpotParamRulesUpdater(rules); err != nil {
		t.Fatalf("updater: %v", err)
	}
	if got := hotspot.GetRulesOfResource("audit-float"); len(got) != 1 {
		t.Fatalf("rule not loaded: %v", got)
	}

	const configured = 3.1415926 // the value the specific threshold 5 is configured for
	const other = 3.14159        // another value; nothing is configured for it: threshold 1, burst 0

	// (a) the configured value was never seen: a batch up to ITS threshold (5) must be granted
	passedConfigured := auditHotspotCheck("audit-float", 5, configured)

	// (b) the other value has threshold+burst = 1: no more than 1 token at one instant
	admittedOther := 0
	for i := 0; i < 5; i++ {
		if auditHotspotCheck("audit-float", 1, other) {
			admittedOther++
		}
	}

	if !passedConfigured || admittedOther > 1 {
		t.Fatalf("rule from the JSON data source: threshold 1 per 1 s, burst 0, specific item float 3.1415926 -> 5.\n"+
			"  value 3.1415926, never seen before, batch 5: admitted=%v (the property demands the value's specific threshold 5 to be used: a batch up to it is granted)\n"+
			"  value 3.14159 (no specific item), 5 single requests at one instant: %d admitted (the property allows threshold+burst = 1)\n"+
			"  the converter filed the item under 3.14159 (value rounded to 5 decimals), the lookup uses the unrounded argument",
			passedConfigured, admittedOther)
	}
}
