package circuitbreaker

import (
	"errors"
	"sync/atomic"
	"testing"
	"time"

	"github.com/alibaba/sentinel-golang/core/base"
	"github.com/alibaba/sentinel-golang/util"
)

// auditClock is a util.Clock the test sets to any reading (util.MockClock can only move forward).
type auditClock struct{ ms int64 }

func (c *auditClock) set(ms uint64) { atomic.StoreInt64(&c.ms, int64(ms)) }
func (c *auditClock) Now() time.Time {
	return time.Unix(0, atomic.LoadInt64(&c.ms)*int64(time.Millisecond))
}
func (c *auditClock) Sleep(d time.Duration)     { atomic.AddInt64(&c.ms, int64(d/time.Millisecond)) }
func (c *auditClock) CurrentTimeMillis() uint64 { return uint64(atomic.LoadInt64(&c.ms)) }
func (c *auditClock) CurrentTimeNano() uint64 {
	return uint64(atomic.LoadInt64(&c.ms)) * uint64(time.Millisecond)
}

// auditListener lets the test act at the exact point where the breaker calls its listeners, i.e. in the
// middle of a transition: after the state CAS and before the rest of that transition's bookkeeping. That is
// how the interleaving "caller P1 is delayed between its Open->HalfOpen CAS and the clearing of the used-up
// retry deadline" is produced deterministically and without goroutines.
type auditListener struct {
	onHalfOpen func()
	openedAt   []uint64 // clock reading at every OnTransformToOpen
	openedFrom []State
}

func (l *auditListener) OnTransformToClosed(prev State, rule Rule) {}

func (l *auditListener) OnTransformToOpen(prev State, rule Rule, snapshot interface{}) {
	l.openedAt = append(l.openedAt, util.CurrentTimeMillis())
	l.openedFrom = append(l.openedFrom, prev)
}

func (l *auditListener) OnTransformToHalfOpen(prev State, rule Rule) {
	if f := l.onHalfOpen; f != nil {
		l.onHalfOpen = nil
		f()
	}
}

func auditCtx(res string) *base.EntryContext {
	rw := base.NewResourceWrapper(res, base.ResTypeCommon, base.Inbound)
	ctx := &base.EntryContext{Resource: rw, RuleCheckResult: base.NewTokenResultPass()}
	ctx.SetEntry(base.NewSentinelEntry(ctx, rw, nil))
	return ctx
}

// Finding 1.
//
// fromOpenToHalfOpen clears the retry deadline of the open period it ends with
//
//	atomic.CompareAndSwapUint64(&b.nextRetryTimestampMs, deadline, 0)
//
// AFTER the state CAS and after the listeners have run, and it takes "the deadline still has the value I
// examined" for "no later open period has published its deadline". updateNextRetryTimestamp, however, leaves
// the stored value alone when now+retryTimeout <= stored value ("the deadline only ever moves forward"). When
// the breaker is re-opened inside that window by a failing completion that reads a clock at or before the
// previous opening (clock set back by at least one retry timeout), the NEW open period keeps the OLD deadline
// value, the delayed prober then wipes it to 0, and the breaker is Open with deadline 0: the next request is
// admitted as a probe 1 ms after the breaker re-opened, with a retry timeout of 1000 ms.
func TestAudit_DelayedDeadlineClearWipesDeadlineOfNextOpenPeriod(t *testing.T) {
	prevClock := util.CurrentClock()
	defer util.SetClock(prevClock)
	clock := &auditClock{}
	util.SetClock(clock)
	defer ClearStateChangeListeners()

	const t0 = uint64(1700000000000)
	const retry = 1000
	bizErr := errors.New("biz")

	// scenario: the breaker opens at t0; at t0+1000 P1 takes it Open -> HalfOpen; a request that was admitted
	// while the breaker was still closed completes with an error when the clock reads reopenAt and re-opens it
	// (HalfOpen -> Open, a NEW open period) - either inside P1's transition (after the state CAS, before P1
	// clears the used-up deadline; here: while the listener runs) or after P1's TryPass has returned; 1 ms
	// after the re-opening the next request asks. Returns whether that request was admitted.
	scenario := func(reopenAt uint64, insideTransition bool) (admitted bool, l *auditListener, b *errorCountCircuitBreaker) {
		clock.set(t0)
		r := &Rule{
			Resource:         "audit-c12-deadline",
			Strategy:         ErrorCount,
			RetryTimeoutMs:   retry,
			MinRequestAmount: 1,
			StatIntervalMs:   10000, // a single bucket
			Threshold:        1,
		}
		b, err := newErrorCountCircuitBreaker(r)
		if err != nil {
			t.Fatal(err)
		}
		l = &auditListener{}
		ClearStateChangeListeners()
		RegisterStateChangeListeners(l)

		// t0: a failing completion opens the breaker (Closed -> Open); retry deadline t0+1000.
		b.OnRequestComplete(1, bizErr)
		if b.CurrentState() != Open {
			t.Fatalf("setup: breaker should be Open, is %v", b.CurrentState())
		}
		if d := atomic.LoadUint64(&b.nextRetryTimestampMs); d != t0+retry {
			t.Fatalf("setup: deadline %d, want %d", d, t0+retry)
		}

		clock.set(t0 + retry)
		straggler := func() {
			clock.set(reopenAt)
			b.OnRequestComplete(1, bizErr)
		}
		if insideTransition {
			l.onHalfOpen = straggler
		}
		if !b.TryPass(auditCtx(r.Resource)) {
			t.Fatalf("setup: P1 should have been admitted as the probe at t0+%d", retry)
		}
		if !insideTransition {
			straggler()
		}
		if b.CurrentState() != Open {
			t.Fatalf("setup: the failing completion should have re-opened the breaker, state is %v", b.CurrentState())
		}
		if n := len(l.openedAt); n != 2 || l.openedFrom[0] != Closed || l.openedFrom[1] != HalfOpen || l.openedAt[1] != reopenAt {
			t.Fatalf("setup: want two OnTransformToOpen (from Closed at t0, from HalfOpen at %d); got at=%v from=%v", reopenAt, l.openedAt, l.openedFrom)
		}

		// 1 ms after the re-opening the listeners were told about, the next request asks.
		clock.set(reopenAt + 1)
		return b.TryPass(auditCtx(r.Resource)), l, b
	}

	// controls: the same steps are answered correctly when the clock is not set back, and when it is set back
	// but the re-opening comes after P1's transition is complete
	if admitted, _, _ := scenario(t0+retry, true); admitted {
		t.Fatalf("control (no clock step): request admitted 1 ms after the re-opening")
	}
	if admitted, _, _ := scenario(t0-2000, false); admitted {
		t.Fatalf("control (clock set back, re-opening after P1's TryPass returned): request admitted 1 ms after the re-opening")
	}

	// the clock is set back by 3 s (to t0-2000) inside P1's transition
	admitted, l, b := scenario(t0-2000, true)
	if admitted {
		t.Fatalf("the breaker re-opened (HalfOpen->Open reported to listeners) at clock %d with RetryTimeoutMs=%d, "+
			"yet the request at clock %d - %d ms later - was admitted as a probe (state now %v; the retry deadline of the "+
			"new open period had been wiped to 0 by the delayed deadline clearing of the Open->HalfOpen transition that "+
			"ended the PREVIOUS open period). The property demands that while the breaker is open no request is "+
			"admitted before a full retry timeout has elapsed since it opened.",
			l.openedAt[1], retry, util.CurrentTimeMillis(), util.CurrentTimeMillis()-l.openedAt[1], b.CurrentState())
	}
}
