package api

import (
	"testing"
	"time"

	"github.com/alibaba/sentinel-golang/api"
	"github.com/alibaba/sentinel-golang/core/flow"
	"github.com/alibaba/sentinel-golang/util"
)

// Finding 1 (commit 26b4bd4 "warm-up must not starve rules whose threshold is below the cold factor").
//
// The repair lifts the cold rate to "at least one token". That only helps requests of one token: a
// caller that acquires 2 tokens per request (WithBatchCount(2)) under a warm-up rule of threshold 2
// (cold factor 3, so threshold < cold factor - exactly the rules the commit is about) is still
// rejected for ever: 0+2 > 1.0 in the cold state, nothing passes, the pass QPS of the previous
// second stays 0, the bucket is refilled to maxToken every second and the rule never leaves the
// cold state. Once warm the rule's threshold (2 per second) does admit such a request.
func TestReviewWarmUpStillStarvesMultiTokenRequests(t *testing.T) {
	initSentinel()
	util.SetClock(util.NewMockClock())
	defer util.SetClock(util.NewRealClock())

	const seconds = 60
	run := func(res string, batch uint32) (passed int) {
		_, err := flow.LoadRulesOfResource(res, []*flow.Rule{{
			Resource:               res,
			TokenCalculateStrategy: flow.WarmUp,
			ControlBehavior:        flow.Reject,
			Threshold:              2,
			WarmUpPeriodSec:        3,
			WarmUpColdFactor:       3,
			StatIntervalInMs:       1000,
		}})
		if err != nil {
			t.Fatalf("cannot load the rule: %v", err)
		}
		defer func() { _ = flow.ClearRulesOfResource(res) }()
		for sec := 0; sec < seconds; sec++ {
			// one request per second: far below the threshold of 2 tokens per second
			if e, b := api.Entry(res, api.WithBatchCount(batch)); b == nil {
				passed++
				e.Exit()
			}
			util.Sleep(time.Second)
		}
		return passed
	}

	// control: the same rule with single-token requests is not starved (this is what 26b4bd4 repaired)
	if p := run("review-warmup-batch1", 1); p == 0 {
		t.Fatalf("control failed: no single-token request passed in %d s", seconds)
	}
	p := run("review-warmup-batch2", 2)
	t.Logf("requests of 2 tokens admitted in %d s: %d", seconds, p)
	if p == 0 {
		t.Errorf("warm-up rule with threshold 2 (cold factor 3): none of %d requests of 2 tokens, one per second, "+
			"was admitted in %d s - the rule is starved for ever; it should warm up and admit one such request "+
			"per second (2 tokens/s is its threshold), as it does for requests of 1 token", seconds, seconds)
	}
}
