package hotspot

import (
	"runtime"
	"sync"
	"testing"

	"github.com/alibaba/sentinel-golang/core/base"
	"github.com/alibaba/sentinel-golang/util"
)

// Finding 2 (commit 580c61d "reserve throttling pass times with a CAS loop instead of add-then-subtract").
//
// The repair made flow.ThrottlingChecker reserve the pass time of a queued request in one atomic step,
// because with two steps "the next request was handed the same pass time again (two callers admitted for
// the same instant, spacing violated)". The hot-parameter throttling controller has the same two-step
// reservation and was left as it was: it first CASes the value's last pass time DOWN to the current time
// and only then stores the reserved pass time (lastPass+interval). A concurrent request for the same
// value that loads the last pass time in between computes its pass time from "now" instead of from the
// tail of the queue and is handed a pass time that was handed out already.
//
// The clock stands still in this test, so every admitted request must be handed its own pass time,
// 1 ms (duration/threshold) after the previous one.
func TestReviewHotspotThrottlingHandsOutTheSamePassTimeTwice(t *testing.T) {
	util.SetClock(util.NewMockClock())
	defer util.SetClock(util.NewRealClock())
	if runtime.GOMAXPROCS(0) < 4 {
		defer runtime.GOMAXPROCS(runtime.GOMAXPROCS(4))
	}

	const res = "review-hotspot-throttling"
	const goroutines, perGoroutine = 16, 2000
	for round := 0; round < 20; round++ {
		if _, err := LoadRulesOfResource(res, []*Rule{{
			ID:                "r",
			Resource:          res,
			MetricType:        QPS,
			ControlBehavior:   Throttling,
			ParamIndex:        0,
			Threshold:         1000,
			DurationInSec:     1,
			MaxQueueingTimeMs: 1 << 40,
		}}); err != nil {
			t.Fatalf("cannot load the rule: %v", err)
		}
		tcs := getTrafficControllersFor(res)
		if len(tcs) != 1 {
			t.Fatalf("expected one controller, got %d", len(tcs))
		}
		tc := tcs[0]

		waits := make([][]int64, goroutines)
		var wg sync.WaitGroup
		for g := 0; g < goroutines; g++ {
			wg.Add(1)
			go func(g int) {
				defer wg.Done()
				for i := 0; i < perGoroutine; i++ {
					r := tc.PerformChecking("value", 1)
					switch {
					case r == nil:
						waits[g] = append(waits[g], 0)
					case r.Status() == base.ResultStatusShouldWait:
						waits[g] = append(waits[g], int64(r.NanosToWait()/1e6))
					}
				}
			}(g)
		}
		wg.Wait()
		_ = ClearRulesOfResource(res)

		handedOut := make(map[int64]int)
		admitted := 0
		for _, ws := range waits {
			for _, w := range ws {
				handedOut[w]++
				admitted++
			}
		}
		twice, worstWait, worstCount, last := 0, int64(0), 0, int64(0)
		for w, c := range handedOut {
			if c > 1 {
				twice += c - 1
				if c > worstCount {
					worstWait, worstCount = w, c
				}
			}
			if w > last {
				last = w
			}
		}
		if twice > 0 {
			t.Fatalf("hot-parameter throttling, 1000 per second, clock standing still, round %d: %d requests for one value were "+
				"admitted, %d of them with a pass time that another request had been handed already (the pass time now+%d ms "+
				"was handed out %d times); the last pass time is now+%d ms, i.e. %d requests inside %d ms. "+
				"Every admitted request should get its own pass time, 1 ms after the one before it (last one: now+%d ms)",
				round, admitted, twice, worstWait, worstCount, last, admitted, last+1, admitted-1)
		}
	}
}
