// Audit C02 (round 4): no new violation of the property was found. These tests are the differential harnesses
// used during the audit; they PASS on the unmodified code. See AUDIT.md.
package api

import (
	"fmt"
	"math/rand"
	"sync"
	"sync/atomic"
	"testing"
	"time"

	"github.com/alibaba/sentinel-golang/core/flow"
	"github.com/alibaba/sentinel-golang/util"
)

type xClock struct {
	mu  sync.Mutex
	now uint64 // ms
}

func (c *xClock) Now() time.Time {
	c.mu.Lock()
	defer c.mu.Unlock()
	return time.Unix(0, int64(c.now)*int64(time.Millisecond))
}
func (c *xClock) Sleep(d time.Duration) {
	c.mu.Lock()
	c.now += uint64(d / time.Millisecond)
	c.mu.Unlock()
}
func (c *xClock) CurrentTimeMillis() uint64 {
	c.mu.Lock()
	defer c.mu.Unlock()
	return c.now
}
func (c *xClock) CurrentTimeNano() uint64 { return c.CurrentTimeMillis() * 1000000 }
func (c *xClock) adv(ms uint64) {
	c.mu.Lock()
	c.now += ms
	c.mu.Unlock()
}

func xReuse(i uint32) bool {
	switch i {
	case 0, 500, 1000, 2000, 2500, 5000, 10000:
		return true
	}
	return false
}

func TestAuditSequentialDifferential(t *testing.T) {
	if err := InitDefault(); err != nil {
		t.Fatal(err)
	}
	intervals := []uint32{0, 500, 1000, 2000, 2500, 5000, 10000, 1, 3, 300, 700, 1500, 3000, 7500, 20000, 12345, 2147483647, 2147483648, 4294967295}
	adm, rej := 0, 0
	defer func() { t.Logf("admitted %d rejected %d", adm, rej) }()
	for seed := int64(1); seed <= 600; seed++ {
		rnd := rand.New(rand.NewSource(seed))
		clk := &xClock{now: 1700000000000 + uint64(rnd.Intn(3))}
		util.SetClock(clk)
		flow.ClearRules()
		resA := fmt.Sprintf("xA-%d", seed)
		resB := fmt.Sprintf("xB-%d", seed)
		// events per resource, with sequence numbers
		type ev struct {
			t   uint64
			n   uint32
			seq int
		}
		events := map[string][]ev{}
		seq := 0
		type mr struct {
			r          *flow.Rule
			createdSeq int
		}
		var model []*mr
		mk := func() []*flow.Rule {
			n := 1 + rnd.Intn(3)
			var rs []*flow.Rule
			for i := 0; i < n; i++ {
				r := &flow.Rule{Resource: resA, TokenCalculateStrategy: flow.Direct, ControlBehavior: flow.Reject,
					Threshold:        float64(rnd.Intn(8)) + []float64{0, 0.5, 0.999}[rnd.Intn(3)],
					StatIntervalInMs: intervals[rnd.Intn(len(intervals))]}
				if rnd.Intn(3) == 0 {
					r.RelationStrategy = flow.AssociatedResource
					r.RefResource = resB
				}
				rs = append(rs, r)
			}
			return rs
		}
		rules := mk()
		if _, err := flow.LoadRules(rules); err != nil {
			t.Fatal(err)
		}
		for _, r := range rules {
			model = append(model, &mr{r: r, createdSeq: seq})
		}
		count := func(m *mr, now uint64) int64 {
			i := m.r.StatIntervalInMs
			res := resA
			if m.r.RelationStrategy == flow.AssociatedResource {
				res = resB
			}
			var bl uint64
			eff := uint64(i)
			minSeq := 0
			if xReuse(i) {
				bl = 500
				if i == 0 {
					eff = 1000
				}
			} else {
				minSeq = m.createdSeq
				if i%500 == 0 && i >= 500 && i <= 10000 {
					bl = 500
				} else {
					bl = uint64(i)
				}
			}
			cur := now - now%bl
			start := uint64(0)
			if cur+bl >= eff {
				start = cur + bl - eff
			}
			var c int64
			for _, e := range events[res] {
				if e.seq >= minSeq && e.t >= start {
					c += int64(e.n)
				}
			}
			return c
		}
		for step := 0; step < 400; step++ {
			switch rnd.Intn(10) {
			case 0:
				clk.adv(uint64(rnd.Intn(3000)))
			case 1:
				clk.adv(uint64(rnd.Intn(40000)))
			case 2, 3:
				clk.adv(uint64(rnd.Intn(200)))
			case 4:
				clk.adv(uint64(rnd.Int63n(6000000000)))
			}
			if rnd.Intn(40) == 0 {
				// modify thresholds, keep everything else
				var nrs []*flow.Rule
				for _, m := range model {
					c := *m.r
					c.Threshold = float64(rnd.Intn(8)) + []float64{0, 0.5, 0.999}[rnd.Intn(3)]
					nrs = append(nrs, &c)
				}
				if _, err := flow.LoadRules(nrs); err != nil {
					t.Fatal(err)
				}
				for i, m := range model {
					m.r = nrs[i]
				}
			}
			now := clk.CurrentTimeMillis()
			b := uint32(1)
			if rnd.Intn(3) == 0 {
				b = uint32(rnd.Intn(4))
			}
			if rnd.Intn(3) == 0 {
				// traffic on B, no rules there
				e, be := Entry(resB, WithBatchCount(b))
				if be != nil {
					t.Fatalf("seed %d: B blocked", seed)
				}
				seq++
				events[resB] = append(events[resB], ev{now, b, seq})
				e.Exit()
				continue
			}
			want := true
			var why string
			for _, m := range model {
				c := count(m, now)
				if float64(c)+float64(b) > m.r.Threshold {
					want = false
					why = fmt.Sprintf("rule %+v count %d b %d", *m.r, c, b)
					break
				}
			}
			e, be := Entry(resA, WithBatchCount(b))
			got := be == nil
			if got != want {
				var desc string
				for _, m := range model {
					desc += fmt.Sprintf("\n  rule %s count=%d", m.r.String(), count(m, now))
				}
				t.Fatalf("seed %d step %d now %d: got admitted=%v want %v (%s) b=%d%s", seed, step, now, got, want, why, b, desc)
			}
			if got {
				adm++
			} else {
				rej++
			}
			if got {
				seq++
				events[resA] = append(events[resA], ev{now, b, seq})
				e.Exit()
			}
		}
	}
}

func TestAuditReloadDifferential(t *testing.T) {
	if err := InitDefault(); err != nil {
		t.Fatal(err)
	}
	intervals := []uint32{0, 500, 1000, 2000, 10000, 300, 700, 1500, 20000}
	adm, rej := 0, 0
	defer func() { t.Logf("admitted %d rejected %d", adm, rej) }()
	for seed := int64(1); seed <= 600; seed++ {
		rnd := rand.New(rand.NewSource(seed))
		clk := &xClock{now: 1700000000000 + uint64(rnd.Intn(100000))}
		util.SetClock(clk)
		flow.ClearRules()
		names := []string{fmt.Sprintf("yA-%d", seed), fmt.Sprintf("yB-%d", seed), fmt.Sprintf("yC-%d", seed)}
		type ev struct {
			t   uint64
			n   uint32
			seq int
		}
		events := map[string][]ev{}
		seq := 0
		type key struct {
			res, ref string
			rel      flow.RelationStrategy
			iv       uint32
		}
		type mr struct {
			r          *flow.Rule
			createdSeq int
		}
		model := map[string][]*mr{}
		mkRes := func(res string) []*flow.Rule {
			n := rnd.Intn(6)
			var rs []*flow.Rule
			used := map[key]bool{}
			for i := 0; i < n; i++ {
				r := &flow.Rule{Resource: res, TokenCalculateStrategy: flow.Direct, ControlBehavior: flow.Reject,
					Threshold:        float64(rnd.Intn(8)) + []float64{0, 0.5}[rnd.Intn(2)],
					StatIntervalInMs: intervals[rnd.Intn(len(intervals))]}
				if rnd.Intn(3) == 0 {
					r.RelationStrategy = flow.AssociatedResource
					r.RefResource = names[rnd.Intn(3)]
				}
				if rnd.Intn(2) == 0 {
					r.ID = fmt.Sprintf("id%d", rnd.Intn(3))
				}
				k := key{r.Resource, r.RefResource, r.RelationStrategy, r.StatIntervalInMs}
				if used[k] {
					continue
				}
				used[k] = true
				rs = append(rs, r)
			}
			return rs
		}
		apply := func(res string, rs []*flow.Rule) {
			old := model[res]
			var nm []*mr
			for _, r := range rs {
				k := key{r.Resource, r.RefResource, r.RelationStrategy, r.StatIntervalInMs}
				m := &mr{r: r, createdSeq: seq}
				for _, o := range old {
					ok := key{o.r.Resource, o.r.RefResource, o.r.RelationStrategy, o.r.StatIntervalInMs}
					if ok == k {
						m.createdSeq = o.createdSeq
					}
				}
				nm = append(nm, m)
			}
			model[res] = nm
		}
		count := func(m *mr, now uint64) int64 {
			i := m.r.StatIntervalInMs
			res := m.r.Resource
			if m.r.RelationStrategy == flow.AssociatedResource {
				res = m.r.RefResource
			}
			var bl uint64
			eff := uint64(i)
			minSeq := 0
			if xReuse(i) {
				bl = 500
				if i == 0 {
					eff = 1000
				}
			} else {
				minSeq = m.createdSeq
				if i%500 == 0 && i >= 500 && i <= 10000 {
					bl = 500
				} else {
					bl = uint64(i)
				}
			}
			cur := now - now%bl
			start := uint64(0)
			if cur+bl >= eff {
				start = cur + bl - eff
			}
			var c int64
			for _, e := range events[res] {
				if e.seq > minSeq && e.t >= start {
					c += int64(e.n)
				}
			}
			return c
		}
		for step := 0; step < 300; step++ {
			switch rnd.Intn(10) {
			case 0:
				clk.adv(uint64(rnd.Intn(3000)))
			case 1:
				clk.adv(uint64(rnd.Intn(40000)))
			case 2, 3:
				clk.adv(uint64(rnd.Intn(200)))
			}
			if rnd.Intn(15) == 0 {
				switch rnd.Intn(4) {
				case 0, 1:
					var all []*flow.Rule
					per := map[string][]*flow.Rule{}
					for _, n := range names {
						per[n] = mkRes(n)
					}
					// interleave
					for i := 0; i < 6; i++ {
						for _, n := range names {
							if i < len(per[n]) {
								all = append(all, per[n][i])
							}
						}
					}
					if _, err := flow.LoadRules(all); err != nil {
						t.Fatal(err)
					}
					for _, n := range names {
						apply(n, per[n])
					}
				case 2:
					n := names[rnd.Intn(3)]
					rs := mkRes(n)
					if _, err := flow.LoadRulesOfResource(n, rs); err != nil {
						t.Fatal(err)
					}
					apply(n, rs)
				case 3:
					n := names[rnd.Intn(3)]
					flow.ClearRulesOfResource(n)
					apply(n, nil)
				}
			}
			now := clk.CurrentTimeMillis()
			b := uint32(1)
			if rnd.Intn(3) == 0 {
				b = uint32(rnd.Intn(4))
			}
			res := names[rnd.Intn(3)]
			want := true
			var why string
			for _, m := range model[res] {
				c := count(m, now)
				if float64(c)+float64(b) > m.r.Threshold {
					want = false
					why = fmt.Sprintf("rule %+v count %d b %d", *m.r, c, b)
					break
				}
			}
			e, be := Entry(res, WithBatchCount(b))
			got := be == nil
			if got != want {
				var desc string
				for _, m := range model[res] {
					desc += fmt.Sprintf("\n  rule %s count=%d", m.r.String(), count(m, now))
				}
				t.Fatalf("seed %d step %d now %d res %s: got admitted=%v want %v (%s) b=%d%s", seed, step, now, res, got, want, why, b, desc)
			}
			if got {
				adm++
				seq++
				events[res] = append(events[res], ev{now, b, seq})
				e.Exit()
			} else {
				rej++
			}
		}
	}
}

func TestAuditConcurrencyBound(t *testing.T) {
	if err := InitDefault(); err != nil {
		t.Fatal(err)
	}
	const k = 8
	for ci, iv := range []uint32{0, 500, 2000, 10000, 1, 3, 300, 1500} {
		for _, T := range []float64{0, 1, 5.5, 20} {
			rnd := rand.New(rand.NewSource(int64(ci)))
			clk := &xClock{now: 1700000000000}
			util.SetClock(clk)
			res := fmt.Sprintf("cc-%d-%v", iv, T)
			flow.LoadRules([]*flow.Rule{{Resource: res, Threshold: T, StatIntervalInMs: iv}})
			type tick struct {
				t uint64
				n int64
			}
			var ticks []tick
			for step := 0; step < 400; step++ {
				switch rnd.Intn(6) {
				case 0:
					clk.adv(uint64(rnd.Intn(700)))
				case 1:
					clk.adv(uint64(rnd.Intn(3)))
				case 2:
					clk.adv(uint64(rnd.Intn(12000)))
				}
				var wg sync.WaitGroup
				var got int64
				for g := 0; g < k; g++ {
					wg.Add(1)
					go func(g int) {
						defer wg.Done()
						for j := 0; j < 3; j++ {
							b := uint32(1 + (g+j)%3)
							e, be := Entry(res, WithBatchCount(b))
							if be == nil {
								atomic.AddInt64(&got, int64(b))
								e.Exit()
							}
						}
					}(g)
				}
				wg.Wait()
				ticks = append(ticks, tick{clk.CurrentTimeMillis(), got})
			}
			// check windows
			eff := uint64(iv)
			bl := uint64(500)
			if iv == 0 {
				eff = 1000
			}
			if !xReuse(iv) && !(iv%500 == 0 && iv >= 500 && iv <= 10000) {
				bl = uint64(iv)
			}
			for i, tk := range ticks {
				cur := tk.t - tk.t%bl
				start := cur + bl - eff
				var c int64
				for _, o := range ticks[:i+1] {
					if o.t >= start {
						c += o.n
					}
				}
				if float64(c) > T+float64((k-1)*3) {
					t.Fatalf("iv %d T %v: window ending at tick %d (t=%d) holds %d tokens > T+(k-1)*3", iv, T, i, tk.t, c)
				}
			}
		}
	}
}

func TestAuditMixedRuleKinds(t *testing.T) {
	if err := InitDefault(); err != nil {
		t.Fatal(err)
	}
	intervals := []uint32{0, 500, 2000, 10000, 300, 700, 1500, 20000}
	adm, rej, oth := 0, 0, 0
	defer func() { t.Logf("admitted %d rejected %d other %d", adm, rej, oth) }()
	for seed := int64(1); seed <= 600; seed++ {
		rnd := rand.New(rand.NewSource(seed))
		clk := &xClock{now: 1700000000000 + uint64(rnd.Intn(100000))}
		util.SetClock(clk)
		flow.ClearRules()
		res := fmt.Sprintf("mA-%d", seed)
		type ev struct {
			t uint64
			n uint32
		}
		var events []ev
		R := &flow.Rule{ID: "R", Resource: res, Threshold: float64(rnd.Intn(8)) + 0.5*float64(rnd.Intn(2)), StatIntervalInMs: intervals[rnd.Intn(len(intervals))]}
		var other *flow.Rule
		switch rnd.Intn(3) {
		case 0:
			other = &flow.Rule{ID: "O", Resource: res, ControlBehavior: flow.Throttling, Threshold: float64(1 + rnd.Intn(20)), MaxQueueingTimeMs: uint32(rnd.Intn(3000)), StatIntervalInMs: intervals[rnd.Intn(len(intervals))]}
		case 1:
			other = &flow.Rule{ID: "O", Resource: res, TokenCalculateStrategy: flow.WarmUp, ControlBehavior: flow.Reject, Threshold: float64(1 + rnd.Intn(20)), WarmUpPeriodSec: 3, WarmUpColdFactor: 3, StatIntervalInMs: intervals[rnd.Intn(len(intervals))]}
		case 2:
			other = &flow.Rule{ID: "O", Resource: res, TokenCalculateStrategy: flow.WarmUp, ControlBehavior: flow.Throttling, Threshold: float64(1 + rnd.Intn(20)), WarmUpPeriodSec: 3, WarmUpColdFactor: 3, MaxQueueingTimeMs: uint32(rnd.Intn(3000)), StatIntervalInMs: intervals[rnd.Intn(len(intervals))]}
		}
		rFirst := rnd.Intn(2) == 0
		rules := []*flow.Rule{other, R}
		if rFirst {
			rules = []*flow.Rule{R, other}
		}
		if _, err := flow.LoadRules(rules); err != nil {
			t.Fatal(err)
		}
		count := func(now uint64) int64 {
			i := R.StatIntervalInMs
			var bl uint64
			eff := uint64(i)
			if xReuse(i) {
				bl = 500
				if i == 0 {
					eff = 1000
				}
			} else if i%500 == 0 && i >= 500 && i <= 10000 {
				bl = 500
			} else {
				bl = uint64(i)
			}
			cur := now - now%bl
			start := cur + bl - eff
			var c int64
			for _, e := range events {
				if e.t >= start {
					c += int64(e.n)
				}
			}
			return c
		}
		for step := 0; step < 300; step++ {
			switch rnd.Intn(10) {
			case 0:
				clk.adv(uint64(rnd.Intn(3000)))
			case 1:
				clk.adv(uint64(rnd.Intn(40000)))
			case 2, 3:
				clk.adv(uint64(rnd.Intn(200)))
			}
			before := clk.CurrentTimeMillis()
			b := uint32(1 + rnd.Intn(2))
			e, be := Entry(res, WithBatchCount(b))
			after := clk.CurrentTimeMillis()
			checkT := before
			if !rFirst {
				checkT = after
			}
			c := count(checkT)
			rWould := float64(c)+float64(b) <= R.Threshold
			if be == nil {
				if !rWould {
					t.Fatalf("seed %d step %d: admitted although R %s holds %d at %d, b=%d (other %s, rFirst %v)", seed, step, R.String(), c, checkT, b, other.String(), rFirst)
				}
				adm++
				events = append(events, ev{after, b})
				e.Exit()
				continue
			}
			br, _ := be.TriggeredRule().(*flow.Rule)
			if br != nil && br.ID == "R" {
				if rWould {
					t.Fatalf("seed %d step %d: rejected by R %s although it holds %d at %d, b=%d (other %s, rFirst %v)", seed, step, R.String(), c, checkT, b, other.String(), rFirst)
				}
				rej++
			} else {
				if rFirst && !rWould {
					t.Fatalf("seed %d step %d: blocked by other though R first and full", seed, step)
				}
				oth++
			}
		}
	}
}
