package base

import (
	"testing"
)

// ---- recording slots used by the audit tests ----

type auditPassCheckSlot struct {
	order uint32
	calls int
	// ret selects what a passing slot returns: nil, a fresh pass result, or the context's result
	ret string
}

func (s *auditPassCheckSlot) Order() uint32 { return s.order }
func (s *auditPassCheckSlot) Check(ctx *EntryContext) *TokenResult {
	s.calls++
	switch s.ret {
	case "fresh":
		return NewTokenResultPass()
	case "ctx":
		return ctx.RuleCheckResult
	}
	return nil
}

type auditStatSlot struct {
	passed, blocked, completed int
	lastBlock                  *BlockError
}

func (s *auditStatSlot) Order() uint32                   { return 0 }
func (s *auditStatSlot) OnEntryPassed(ctx *EntryContext) { s.passed++ }
func (s *auditStatSlot) OnCompleted(ctx *EntryContext)   { s.completed++ }
func (s *auditStatSlot) OnEntryBlocked(ctx *EntryContext, b *BlockError) {
	s.blocked++
	s.lastBlock = b
}

type auditRule struct{ name string }

func (r *auditRule) String() string       { return r.name }
func (r *auditRule) ResourceName() string { return "audit-res" }

// Finding 1.
// A context whose RuleCheckResult is nil is a state the library itself provides for
// (NewEmptyEntryContext() returns one; EntryContext.IsBlocked, EntryContext.Reset, the blocked
// branch of SlotChain.Entry and the system / isolation / circuit breaker slots all test for it).
// With such a context a chain in which NO slot panics and every rule-check slot passes
// panics inside SlotChain.Entry itself (ctx.RuleCheckResult.ResetToPass() on the nil pointer):
// the panic is swallowed, Entry returns nil, and no statistic slot is told anything - neither
// the outcome nor, on Exit, the completion. The same context with a BLOCKING slot works.
func TestAudit_NilRuleCheckResult_PassingChainSkipsStatSlots(t *testing.T) {
	for _, ret := range []string{"nil", "fresh", "ctx"} {
		sc := NewSlotChain()
		chk := &auditPassCheckSlot{order: 1, ret: ret}
		st := &auditStatSlot{}
		sc.AddRuleCheckSlot(chk)
		sc.AddStatSlot(st)

		ctx := NewEmptyEntryContext() // RuleCheckResult == nil
		rw := NewResourceWrapper("audit-res", ResTypeCommon, Inbound)
		ctx.Resource = rw
		ctx.Input = &SentinelInput{BatchCount: 1}
		ctx.Data = map[interface{}]interface{}{}
		e := NewSentinelEntry(ctx, rw, sc)
		ctx.SetEntry(e)

		r := sc.Entry(ctx)
		if chk.calls != 1 {
			t.Fatalf("[%s] rule-check slot ran %d times, want 1", ret, chk.calls)
		}
		if r == nil || st.passed != 1 || st.blocked != 0 {
			t.Errorf("[check slot returns %s] no slot panicked and every rule-check slot passed, but SlotChain.Entry returned %v "+
				"(nil = internal panic, ctx.Err()=%v) and the statistic slot saw passed=%d blocked=%d; "+
				"the property demands that, absent panics, every statistic slot is told the final outcome exactly once",
				ret, r, ctx.Err(), st.passed, st.blocked)
		}
		e.Exit()
		if st.completed != 1 {
			t.Errorf("[check slot returns %s] the entry was admitted and exited, but the statistic slot was told of completion %d times; "+
				"the property demands completion is told exactly when the entry had passed", ret, st.completed)
		}
	}

	// control: the very same kind of context, blocking slot -> handled (shows nil is a provided-for state)
	sc := NewSlotChain()
	st := &auditStatSlot{}
	sc.AddRuleCheckSlot(&auditBlockOnce{})
	sc.AddStatSlot(st)
	ctx := NewEmptyEntryContext()
	rw := NewResourceWrapper("audit-res", ResTypeCommon, Inbound)
	ctx.Resource = rw
	ctx.Input = &SentinelInput{BatchCount: 1}
	ctx.SetEntry(NewSentinelEntry(ctx, rw, sc))
	if r := sc.Entry(ctx); r == nil || !r.IsBlocked() || st.blocked != 1 {
		t.Fatalf("control failed: blocked path with nil RuleCheckResult: r=%v blocked=%d", r, st.blocked)
	}
}

type auditBlockOnce struct{}

func (s *auditBlockOnce) Order() uint32 { return 0 }
func (s *auditBlockOnce) Check(ctx *EntryContext) *TokenResult {
	return NewTokenResultBlockedWithMessage(BlockTypeFlow, "control")
}

// Finding 2.
// A rule-check slot that owns one TokenResult and re-arms it for every request it blocks
// (the chain now leaves such an object alone, so this is a supported way of writing a slot).
// Request 1 is blocked "with cause" (rule + snapshot), request 2 is blocked by the same slot
// for another reason with ResetToBlockedWithMessage / ResetToBlocked. The block error of
// request 2 still carries the rule and the snapshot value (and, for ResetToBlocked, the message)
// of request 1: ResetToBlockedWith -> BlockError.ResetBlockError only applies the options it is
// given and never clears the other fields.
type auditRearmSlot struct {
	own  *TokenResult
	step int
	rule SentinelRule
}

func (s *auditRearmSlot) Order() uint32 { return 0 }
func (s *auditRearmSlot) Check(ctx *EntryContext) *TokenResult {
	if s.own == nil {
		s.own = NewTokenResultPass()
	}
	s.step++
	switch s.step {
	case 1:
		s.own.ResetToBlockedWithCause(BlockTypeFlow, "first: quota of rule r1 exceeded", s.rule, 42)
	case 2:
		s.own.ResetToBlockedWithMessage(BlockTypeIsolation, "second: no rule involved")
	default:
		s.own.ResetToBlocked(BlockTypeSystemFlow)
	}
	return s.own
}

func TestAudit_RearmedBlockResultKeepsCauseOfEarlierEntry(t *testing.T) {
	sc := NewSlotChain()
	slot := &auditRearmSlot{rule: &auditRule{name: "r1"}}
	st := &auditStatSlot{}
	sc.AddRuleCheckSlot(slot)
	sc.AddStatSlot(st)

	run := func() *BlockError {
		ctx := sc.GetPooledContext()
		rw := NewResourceWrapper("audit-res", ResTypeCommon, Inbound)
		ctx.Resource = rw
		e := NewSentinelEntry(ctx, rw, sc)
		ctx.SetEntry(e)
		r := sc.Entry(ctx)
		if r == nil || !r.IsBlocked() {
			t.Fatalf("expected a blocked result, got %v", r)
		}
		b := NewBlockErrorFromDeepCopy(r.BlockError()) // what api.Entry hands to its caller
		e.Exit()
		return b
	}

	b1 := run()
	if b1.BlockType() != BlockTypeFlow || b1.TriggeredRule() == nil || b1.TriggeredValue() != 42 {
		t.Fatalf("first block error wrong: %v rule=%v val=%v", b1, b1.TriggeredRule(), b1.TriggeredValue())
	}
	b2 := run()
	if b2.BlockType() != BlockTypeIsolation || b2.BlockMsg() != "second: no rule involved" {
		t.Fatalf("second block error wrong: %v", b2)
	}
	if b2.TriggeredRule() != nil || b2.TriggeredValue() != nil {
		t.Errorf("the slot blocked the second entry with (type=Isolation, msg=%q) only, but the block error returned for it "+
			"carries rule=%v and snapshot=%v of the FIRST entry's block; the property demands that the slot that blocks "+
			"(this entry) determines the block error returned to the caller", b2.BlockMsg(), b2.TriggeredRule(), b2.TriggeredValue())
	}
	b3 := run()
	if b3.BlockType() != BlockTypeSystemFlow {
		t.Fatalf("third block error wrong type: %v", b3)
	}
	if b3.BlockMsg() != "" || b3.TriggeredRule() != nil || b3.TriggeredValue() != nil {
		t.Errorf("the slot blocked the third entry with ResetToBlocked(SystemFlow) only, but the block error returned for it "+
			"is %q with rule=%v snapshot=%v left over from earlier entries; the property demands that the slot that blocks "+
			"(this entry) determines the block error returned to the caller", b3.Error(), b3.TriggeredRule(), b3.TriggeredValue())
	}
}
