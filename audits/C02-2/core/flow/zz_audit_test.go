package flow

import (
	"testing"
	"time"

	"github.com/alibaba/sentinel-golang/core/base"
	"github.com/alibaba/sentinel-golang/core/stat"
	"github.com/alibaba/sentinel-golang/util"
)

// auditClock is a clock that only moves when the test moves it.
type auditClock struct{ ms uint64 }

func (c *auditClock) Now() time.Time            { return time.Unix(0, int64(c.ms)*int64(time.Millisecond)) }
func (c *auditClock) Sleep(d time.Duration)     { c.ms += uint64(d / time.Millisecond) }
func (c *auditClock) CurrentTimeMillis() uint64 { return c.ms }
func (c *auditClock) CurrentTimeNano() uint64   { return c.ms * uint64(time.Millisecond) }

// auditChain holds the slots of the default chain (api.BuildDefaultSlotChain) that take part in QPS flow control.
func auditChain() *base.SlotChain {
	sc := base.NewSlotChain()
	sc.AddStatPrepareSlot(stat.DefaultResourceNodePrepareSlot)
	sc.AddRuleCheckSlot(DefaultSlot)
	sc.AddStatSlot(stat.DefaultSlot)
	sc.AddStatSlot(DefaultStandaloneStatSlot)
	return sc
}

// auditEntry does what api.Entry does and reports whether the request was admitted.
func auditEntry(sc *base.SlotChain, res string, batch uint32) bool {
	rw := base.NewResourceWrapper(res, base.ResTypeCommon, base.Outbound)
	ctx := sc.GetPooledContext()
	ctx.Resource = rw
	ctx.Input.BatchCount = batch
	e := base.NewSentinelEntry(ctx, rw, sc)
	ctx.SetEntry(e)
	r := sc.Entry(ctx)
	blocked := r != nil && r.IsBlocked()
	e.Exit()
	return !blocked
}

// A rule whose StatIntervalInMs forces a statistic of its own starts with an empty window when it is
// loaded, although the resource has already admitted tokens in the current aligned window of that
// interval. A rule whose interval can reuse the global statistic does count those tokens.
func TestAuditStandaloneWindowForgetsTokensAdmittedBeforeTheRuleWasLoaded(t *testing.T) {
	clk := &auditClock{ms: 1_700_000_001_100} // current 500 ms bucket [..001000, ..001500): every window that ends with it contains this instant
	util.SetClock(clk)
	defer util.SetClock(util.NewRealClock())
	defer func() { _, _ = LoadRules(nil) }()

	const threshold = 5
	admittedAfterSwitch := func(res string, newInterval uint32) (before, after int) {
		sc := auditChain()
		if _, err := LoadRules([]*Rule{{Resource: res, Threshold: threshold, StatIntervalInMs: 1000}}); err != nil {
			t.Fatal(err)
		}
		for i := 0; i < 8; i++ {
			if auditEntry(sc, res, 1) {
				before++
			}
		}
		// same millisecond: the operator widens the statistic interval, the threshold stays
		if _, err := LoadRules([]*Rule{{Resource: res, Threshold: threshold, StatIntervalInMs: newInterval}}); err != nil {
			t.Fatal(err)
		}
		for i := 0; i < 8; i++ {
			if auditEntry(sc, res, 1) {
				after++
			}
		}
		return
	}

	// control: 2000 ms can reuse the global statistic (10000 % 2000 == 0, 2000 % 500 == 0)
	b2, a2 := admittedAfterSwitch("audit-reuse", 2000)
	if b2 != threshold || a2 != 0 {
		t.Fatalf("control (interval 2000, global statistic reused): admitted %d before and %d after the reload, want %d and 0", b2, a2, threshold)
	}
	// 3000 ms cannot (10000 % 3000 != 0): the rule gets a statistic of its own
	b3, a3 := admittedAfterSwitch("audit-standalone", 3000)
	if b3 != threshold {
		t.Fatalf("before the reload %d tokens were admitted, want %d", b3, threshold)
	}
	if a3 != 0 {
		t.Errorf("rule {Threshold %d, StatIntervalInMs 3000} was loaded while the current aligned 3000 ms window of the resource "+
			"already held %d admitted tokens; %d further tokens were admitted in the same millisecond, %d in the window. "+
			"The property demands that a request is admitted only if the tokens already admitted in the current window plus its batch "+
			"do not exceed the threshold, i.e. 0 further tokens (as happens with StatIntervalInMs 2000, where the global statistic is reused)",
			threshold, b3, a3, b3+a3)
	}
}
