package outlier

import (
	"strings"
	"sync"
	"sync/atomic"
	"testing"
	"time"

	"github.com/alibaba/sentinel-golang/core/base"
	"github.com/alibaba/sentinel-golang/core/circuitbreaker"
	"github.com/alibaba/sentinel-golang/logging"
)

// reviewGateLogger holds the goroutine that consumes retryerCh inside scheduleNodes of a blocker resource
// (scheduleNodes logs "Reconnecting..." for every node it arms), so that the test can decide what happens
// while a task is waiting in the queue.
type reviewGateLogger struct {
	logging.Logger
	node    string
	reached chan struct{}
	release chan struct{}
	once    sync.Once
}

func (l *reviewGateLogger) Info(msg string, keysAndValues ...interface{}) {
	if strings.Contains(msg, "Reconnecting") && len(keysAndValues) >= 2 && keysAndValues[1] == interface{}(l.node) {
		l.once.Do(func() {
			close(l.reached)
			<-l.release
		})
	}
	l.Logger.Info(msg, keysAndValues...)
}

// reviewBreaker records what the retryer tells the node breaker of the rule in force.
type reviewBreaker struct {
	completions int32
}

func (b *reviewBreaker) BoundRule() *circuitbreaker.Rule     { return nil }
func (b *reviewBreaker) BoundStat() interface{}              { return nil }
func (b *reviewBreaker) TryPass(_ *base.EntryContext) bool   { return false }
func (b *reviewBreaker) CurrentState() circuitbreaker.State  { return circuitbreaker.Open }
func (b *reviewBreaker) OnRequestComplete(_ uint64, _ error) { atomic.AddInt32(&b.completions, 1) }

func reviewBreakerRule(res string) *circuitbreaker.Rule {
	return &circuitbreaker.Rule{
		Resource:         res,
		Strategy:         circuitbreaker.ErrorCount,
		RetryTimeoutMs:   3000,
		MinRequestAmount: 1,
		StatIntervalMs:   1000,
		Threshold:        1,
	}
}

// Finding 1 (48ccf8d). A request that finds a node ejected while a rule with ACTIVE recovery is in force queues
// a reconnection task (Slot.Check: retryerCh <- task{outlierNodes, resource}). The rule is replaced by one with
// PASSIVE recovery before the consumer goroutine gets to the task. 48ccf8d promises that after such a
// replacement no reconnection attempt is made any more; but the consumer does not look at EnableActiveRecovery
// of the rule in force and takes the epoch when it arms the timer, i.e. AFTER the load has voided the schedule:
// the loop starts under the passive rule and nothing ever voids it.
func TestReviewRetryTaskQueuedBeforePassiveRuleIsLoaded(t *testing.T) {
	const (
		res         = "zz-review-retry-res"
		node        = "zz-review-node:80"
		blockerRes  = "zz-review-retry-blocker"
		blockerNode = "zz-review-blocker-node:80"
	)
	var activeCalls, passiveCalls int32

	active := &Rule{
		Rule:                 reviewBreakerRule(res),
		EnableActiveRecovery: true,
		MaxEjectionPercent:   1,
		RecoveryIntervalMs:   10,
		MaxRecoveryAttempts:  2,
		RecoveryCheckFunc:    func(string) bool { atomic.AddInt32(&activeCalls, 1); return false },
	}
	// (a passive rule usually has no check function; then the retryer dials the node itself - isPortOpen. The
	// function is here to see the attempts.)
	passive := &Rule{
		Rule:                 reviewBreakerRule(res),
		EnableActiveRecovery: false,
		MaxEjectionPercent:   1,
		RecoveryIntervalMs:   10,
		MaxRecoveryAttempts:  2,
		RecoveryCheckFunc:    func(string) bool { atomic.AddInt32(&passiveCalls, 1); return true },
	}
	blocker := &Rule{
		Rule:                 reviewBreakerRule(blockerRes),
		EnableActiveRecovery: true,
		MaxEjectionPercent:   1,
		RecoveryIntervalMs:   10,
		MaxRecoveryAttempts:  2,
		RecoveryCheckFunc:    func(string) bool { return true },
	}

	gate := &reviewGateLogger{
		Logger:  logging.GetGlobalLogger(),
		node:    blockerNode,
		reached: make(chan struct{}),
		release: make(chan struct{}),
	}
	if err := logging.ResetGlobalLogger(gate); err != nil {
		t.Fatal(err)
	}
	released := false
	defer func() {
		if !released {
			close(gate.release)
		}
		_ = logging.ResetGlobalLogger(gate.Logger)
		_ = ClearRuleOfResource(res)
		_ = ClearRuleOfResource(blockerRes)
	}()

	if _, err := LoadRuleOfResource(blockerRes, blocker); err != nil {
		t.Fatal(err)
	}
	if _, err := LoadRuleOfResource(res, active); err != nil {
		t.Fatal(err)
	}

	// the consumer is busy with an earlier task
	retryerCh <- task{[]string{blockerNode}, blockerRes}
	select {
	case <-gate.reached:
	case <-time.After(5 * time.Second):
		t.Fatal("the consumer of retryerCh did not take the blocker task")
	}
	// what Slot.Check does for a request that finds the node ejected while the ACTIVE rule is in force
	retryerCh <- task{[]string{node}, res}

	// the rule is replaced by one with passive recovery; the task is still in the queue
	if _, err := LoadRuleOfResource(res, passive); err != nil {
		t.Fatal(err)
	}
	cb := &reviewBreaker{}
	updateMux.Lock()
	if nodeBreakers[res] == nil {
		nodeBreakers[res] = make(map[string]circuitbreaker.CircuitBreaker)
	}
	nodeBreakers[res][node] = cb
	updateMux.Unlock()

	released = true
	close(gate.release)

	deadline := time.Now().Add(1 * time.Second)
	for time.Now().Before(deadline) {
		if atomic.LoadInt32(&passiveCalls) > 0 && atomic.LoadInt32(&cb.completions) > 0 {
			break
		}
		time.Sleep(10 * time.Millisecond)
	}
	if a := atomic.LoadInt32(&activeCalls); a != 0 {
		t.Errorf("the check function of the replaced (active) rule was called %d times after the rule was replaced", a)
	}
	p, c := atomic.LoadInt32(&passiveCalls), atomic.LoadInt32(&cb.completions)
	if p != 0 || c != 0 {
		t.Errorf("the rule in force has PASSIVE recovery (EnableActiveRecovery=false), loaded while the reconnection task of the "+
			"replaced active rule was waiting in retryerCh: the retryer made %d reconnection attempt(s) under it and reported %d "+
			"successful completion(s) to the node breaker of the rule in force without any request having completed; "+
			"want 0 and 0 (48ccf8d: reconnection attempts of a replaced rule are void)", p, c)
	}
}
