package hotspot

import (
	"fmt"
	"math"
	"testing"
	"time"

	"github.com/alibaba/sentinel-golang/core/base"
	"github.com/alibaba/sentinel-golang/util"
)

// auditCheck runs the hotspot rule-check slot for one request (batch 1) on res.
func auditCheck(res string, args []interface{}, attachments map[interface{}]interface{}) *base.TokenResult {
	ctx := &base.EntryContext{
		Resource:        base.NewResourceWrapper(res, base.ResTypeCommon, base.Inbound),
		Input:           &base.SentinelInput{BatchCount: 1, Args: args, Attachments: attachments},
		RuleCheckResult: base.NewTokenResultPass(),
	}
	return DefaultSlot.Check(ctx)
}

func auditBlocked(r *base.TokenResult) bool {
	return r != nil && r.Status() == base.ResultStatusBlocked
}

func auditMockClock(t *testing.T) *util.MockClock {
	old := util.CurrentClock()
	clk := util.NewMockClock()
	util.SetClock(clk)
	t.Cleanup(func() {
		util.SetClock(old)
		_ = ClearRules()
	})
	_ = ClearRules()
	return clk
}

// Finding 1: a rule that selects its argument by attachment key (ParamKey) silently falls back to
// the positional argument Args[ParamIndex] (ParamIndex is 0 when it is not set) for a request that
// does not carry the attachment. Such a request has no selected argument and must never be limited.
func TestAuditKeyRuleLimitsRequestsWithoutTheAttachment(t *testing.T) {
	auditMockClock(t)
	const res = "audit-key-rule"
	ok, err := LoadRules([]*Rule{{
		Resource:        res,
		MetricType:      QPS,
		ControlBehavior: Reject,
		ParamKey:        "tenant", // the selected argument is the attachment "tenant"; ParamIndex is left unset
		Threshold:       1,
		DurationInSec:   1,
	}})
	if !ok || err != nil {
		t.Fatalf("rule not loaded: %v %v", ok, err)
	}
	if got := GetRulesOfResource(res); len(got) != 1 {
		t.Fatalf("the rule (ParamKey only) was not accepted as valid: %v", got)
	}

	// Sanity: the attachment is metered (threshold 1, burst 0: the second request in the same ms is rejected).
	if r := auditCheck(res, nil, map[interface{}]interface{}{"tenant": "alice"}); auditBlocked(r) {
		t.Fatalf("first request of tenant alice must pass")
	}
	if r := auditCheck(res, nil, map[interface{}]interface{}{"tenant": "alice"}); !auditBlocked(r) {
		t.Fatalf("second request of tenant alice in the same ms must be rejected (threshold 1)")
	}

	// Requests WITHOUT the attachment "tenant" (they only carry an unrelated positional argument).
	passed, blocked := 0, 0
	for i := 0; i < 5; i++ {
		if r := auditCheck(res, []interface{}{"SELECT 1"}, nil); auditBlocked(r) {
			blocked++
		} else {
			passed++
		}
	}
	if blocked != 0 {
		t.Errorf("rule selects the attachment key %q; 5 requests WITHOUT that attachment (Args=[\"SELECT 1\"], no attachments): %d passed, %d REJECTED by the hotspot rule. "+
			"The property demands: requests without the selected argument are never limited (the controller fell back to Args[0]).",
			"tenant", passed, blocked)
	}

	// The fallback also couples the attachment value and an unrelated positional value: tenant "alice"
	// is out of tokens, and a request without attachment whose first positional argument is the
	// string "alice" is rejected on alice's bucket.
	if r := auditCheck(res, []interface{}{"alice"}, map[interface{}]interface{}{"other": 1}); auditBlocked(r) {
		t.Errorf("request without attachment %q but with Args[0]=\"alice\" was rejected on the bucket of tenant alice; it has no selected argument and must not be limited", "tenant")
	}
}

// Finding 2: reloading a rule (a FRESH rule object) with a lower threshold / burst keeps the token
// buckets that were filled under the old numbers ("statistic reuse"): until the running window
// of a value ends, the value is admitted against the OLD threshold+burst.
func TestAuditReloadWithLowerThresholdKeepsOldTokens(t *testing.T) {
	clk := auditMockClock(t)
	const res = "audit-reload"
	mk := func(threshold, burst int64) *Rule {
		return &Rule{
			ID:              "r1",
			Resource:        res,
			MetricType:      QPS,
			ControlBehavior: Reject,
			ParamIndex:      0,
			Threshold:       threshold,
			BurstCount:      burst,
			DurationInSec:   10,
		}
	}
	if _, err := LoadRules([]*Rule{mk(100, 900)}); err != nil {
		t.Fatal(err)
	}
	// value "u" is seen for the first time: bucket = 1000 tokens, one is taken
	if r := auditCheck(res, []interface{}{"u"}, nil); auditBlocked(r) {
		t.Fatalf("first request must pass")
	}
	clk.Sleep(5 * time.Millisecond)

	// The operator lowers the limit to 2 per 10 s, no burst, with a fresh rule object.
	if ok, err := LoadRules([]*Rule{mk(2, 0)}); !ok || err != nil {
		t.Fatalf("reload: %v %v", ok, err)
	}
	if got := GetRulesOfResource(res); len(got) != 1 || got[0].Threshold != 2 || got[0].BurstCount != 0 {
		t.Fatalf("new rule not in force: %v", got)
	}

	// From now on the rule in force is threshold 2, burst 0, duration 10 s.
	admitted := 0
	for i := 0; i < 500; i++ {
		clk.Sleep(10 * time.Millisecond) // 500 requests inside 5 s, i.e. inside ONE duration
		if r := auditCheck(res, []interface{}{"u"}, nil); !auditBlocked(r) {
			admitted++
		}
	}
	limit := 2 * (2 + 0) // never more than twice (threshold+burst) inside any single duration
	if admitted > limit {
		t.Errorf("rule in force: threshold 2, burst 0, duration 10 s (loaded as a fresh object over threshold 100, burst 900). "+
			"After the reload value \"u\" was admitted %d times inside 5 s; the property allows at most 2*(threshold+burst) = %d inside any single duration "+
			"(the bucket filled under the replaced rule is kept and spent against the new rule).", admitted, limit)
	}
}

type auditReq struct {
	User string
	Tags []string
}

// Finding 3: the selected argument is used as a raw Go map key. A struct argument with a slice (or
// map / func) field is not hashable: the check panics inside the slot; the slot chain recovers the
// panic and passes the request, so the value is never metered (and no later rule-check slot runs).
func TestAuditUnhashableStructArgumentIsNeverMetered(t *testing.T) {
	auditMockClock(t)
	const res = "audit-struct"
	if _, err := LoadRules([]*Rule{{
		Resource:        res,
		MetricType:      QPS,
		ControlBehavior: Reject,
		ParamIndex:      0,
		Threshold:       1,
		DurationInSec:   1,
	}}); err != nil {
		t.Fatal(err)
	}
	// sanity: a hashable struct value is metered
	type key struct{ User string }
	if r := auditCheck(res, []interface{}{key{"a"}}, nil); auditBlocked(r) {
		t.Fatalf("first request must pass")
	}
	if r := auditCheck(res, []interface{}{key{"a"}}, nil); !auditBlocked(r) {
		t.Fatalf("hashable struct: second request in the same ms must be rejected")
	}

	sc := base.NewSlotChain()
	sc.AddRuleCheckSlot(DefaultSlot)
	admitted, panics := 0, 0
	for i := 0; i < 5; i++ {
		ctx := sc.GetPooledContext()
		ctx.Resource = base.NewResourceWrapper(res, base.ResTypeCommon, base.Inbound)
		ctx.Input.BatchCount = 1
		ctx.Input.Args = append(ctx.Input.Args[:0], auditReq{User: "a"})
		r := sc.Entry(ctx)
		if r == nil || !r.IsBlocked() {
			admitted++
		}
		if ctx.Err() != nil {
			panics++
		}
		sc.RefurbishContext(ctx)
	}
	if admitted > 1 {
		t.Errorf("rule: threshold 1, burst 0, duration 1 s on argument 0; 5 requests in the same ms with the identical struct value %+v: %d admitted (%d of them through a recovered panic %q). "+
			"The property demands that every value of a struct argument is metered: at most threshold+burst = 1 admitted at first sight.",
			auditReq{User: "a"}, admitted, panics, fmt.Sprint("hash of unhashable type hotspot.auditReq"))
	}

	// Same cause, float argument: NaN never finds its own entry again, so every request is a "first" one,
	// and every such request pushes a new entry into the LRU lists, evicting the counters of other values
	// although only two values (NaN and 1.5) are live and the capacity is 4.
	const res2 = "audit-nan"
	if _, err := LoadRulesOfResource(res2, []*Rule{{
		Resource:          res2,
		MetricType:        QPS,
		ControlBehavior:   Reject,
		ParamIndex:        0,
		Threshold:         1,
		DurationInSec:     1,
		ParamsMaxCapacity: 4,
	}}); err != nil {
		t.Fatal(err)
	}
	if r := auditCheck(res2, []interface{}{1.5}, nil); auditBlocked(r) {
		t.Fatalf("first request of 1.5 must pass")
	}
	if r := auditCheck(res2, []interface{}{1.5}, nil); !auditBlocked(r) {
		t.Fatalf("second request of 1.5 must be rejected")
	}
	nanAdmitted := 0
	for i := 0; i < 4; i++ {
		if r := auditCheck(res2, []interface{}{math.NaN()}, nil); !auditBlocked(r) {
			nanAdmitted++
		}
	}
	if r := auditCheck(res2, []interface{}{1.5}, nil); !auditBlocked(r) || nanAdmitted > 1 {
		t.Errorf("capacity 4, live values {NaN, 1.5}, threshold 1, all in the same ms: NaN admitted %d times (allowed: 1); "+
			"value 1.5, rejected before the NaN traffic, admitted after it: %v. The property demands per-value metering of float arguments and that "+
			"traffic on one value never changes the decision for another while the capacity is not exceeded.", nanAdmitted, !auditBlocked(r))
	}
}
