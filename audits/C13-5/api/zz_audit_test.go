package api

import (
	"fmt"
	"math"
	"strings"
	"testing"

	"github.com/alibaba/sentinel-golang/core/base"
	"github.com/alibaba/sentinel-golang/core/circuitbreaker"
	"github.com/alibaba/sentinel-golang/core/config"
	"github.com/alibaba/sentinel-golang/core/flow"
	"github.com/alibaba/sentinel-golang/core/outlier"
	"github.com/alibaba/sentinel-golang/core/system"
	"github.com/alibaba/sentinel-golang/logging"
)

func auditInit(t *testing.T) {
	t.Helper()
	conf := config.NewDefaultConfig()
	conf.Sentinel.Log.Logger = logging.NewConsoleLogger()
	conf.Sentinel.Log.Metric.FlushIntervalSec = 0
	conf.Sentinel.Stat.System.CollectIntervalMs = 0
	conf.Sentinel.Stat.System.CollectMemoryIntervalMs = 0
	conf.Sentinel.Stat.System.CollectCpuIntervalMs = 0
	conf.Sentinel.Stat.System.CollectLoadIntervalMs = 0
	if err := InitWithConfig(conf); err != nil {
		t.Fatalf("init: %v", err)
	}
	logging.ResetGlobalLoggerLevel(logging.ErrorLevel)
	clear := func() {
		_ = flow.ClearRules()
		_ = circuitbreaker.ClearRules()
		_ = system.ClearRules()
		_ = outlier.ClearRules()
	}
	clear()
	t.Cleanup(clear)
}

// auditAdmitted sends n requests (each one completed at once) and returns how many were admitted.
func auditAdmitted(res string, n int) int {
	admitted := 0
	for i := 0; i < n; i++ {
		e, b := Entry(res)
		if b == nil {
			admitted++
			e.Exit()
		}
	}
	return admitted
}

// Finding 1. A flow rule whose StatIntervalInMs is 2^31 ms (24.8 days) or more passes flow.IsValidRule, but
// generateStatFor doubles the interval in 32 bits (NewBucketLeapArray(2*sampleCount, 2*intervalInMs)):
//   - exactly 2^31: the doubled interval is 0, the leap array divides by it, the panic is caught in onRuleUpdate and
//     the WHOLE load is abandoned: the rules loaded before stay in force and are reported, none of the (valid) rules
//     of the load is in force;
//   - above 2^31: the doubled interval wraps to less than the interval, the statistic is refused and the valid rule
//     is dropped: it limits nothing and is not reported.
func TestAuditFlowRuleWithStatIntervalOf2Pow31MsOrMore(t *testing.T) {
	auditInit(t)
	var violations []string
	fail := func(format string, args ...interface{}) {
		violations = append(violations, fmt.Sprintf(format, args...))
	}

	const oldRes, aRes, monthRes = "zz-audit-f1-old", "zz-audit-f1-a", "zz-audit-f1-month"

	// (a) exactly 2^31
	if _, err := flow.LoadRules([]*flow.Rule{{Resource: oldRes, Threshold: 0}}); err != nil {
		t.Fatalf("loading the first list: %v", err)
	}
	if got := auditAdmitted(oldRes, 3); got != 0 {
		t.Fatalf("precondition: the rule with threshold 0 admitted %d of 3", got)
	}
	second := []*flow.Rule{
		{Resource: aRes, Threshold: 0},
		{Resource: monthRes, Threshold: 1, StatIntervalInMs: 1 << 31},
	}
	for _, r := range second {
		if err := flow.IsValidRule(r); err != nil {
			t.Fatalf("precondition: %v is refused by the validity check: %v", r, err)
		}
	}
	changed, err := flow.LoadRules(second)
	if err != nil {
		fail("LoadRules([%s threshold 0, %s threshold 1 per 2^31 ms]) - two rules that pass flow.IsValidRule - returned (%v, %q): the load was abandoned", aRes, monthRes, changed, err.Error())
	}
	if rs := flow.GetRulesOfResource(oldRes); len(rs) != 0 {
		fail("after that load returned, GetRulesOfResource(%q) still reports %d rule(s) of the PREVIOUS load (the property: previously loaded rules of the affected scope are gone)", oldRes, len(rs))
	}
	if got := auditAdmitted(oldRes, 3); got != 3 {
		fail("after that load returned, %q - not in the latest list - admitted %d of 3 requests: the rule of the previous load (threshold 0) still decides", oldRes, got)
	}
	if rs := flow.GetRulesOfResource(aRes); len(rs) != 1 {
		fail("after that load returned, GetRulesOfResource(%q) reports %d rules, the latest list has 1 valid rule for it", aRes, len(rs))
	}
	if got := auditAdmitted(aRes, 3); got != 0 {
		fail("after that load returned, %q admitted %d of 3 requests although the latest list limits it to 0", aRes, got)
	}
	if got := auditAdmitted(monthRes, 3); got != 1 {
		fail("after that load returned, %q admitted %d of 3 requests; its valid rule allows 1 per 2^31 ms", monthRes, got)
	}

	// (b) above 2^31, alone in its list
	_ = flow.ClearRules()
	const month2Res = "zz-audit-f1-month2"
	r := &flow.Rule{Resource: month2Res, Threshold: 1, StatIntervalInMs: 3000000000}
	if err := flow.IsValidRule(r); err != nil {
		t.Fatalf("precondition: %v is refused by the validity check: %v", r, err)
	}
	changed, err = flow.LoadRules([]*flow.Rule{r})
	if rs := flow.GetRulesOfResource(month2Res); len(rs) != 1 {
		fail("LoadRules([%s threshold 1 per 3000000000 ms]) returned (%v, %v); GetRulesOfResource reports %d rules - the valid rule of the latest load is missing", month2Res, changed, err, len(rs))
	}
	if got := auditAdmitted(month2Res, 3); got != 1 {
		fail("%q admitted %d of 3 requests; the valid rule of the latest load allows 1 per 3000000000 ms", month2Res, got)
	}
	// the same rule with an interval just below 2^31 is enforced - the control
	_ = flow.ClearRules()
	const month3Res = "zz-audit-f1-month3"
	if _, err := flow.LoadRules([]*flow.Rule{{Resource: month3Res, Threshold: 1, StatIntervalInMs: 2000000000}}); err != nil {
		t.Fatalf("control: %v", err)
	}
	if got := auditAdmitted(month3Res, 3); got != 1 {
		t.Fatalf("control: a rule of 1 per 2000000000 ms admitted %d of 3", got)
	}

	if len(violations) > 0 {
		t.Errorf("the property demands: after a load returns, the rules that govern traffic are exactly the valid rules of the most recent load, previously loaded rules are gone, and the getters report what is enforced. Observed:\n  - %s", strings.Join(violations, "\n  - "))
	}
}

// Finding 2. The "is it the same list" test is reflect.DeepEqual over the rule objects. A NaN field - one of the
// field-wise ways for a rule to be invalid (flow Threshold, circuit breaker Threshold, system TriggerCount, outlier
// MaxEjectionPercent) - never equals itself, so a list that contains such a rule is never recognised as the list
// that is already loaded: every identical reload reports 'changed' and rebuilds.
func TestAuditIdenticalReloadOfAListWithANaNFieldReportsChanged(t *testing.T) {
	auditInit(t)
	nan := math.NaN()
	var violations []string

	flowList := func() []*flow.Rule {
		return []*flow.Rule{{Resource: "zz-audit-f2", Threshold: 5}, {Resource: "zz-audit-f2", Threshold: nan}}
	}
	cbList := func() []*circuitbreaker.Rule {
		return []*circuitbreaker.Rule{
			{Resource: "zz-audit-f2", Strategy: circuitbreaker.ErrorCount, RetryTimeoutMs: 1000, StatIntervalMs: 1000, Threshold: 3},
			{Resource: "zz-audit-f2", Strategy: circuitbreaker.ErrorCount, RetryTimeoutMs: 1000, StatIntervalMs: 1000, Threshold: nan},
		}
	}
	sysList := func() []*system.Rule {
		return []*system.Rule{{MetricType: system.InboundQPS, TriggerCount: 1e9}, {MetricType: system.Concurrency, TriggerCount: nan}}
	}
	outlierList := func() []*outlier.Rule {
		return []*outlier.Rule{{
			Rule:               &circuitbreaker.Rule{Resource: "zz-audit-f2", Strategy: circuitbreaker.ErrorCount, RetryTimeoutMs: 1000, StatIntervalMs: 1000, Threshold: 3},
			MaxEjectionPercent: nan,
		}}
	}
	check := func(what string, load func() (bool, error)) {
		if _, err := load(); err != nil {
			t.Fatalf("%s, first load: %v", what, err)
		}
		for i := 2; i <= 3; i++ {
			changed, err := load()
			if err != nil {
				t.Fatalf("%s, load %d: %v", what, i, err)
			}
			if changed {
				violations = append(violations, fmt.Sprintf("%s: load number %d of the identical list (freshly allocated rule objects, field by field the same) reported changed=true", what, i))
				return
			}
		}
	}
	check("flow.LoadRules([valid, Threshold NaN])", func() (bool, error) { return flow.LoadRules(flowList()) })
	check("flow.LoadRulesOfResource([valid, Threshold NaN])", func() (bool, error) { return flow.LoadRulesOfResource("zz-audit-f2", flowList()) })
	check("circuitbreaker.LoadRules([valid, Threshold NaN])", func() (bool, error) { return circuitbreaker.LoadRules(cbList()) })
	check("circuitbreaker.LoadRulesOfResource([valid, Threshold NaN])", func() (bool, error) { return circuitbreaker.LoadRulesOfResource("zz-audit-f2", cbList()) })
	check("system.LoadRules([valid, TriggerCount NaN])", func() (bool, error) { return system.LoadRules(sysList()) })
	check("outlier.LoadRules([MaxEjectionPercent NaN])", func() (bool, error) { return outlier.LoadRules(outlierList()) })

	// the control: the same lists without the NaN rule are recognised
	if _, err := flow.LoadRules(flowList()[:1]); err != nil {
		t.Fatal(err)
	}
	if changed, _ := flow.LoadRules(flowList()[:1]); changed {
		t.Fatalf("control: an identical reload of the list without the NaN rule reported changed")
	}

	if len(violations) > 0 {
		t.Errorf("the property demands that an identical reload reports 'unchanged' (over rule lists mixing valid rules and rules invalid in every field-wise way). Observed:\n  - %s", strings.Join(violations, "\n  - "))
	}
}

// Finding 3 (weaker, see AUDIT.md). The system module keeps the loaded rules in a Go map keyed by metric type and
// both the getter and the slot walk that map: the order of the loaded list is lost, GetRules returns the rules in an
// order that changes from call to call, and when more than one rule rejects a request the rule that is named as the
// cause changes from request to request.
func TestAuditSystemRulesAreNeitherReportedNorCheckedInTheLoadedOrder(t *testing.T) {
	auditInit(t)
	loaded := []*system.Rule{
		{ID: "1-qps", MetricType: system.InboundQPS, TriggerCount: 0},
		{ID: "2-concurrency", MetricType: system.Concurrency, TriggerCount: 0},
		{ID: "3-rt", MetricType: system.AvgRT, TriggerCount: 0},
	}
	if _, err := system.LoadRules(loaded); err != nil {
		t.Fatal(err)
	}
	want := "1-qps 2-concurrency 3-rt"
	orders := map[string]int{}
	blamed := map[string]int{}
	const rounds = 200
	for i := 0; i < rounds; i++ {
		ids := make([]string, 0, 3)
		for _, r := range system.GetRules() {
			ids = append(ids, r.ID)
		}
		orders[strings.Join(ids, " ")]++

		e, b := Entry("zz-audit-f3", WithTrafficType(base.Inbound))
		if b == nil {
			e.Exit()
			t.Fatalf("precondition: three system rules with trigger 0 admitted an inbound request")
		}
		if r, ok := b.TriggeredRule().(*system.Rule); ok && r != nil {
			blamed[r.ID]++
		} else {
			blamed[fmt.Sprintf("%v", b.TriggeredRule())]++
		}
	}
	if orders[want] != rounds || blamed["1-qps"] != rounds {
		t.Errorf("system.LoadRules([1-qps, 2-concurrency, 3-rt]) (each rejects every inbound request). The property demands that the rules in force are the valid rules of the latest load IN ORDER and that the getters report exactly that. Observed over %d rounds: GetRules returned the orders %v; the rule named as the cause of the rejection was %v (the first rule of the loaded list rejects every request, so it should be named every time)", rounds, orders, blamed)
	}
}
