package api

import (
	"testing"

	"github.com/alibaba/sentinel-golang/core/base"
	"github.com/alibaba/sentinel-golang/core/hotspot"
	"github.com/alibaba/sentinel-golang/core/isolation"
	"github.com/alibaba/sentinel-golang/core/stat"
)

// A resource carries an isolation rule of threshold 1 and, besides it, a hotspot rule on parameter 0.
// Requests whose parameter 0 is a value that cannot be a map key (a slice) make the hotspot check slot
// (order 4000, after the isolation slot 3000) panic; SlotChain.Entry recovers, admits the request and,
// because no statistic slot has run, marks it skipCompletion. The admitted entry is therefore never added
// to the concurrency gauge the isolation slot reads: any number of them is in flight at once.
func TestAuditIsolationAdmitsUncountedEntriesWhenLaterCheckSlotPanics(t *testing.T) {
	const res = "zz-audit-isolation-hotspot-unhashable"
	const threshold = 1
	if err := InitDefault(); err != nil {
		t.Fatal(err)
	}
	if _, err := isolation.LoadRulesOfResource(res, []*isolation.Rule{
		{Resource: res, MetricType: isolation.Concurrency, Threshold: threshold},
	}); err != nil {
		t.Fatal(err)
	}
	defer isolation.ClearRulesOfResource(res)
	if _, err := hotspot.LoadRulesOfResource(res, []*hotspot.Rule{
		{Resource: res, MetricType: hotspot.QPS, ControlBehavior: hotspot.Reject, ParamIndex: 0,
			Threshold: 1000000, DurationInSec: 1, ParamsMaxCapacity: 100},
	}); err != nil {
		t.Fatal(err)
	}
	defer hotspot.ClearRulesOfResource(res)

	// sanity: with an ordinary parameter the rule does its work
	e1, b1 := Entry(res, WithArgs("a"))
	if b1 != nil {
		t.Fatalf("setup: first request on an idle resource was rejected: %v", b1)
	}
	if _, b2 := Entry(res, WithArgs("a")); b2 == nil || b2.BlockType() != base.BlockTypeIsolation {
		t.Fatalf("setup: second request with one entry in flight and threshold 1 should be rejected by isolation, got %v", b2)
	}
	e1.Exit()

	// the same resource, idle again; now the parameter is a slice
	var inFlight []*base.SentinelEntry
	for i := 0; i < 5; i++ {
		e, b := Entry(res, WithArgs([]int{1, 2}))
		if b != nil {
			if b.BlockType() != base.BlockTypeIsolation {
				t.Fatalf("request %d rejected by something else than isolation: %v", i, b)
			}
			continue
		}
		inFlight = append(inFlight, e) // admitted and NOT exited
	}
	gauge := stat.GetResourceNode(res).CurrentConcurrency()
	defer func() {
		for _, e := range inFlight {
			e.Exit()
		}
	}()
	if len(inFlight) > threshold {
		t.Fatalf("isolation threshold %d, one caller at a time (k=1): %d entries were admitted and none of them has exited, "+
			"the concurrency the isolation slot sees is %d. The property demands that a request is admitted only if "+
			"admitted-but-not-yet-exited entries + batch <= threshold, so in-flight entries never exceed %d. "+
			"(cause: hotspot check slot panicked on an unhashable parameter, SlotChain.Entry admitted the request without counting it)",
			threshold, len(inFlight), gauge, threshold)
	}
}
