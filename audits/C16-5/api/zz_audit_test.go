package api

import (
	"testing"

	"github.com/alibaba/sentinel-golang/core/base"
)

// auditRecStat is a plain recording statistic slot: it counts what the chain tells it and keeps
// the usual "requests in flight" gauge (told passed: +1, told completed: -1).
type auditRecStat struct {
	order     uint32
	passed    int
	blocked   int
	completed int
	inFlight  int
}

func (s *auditRecStat) Order() uint32 { return s.order }
func (s *auditRecStat) OnEntryPassed(_ *base.EntryContext) {
	s.passed++
	s.inFlight++
}
func (s *auditRecStat) OnEntryBlocked(_ *base.EntryContext, _ *base.BlockError) { s.blocked++ }
func (s *auditRecStat) OnCompleted(_ *base.EntryContext) {
	s.completed++
	s.inFlight--
}

// An entry passes, a further statistic slot is added to the chain (from the same goroutine, so the
// "not thread safe" note of AddStatSlot is respected), then the entry exits.
// SlotChain.exit walks the list of statistic slots as it is at exit time, not the list that was
// told the outcome of this entry, so the new slot is told of the completion of an entry whose
// outcome it was never told.
func TestAudit_StatSlotAddedWhileEntryInFlightIsToldCompletionWithoutOutcome(t *testing.T) {
	sc := base.NewSlotChain()
	first := &auditRecStat{order: 10}
	sc.AddStatSlot(first)

	e, b := Entry("zz-audit-c16-inflight", WithSlotChain(sc))
	if b != nil || e == nil {
		t.Fatalf("set-up: the entry was expected to pass, got entry=%v blockError=%v", e, b)
	}
	if first.passed != 1 {
		t.Fatalf("set-up: the slot of the chain was told passed %d times, expected 1", first.passed)
	}

	late := &auditRecStat{order: 5}
	sc.AddStatSlot(late)

	e.Exit()

	if first.passed != 1 || first.completed != 1 {
		t.Errorf("slot present from the start: passed=%d completed=%d, expected 1 and 1", first.passed, first.completed)
	}
	if late.completed != late.passed+late.blocked {
		t.Errorf("statistic slot added between Entry and Exit of a passed entry was told of %d completion(s) "+
			"but of %d outcome(s) (passed=%d, blocked=%d): its in-flight gauge is now %d. "+
			"The property demands that every statistic slot is told the final outcome of an entry exactly once "+
			"and told of completion exactly when that entry had passed - a completion must not reach a slot "+
			"that was never told the entry passed",
			late.completed, late.passed+late.blocked, late.passed, late.blocked, late.inFlight)
	}

	// subsequent traffic keeps the slot off by one for good
	for i := 0; i < 3; i++ {
		e2, b2 := Entry("zz-audit-c16-inflight", WithSlotChain(sc))
		if b2 != nil {
			t.Fatalf("set-up: unexpected block %v", b2)
		}
		e2.Exit()
	}
	if late.inFlight != 0 {
		t.Errorf("after all entries have exited the in-flight gauge of the late slot is %d, expected 0 "+
			"(passed=%d completed=%d)", late.inFlight, late.passed, late.completed)
	}
}
