package outlier

import (
	"testing"
	"time"

	"github.com/alibaba/sentinel-golang/core/circuitbreaker"
)

// Review of a473b37 (recycle schedule voided by the rule manager).
//
// A request that finds a node ejected only QUEUES the node for the recycler (Slot.Check -> recyclerCh); the
// recycler's goroutine schedules it later. When the rule of the resource is removed in between, the queued task
// is scheduled while the resource has NO rule (getRecyclerOfResource logs "nil outlier rule" but hands the
// recycler out, with the interval of the removed rule). a473b37 made the rule manager responsible for voiding
// such a schedule when a rule arrives again. LoadRuleOfResource does (sameRecycling(nil, rule) is false), but
// onRuleUpdate (LoadRules) only walks over the resources that HAD a rule before the load: for a resource that
// had none, the schedule made while there was no rule stays in force. The timer armed after the interval of the
// REMOVED rule then deletes the node breaker of the rule in force, and the stale status entry keeps the node
// from being scheduled under the interval of the new rule. (Before a473b37 both were prevented by the
// comparison with the rule in force in getRecyclerOfResource / recycle.)
func reviewOutlierRule(res string, recycleS uint32) *Rule {
	return &Rule{
		Rule: &circuitbreaker.Rule{
			Resource:         res,
			Strategy:         circuitbreaker.ErrorCount,
			RetryTimeoutMs:   3000,
			MinRequestAmount: 1,
			StatIntervalMs:   1000,
			Threshold:        1.0,
		},
		MaxEjectionPercent: 1.0,
		RecycleIntervalS:   recycleS,
	}
}

func reviewRecyclerStatusLen(res string) int {
	recyclerMutex.Lock()
	r := recyclers[res]
	recyclerMutex.Unlock()
	if r == nil {
		return -1
	}
	r.mtx.Lock()
	defer r.mtx.Unlock()
	return len(r.status)
}

func reviewWaitStatusLen(res string, want int) bool {
	end := time.Now().Add(2 * time.Second)
	for time.Now().Before(end) {
		if reviewRecyclerStatusLen(res) == want {
			return true
		}
		time.Sleep(5 * time.Millisecond)
	}
	return false
}

func reviewRunStaleScheduleScenario(t *testing.T, res string, load func(r *Rule) error, clear func() error) (statusAfterLoad int, breakerSurvived bool) {
	const node = "10.0.0.1:80"
	// rule A: recycle after 1 s
	if err := load(reviewOutlierRule(res, 1)); err != nil {
		t.Fatalf("load A: %v", err)
	}
	addNodeBreakerOfResource(res, node)
	// a request finds the node ejected: queued, and scheduled by the recycler goroutine (creates the recycler)
	recyclerCh <- task{nodes: []string{node}, resource: res}
	if !reviewWaitStatusLen(res, 1) {
		t.Fatalf("set-up: node was not scheduled under rule A")
	}
	// the rule is removed: the rule manager voids the schedule
	if err := clear(); err != nil {
		t.Fatalf("clear: %v", err)
	}
	if n := reviewRecyclerStatusLen(res); n != 0 {
		t.Fatalf("set-up: schedule not voided by the removal, %d entries", n)
	}
	// a task that a request queued under rule A just before the removal is consumed only now
	recyclerCh <- task{nodes: []string{node}, resource: res}
	if !reviewWaitStatusLen(res, 1) {
		t.Fatalf("set-up: stale task was not scheduled")
	}
	// a rule arrives again: recycle after one hour
	if err := load(reviewOutlierRule(res, 3600)); err != nil {
		t.Fatalf("load B: %v", err)
	}
	statusAfterLoad = reviewRecyclerStatusLen(res)
	// a completion under rule B makes the node known again
	addNodeBreakerOfResource(res, node)
	if _, ok := getNodeBreakersOfResource(res)[node]; !ok {
		t.Fatalf("set-up: node breaker not added under rule B")
	}
	// well past the interval of the removed rule, far from the interval of the rule in force
	time.Sleep(1500 * time.Millisecond)
	_, breakerSurvived = getNodeBreakersOfResource(res)[node]
	return
}

func TestReview_LoadRules_KeepsRecycleScheduleMadeWhileResourceHadNoRule(t *testing.T) {
	defer func() {
		_, _ = LoadRules(nil)
	}()

	// control: the single-resource path voids the schedule when the rule arrives
	resCtl := "review.recycle.single"
	st, ok := reviewRunStaleScheduleScenario(t, resCtl,
		func(r *Rule) error { _, err := LoadRuleOfResource(resCtl, r); return err },
		func() error { return ClearRuleOfResource(resCtl) })
	t.Logf("LoadRuleOfResource: schedule entries after the new rule was loaded = %d, node breaker survived the old interval = %v", st, ok)
	if st != 0 || !ok {
		t.Errorf("LoadRuleOfResource: a schedule made while the resource had no rule outlived the load of a new rule "+
			"(entries %d, want 0; node breaker of the rule in force still there after the OLD interval: %v, want true)", st, ok)
	}

	res := "review.recycle.all"
	st, ok = reviewRunStaleScheduleScenario(t, res,
		func(r *Rule) error { _, err := LoadRules([]*Rule{r}); return err },
		func() error { _, err := LoadRules(nil); return err })
	if st != 0 {
		t.Errorf("LoadRules: the recycle schedule that was made while %q had no rule (a task queued before the rule was removed) "+
			"is still in force after a new rule was loaded: %d status entries, want 0 - LoadRuleOfResource voids it, onRuleUpdate only "+
			"looks at resources that had a rule before the load", res, st)
	}
	if !ok {
		t.Errorf("LoadRules: the node breaker of the rule in force (RecycleIntervalS=3600) was deleted 1 s after it had been added, "+
			"by a recycle timer that was armed while %q had no rule, after the interval of the REMOVED rule; want: timers that were "+
			"not started under the rule in force are void (as the commit message of a473b37 and 1bd4b9d promise)", res)
	}
}
