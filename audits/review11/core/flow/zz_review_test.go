package flow

import (
	"testing"

	"github.com/alibaba/sentinel-golang/core/base"
	"github.com/alibaba/sentinel-golang/core/config"
)

// Review of 5ec3228 (a warm-up rule that needs a statistic of its own does not inherit the shared one).
//
// needsOwnStatisticForWarmUp() is meant to say "generateStatFor gives THIS rule a statistic of its own only
// because it is a warm-up rule". generateStatFor does that in exactly one case: the interval could reuse the
// global statistic (CheckValidityForReuseStatistic == nil) and interval+bucket > global interval - which is only
// the interval that EQUALS the global one. The new predicate is wider: every interval in
// (global - bucket, global]. For the other intervals in that range (9501..9999 ms with the default 10 s / 20
// buckets) the global statistic cannot be reused by ANY rule, so a Direct rule and a WarmUp rule both own a
// standalone statistic of the same shape, and before 5ec3228 an edit between the two kept it. Now
// isStatReusable says no, the edited rule starts with an empty statistic, and what was admitted in the
// current interval is handed out a second time.
func TestReview_FlowEditBetweenWarmUpAndDirect_KeepsStandaloneStatistic(t *testing.T) {
	total, bucket := config.GlobalStatisticIntervalMsTotal(), config.GlobalStatisticBucketLengthInMs()
	interval := total - bucket/5 // 9900 with the defaults: not a multiple of the bucket, does not divide the total
	if bucket < 5 || interval%bucket == 0 || total%interval == 0 {
		t.Skipf("unsuitable global statistic %d/%d", total, bucket)
	}
	res := "review.flow.standalone"
	defer func() { _, _ = LoadRulesOfResource(res, nil) }()

	warm := &Rule{Resource: res, TokenCalculateStrategy: WarmUp, ControlBehavior: Reject, Threshold: 5,
		WarmUpPeriodSec: 10, WarmUpColdFactor: 3, StatIntervalInMs: interval}
	direct := &Rule{Resource: res, TokenCalculateStrategy: Direct, ControlBehavior: Reject, Threshold: 5,
		StatIntervalInMs: interval}
	// control: a Direct rule built from scratch owns a standalone statistic for this interval, just like the warm-up rule
	if st, err := generateStatFor(direct); err != nil || st.reuseResourceStat || st.writeOnlyMetric == nil {
		t.Fatalf("set-up: Direct rule with interval %d is expected to own a standalone statistic (err %v)", interval, err)
	}

	if _, err := LoadRulesOfResource(res, []*Rule{warm}); err != nil {
		t.Fatal(err)
	}
	tcs := getTrafficControllerListFor(res)
	if len(tcs) != 1 || tcs[0].boundStat.reuseResourceStat || tcs[0].boundStat.writeOnlyMetric == nil {
		t.Fatalf("set-up: warm-up rule with interval %d is expected to own a standalone statistic", interval)
	}
	oldStat := tcs[0].boundStat.writeOnlyMetric
	// five requests pass in the current interval (what StandaloneStatSlot.OnEntryPassed records)
	oldStat.AddCount(base.MetricEventPass, 5)

	// the rule is edited: same resource, same interval, now a plain limit of 5 per interval
	if _, err := LoadRulesOfResource(res, []*Rule{direct}); err != nil {
		t.Fatal(err)
	}
	tcs = getTrafficControllerListFor(res)
	if len(tcs) != 1 {
		t.Fatalf("want 1 controller, got %d", len(tcs))
	}
	counted := tcs[0].boundStat.readOnlyMetric.GetSum(base.MetricEventPass)
	result := tcs[0].PerformChecking(nil, 1, 0)
	if tcs[0].boundStat.writeOnlyMetric != oldStat || counted != 5 || result == nil || !result.IsBlocked() {
		t.Errorf("WarmUp -> Direct edit with StatIntervalInMs=%d (threshold 5, 5 already admitted in this interval): the edited rule "+
			"counts %d passes, statistic taken over: %v, sixth request blocked: %v; want 5 / true / true - both rules own a standalone "+
			"statistic of the same shape and the edit kept it until 5ec3228, whose needsOwnStatisticForWarmUp() is true for every "+
			"interval in (global-bucket, global] although generateStatFor makes the warm-up difference only for interval == global",
			interval, counted, tcs[0].boundStat.writeOnlyMetric == oldStat, result != nil && result.IsBlocked())
	}
}
