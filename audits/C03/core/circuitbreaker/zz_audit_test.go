package circuitbreaker

import (
	"errors"
	"fmt"
	"runtime"
	"sync"
	"sync/atomic"
	"testing"
	"time"

	"github.com/alibaba/sentinel-golang/core/base"
	"github.com/alibaba/sentinel-golang/util"
)

// ---------------------------------------------------------------------------------------------
// helpers
// ---------------------------------------------------------------------------------------------

// auditClock is a settable millisecond clock.
type auditClock struct {
	ms uint64
}

func (c *auditClock) set(ms uint64)             { atomic.StoreUint64(&c.ms, ms) }
func (c *auditClock) CurrentTimeMillis() uint64 { return atomic.LoadUint64(&c.ms) }
func (c *auditClock) CurrentTimeNano() uint64   { return atomic.LoadUint64(&c.ms) * 1000000 }
func (c *auditClock) Now() time.Time            { return time.Unix(0, int64(c.CurrentTimeNano())) }
func (c *auditClock) Sleep(_ time.Duration)     {}
func installAuditClock(ms uint64) (*auditClock, func()) {
	old := util.CurrentClock()
	c := &auditClock{ms: ms}
	util.SetClock(c)
	return c, func() { util.SetClock(old) }
}

// auditChain is the circuit breaking part of the default slot chain: the rule check slot and the
// statistic slot of this package, driven exactly as api.Entry drives them.
func auditChain() *base.SlotChain {
	sc := base.NewSlotChain()
	sc.AddRuleCheckSlot(DefaultSlot)
	sc.AddStatSlot(DefaultMetricStatSlot)
	return sc
}

// auditEntry mirrors api.entry(): returns (entry, nil) for an admitted request and (nil, blockErr)
// for a rejected one (a rejected entry is exited at once, as api.entry does).
func auditEntry(sc *base.SlotChain, resource string) (*base.SentinelEntry, *base.BlockError) {
	rw := base.NewResourceWrapper(resource, base.ResTypeCommon, base.Outbound)
	ctx := sc.GetPooledContext()
	ctx.Resource = rw
	e := base.NewSentinelEntry(ctx, rw, sc)
	ctx.SetEntry(e)
	r := sc.Entry(ctx)
	if r == nil {
		return e, nil
	}
	if r.Status() == base.ResultStatusBlocked {
		blockErr := base.NewBlockErrorFromDeepCopy(r.BlockError())
		e.Exit()
		return nil, blockErr
	}
	return e, nil
}

type auditTransition struct {
	from, to State
	snapshot interface{}
}

func (tr auditTransition) String() string {
	name := func(s State) string { return s.String() }
	if tr.to == Open {
		return fmt.Sprintf("%s->%s(snapshot=%v)", name(tr.from), name(tr.to), tr.snapshot)
	}
	return fmt.Sprintf("%s->%s", name(tr.from), name(tr.to))
}

// auditListener records every transition and optionally calls a hook on HalfOpen->Closed.
type auditListener struct {
	mu       sync.Mutex
	seen     []auditTransition
	onClosed func()
}

func (l *auditListener) add(tr auditTransition) {
	l.mu.Lock()
	l.seen = append(l.seen, tr)
	l.mu.Unlock()
}
func (l *auditListener) transitions() []auditTransition {
	l.mu.Lock()
	defer l.mu.Unlock()
	return append([]auditTransition(nil), l.seen...)
}
func (l *auditListener) OnTransformToClosed(prev State, _ Rule) {
	l.add(auditTransition{from: prev, to: Closed})
	if l.onClosed != nil {
		l.onClosed()
	}
}
func (l *auditListener) OnTransformToOpen(prev State, _ Rule, snapshot interface{}) {
	l.add(auditTransition{from: prev, to: Open, snapshot: snapshot})
}
func (l *auditListener) OnTransformToHalfOpen(prev State, _ Rule) {
	l.add(auditTransition{from: prev, to: HalfOpen})
}

// ---------------------------------------------------------------------------------------------
// Finding 1: an ErrorCount breaker with a fractional threshold opens although the error count has
// not reached the threshold (the threshold is truncated to an integer; a threshold below 1
// becomes 0 and the breaker opens on traffic that has no error at all).
// ---------------------------------------------------------------------------------------------
func TestAudit_ErrorCountFractionalThresholdOpensBelowThreshold(t *testing.T) {
	t.Run("threshold 0.5, only successful requests", func(t *testing.T) {
		_, restore := installAuditClock(1000000)
		defer restore()
		ClearStateChangeListeners()
		l := &auditListener{}
		RegisterStateChangeListeners(l)
		defer ClearStateChangeListeners()
		defer func() { _ = ClearRules() }()

		rule := &Rule{
			Resource:         "audit-ec-frac-a",
			Strategy:         ErrorCount,
			RetryTimeoutMs:   5000,
			MinRequestAmount: 1,
			StatIntervalMs:   10000,
			Threshold:        0.5,
		}
		if err := IsValidRule(rule); err != nil {
			t.Skipf("rule not accepted: %v", err)
		}
		if _, err := LoadRules([]*Rule{rule}); err != nil {
			t.Fatal(err)
		}
		sc := auditChain()
		for i := 0; i < 3; i++ {
			e, b := auditEntry(sc, rule.Resource)
			if b != nil {
				t.Fatalf("request #%d was rejected (%s) although every earlier request of the resource succeeded: "+
					"ErrorCount rule with Threshold=0.5 has error count 0 in its window, 0 < 0.5 does not reach the threshold, "+
					"so the property demands the breaker to stay Closed; listener saw %v",
					i+1, b.BlockType().String(), l.transitions())
			}
			e.Exit() // success, no error
		}
		if tr := l.transitions(); len(tr) != 0 {
			t.Fatalf("breaker changed state on error-free traffic: %v", tr)
		}
	})

	t.Run("threshold 2.5, two errors", func(t *testing.T) {
		_, restore := installAuditClock(1000000)
		defer restore()
		ClearStateChangeListeners()
		l := &auditListener{}
		RegisterStateChangeListeners(l)
		defer ClearStateChangeListeners()
		defer func() { _ = ClearRules() }()

		rule := &Rule{
			Resource:         "audit-ec-frac-b",
			Strategy:         ErrorCount,
			RetryTimeoutMs:   5000,
			MinRequestAmount: 1,
			StatIntervalMs:   10000,
			Threshold:        2.5,
		}
		if _, err := LoadRules([]*Rule{rule}); err != nil {
			t.Fatal(err)
		}
		sc := auditChain()
		for i := 0; i < 2; i++ {
			e, b := auditEntry(sc, rule.Resource)
			if b != nil {
				t.Fatalf("unexpected block of request #%d", i+1)
			}
			e.Exit(base.WithError(errors.New("biz error")))
		}
		if tr := l.transitions(); len(tr) != 0 {
			t.Fatalf("ErrorCount rule with Threshold=2.5 opened after 2 errors (2 < 2.5 does not reach the threshold; "+
				"the property lets it open only when the error count reaches the threshold): listener saw %v", tr)
		}
	})
}

// ---------------------------------------------------------------------------------------------
// Finding 2: closing the breaker and clearing its statistics are two separate steps
// (state CAS to Closed, listeners, then resetMetric). A request that completes between them
// (a straggler that was admitted before the breaker tripped) is judged as "completion while
// Closed" against the statistics of the period before the breaker opened and re-opens the breaker.
// ---------------------------------------------------------------------------------------------
func TestAudit_CloseIsNotAtomicWithStatisticReset(t *testing.T) {
	const t0 = uint64(1000000) // multiple of StatIntervalMs: one bucket covers [t0, t0+10000)
	clock, restore := installAuditClock(t0)
	defer restore()
	ClearStateChangeListeners()
	defer ClearStateChangeListeners()
	defer func() { _ = ClearRules() }()

	rule := &Rule{
		Resource:         "audit-close-reset",
		Strategy:         ErrorCount,
		RetryTimeoutMs:   1000,
		MinRequestAmount: 1,
		StatIntervalMs:   10000,
		Threshold:        3,
	}
	if _, err := LoadRules([]*Rule{rule}); err != nil {
		t.Fatal(err)
	}
	sc := auditChain()

	reachedClosed := make(chan struct{})
	stragglerDone := make(chan struct{})
	l := &auditListener{}
	var once sync.Once
	l.onClosed = func() {
		// The goroutine that closes the breaker is held here: state is already Closed,
		// resetMetric() has not run yet. This is only a way to hold the interleaving still.
		once.Do(func() {
			close(reachedClosed)
			<-stragglerDone
		})
	}
	RegisterStateChangeListeners(l)

	// t0: a long running request S is admitted while the breaker is Closed.
	straggler, b := auditEntry(sc, rule.Resource)
	if b != nil {
		t.Fatal("straggler must be admitted")
	}
	// t0+1 .. t0+3: three requests fail -> the breaker opens (error count 3 reaches threshold 3).
	for i := uint64(1); i <= 3; i++ {
		clock.set(t0 + i)
		e, b := auditEntry(sc, rule.Resource)
		if b != nil {
			t.Fatalf("request %d must be admitted", i)
		}
		e.Exit(base.WithError(errors.New("biz error")))
	}
	cb := getBreakersOfResource(rule.Resource)[0]
	if cb.CurrentState() != Open {
		t.Fatalf("setup: breaker should be Open, is %s", stateName(cb.CurrentState()))
	}
	// t0+1003: retry timeout elapsed, the probe P is admitted.
	clock.set(t0 + 1003)
	probe, b := auditEntry(sc, rule.Resource)
	if b != nil {
		t.Fatal("setup: probe must be admitted after the retry timeout")
	}
	if cb.CurrentState() != HalfOpen {
		t.Fatalf("setup: breaker should be HalfOpen, is %s", stateName(cb.CurrentState()))
	}
	// t0+1010: the probe succeeds (goroutine G1) and, concurrently, the straggler S succeeds too.
	clock.set(t0 + 1010)
	g1 := make(chan struct{})
	go func() {
		probe.Exit() // success -> HalfOpen->Closed, then clears the statistics
		close(g1)
	}()
	<-reachedClosed
	sDone := make(chan struct{})
	go func() {
		straggler.Exit() // success, completes while the breaker is Closed
		close(sDone)
	}()
	select {
	case <-sDone:
	case <-time.After(500 * time.Millisecond):
		// an implementation that serialises completions behind the close: let the close finish first
	}
	close(stragglerDone)
	<-sDone
	<-g1

	// Whatever order the two successful completions are given, the property leaves the breaker
	// Closed: if S counts before the close it is a successful completion in HalfOpen, if it counts
	// after the close the statistics have been cleared and hold 0 errors.
	if st := cb.CurrentState(); st != Closed {
		t.Fatalf("after the successful probe and a successful straggler the breaker is %s, listener saw %v: "+
			"the successful probe closed the breaker, but the straggler's successful completion was evaluated as a completion "+
			"while Closed against the not yet cleared statistics of the period before the trip (3 errors) and re-opened it. "+
			"The property demands that the successful probe closes the breaker AND clears its statistics, and that it opens only "+
			"when the (cleared) window reaches the threshold: no error has completed since the close.",
			stateName(st), l.transitions())
	}
}

func stateName(s State) string { return s.String() }

// ---------------------------------------------------------------------------------------------
// Finding 3: the bucket generators of the breakers publish the new start time of a recycled
// bucket before they replace its counter (ResetBucketTo in circuit_breaker.go). A completion
// that runs concurrently with the first completion of a new bucket gets the bucket "as current"
// with the counter object of the previous cycle: its increment goes to the counter that is
// thrown away a moment later, so the completion is lost and the breaker does not open although
// the window holds enough errors.
//
// There is no seam to hold this interleaving still, so the test repeats the 2-goroutine scenario
// until the loss shows (bounded by time); each round uses a fresh breaker.
// ---------------------------------------------------------------------------------------------
func TestAudit_ConcurrentCompletionsInRecycledBucketAreLost(t *testing.T) {
	if runtime.GOMAXPROCS(0) < 2 {
		t.Skip("needs two processors")
	}
	const t0 = uint64(1000000)
	clock, restore := installAuditClock(t0)
	defer restore()
	ClearStateChangeListeners()
	defer ClearStateChangeListeners()

	rule := &Rule{
		Resource:         "audit-recycled-bucket",
		Strategy:         ErrorCount,
		RetryTimeoutMs:   1000,
		MinRequestAmount: 2,
		StatIntervalMs:   1000,
		Threshold:        2,
	}
	bizErr := errors.New("biz error")

	var (
		cur   atomic.Value // *errorCountCircuitBreaker
		round uint64
		done  uint64
		stop  uint32
	)
	worker := func() {
		seen := uint64(0)
		for {
			for atomic.LoadUint64(&round) == seen {
				if atomic.LoadUint32(&stop) == 1 {
					return
				}
			}
			seen++
			cur.Load().(*errorCountCircuitBreaker).OnRequestComplete(1, bizErr)
			atomic.AddUint64(&done, 1)
		}
	}
	go worker()
	go worker()
	defer atomic.StoreUint32(&stop, 1)

	deadline := time.Now().Add(20 * time.Second)
	rounds := 0
	for time.Now().Before(deadline) {
		rounds++
		// The breaker (and its one-bucket window [start, start+1000)) is created at 'start' ...
		start := t0 + uint64(rounds)*10000
		clock.set(start)
		cb, err := newErrorCountCircuitBreaker(rule)
		if err != nil {
			t.Fatal(err)
		}
		// ... and one window later two requests complete with an error at the same millisecond.
		clock.set(start + 1000)
		cur.Store(cb)
		atomic.StoreUint64(&done, 0)
		atomic.AddUint64(&round, 1)
		for atomic.LoadUint64(&done) != 2 {
			runtime.Gosched()
		}
		if st := cb.CurrentState(); st != Open {
			var errs, total uint64
			for _, c := range cb.stat.allCounter() {
				errs += atomic.LoadUint64(&c.errorCount)
				total += atomic.LoadUint64(&c.totalCount)
			}
			t.Fatalf("round %d: two requests completed with an error in the same window (ErrorCount threshold 2, "+
				"MinRequestAmount 2) but the breaker is %s and its window holds errors=%d total=%d: one completion was "+
				"recorded in the counter of the previous bucket cycle and thrown away. The property demands the breaker to "+
				"open on the completion that makes the window hold 2 requests and 2 errors.",
				rounds, stateName(st), errs, total)
		}
	}
	t.Logf("no lost completion in %d rounds", rounds)
}
