package micro

import (
	"context"
	"errors"
	"reflect"
	"strings"
	"sync"
	"testing"

	"github.com/micro/go-micro/v2/client"
	"github.com/micro/go-micro/v2/server"

	sentinel "github.com/alibaba/sentinel-golang/api"
	"github.com/alibaba/sentinel-golang/core/base"
	"github.com/alibaba/sentinel-golang/core/circuitbreaker"
	"github.com/alibaba/sentinel-golang/core/flow"
	"github.com/alibaba/sentinel-golang/core/isolation"
	"github.com/alibaba/sentinel-golang/core/outlier"
	"github.com/alibaba/sentinel-golang/core/stat"
	"github.com/alibaba/sentinel-golang/logging"
)

// ---------------------------------------------------------------------------------------------------------------------
// helpers
// ---------------------------------------------------------------------------------------------------------------------

// auditCompletionRecorder is a statistic slot that notes the completion (Exit) of the entries of one resource.
type auditCompletionRecorder struct {
	mu        sync.Mutex
	resource  string
	completed int
	errs      []error
}

func (r *auditCompletionRecorder) Order() uint32                                           { return 100000 }
func (r *auditCompletionRecorder) OnEntryPassed(_ *base.EntryContext)                      {}
func (r *auditCompletionRecorder) OnEntryBlocked(_ *base.EntryContext, _ *base.BlockError) {}
func (r *auditCompletionRecorder) OnCompleted(ctx *base.EntryContext) {
	if ctx.Resource.Name() != r.resource {
		return
	}
	r.mu.Lock()
	defer r.mu.Unlock()
	r.completed++
	r.errs = append(r.errs, ctx.Err())
}
func (r *auditCompletionRecorder) snapshot() (int, []error) {
	r.mu.Lock()
	defer r.mu.Unlock()
	return r.completed, append([]error(nil), r.errs...)
}

type auditServerRequest struct {
	server.Request
	method string
}

func (r *auditServerRequest) Method() string  { return r.method }
func (r *auditServerRequest) Service() string { return "audit.svc" }
func (r *auditServerRequest) Stream() bool    { return true }

// auditServerStream is a live server stream: it counts what the stream handler does with it.
type auditServerStream struct {
	req    server.Request
	recvs  int
	sends  []interface{}
	err    error
	closed bool
}

func (s *auditServerStream) Context() context.Context { return context.Background() }
func (s *auditServerStream) Request() server.Request  { return s.req }
func (s *auditServerStream) Send(m interface{}) error { s.sends = append(s.sends, m); return nil }
func (s *auditServerStream) Recv(interface{}) error   { s.recvs++; return s.err }
func (s *auditServerStream) Error() error             { return s.err }
func (s *auditServerStream) Close() error             { s.closed = true; return nil }

// ---------------------------------------------------------------------------------------------------------------------
// Finding 1
// ---------------------------------------------------------------------------------------------------------------------

// NewStreamWrapper is the server-side wrapper of a streaming call. The "handler" it guards is the stream handler that
// goes on to use the stream the wrapper returns.
func TestAuditStreamWrapperEntryDoesNotCoverTheStream(t *testing.T) {
	if err := sentinel.InitDefault(); err != nil {
		t.Fatal(err)
	}
	const res = "Audit.ServerStream"
	rec := &auditCompletionRecorder{resource: res}
	sentinel.GlobalSlotChain().AddStatSlot(rec)

	// at most ONE stream of this method in flight
	if _, err := isolation.LoadRules([]*isolation.Rule{{Resource: res, MetricType: isolation.Concurrency, Threshold: 1}}); err != nil {
		t.Fatal(err)
	}
	defer isolation.ClearRules()

	fallbacks := 0
	wrap := NewStreamWrapper(WithStreamServerBlockFallback(func(s server.Stream, _ *base.BlockError) server.Stream {
		fallbacks++
		return s
	}))

	// --- stream A is admitted; its handler now works with the returned stream (it has neither finished nor failed yet)
	rawA := &auditServerStream{req: &auditServerRequest{method: res}}
	a := wrap(rawA)
	if fallbacks != 0 {
		t.Fatalf("first stream must be admitted, fallback ran %d times", fallbacks)
	}
	completed, _ := rec.snapshot()
	inFlight := stat.GetResourceNode(res).CurrentConcurrency()
	if completed != 0 || inFlight != 1 {
		t.Errorf("admitted stream, handler still running (stream neither closed nor failed): the entry has already been "+
			"exited (completions seen by the statistic slots = %d, in-flight count of the resource = %d). The property demands "+
			"that the entry is exited when the admitted handler is through (exactly once, on every path), i.e. completions = 0 "+
			"and in-flight = 1 here", completed, inFlight)
	}

	// --- consequence: a second stream while A is in use must be rejected by the concurrency rule (threshold 1)
	rawB := &auditServerStream{req: &auditServerRequest{method: res}}
	_ = wrap(rawB)
	if fallbacks != 1 {
		t.Errorf("second stream opened while the first one is still being served, isolation rule with concurrency threshold 1: "+
			"it was admitted (block fallback ran %d times, want 1) - the first stream's entry was exited before its handler ran", fallbacks)
	}

	// --- the handler of A fails: the stream breaks
	broken := errors.New("stream broken")
	rawA.err = broken
	_ = a.Recv(nil)
	_ = a.Close()
	_, errs := rec.snapshot()
	traced := false
	for _, e := range errs {
		if e != nil && strings.Contains(e.Error(), broken.Error()) {
			traced = true
		}
	}
	if !traced {
		t.Errorf("the admitted stream failed with %q (Recv and Error() report it, then it was closed): no entry of %s was "+
			"completed with that error (errors seen at completion: %v). The property demands that the error of an admitted "+
			"handler is traced on its entry", broken, res, errs)
	}

	auditBlockedStreamStaysUsable(t)
}

// The blocked half of the same wrapper (same finding): with the default rejection the caller gets the live stream back.
func auditBlockedStreamStaysUsable(t *testing.T) {
	const res = "Audit.ServerStreamBlocked"
	if _, err := flow.LoadRules([]*flow.Rule{{Resource: res, Threshold: 0, TokenCalculateStrategy: flow.Direct, ControlBehavior: flow.Reject}}); err != nil {
		t.Fatal(err)
	}
	defer flow.ClearRules()

	raw := &auditServerStream{req: &auditServerRequest{method: res}}
	got := NewStreamWrapper()(raw) // blocked: threshold 0
	if len(raw.sends) != 1 {
		t.Fatalf("request must be blocked (default rejection = one Send of the block error), sends = %v", raw.sends)
	}
	// the stream handler goes on with what the wrapper returned
	err := got.Recv(nil)
	if err == nil && raw.recvs == 1 {
		t.Errorf("blocked stream (flow threshold 0), default rejection: the wrapper handed the live stream back, the "+
			"stream handler's Recv went through to the peer (recvs on the real stream = %d, err = %v). The property demands that "+
			"the handler of a blocked request is not served: the returned stream must refuse Recv/Send with the block error", raw.recvs, err)
	}
}

// ---------------------------------------------------------------------------------------------------------------------
// Finding 2
// ---------------------------------------------------------------------------------------------------------------------

type auditClientRequest struct {
	client.Request
}

func (r *auditClientRequest) Service() string { return "audit.outlier.svc" }
func (r *auditClientRequest) Method() string  { return "Audit.ClientStream" }
func (r *auditClientRequest) Stream() bool    { return true }

// auditInnerClient is the wrapped client: every Stream fails at once (no server).
type auditInnerClient struct {
	client.Client
	streams int
}

func (c *auditInnerClient) Stream(context.Context, client.Request, ...client.CallOption) (client.Stream, error) {
	c.streams++
	return nil, errors.New("no server")
}

// auditWarnCounter counts the warning that outlier.MetricStatSlot.OnCompleted writes each time it processes the
// completion of an entry that carries no callee address (a Stream never carries one).
type auditWarnCounter struct {
	logging.Logger
	mu sync.Mutex
	n  int
}

func (l *auditWarnCounter) Warn(msg string, kv ...interface{}) {
	if strings.Contains(msg, "[Outlier] Failed to get valid address") {
		l.mu.Lock()
		l.n++
		l.mu.Unlock()
	}
}
func (l *auditWarnCounter) WarnEnabled() bool { return true }
func (l *auditWarnCounter) count() int {
	l.mu.Lock()
	defer l.mu.Unlock()
	return l.n
}

func auditChainLens(sc *base.SlotChain) (ruleChecks, stats int) {
	v := reflect.ValueOf(sc).Elem()
	return v.FieldByName("ruleChecks").Len(), v.FieldByName("stats").Len()
}

func TestAuditOutlierStreamGrowsGlobalSlotChain(t *testing.T) {
	if err := sentinel.InitDefault(); err != nil {
		t.Fatal(err)
	}
	req := &auditClientRequest{}
	if _, err := outlier.LoadRules([]*outlier.Rule{{
		Rule: &circuitbreaker.Rule{
			Resource:         req.Service(),
			Strategy:         circuitbreaker.ErrorCount,
			RetryTimeoutMs:   3000,
			MinRequestAmount: 1,
			StatIntervalMs:   10000,
			Threshold:        100,
		},
		MaxEjectionPercent: 1.0,
		RecoveryIntervalMs: 1000,
		RecycleIntervalS:   600,
	}}); err != nil {
		t.Fatal(err)
	}
	defer outlier.ClearRules()

	inner := &auditInnerClient{}
	c := NewClientWrapper(WithEnableOutlier(func(context.Context) bool { return true }))(inner)

	old := logging.GetGlobalLogger()
	warns := &auditWarnCounter{Logger: old}
	_ = logging.ResetGlobalLogger(warns)
	defer func() { _ = logging.ResetGlobalLogger(old) }()

	rc0, st0 := auditChainLens(sentinel.GlobalSlotChain())

	const calls = 5
	perCall := make([]int, 0, calls)
	for i := 0; i < calls; i++ {
		before := warns.count()
		_, _ = c.Stream(context.Background(), req)
		perCall = append(perCall, warns.count()-before)
	}
	if inner.streams != calls {
		t.Fatalf("wrapped Stream ran %d times for %d admitted calls", inner.streams, calls)
	}

	rc1, st1 := auditChainLens(sentinel.GlobalSlotChain())
	if rc1 != rc0 || st1 != st0 {
		t.Errorf("%d admitted Stream calls through the client wrapper (outlier mode) changed the process-wide slot chain that "+
			"every adapter's entries run through: rule check slots %d -> %d, statistic slots %d -> %d (one more outlier slot of "+
			"each kind per call, never removed). Asking Sentinel for an entry must not alter the chain", calls, rc0, rc1, st0, st1)
	}
	last := perCall[len(perCall)-1]
	if last > 1 {
		t.Errorf("the completion of ONE admitted request was processed %d times by the outlier statistic slot on call #%d "+
			"(per call: %v). The property demands that an admitted request's entry is exited - and so accounted - exactly once",
			last, calls, perCall)
	}
}
