package gin

import (
	"errors"
	"net/http"
	"net/http/httptest"
	"sync"
	"testing"

	sentinel "github.com/alibaba/sentinel-golang/api"
	"github.com/alibaba/sentinel-golang/core/base"
	"github.com/alibaba/sentinel-golang/core/circuitbreaker"
	"github.com/gin-gonic/gin"
)

// auditCompletionRecorder is a statistic slot that notes the error every completed entry of one resource carries.
type auditCompletionRecorder struct {
	mu       sync.Mutex
	resource string
	errs     []error
}

func (r *auditCompletionRecorder) Order() uint32                                           { return 100000 }
func (r *auditCompletionRecorder) OnEntryPassed(_ *base.EntryContext)                      {}
func (r *auditCompletionRecorder) OnEntryBlocked(_ *base.EntryContext, _ *base.BlockError) {}
func (r *auditCompletionRecorder) OnCompleted(ctx *base.EntryContext) {
	if ctx.Resource.Name() != r.resource {
		return
	}
	r.mu.Lock()
	r.errs = append(r.errs, ctx.Err())
	r.mu.Unlock()
}

// A gin handler has no return value: it fails by attaching its error to the context (c.Error / c.AbortWithError), which
// gin documents as the place where "a middleware can collect all the errors" after c.Next().
func TestAuditGinHandlerErrorIsNotTraced(t *testing.T) {
	if err := sentinel.InitDefault(); err != nil {
		t.Fatal(err)
	}
	const res = "GET:/audit/fail"
	rec := &auditCompletionRecorder{resource: res}
	sentinel.GlobalSlotChain().AddStatSlot(rec)

	// open the circuit at the first failed request
	if _, err := circuitbreaker.LoadRules([]*circuitbreaker.Rule{{
		Resource:         res,
		Strategy:         circuitbreaker.ErrorCount,
		RetryTimeoutMs:   60000,
		MinRequestAmount: 1,
		StatIntervalMs:   10000,
		Threshold:        1,
	}}); err != nil {
		t.Fatal(err)
	}
	defer circuitbreaker.ClearRules()

	gin.SetMode(gin.ReleaseMode)
	router := gin.New()
	router.Use(SentinelMiddleware())
	handlerRuns := 0
	bizErr := errors.New("backend down")
	router.GET("/audit/fail", func(c *gin.Context) {
		handlerRuns++
		_ = c.AbortWithError(http.StatusInternalServerError, bizErr)
	})

	codes := make([]int, 0, 4)
	for i := 0; i < 4; i++ {
		w := httptest.NewRecorder()
		router.ServeHTTP(w, httptest.NewRequest(http.MethodGet, "/audit/fail", nil))
		codes = append(codes, w.Code)
	}

	rec.mu.Lock()
	errs := append([]error(nil), rec.errs...)
	rec.mu.Unlock()
	if len(errs) == 0 {
		t.Fatalf("no entry of %s completed", res)
	}
	if errs[0] == nil {
		t.Errorf("admitted request, handler failed with c.AbortWithError(500, %q): its entry was completed without any error "+
			"(errors seen at completion of the %d entries: %v). The property demands that the error of a failed handler is "+
			"traced on the entry", bizErr, len(errs), errs)
	}
	if handlerRuns == 4 && codes[3] != http.StatusTooManyRequests {
		t.Errorf("circuit breaking rule (ErrorCount, threshold 1) on %s: four requests in a row failed in the handler, none was rejected "+
			"(status codes %v, handler ran %d times) - the breaker never learns of the failures because they are not traced",
			res, codes, handlerRuns)
	}
}
