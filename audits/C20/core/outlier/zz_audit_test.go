package outlier

import (
	"errors"
	"sort"
	"testing"
	"time"

	sentinel "github.com/alibaba/sentinel-golang/api"
	"github.com/alibaba/sentinel-golang/core/base"
	"github.com/alibaba/sentinel-golang/core/circuitbreaker"
	"github.com/alibaba/sentinel-golang/util"
)

// auditChain is what the adapters build for a resource with outlier ejection, reduced to the two
// outlier slots (the other default slots do not take part in the property).
func auditChain() *base.SlotChain {
	sc := base.NewSlotChain()
	sc.AddRuleCheckSlot(DefaultSlot)
	sc.AddStatSlot(DefaultMetricStatSlot)
	return sc
}

type auditReport struct {
	filter []string
	half   []string
}

func (r auditReport) inFilter(n string) bool { return auditContains(r.filter, n) }
func (r auditReport) inHalf(n string) bool   { return auditContains(r.half, n) }

func auditContains(l []string, n string) bool {
	for _, x := range l {
		if x == n {
			return true
		}
	}
	return false
}

// auditRequest performs one request on the resource: the slot chain is entered, the reported node
// sets are read, `pick` chooses the one node the request is sent to (a request reaches one node),
// and the request completes there with callErr.
func auditRequest(t *testing.T, sc *base.SlotChain, res string, pick func(rep auditReport) (string, error)) auditReport {
	t.Helper()
	e, b := sentinel.Entry(res, sentinel.WithSlotChain(sc), sentinel.WithTrafficType(base.Outbound))
	if b != nil || e == nil {
		t.Fatalf("unexpected block: %v", b)
	}
	rep := auditReport{
		filter: append([]string(nil), e.Context().FilterNodes()...),
		half:   append([]string(nil), e.Context().HalfOpenNodes()...),
	}
	sort.Strings(rep.filter)
	sort.Strings(rep.half)
	addr, callErr := pick(rep)
	if addr != "" {
		sentinel.TraceCallee(e, addr)
		if callErr != nil {
			sentinel.TraceError(e, callErr)
		}
	}
	e.Exit()
	return rep
}

func auditTo(addr string, err error) func(auditReport) (string, error) {
	return func(auditReport) (string, error) { return addr, err }
}

func auditState(res, node string) string {
	cb, ok := getNodeBreakersOfResource(res)[node]
	if !ok {
		return "unknown(recycled)"
	}
	switch cb.CurrentState() {
	case circuitbreaker.Closed:
		return "Closed"
	case circuitbreaker.HalfOpen:
		return "HalfOpen"
	default:
		return "Open"
	}
}

// Finding 1.
// Passive recovery, default ProbeNum (0). Two nodes whose retry timeout has elapsed before the same
// request are BOTH reported as half-open for that one request. A request reaches one node, so only
// one of them is probed. The other one was moved to HalfOpen by the very same Check and, with nobody
// probing it, stays HalfOpen for ever: HalfOpen breakers reject (TryPass false), so from then on the
// node is reported in the filter set on every request and is never reported as half-open again.
func TestAuditHalfOpenReportedButNotProbedNodeIsNeverOfferedAgain(t *testing.T) {
	clock := util.NewMockClock()
	util.SetClock(clock)
	defer util.SetClock(util.NewRealClock())
	defer ClearRules()

	const res = "audit-outlier-passive"
	rule := &Rule{
		Rule: &circuitbreaker.Rule{
			Resource:         res,
			Strategy:         circuitbreaker.ErrorCount,
			RetryTimeoutMs:   1000,
			MinRequestAmount: 1,
			StatIntervalMs:   1000,
			Threshold:        1,
		},
		EnableActiveRecovery: false,
		MaxEjectionPercent:   1.0,
		RecycleIntervalS:     3600, // real time: never fires during the test
	}
	if _, err := LoadRules([]*Rule{rule}); err != nil {
		t.Fatal(err)
	}
	sc := auditChain()
	boom := errors.New("boom")

	// three known, healthy nodes
	for _, n := range []string{"A", "B", "C"} {
		auditRequest(t, sc, res, auditTo(n, nil))
	}
	// A and B fail in the same millisecond: both breakers open with the same retry deadline
	auditRequest(t, sc, res, auditTo("A", boom))
	auditRequest(t, sc, res, auditTo("B", boom))
	util.Sleep(500 * time.Millisecond)
	rep := auditRequest(t, sc, res, auditTo("C", nil))
	if !rep.inFilter("A") || !rep.inFilter("B") || len(rep.half) != 0 {
		t.Fatalf("setup: expected A and B ejected, got filter=%v half=%v", rep.filter, rep.half)
	}

	// retry timeout of both elapsed; the next request probes. It can reach one node: A (it recovers).
	util.Sleep(600 * time.Millisecond)
	probe := auditRequest(t, sc, res, auditTo("A", nil))
	if !probe.inHalf("A") {
		t.Fatalf("setup: expected A offered for the passive probe, got filter=%v half=%v", probe.filter, probe.half)
	}
	reportedTogether := probe.inHalf("B")

	// B is healthy again too. A well behaved caller (like the adapters) sends a request to a
	// half-open node when one is reported, otherwise to a node that is not in the filter set.
	offeredAgain := false
	lastFilter := []string(nil)
	const rounds = 50
	for i := 0; i < rounds && !offeredAgain; i++ {
		util.Sleep(10 * time.Second) // 10 s of virtual time, ten retry timeouts
		r := auditRequest(t, sc, res, func(rep auditReport) (string, error) {
			if rep.inHalf("B") {
				return "B", nil
			}
			for _, n := range []string{"C", "A"} {
				if !rep.inFilter(n) {
					return n, nil
				}
			}
			return "", nil
		})
		lastFilter = r.filter
		if r.inHalf("B") {
			offeredAgain = true
		}
	}
	if reportedTogether && !offeredAgain {
		t.Fatalf("one request reported half-open nodes %v although it can passively probe only one of them (A, which recovered); "+
			"B was not probed, and in the next %d requests over %d s of virtual time (retry timeout 1 s) B was never reported as half-open again: "+
			"its breaker is stuck in %s and it is reported for filtering on every request (last filter set %v). "+
			"The property demands that the nodes reported as half-open are exactly those being passively probed: "+
			"B was reported without being probed, and afterwards sits in the probing state for ever without being reported",
			probe.half, rounds, rounds*10, auditState(res, "B"), lastFilter)
	}
}

// Finding 2 (lower confidence, see AUDIT.md).
// Active recovery ("Enabling active detection mode will disable passive detection", rule.go). After
// RetryTimeoutMs the Check still moves the Open breaker to HalfOpen through TryPass, admits the
// request as that breaker's probe and therefore drops the node from the filter set, but does not
// report it as half-open: the node is passively probed by ordinary traffic although the active
// check never succeeded, and the probe's result closes the breaker.
func TestAuditActiveRecoveryNodeIsPassivelyProbedButNotReportedHalfOpen(t *testing.T) {
	clock := util.NewMockClock()
	util.SetClock(clock)
	defer util.SetClock(util.NewRealClock())
	defer ClearRules()

	const res = "audit-outlier-active"
	rule := &Rule{
		Rule: &circuitbreaker.Rule{
			Resource:         res,
			Strategy:         circuitbreaker.ErrorCount,
			RetryTimeoutMs:   1000,
			MinRequestAmount: 1,
			StatIntervalMs:   1000,
			Threshold:        1,
		},
		EnableActiveRecovery: true,
		MaxEjectionPercent:   1.0,
		RecoveryIntervalMs:   3600 * 1000, // real time: the active check never runs during the test
		MaxRecoveryAttempts:  1,
		RecycleIntervalS:     3600,
		RecoveryCheckFunc:    func(string) bool { return false }, // and it would say "still down"
	}
	if _, err := LoadRules([]*Rule{rule}); err != nil {
		t.Fatal(err)
	}
	sc := auditChain()

	auditRequest(t, sc, res, auditTo("A", nil))
	auditRequest(t, sc, res, auditTo("B", nil))
	auditRequest(t, sc, res, auditTo("A", errors.New("boom")))
	util.Sleep(500 * time.Millisecond)
	rep := auditRequest(t, sc, res, auditTo("B", nil))
	if !rep.inFilter("A") {
		t.Fatalf("setup: expected A ejected, got filter=%v half=%v", rep.filter, rep.half)
	}

	util.Sleep(600 * time.Millisecond)
	var stateDuring string
	rep = auditRequest(t, sc, res, func(auditReport) (string, error) {
		stateDuring = auditState(res, "A")
		return "A", nil // A is not filtered, so load balancing may send the request there
	})
	stateAfter := auditState(res, "A")
	if !rep.inFilter("A") && !rep.inHalf("A") && stateDuring == "HalfOpen" {
		t.Fatalf("active recovery is on and the active check never succeeded, yet after the retry timeout the request got filter=%v half=%v "+
			"while the breaker of A was moved to %s for this request (A was Open before): A is passively probed by this request "+
			"(its successful completion left the breaker %s) without being reported as half-open. "+
			"The property demands that the nodes reported as half-open are exactly those being passively probed, with active recovery on and off; "+
			"with active recovery passive detection is documented as disabled, so A had to stay in the filter set",
			rep.filter, rep.half, stateDuring, stateAfter)
	}
}
