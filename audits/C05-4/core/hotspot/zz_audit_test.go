package hotspot

import (
	"sync"
	"sync/atomic"
	"testing"
	"time"

	"github.com/alibaba/sentinel-golang/core/base"
	"github.com/alibaba/sentinel-golang/core/hotspot/cache"
	"github.com/alibaba/sentinel-golang/util"
)

// auditClock is a virtual clock that only moves when the test moves it.
type auditClock struct{ ms int64 }

func (c *auditClock) Now() time.Time            { return time.UnixMilli(atomic.LoadInt64(&c.ms)) }
func (c *auditClock) Sleep(d time.Duration)     { atomic.AddInt64(&c.ms, int64(d/time.Millisecond)) }
func (c *auditClock) CurrentTimeMillis() uint64 { return uint64(atomic.LoadInt64(&c.ms)) }
func (c *auditClock) CurrentTimeNano() uint64   { return uint64(atomic.LoadInt64(&c.ms)) * 1000000 }

// auditRequest sends one request for the resource with the given first argument through the hotspot
// rule-check slot and reports whether it was admitted.
func auditRequest(res string, arg interface{}, batch uint32) bool {
	ctx := base.NewEmptyEntryContext()
	ctx.Resource = base.NewResourceWrapper(res, base.ResTypeCommon, base.Inbound)
	ctx.Input = &base.SentinelInput{BatchCount: batch, Args: []interface{}{arg}}
	ctx.RuleCheckResult = base.NewTokenResultPass()
	r := DefaultSlot.Check(ctx)
	return r == nil || !r.IsBlocked()
}

// Finding 1: lowering a threshold and restoring it inside one statistic window gives a value back what
// it has already consumed. Every cycle "lower, restore" refunds (old budget - lowered budget) tokens.
func TestAudit_LowerAndRestoreThresholdRefundsConsumedTokens(t *testing.T) {
	clk := &auditClock{ms: 1700000000000}
	util.SetClock(clk)
	defer util.SetClock(util.NewRealClock())
	const res = "audit-c05-refund"
	defer func() { _ = ClearRulesOfResource(res) }()

	rule := func(threshold int64) []*Rule {
		return []*Rule{{
			ID: "quota", Resource: res, MetricType: QPS, ControlBehavior: Reject, ParamIndex: 0,
			Threshold: threshold, BurstCount: 0, DurationInSec: 3600, ParamsMaxCapacity: 100,
		}}
	}
	admitted := 0
	drain := func() {
		for i := 0; i < 50; i++ {
			if auditRequest(res, "user-1", 1) {
				admitted++
			}
		}
	}

	if _, err := LoadRules(rule(10)); err != nil {
		t.Fatal(err)
	}
	drain() // user-1 spends its 10 per hour
	if admitted != 10 {
		t.Fatalf("setup: %d requests admitted under threshold 10, want 10", admitted)
	}
	// The clock does not move at all: everything below happens in the instant user-1 was first seen.
	for cycle := 0; cycle < 3; cycle++ {
		if _, err := LoadRules(rule(1)); err != nil { // the operator tightens the quota ...
			t.Fatal(err)
		}
		drain()
		if _, err := LoadRules(rule(10)); err != nil { // ... and restores it
			t.Fatal(err)
		}
		drain()
	}
	// The threshold was never above 10, the burst is 0, no time has elapsed.
	if admitted > 2*10 {
		t.Fatalf("value \"user-1\" was admitted %d times at one instant under a rule whose threshold was never above 10 per 3600 s (burst 0): "+
			"each reload 10 -> 1 -> 10 handed back 9 of the 10 tokens it had already consumed; the property demands at most threshold+burst = 10 "+
			"(plus threshold per elapsed duration, here 0), and never more than 2*(threshold+burst) = 20 inside one duration", admitted)
	}
	if admitted > 10 {
		t.Fatalf("value \"user-1\" was admitted %d times at one instant, the property demands at most threshold+burst = 10", admitted)
	}
}

// hookedCache runs a hook before a Get of one chosen key, once.
type hookedCache struct {
	cache.ConcurrentCounterCache
	key  interface{}
	once sync.Once
	hook func()
}

func (h *hookedCache) Get(key interface{}) (*int64, bool) {
	if key == h.key {
		h.once.Do(h.hook)
	}
	return h.ConcurrentCounterCache.Get(key)
}

// Finding 2: requests that are admitted while LoadRules is copying the counters of a modified reject rule
// are charged to the old counters only; the rule that comes into force has never heard of them.
func TestAudit_RequestsAdmittedDuringReloadAreNotCharged(t *testing.T) {
	clk := &auditClock{ms: 1700000000000}
	util.SetClock(clk)
	defer util.SetClock(util.NewRealClock())
	const res = "audit-c05-reload-race"
	defer func() { _ = ClearRulesOfResource(res) }()

	rule := func(other int64) []*Rule {
		return []*Rule{{
			ID: "r", Resource: res, MetricType: QPS, ControlBehavior: Reject, ParamIndex: 0,
			Threshold: 5, BurstCount: 0, DurationInSec: 1, ParamsMaxCapacity: 100,
			// only the limit of the value "other" differs between the two loads; "hot" is 5 per second in both
			SpecificItems: map[interface{}]int64{"other": other},
		}}
	}
	if _, err := LoadRules(rule(5)); err != nil {
		t.Fatal(err)
	}
	var admitted int64
	if auditRequest(res, "hot", 1) {
		admitted++
	}
	if !auditRequest(res, "other", 1) {
		t.Fatal("setup: first request of \"other\" blocked")
	}

	// Make the interleaving deterministic: the load stops between reading the counter of "hot" and reading
	// the counter of "other" (it copies them oldest first) until a concurrent caller has made 4 requests.
	tc := getTrafficControllersFor(res)[0].(*rejectTrafficShapingController)
	reached, resume := make(chan struct{}), make(chan struct{})
	tc.metric = &ParamsMetric{
		RuleTimeCounter: tc.metric.RuleTimeCounter,
		RuleTokenCounter: &hookedCache{ConcurrentCounterCache: tc.metric.RuleTokenCounter, key: "other", hook: func() {
			close(reached)
			<-resume
		}},
	}
	go func() {
		<-reached
		for i := 0; i < 4; i++ {
			if auditRequest(res, "hot", 1) {
				atomic.AddInt64(&admitted, 1)
			}
		}
		close(resume)
	}()
	if _, err := LoadRules(rule(6)); err != nil {
		t.Fatal(err)
	}
	select {
	case <-reached:
	default:
		t.Skip("the load did not read the counters in the expected order; interleaving not reproduced")
	}
	<-resume
	for i := 0; i < 10; i++ {
		if auditRequest(res, "hot", 1) {
			atomic.AddInt64(&admitted, 1)
		}
	}
	if n := atomic.LoadInt64(&admitted); n > 5 {
		t.Fatalf("value \"hot\" (threshold 5 per second, burst 0, unchanged by the reload) was admitted %d times at one instant: "+
			"the 4 requests admitted while LoadRules was copying the counters were not charged to the rule that came into force; "+
			"the property demands at most threshold+burst = 5 (no time has elapsed since the value was first seen)", n)
	}
}
