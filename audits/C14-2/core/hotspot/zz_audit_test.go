package hotspot

import (
	"testing"

	"github.com/alibaba/sentinel-golang/core/base"
)

// auditCtx builds the entry context of one request on res with the given arguments.
func auditCtx(res string, args ...interface{}) *base.EntryContext {
	ctx := base.NewEmptyEntryContext()
	ctx.Resource = base.NewResourceWrapper(res, base.ResTypeCommon, base.Inbound)
	ctx.Input = &base.SentinelInput{BatchCount: 1, Args: args}
	return ctx
}

// auditBlocked runs the hotspot rule check slot for one request.
func auditBlocked(ctx *base.EntryContext) bool {
	r := DefaultSlot.Check(ctx)
	return r != nil && r.IsBlocked()
}

// Finding 1: an unchanged rule of a control behaviour registered with SetTrafficShapingGenerator is never
// recognised as unchanged (Rule.Equals ends in "else { return false }"), so every load that changes
// anything else on the resource rebuilds its controller, and its counters go to whichever rule is
// listed first.
func TestAudit_UnchangedRuleOfRegisteredControlBehaviorLosesItsCountersOnReload(t *testing.T) {
	const custom = ControlBehavior(7)
	const res = "audit-custom-behavior"
	// The registered behaviour does exactly what the built-in Reject behaviour does, and it honours the
	// metric it is handed for reuse.
	err := SetTrafficShapingGenerator(custom, func(r *Rule, reuseMetric *ParamsMetric) TrafficShapingController {
		var baseTc *baseTrafficShapingController
		if reuseMetric != nil {
			baseTc = newBaseTrafficShapingControllerWithMetric(r, reuseMetric)
		} else {
			baseTc = newBaseTrafficShapingController(r)
		}
		if baseTc == nil {
			return nil
		}
		return &rejectTrafficShapingController{baseTrafficShapingController: *baseTc, burstCount: r.BurstCount}
	})
	if err != nil {
		t.Fatal(err)
	}
	defer func() {
		_ = RemoveTrafficShapingGenerator(custom)
		_ = ClearRules()
	}()
	_ = ClearRules()

	// R: one request per 100 seconds for every value of argument 0.
	newR := func() *Rule {
		return &Rule{Resource: res, MetricType: QPS, ControlBehavior: custom, ParamIndex: 0, Threshold: 1, DurationInSec: 100}
	}
	if _, err := LoadRules([]*Rule{newR()}); err != nil {
		t.Fatal(err)
	}
	if auditBlocked(auditCtx(res, "v", "w")) {
		t.Fatal("the first request for value v must pass")
	}
	if !auditBlocked(auditCtx(res, "v", "w")) {
		t.Fatal("the second request for value v inside the window must be rejected")
	}
	oldTc := getTrafficControllersFor(res)[0]

	// The reload keeps R field-for-field identical (a fresh object with the same values) and adds another
	// rule, on argument 1, in front of it.
	other := &Rule{Resource: res, MetricType: QPS, ControlBehavior: custom, ParamIndex: 1, Threshold: 1000, DurationInSec: 100}
	if _, err := LoadRules([]*Rule{other, newR()}); err != nil {
		t.Fatal(err)
	}
	tcs := getTrafficControllersFor(res)
	if len(tcs) != 2 {
		t.Fatalf("expected 2 controllers, got %d", len(tcs))
	}
	blocked := auditBlocked(auditCtx(res, "v", "w"))
	if tcs[1] != oldTc || !blocked {
		t.Fatalf("rule R (registered control behaviour %d, 1 request per 100s and value) was loaded again field-for-field identical, only another rule was added in front of it; "+
			"the property demands that the reload is invisible for R (hot-parameter counters kept, value v stays rejected for the rest of its window). "+
			"Got: R's controller kept=%v, R's counters handed to the added rule=%v, third request for v inside the window blocked=%v",
			custom, tcs[1] == oldTc, tcs[0].BoundMetric() == oldTc.BoundMetric(), blocked)
	}
}

// Finding 2: a Concurrency rule that is modified in a field that has no meaning for Concurrency rules
// (DurationInSec: "only takes effect when MetricType is QPS") loses its in-flight counters, although none
// of the parameters of its statistic (MetricType, ParamsMaxCapacity) changed.
func TestAudit_ModifiedConcurrencyRuleLosesInFlightCountersWhenOnlyAQpsFieldChanges(t *testing.T) {
	const res = "audit-concurrency-duration"
	_ = ClearRules()
	defer func() { _ = ClearRules() }()

	if _, err := LoadRules([]*Rule{{ID: "R", Resource: res, MetricType: Concurrency, ParamIndex: 0, Threshold: 2, DurationInSec: 0}}); err != nil {
		t.Fatal(err)
	}
	// two requests for value v are admitted and stay in flight
	var inFlight []*base.EntryContext
	for i := 0; i < 2; i++ {
		ctx := auditCtx(res, "v")
		if auditBlocked(ctx) {
			t.Fatalf("request %d for v must be admitted (threshold 2)", i+1)
		}
		DefaultConcurrencyStatSlot.OnEntryPassed(ctx)
		inFlight = append(inFlight, ctx)
	}
	if !auditBlocked(auditCtx(res, "v")) {
		t.Fatal("a third concurrent request for v must be rejected (threshold 2)")
	}
	oldMetric := getTrafficControllersFor(res)[0].BoundMetric()

	// The rule is modified: same ID, same threshold, same capacity; only DurationInSec (ignored for
	// Concurrency rules) is now filled in, e.g. by a config center that writes its default.
	if _, err := LoadRules([]*Rule{{ID: "R", Resource: res, MetricType: Concurrency, ParamIndex: 0, Threshold: 2, DurationInSec: 1}}); err != nil {
		t.Fatal(err)
	}
	newMetric := getTrafficControllersFor(res)[0].BoundMetric()
	blocked := auditBlocked(auditCtx(res, "v"))
	for _, ctx := range inFlight {
		DefaultConcurrencyStatSlot.OnCompleted(ctx)
	}
	if newMetric != oldMetric || !blocked {
		t.Fatalf("Concurrency rule R (threshold 2) was modified only in DurationInSec, a field that does not take effect for Concurrency rules, while 2 requests for value v were in flight; "+
			"the property demands that a modified rule whose statistic parameters are unchanged keeps its accumulated statistics (v still has 2 in flight, a third one is rejected). "+
			"Got: counters kept=%v, third concurrent request for v blocked=%v", newMetric == oldMetric, blocked)
	}
}

// Finding 3: rules that differ only in their ID are taken for one another: when the older of two such
// rules is removed, the remaining, unchanged one is given the removed rule's controller (the first equal
// one in the old list) and its own controller is thrown away.
func TestAudit_UnchangedRuleInheritsStateOfRemovedRuleThatDiffersOnlyInID(t *testing.T) {
	const res = "audit-id-twin"
	_ = ClearRules()
	defer func() { _ = ClearRules() }()

	mk := func(id string) *Rule {
		return &Rule{ID: id, Resource: res, MetricType: QPS, ControlBehavior: Reject, ParamIndex: 0, Threshold: 1, DurationInSec: 100}
	}
	// rule x alone; value v uses up its only token of the window
	if _, err := LoadRules([]*Rule{mk("x")}); err != nil {
		t.Fatal(err)
	}
	if auditBlocked(auditCtx(res, "v")) {
		t.Fatal("the first request for v must pass")
	}
	// rule y, a copy of x under its own ID, is added behind x; it has not counted anything yet
	if _, err := LoadRules([]*Rule{mk("x"), mk("y")}); err != nil {
		t.Fatal(err)
	}
	tcs := getTrafficControllersFor(res)
	if len(tcs) != 2 || tcs[1].BoundRule().ID != "y" {
		t.Fatalf("unexpected controllers after the second load: %v", tcs)
	}
	yTc := tcs[1]
	if _, seen := yTc.BoundMetric().RuleTimeCounter.Get("v"); seen {
		t.Fatal("rule y must not have counted value v yet")
	}
	if !auditBlocked(auditCtx(res, "v")) {
		t.Fatal("x still rejects v")
	}
	if _, seen := yTc.BoundMetric().RuleTimeCounter.Get("v"); seen {
		t.Fatal("a request rejected by x never reaches y")
	}

	// x is removed, y is loaded again field-for-field identical
	if _, err := LoadRules([]*Rule{mk("y")}); err != nil {
		t.Fatal(err)
	}
	tcs = getTrafficControllersFor(res)
	if len(tcs) != 1 {
		t.Fatalf("expected 1 controller, got %d", len(tcs))
	}
	blocked := auditBlocked(auditCtx(res, "v"))
	if tcs[0] != yTc || blocked {
		t.Fatalf("rule y (ID y) was loaded again field-for-field identical while rule x (ID x, otherwise the same values) was removed; "+
			"the property demands that the reload is invisible for y: it keeps its own counters, which have never seen value v, so v passes once x is gone. "+
			"Got: y's controller kept=%v, surviving controller is bound to rule ID %q, request for v blocked=%v",
			tcs[0] == yTc, tcs[0].BoundRule().ID, blocked)
	}
}
