package circuitbreaker

import (
	"errors"
	"runtime"
	"strings"
	"sync"
	"sync/atomic"
	"testing"
	"time"

	"github.com/alibaba/sentinel-golang/core/base"
	"github.com/alibaba/sentinel-golang/util"
)

// ---------------------------------------------------------------------------------------------------------
// helpers
// ---------------------------------------------------------------------------------------------------------

// auditClock is a mock clock whose reads can be observed: the library reads the clock at a few well-known
// places of a completion (bucket lookup, window sum, retry deadline, clearing of the statistic). A hook
// that parks a goroutine at such a read is nothing but a goroutine that is descheduled at that point.
type auditClock struct {
	ms   uint64
	hook atomic.Value // func(site string)
}

type auditHook struct{ f func(site string) }

func (c *auditClock) Now() time.Time        { return time.Unix(0, int64(atomic.LoadUint64(&c.ms))*1e6) }
func (c *auditClock) Sleep(d time.Duration) {}
func (c *auditClock) CurrentTimeNano() uint64 {
	return atomic.LoadUint64(&c.ms) * 1e6
}
func (c *auditClock) CurrentTimeMillis() uint64 {
	if h, _ := c.hook.Load().(auditHook); h.f != nil {
		h.f(auditCallSite())
	}
	return atomic.LoadUint64(&c.ms)
}
func (c *auditClock) advance(ms uint64)        { atomic.AddUint64(&c.ms, ms) }
func (c *auditClock) setHook(f func(s string)) { c.hook.Store(auditHook{f}) }

// auditCallSite tells from which place of the circuit breaker the clock is read.
func auditCallSite() string {
	pcs := make([]uintptr, 24)
	n := runtime.Callers(3, pcs)
	frames := runtime.CallersFrames(pcs[:n])
	site := ""
	for {
		f, more := frames.Next()
		switch {
		case strings.HasSuffix(f.Function, ".updateNextRetryTimestamp"):
			return "deadline"
		case strings.HasSuffix(f.Function, ".resetMetric"):
			return "clear"
		case strings.HasSuffix(f.Function, ".allCounter") && site == "":
			site = "sum"
		case strings.HasSuffix(f.Function, ".currentCounter") && site == "":
			site = "bucket"
		}
		if !more {
			break
		}
	}
	return site
}

func auditChain() *base.SlotChain {
	sc := base.NewSlotChain()
	sc.AddRuleCheckSlot(DefaultSlot)
	sc.AddStatSlot(DefaultMetricStatSlot)
	return sc
}

// auditEntry is what api.Entry does (the api package cannot be imported from here).
func auditEntry(sc *base.SlotChain, res string) *base.SentinelEntry {
	ctx := sc.GetPooledContext()
	rw := base.NewResourceWrapper(res, base.ResTypeCommon, base.Inbound)
	ctx.Resource = rw
	e := base.NewSentinelEntry(ctx, rw, sc)
	ctx.SetEntry(e)
	r := sc.Entry(ctx)
	if r != nil && r.IsBlocked() {
		e.Exit()
		return nil
	}
	return e
}

func auditSpin(n int) {
	for i := 0; i < n; i++ {
		runtime.KeepAlive(i)
	}
}

func auditWait(t *testing.T, what string, cond func() bool) {
	deadline := time.Now().Add(5 * time.Second)
	for !cond() {
		if time.Now().After(deadline) {
			t.Fatalf("test harness: timed out waiting for %s", what)
		}
		runtime.Gosched()
	}
}

var errAudit = errors.New("request failed")

// ---------------------------------------------------------------------------------------------------------
// Finding 1
// ---------------------------------------------------------------------------------------------------------

// ProbeNum = 2: two probes are under way in the half-open breaker. One succeeds, the other fails, and they
// complete at the same moment. The successful one has seen the breaker half-open and is about to count itself
// (addCurProbeNum); the failed one re-opens the breaker and sets the probe count back to 0
// (fromHalfOpenToOpen: cas, then resetCurProbeNum); now the successful one counts itself. The breaker is Open
// with a probe count of 1, and nothing sets it back when the breaker becomes half-open the next time: the
// next half-open period is closed by ONE successful probe.
func TestAuditSuccessfulProbeOfAFailedHalfOpenPeriodCountsForTheNextOne(t *testing.T) {
	if runtime.GOMAXPROCS(0) < 3 {
		t.Skip("needs 3 processors")
	}
	clk := &auditClock{ms: 1700000000000}
	util.SetClock(clk)
	defer util.SetClock(util.NewRealClock())
	defer ClearRules()
	const res = "audit-leftover-probe"
	sc := auditChain()

	const trials = 20000
	for trial := 0; trial < trials; trial++ {
		clk.setHook(nil)
		_ = ClearRules()
		rule := &Rule{Resource: res, Strategy: ErrorCount, Threshold: 1, MinRequestAmount: 1,
			StatIntervalMs: 100000, RetryTimeoutMs: 1000, ProbeNum: 2}
		if _, err := LoadRules([]*Rule{rule}); err != nil {
			t.Fatal(err)
		}
		cb := getBreakersOfResource(res)[0]

		// one failed request opens the breaker
		e := auditEntry(sc, res)
		e.SetError(errAudit)
		e.Exit()
		if cb.CurrentState() != Open {
			t.Fatalf("setup: breaker is %v after one error, want Open", cb.CurrentState())
		}
		// the retry timeout elapses: two probes are admitted (ProbeNum = 2)
		clk.advance(1000)
		p1, p2 := auditEntry(sc, res), auditEntry(sc, res)
		if p1 == nil || p2 == nil || cb.CurrentState() != HalfOpen {
			t.Fatalf("setup: two probes must be admitted after the retry timeout (p1=%v p2=%v state=%v)", p1 != nil, p2 != nil, cb.CurrentState())
		}
		p2.SetError(errAudit)

		// p1 (successful) is parked where it sums up the window - the last clock read before it looks at the
		// state; p2 (failed) is parked where it computes the new retry deadline - the last clock read before it
		// re-opens the breaker. Both are let go together.
		var armSum, armDeadline, atSum, atDeadline, release int32
		delay := (trial % 128) * 8
		clk.setHook(func(site string) {
			if site == "sum" && atomic.CompareAndSwapInt32(&armSum, 1, 0) {
				atomic.StoreInt32(&atSum, 1)
				for atomic.LoadInt32(&release) == 0 {
				}
			} else if site == "deadline" && atomic.CompareAndSwapInt32(&armDeadline, 1, 0) {
				atomic.StoreInt32(&atDeadline, 1)
				for atomic.LoadInt32(&release) == 0 {
				}
				auditSpin(delay)
			}
		})
		var wg sync.WaitGroup
		wg.Add(2)
		atomic.StoreInt32(&armSum, 1)
		go func() { defer wg.Done(); p1.Exit() }()
		auditWait(t, "p1 at the window sum", func() bool { return atomic.LoadInt32(&atSum) == 1 })
		atomic.StoreInt32(&armDeadline, 1)
		go func() { defer wg.Done(); p2.Exit() }()
		auditWait(t, "p2 at the retry deadline", func() bool { return atomic.LoadInt32(&atDeadline) == 1 })
		atomic.StoreInt32(&release, 1)
		wg.Wait()
		clk.setHook(nil)

		if cb.CurrentState() != Open {
			t.Fatalf("trial %d: a probe failed, the breaker must be Open, it is %v", trial, cb.CurrentState())
		}
		// next half-open period: ONE successful probe
		clk.advance(1000)
		q := auditEntry(sc, res)
		if q == nil {
			t.Fatalf("trial %d: no probe admitted a full retry timeout after the failed probe", trial)
		}
		q.Exit()
		if st := cb.CurrentState(); st == Closed {
			t.Fatalf("trial %d: rule with ProbeNum=2: in the half-open period before, one probe succeeded and one failed at the same moment (breaker re-opened); "+
				"in this half-open period ONE probe succeeded and the breaker is Closed. "+
				"The property demands that the required number (2) of successful probes closes it; the successful probe of the failed period was carried over (curProbeNumber was 1 while Open)", trial)
		}
	}
	t.Logf("not reproduced in %d trials", trials)
}

// ---------------------------------------------------------------------------------------------------------
// Finding 2
// ---------------------------------------------------------------------------------------------------------

// ProbeNum = 2, both probes succeed at the same moment: both count themselves, both then read a probe count of
// 2 and both go on to "resetMetric(); fromHalfOpenToClosed()". One of them closes the breaker. The other one
// is slower; by the time it clears the statistic the breaker has been closed for a while and requests have
// completed in the new closed period: they are erased. The breaker then does not open although the window of
// the closed period holds the threshold.
func TestAuditProbeThatLosesTheClosingErasesTheNewClosedPeriod(t *testing.T) {
	if runtime.GOMAXPROCS(0) < 3 {
		t.Skip("needs 3 processors")
	}
	clk := &auditClock{ms: 1700000000000}
	util.SetClock(clk)
	defer util.SetClock(util.NewRealClock())
	defer ClearRules()
	const res = "audit-double-clear"
	sc := auditChain()

	const trials = 20000
	for trial := 0; trial < trials; trial++ {
		clk.setHook(nil)
		_ = ClearRules()
		rule := &Rule{Resource: res, Strategy: ErrorCount, Threshold: 2, MinRequestAmount: 1,
			StatIntervalMs: 100000, RetryTimeoutMs: 1000, ProbeNum: 2}
		if _, err := LoadRules([]*Rule{rule}); err != nil {
			t.Fatal(err)
		}
		cb := getBreakersOfResource(res)[0]
		for i := 0; i < 2; i++ {
			e := auditEntry(sc, res)
			e.SetError(errAudit)
			e.Exit()
		}
		if cb.CurrentState() != Open {
			t.Fatalf("setup: breaker is %v after two errors, want Open", cb.CurrentState())
		}
		clk.advance(1000)
		p1, p2 := auditEntry(sc, res), auditEntry(sc, res)
		if p1 == nil || p2 == nil || cb.CurrentState() != HalfOpen {
			t.Fatalf("setup: two probes must be admitted after the retry timeout")
		}

		// Both probes are parked at the window sum and let go together. Of the clock reads made for clearing
		// the statistic, the first goes through; the second (if there is one: both saw the probe number
		// reached) is parked until the test lets it go.
		var armSum, atSum, release, clears, secondParked, release2, done int32
		delay := trial % 61
		clk.setHook(func(site string) {
			switch site {
			case "sum":
				if n := atomic.AddInt32(&armSum, -1); n >= 0 {
					atomic.AddInt32(&atSum, 1)
					for atomic.LoadInt32(&release) == 0 {
					}
					if n == 0 {
						auditSpin(delay)
					}
				}
			case "clear":
				if atomic.AddInt32(&clears, 1) == 2 {
					atomic.StoreInt32(&secondParked, 1)
					for atomic.LoadInt32(&release2) == 0 {
						runtime.Gosched()
					}
				}
			}
		})
		var wg sync.WaitGroup
		wg.Add(2)
		atomic.StoreInt32(&armSum, 2)
		go func() { defer wg.Done(); p1.Exit(); atomic.AddInt32(&done, 1) }()
		go func() { defer wg.Done(); p2.Exit(); atomic.AddInt32(&done, 1) }()
		auditWait(t, "both probes at the window sum", func() bool { return atomic.LoadInt32(&atSum) == 2 })
		atomic.StoreInt32(&release, 1)
		auditWait(t, "the probes", func() bool {
			d := atomic.LoadInt32(&done)
			return d == 2 || (d == 1 && atomic.LoadInt32(&secondParked) == 1)
		})
		if atomic.LoadInt32(&secondParked) == 0 {
			// only one of them found the probe number reached: nothing to see in this trial
			wg.Wait()
			continue
		}
		if cb.CurrentState() != Closed {
			atomic.StoreInt32(&release2, 1)
			wg.Wait()
			t.Fatalf("trial %d: two probes succeeded, breaker is %v, want Closed", trial, cb.CurrentState())
		}
		// the breaker is Closed, its statistic cleared: a new closed period. First failed request in it.
		// (the hook no longer parks anybody: armSum is used up, clears is beyond 2)
		n1 := auditEntry(sc, res)
		if n1 == nil {
			t.Fatalf("trial %d: closed breaker rejects", trial)
		}
		n1.SetError(errAudit)
		n1.Exit()
		// now the slower probe gets to clear the statistic
		atomic.StoreInt32(&release2, 1)
		wg.Wait()
		clk.setHook(nil)
		if cb.CurrentState() != Closed {
			t.Fatalf("trial %d: breaker is %v, want Closed (one error, threshold 2)", trial, cb.CurrentState())
		}
		// second failed request of the closed period: 2 errors in the window, threshold 2
		n2 := auditEntry(sc, res)
		if n2 == nil {
			t.Fatalf("trial %d: closed breaker rejects", trial)
		}
		n2.SetError(errAudit)
		n2.Exit()
		if st := cb.CurrentState(); st != Open {
			t.Fatalf("trial %d: ErrorCount rule, Threshold 2, MinRequestAmount 1, interval 100 s: since the breaker was closed (by two successful probes) two requests have failed within the same millisecond, "+
				"the breaker is %v. The property demands that it opens on the completion at which the window holds the threshold. "+
				"The first failure was erased: the probe that lost the closing cleared the statistic after the breaker had been closed", trial, st)
		}
	}
	t.Logf("not reproduced in %d trials", trials)
}
