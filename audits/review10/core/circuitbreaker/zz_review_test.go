package circuitbreaker

import (
	"errors"
	"testing"
	"time"

	"github.com/alibaba/sentinel-golang/core/base"
	"github.com/alibaba/sentinel-golang/util"
)

func zzReviewCtx(res string) *base.EntryContext {
	ctx := &base.EntryContext{
		Resource: base.NewResourceWrapper(res, base.ResTypeCommon, base.Inbound),
	}
	e := base.NewSentinelEntry(ctx, ctx.Resource, nil)
	ctx.SetEntry(e)
	return ctx
}

// Finding 1 (commit 556e90c): the passage to half-open that is handed back by the exit hook of a blocked
// probe (fromOpenToHalfOpen) is a transition that ends a passage, but it neither resets the count of
// successful probes nor takes the lock the commit introduced. A success counted in that passage goes into
// the count of the NEXT passage, which is then closed one successful probe early - the very defect the
// commit message describes, through the one transition it did not touch.
func TestReview_ProbeCountSurvivesPassageHandedBackByBlockedProbe(t *testing.T) {
	clock := util.NewMockClock()
	util.SetClock(clock)
	defer util.SetClock(util.NewRealClock())

	r := &Rule{
		Resource:         "zz-review-probe-count",
		Strategy:         ErrorCount,
		RetryTimeoutMs:   1000,
		MinRequestAmount: 1,
		StatIntervalMs:   10000,
		Threshold:        1,
		ProbeNum:         2,
	}
	b, err := newErrorCountCircuitBreaker(r)
	if err != nil {
		t.Fatal(err)
	}
	// one error opens the breaker
	b.OnRequestComplete(0, errors.New("biz error"))
	if b.CurrentState() != Open {
		t.Fatalf("setup: breaker should be Open, is %v", b.state.String())
	}
	util.Sleep(1100 * time.Millisecond)

	// passage 1: request A is the probe that moves the breaker to half-open
	ctxA := zzReviewCtx(r.Resource)
	if !b.TryPass(ctxA) || b.CurrentState() != HalfOpen {
		t.Fatalf("setup: A should have moved the breaker to HalfOpen, is %v", b.state.String())
	}
	// request B is admitted while half-open (ProbeNum > 0) and completes successfully: 1 of 2
	ctxB := zzReviewCtx(r.Resource)
	if !b.TryPass(ctxB) {
		t.Fatal("setup: B should be admitted while half-open")
	}
	b.OnRequestComplete(0, nil)
	if b.CurrentState() != HalfOpen {
		t.Fatalf("setup: one success of two must leave the breaker HalfOpen, is %v", b.state.String())
	}
	// A turns out to be blocked by a check behind this breaker (another breaker of the resource, a custom
	// slot): its exit hook hands the passage back, the breaker is Open again
	ctxA.RuleCheckResult = base.NewTokenResultBlocked(base.BlockTypeCircuitBreaking)
	ctxA.Entry().Exit()
	if b.CurrentState() != Open {
		t.Fatalf("setup: the blocked probe should have re-opened the breaker, is %v", b.state.String())
	}

	// passage 2: a new probe, ONE successful completion
	util.Sleep(1100 * time.Millisecond)
	ctxC := zzReviewCtx(r.Resource)
	if !b.TryPass(ctxC) || b.CurrentState() != HalfOpen {
		t.Fatalf("setup: C should have moved the breaker to HalfOpen again, is %v", b.state.String())
	}
	b.OnRequestComplete(0, nil)

	if st := b.CurrentState(); st != HalfOpen {
		t.Fatalf("ProbeNum is 2 and the second passage to half-open has seen ONE successful probe, but the breaker is %v "+
			"(curProbeNumber carried over from the passage that the blocked probe's exit hook ended): "+
			"it should still be HalfOpen and close only after the second success of this passage", b.state.String())
	}
}
