package outlier

import (
	"errors"
	"testing"
	"time"

	"github.com/alibaba/sentinel-golang/core/base"
	"github.com/alibaba/sentinel-golang/core/circuitbreaker"
)

func zzReviewRule(res string, threshold float64) *Rule {
	return &Rule{
		Rule: &circuitbreaker.Rule{
			Resource:         res,
			Strategy:         circuitbreaker.ErrorCount,
			RetryTimeoutMs:   600000,
			MinRequestAmount: 1,
			StatIntervalMs:   600000,
			Threshold:        threshold,
		},
		MaxEjectionPercent: 1.0,
		RecycleIntervalS:   1,
	}
}

// zzReviewEject makes the node known to the resource and ejects it (one error reaches the threshold).
func zzReviewEject(t *testing.T, res, node string) circuitbreaker.CircuitBreaker {
	t.Helper()
	addNodeBreakerOfResource(res, node)
	b := getNodeBreakersOfResource(res)[node]
	if b == nil {
		t.Fatalf("setup: no node breaker for %s/%s", res, node)
	}
	b.OnRequestComplete(0, errors.New("node down"))
	if b.CurrentState() != circuitbreaker.Open {
		t.Fatalf("setup: node %s should be ejected, breaker is %v", node, b.CurrentState())
	}
	return b
}

// zzReviewRequest is a request on the resource: the outlier slot finds the ejected nodes and hands them
// to the recycler (through recyclerCh, consumed by the package's goroutine).
func zzReviewRequest(t *testing.T, res string, wantOutliers int) {
	t.Helper()
	ctx := &base.EntryContext{
		Resource:        base.NewResourceWrapper(res, base.ResTypeCommon, base.Outbound),
		RuleCheckResult: base.NewTokenResultPass(),
	}
	e := base.NewSentinelEntry(ctx, ctx.Resource, nil)
	ctx.SetEntry(e)
	r := DefaultSlot.Check(ctx)
	if got := len(r.FilterNodes()); got != wantOutliers {
		t.Fatalf("setup: the request should find %d ejected node(s), found %d", wantOutliers, got)
	}
	time.Sleep(100 * time.Millisecond) // let the recycler goroutine take the task
}

func zzReviewHasNode(res, node string) bool {
	_, ok := getNodeBreakersOfResource(res)[node]
	return ok
}

// Finding 2 (commit 1bd4b9d): the recycler tells "the rule the timers were started under" from "the rule in
// force" by comparing rule POINTERS, and only when somebody calls getRecyclerOfResource. While a resource has
// no rule nobody does (slot and stat slot return early). A rule that is cleared and loaded again as the same
// object (a rule kept in a variable and switched off and on) therefore looks like it was never away: the
// status entry of the timer that fired - void - in between outlives its rule, and the node is never
// scheduled again. That is the second defect the commit message says it repairs.
func TestReview_RecyclerStatusOutlivesRuleClearedAndLoadedAgain(t *testing.T) {
	res := "zz-review-recycle-reload-same-object"
	rule := zzReviewRule(res, 1)
	defer ClearRuleOfResource(res)

	if _, err := LoadRuleOfResource(res, rule); err != nil {
		t.Fatal(err)
	}
	zzReviewEject(t, res, "n1")
	zzReviewRequest(t, res, 1) // schedules the recycling of n1 in 1s

	// the rule is switched off; the timer fires while there is no rule (void, and rightly so)
	if err := ClearRuleOfResource(res); err != nil {
		t.Fatal(err)
	}
	time.Sleep(1300 * time.Millisecond)

	// ... and on again: the same rule object
	if _, err := LoadRuleOfResource(res, rule); err != nil {
		t.Fatal(err)
	}
	zzReviewEject(t, res, "n1")
	zzReviewRequest(t, res, 1) // must schedule the recycling of n1 under the rule in force
	time.Sleep(1500 * time.Millisecond)
	zzReviewRequest(t, res, 1)
	time.Sleep(1500 * time.Millisecond)

	if zzReviewHasNode(res, "n1") {
		r := getRecyclerOfResource(res)
		r.mtx.Lock()
		st, has := r.status["n1"]
		r.mtx.Unlock()
		t.Fatalf("node n1 has been ejected for 3s under a rule with RecycleIntervalS=1 and requests kept finding it ejected, "+
			"but its breaker was not recycled: the recycler still holds the status entry (present=%v recovered=%v) of the timer "+
			"started before the rule was cleared and loaded again (same rule object, so forRule/epoch never changed), "+
			"and scheduleNodes skips a node that has an entry. The node should have been scheduled again and removed after 1s", has, st)
	}
}

// Finding 3 (commit 1bd4b9d): the same pointer comparison the other way round. LoadRules with a list in which
// the rule of ANOTHER resource changed publishes a new rule object for every resource; the rule manager treats
// a rule with unchanged fields as unchanged (the node breakers and their state are kept), but the recycler
// takes the new pointer for a replaced rule and voids the pending recycle timers. The ejected node is only
// scheduled again - with the full interval - by the next request: every reload postpones the recycling, and
// with reloads more frequent than RecycleIntervalS (default 10 minutes) a dead node is never recycled. Before
// the commit the timer of an unchanged rule fired as scheduled.
func TestReview_RecycleTimerOfUnchangedRuleVoidedByReloadOfAnotherResource(t *testing.T) {
	res, other := "zz-review-recycle-unchanged", "zz-review-recycle-other"
	defer ClearRules()

	if _, err := LoadRules([]*Rule{zzReviewRule(res, 1), zzReviewRule(other, 1)}); err != nil {
		t.Fatal(err)
	}
	before := zzReviewEject(t, res, "n1")
	zzReviewRequest(t, res, 1) // t=0: schedules the recycling of n1 at t=1s

	time.Sleep(500 * time.Millisecond)
	// t=0.6s: the rule of the OTHER resource is edited; the list comes from a data source, so every rule
	// is a new object. The rule of res has the very same fields.
	if _, err := LoadRules([]*Rule{zzReviewRule(res, 1), zzReviewRule(other, 5)}); err != nil {
		t.Fatal(err)
	}
	if after := getNodeBreakersOfResource(res)["n1"]; after != before || after.CurrentState() != circuitbreaker.Open {
		t.Fatalf("setup: the unchanged rule should have kept the node breaker and its state")
	}
	zzReviewRequest(t, res, 1) // the next request finds n1 still ejected

	time.Sleep(800 * time.Millisecond) // t=1.5s
	if zzReviewHasNode(res, "n1") {
		t.Fatalf("node n1 has been ejected for 1.5s under a rule (RecycleIntervalS=1) whose fields never changed, but its breaker " +
			"is still there: the recycle timer started at t=0 was declared void at t=0.6s because LoadRules published an equal " +
			"rule under a new pointer (another resource's rule was edited). It should have been recycled at t=1s")
	}
}
