package flow_test

import (
	"sync/atomic"
	"testing"
	"time"

	sentinel "github.com/alibaba/sentinel-golang/api"
	"github.com/alibaba/sentinel-golang/core/flow"
	"github.com/alibaba/sentinel-golang/util"
)

// auditClock is a settable clock, so that all requests of a scenario fall into one statistic window.
type auditClock struct{ ms int64 }

func (c *auditClock) Now() time.Time {
	return time.Unix(0, atomic.LoadInt64(&c.ms)*int64(time.Millisecond))
}
func (c *auditClock) Sleep(d time.Duration)     { atomic.AddInt64(&c.ms, int64(d/time.Millisecond)) }
func (c *auditClock) CurrentTimeMillis() uint64 { return uint64(atomic.LoadInt64(&c.ms)) }
func (c *auditClock) CurrentTimeNano() uint64   { return uint64(atomic.LoadInt64(&c.ms)) * 1000000 }

// admitted fires n single-token requests at the current (frozen) time and returns how many got in.
func admitted(res string, n int) int {
	got := 0
	for i := 0; i < n; i++ {
		e, b := sentinel.Entry(res)
		if b == nil {
			got++
			e.Exit()
		}
	}
	return got
}

// Finding 1: the rule manager keeps the CALLER'S rule object as its record of the rule in force,
// while the reject controller enforces a private copy of the threshold taken when it was built.
// An application that lowers the threshold on its rule object and loads its rules again (the
// natural way to use LoadRules) is told "nothing changed", and even a later load that really is
// processed keeps the stale controller, because the old controller's rule (the same, already
// modified object) compares equal to the "new" rule. The resource is then reported as guarded by
// threshold 2 but admits 10 tokens per window.
func TestAuditThresholdLoweredOnLoadedRuleObjectIsNotEnforced(t *testing.T) {
	clk := &auditClock{ms: 1700000000100} // 100ms into a bucket, far from any boundary
	util.SetClock(clk)
	defer util.SetClock(util.NewRealClock())
	defer flow.ClearRules()

	const res = "audit-c02-inplace"
	r := &flow.Rule{Resource: res, TokenCalculateStrategy: flow.Direct, ControlBehavior: flow.Reject, Threshold: 10}
	rules := []*flow.Rule{r}
	if _, err := flow.LoadRules(rules); err != nil {
		t.Fatal(err)
	}

	// the application lowers the limit and loads its rule list again
	r.Threshold = 2
	loaded, err := flow.LoadRules(rules)
	if err != nil {
		t.Fatal(err)
	}
	// ... and later loads a list that certainly differs (one more rule for another resource), so the
	// load is processed for sure
	rules = append(rules, &flow.Rule{Resource: res + "-other", Threshold: 1})
	loaded2, err := flow.LoadRules(rules)
	if err != nil {
		t.Fatal(err)
	}

	inForce := flow.GetRulesOfResource(res)
	if len(inForce) != 1 || inForce[0].Threshold != 2 {
		t.Fatalf("unexpected rules in force: %v", inForce)
	}

	got := admitted(res, 20)
	if got > 2 {
		t.Fatalf("resource %q is guarded by a reject rule with threshold 2 (GetRulesOfResource reports %v; LoadRules returned "+
			"loaded=%v, then loaded=%v, no error), yet %d single-token requests were admitted at one instant of one statistic window: "+
			"the controller still enforces the threshold 10 it copied when it was first built. The property demands that a request "+
			"is admitted only if the tokens already admitted in the window plus its batch do not exceed T=2, i.e. at most 2 admissions.",
			res, inForce, loaded, loaded2, got)
	}
}
