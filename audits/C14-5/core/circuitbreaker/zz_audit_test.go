package circuitbreaker

import (
	"errors"
	"sync/atomic"
	"testing"

	"github.com/alibaba/sentinel-golang/core/base"
)

// auditLatchBreaker is a breaker of a user-registered strategy: it opens on the first failed request and
// stays open (a "manual reset" breaker). All of its runtime state is the latch.
type auditLatchBreaker struct {
	rule *Rule
	open int32
}

func (b *auditLatchBreaker) BoundRule() *Rule       { return b.rule }
func (b *auditLatchBreaker) BoundStat() interface{} { return nil }
func (b *auditLatchBreaker) TryPass(_ *base.EntryContext) bool {
	return atomic.LoadInt32(&b.open) == 0
}
func (b *auditLatchBreaker) CurrentState() State {
	if atomic.LoadInt32(&b.open) == 0 {
		return Closed
	}
	return Open
}
func (b *auditLatchBreaker) OnRequestComplete(_ uint64, err error) {
	if err != nil {
		atomic.StoreInt32(&b.open, 1)
	}
}

const auditStrategy Strategy = 101

func auditCustomRule() *Rule {
	return &Rule{Id: "C", Resource: "audit-res", Strategy: auditStrategy, RetryTimeoutMs: 1000,
		MinRequestAmount: 1, StatIntervalMs: 1000, Threshold: 1}
}

func auditOtherRule(threshold float64) *Rule {
	return &Rule{Id: "X", Resource: "audit-res", Strategy: ErrorCount, RetryTimeoutMs: 1000,
		MinRequestAmount: 1000000, StatIntervalMs: 1000, Threshold: threshold}
}

func auditResourcePasses() bool {
	ctx := base.NewEmptyEntryContext()
	ctx.Resource = base.NewResourceWrapper("audit-res", base.ResTypeCommon, base.Inbound)
	passed, _ := checkPass(ctx)
	return passed
}

// An unchanged rule of a user-registered strategy is thrown out of the rule set - together with its open
// breaker - by a load that only modifies ANOTHER rule, once the generator of its strategy has been
// unregistered. The rule managers of flow and hotspot (and upstream's circuit breaker manager) keep the
// controller of an unchanged rule without asking for a generator: none is needed, nothing is generated.
func runAuditUnchangedCustomRuleAfterGeneratorRemoval(t *testing.T, perResource bool) {
	_ = ClearRules()
	defer func() {
		_ = RemoveCircuitBreakerGenerator(auditStrategy)
		_ = ClearRules()
	}()
	if err := SetCircuitBreakerGenerator(auditStrategy, func(r *Rule, _ interface{}) (CircuitBreaker, error) {
		return &auditLatchBreaker{rule: r}, nil
	}); err != nil {
		t.Fatal(err)
	}
	if _, err := LoadRules([]*Rule{auditCustomRule(), auditOtherRule(100)}); err != nil {
		t.Fatal(err)
	}
	if !auditResourcePasses() {
		t.Fatal("setup: the resource must pass before any failure")
	}
	// one failed request: the latch breaker of rule C opens
	for _, cb := range getBreakersOfResource("audit-res") {
		cb.OnRequestComplete(1, errors.New("biz error"))
	}
	if auditResourcePasses() {
		t.Fatal("setup: the breaker of rule C must be open after a failed request")
	}

	// the application stops offering the strategy for new rules ...
	if err := RemoveCircuitBreakerGenerator(auditStrategy); err != nil {
		t.Fatal(err)
	}
	if auditResourcePasses() {
		t.Fatal("setup: unregistering the generator alone does not touch the loaded breaker")
	}
	// ... and a later load modifies the OTHER rule only. Rule C is field-for-field identical.
	var err error
	if perResource {
		_, err = LoadRulesOfResource("audit-res", []*Rule{auditCustomRule(), auditOtherRule(200)})
	} else {
		_, err = LoadRules([]*Rule{auditCustomRule(), auditOtherRule(200)})
	}
	if err != nil {
		t.Fatal(err)
	}

	stillLoaded := false
	for _, r := range GetRulesOfResource("audit-res") {
		if r.Id == "C" {
			stillLoaded = true
		}
	}
	if passes := auditResourcePasses(); passes || !stillLoaded {
		t.Fatalf("rule C is field-for-field identical in the old and the new list and its breaker was open; "+
			"after a load that only changed the threshold of rule X the next request passes=%v and rule C "+
			"is still loaded=%v (breakers now: %d). The property demands that the reload is invisible for C: "+
			"its open breaker stays open, whatever happens to the other rules of the load",
			passes, stillLoaded, len(getBreakersOfResource("audit-res")))
	}
}

func TestAuditUnchangedCustomRuleDroppedAfterGeneratorRemoval_LoadRules(t *testing.T) {
	runAuditUnchangedCustomRuleAfterGeneratorRemoval(t, false)
}

func TestAuditUnchangedCustomRuleDroppedAfterGeneratorRemoval_LoadRulesOfResource(t *testing.T) {
	runAuditUnchangedCustomRuleAfterGeneratorRemoval(t, true)
}
