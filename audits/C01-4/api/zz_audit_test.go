package api

import (
	"sync"
	"sync/atomic"
	"testing"
	"time"

	"github.com/alibaba/sentinel-golang/core/base"
	"github.com/alibaba/sentinel-golang/core/stat"
	"github.com/alibaba/sentinel-golang/util"
)

// auditClock is a virtual clock that only moves when the test moves it.
type auditClock struct{ ms int64 }

func newAuditClock() *auditClock {
	// later than the wall clock: the inbound node was created at process start
	return &auditClock{ms: time.Now().UnixNano()/1e6 + 3600*1000}
}
func (c *auditClock) advance(ms int64)          { atomic.AddInt64(&c.ms, ms) }
func (c *auditClock) Now() time.Time            { return time.Unix(0, atomic.LoadInt64(&c.ms)*1e6) }
func (c *auditClock) Sleep(d time.Duration)     { c.advance(int64(d / time.Millisecond)) }
func (c *auditClock) CurrentTimeMillis() uint64 { return uint64(atomic.LoadInt64(&c.ms)) }
func (c *auditClock) CurrentTimeNano() uint64   { return uint64(atomic.LoadInt64(&c.ms)) * 1e6 }

// together runs f and g on two goroutines that are released at the same instant.
func together(f, g func()) {
	var ready int32
	var wg sync.WaitGroup
	wg.Add(2)
	for _, fn := range []func(){f, g} {
		fn := fn
		go func() {
			defer wg.Done()
			atomic.AddInt32(&ready, 1)
			for atomic.LoadInt32(&ready) < 2 {
			}
			fn()
		}()
	}
	wg.Wait()
}

// Finding 1a: two entries of one resource are exited at the same moment by two goroutines, one after
// 10ms, one after 5ms. Both completions are counted (complete = 2, rt sum = 15), but the minimal response
// time the node reports for the window is sometimes 10ms: the 5ms of the second entry is missing from it.
func TestAuditMinRtLosesResponseTimeOfConcurrentCompletion(t *testing.T) {
	clk := newAuditClock()
	util.SetClock(clk)
	defer util.SetClock(util.NewRealClock())

	const res = "audit4-min-rt"
	const trials = 200000
	for i := 0; i < trials; i++ {
		clk.advance(20000) // a window of its own for every trial
		e1, b1 := Entry(res)
		clk.advance(5)
		e2, b2 := Entry(res)
		clk.advance(5)
		if b1 != nil || b2 != nil {
			t.Fatalf("no rule is loaded, nothing may be blocked")
		}
		together(func() { e1.Exit() }, func() { e2.Exit() })

		n := stat.GetResourceNode(res)
		complete, rtSum := n.GetSum(base.MetricEventComplete), n.GetSum(base.MetricEventRt)
		if complete != 2 || rtSum != 15 || n.CurrentConcurrency() != 0 {
			t.Fatalf("trial %d: complete=%d rtSum=%d concurrency=%d, want 2, 15, 0", i, complete, rtSum, n.CurrentConcurrency())
		}
		if got := n.MinRT(); got != 5 {
			t.Fatalf("trial %d: two entries completed in this window with response times 10ms and 5ms "+
				"(complete=%d, rt sum=%d), but the node reports a minimal response time of %vms: the response time "+
				"of the 5ms entry did not make it into the minimum. Every passed entry must contribute its completion "+
				"with its own response time.", i, complete, rtSum, got)
		}
	}
}

// Finding 1b (same cause, the other gauge of the bucket): two goroutines enter one resource at the same
// moment; both are in flight (current concurrency 2), but the peak concurrency the node reports for the
// window is sometimes 1.
func TestAuditMaxConcurrencyLosesConcurrentEntry(t *testing.T) {
	clk := newAuditClock()
	util.SetClock(clk)
	defer util.SetClock(util.NewRealClock())

	const res = "audit4-max-concurrency"
	const trials = 200000
	for i := 0; i < trials; i++ {
		clk.advance(20000)
		var e1, e2 *base.SentinelEntry
		together(func() { e1, _ = Entry(res) }, func() { e2, _ = Entry(res) })
		if e1 == nil || e2 == nil {
			t.Fatalf("no rule is loaded, nothing may be blocked")
		}
		n := stat.GetResourceNode(res)
		cur, peak := n.CurrentConcurrency(), n.MaxConcurrency()
		e1.Exit()
		e2.Exit()
		if cur != 2 {
			t.Fatalf("trial %d: current concurrency %d with two entries in flight", i, cur)
		}
		if peak != 2 {
			t.Fatalf("trial %d: two entries of the resource are in flight (current concurrency %d, pass=2), but the "+
				"concurrency the node reports for this window is %d: the entry that made it 2 was recorded and then "+
				"overwritten by the one that made it 1.", i, cur, peak)
		}
	}
}

// Finding 2: Exit is documented (and required by the property) to be idempotent, but a repeated Exit that
// is issued while the first one is running its exit handlers - i.e. from an exit handler of the entry -
// never returns: the goroutine hangs in sync.Once, the entry is never completed and the concurrency of the
// resource stays at 1 for good.
func TestAuditRepeatedExitFromExitHandlerHangs(t *testing.T) {
	const res = "audit4-reentrant-exit"
	e, b := Entry(res)
	if b != nil {
		t.Fatalf("no rule is loaded, nothing may be blocked")
	}
	e.WhenExit(func(entry *base.SentinelEntry, ctx *base.EntryContext) error {
		// e.g. a clean-up routine shared with other paths that "makes sure the entry is closed"
		entry.Exit()
		return nil
	})
	done := make(chan struct{})
	go func() {
		e.Exit()
		close(done)
	}()
	select {
	case <-done:
	case <-time.After(3 * time.Second):
		n := stat.GetResourceNode(res)
		t.Fatalf("Exit did not return within 3s: the repeated Exit issued by the entry's exit handler deadlocks "+
			"(sync.Once re-entered). The entry is never completed: complete=%d, concurrency=%d with no entry that can "+
			"still be exited. The property demands that Exit is idempotent and that the concurrency is zero when "+
			"nothing is in flight.", n.GetSum(base.MetricEventComplete), n.CurrentConcurrency())
	}
	if c := stat.GetResourceNode(res).CurrentConcurrency(); c != 0 {
		t.Fatalf("concurrency %d after exit", c)
	}
}
