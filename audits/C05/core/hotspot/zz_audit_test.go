package hotspot

import (
	"math"
	"runtime"
	"sort"
	"sync"
	"sync/atomic"
	"testing"
	"time"

	"github.com/alibaba/sentinel-golang/core/base"
	"github.com/alibaba/sentinel-golang/util"
)

// auditClock is a virtual clock: time only moves when the test moves it.
type auditClock struct {
	nowMs int64
}

func newAuditClock() *auditClock { return &auditClock{nowMs: 1700000000000} }

func (c *auditClock) Now() time.Time {
	return time.Unix(0, atomic.LoadInt64(&c.nowMs)*int64(time.Millisecond))
}
func (c *auditClock) Sleep(d time.Duration)      { atomic.AddInt64(&c.nowMs, int64(d/time.Millisecond)) }
func (c *auditClock) CurrentTimeMillis() uint64  { return uint64(atomic.LoadInt64(&c.nowMs)) }
func (c *auditClock) CurrentTimeNano() uint64    { return uint64(atomic.LoadInt64(&c.nowMs)) * 1000000 }
func (c *auditClock) advance(ms int64)           { atomic.AddInt64(&c.nowMs, ms) }
func (c *auditClock) ms() int64                  { return atomic.LoadInt64(&c.nowMs) }
func auditInstallClock(t *testing.T) *auditClock { c := newAuditClock(); util.SetClock(c); return c }
func auditRestoreClock()                         { util.SetClock(util.NewRealClock()) }

// auditLoad loads the rule through the public rule manager (so that it is known to be accepted as valid)
// and returns the controller that the slot would use.
func auditLoad(t *testing.T, r *Rule) TrafficShapingController {
	t.Helper()
	if _, err := LoadRules([]*Rule{r}); err != nil {
		t.Fatalf("LoadRules: %v", err)
	}
	tcs := getTrafficControllersFor(r.Resource)
	if len(tcs) != 1 {
		t.Fatalf("rule %s was not accepted by LoadRules (controllers: %d)", r, len(tcs))
	}
	return tcs[0]
}

// Finding 1: the throttling interval batch*duration/threshold is computed with an integer division that
// truncates to whole milliseconds (the math.Round around it rounds an already truncated number).
//   - threshold > 1000*duration/batch  => interval 0 => the value is not shaped at all;
//   - threshold not dividing 1000*duration => interval too short => more than threshold requests per duration.
func TestAuditThrottlingIntervalTruncatedToZeroOrShort(t *testing.T) {
	clk := auditInstallClock(t)
	defer auditRestoreClock()
	defer ClearRules()

	t.Run("threshold_2000_per_second_is_not_shaped_at_all", func(t *testing.T) {
		const threshold, maxQueueMs, requests = 2000, 10, 1000
		tc := auditLoad(t, &Rule{Resource: "audit-throttle-2000", MetricType: QPS, ControlBehavior: Throttling,
			ParamIndex: 0, Threshold: threshold, DurationInSec: 1, MaxQueueingTimeMs: maxQueueMs})
		admitted, waited := 0, 0
		for i := 0; i < requests; i++ { // all in the very same virtual millisecond
			res := tc.PerformChecking("hot", 1)
			if res == nil {
				admitted++
			} else if res.Status() == base.ResultStatusShouldWait {
				admitted++
				waited++
			}
		}
		// Required spacing is 1*1s/2000 = 0.5ms and nobody may be asked to wait 10ms or more, so the admitted
		// requests must be scheduled in [now, now+10ms) at least 0.5ms apart: at most 1 + 10/0.5 = 21 of them.
		bound := 1 + maxQueueMs*threshold/1000
		if admitted > bound {
			t.Errorf("throttling rule threshold=%d/1s maxQueueingTimeMs=%d: %d of %d requests for ONE value arriving in the same millisecond were admitted (%d of them asked to wait); "+
				"the property demands admitted requests of a value to be scheduled at least batch*duration/threshold = 0.5ms apart with every wait < %dms, i.e. at most %d admissions. "+
				"Cause: intervalCostTime = 1*1*1000/%d = 0 by integer division",
				threshold, maxQueueMs, admitted, requests, waited, maxQueueMs, bound, threshold)
		}
	})

	t.Run("threshold_3_per_second_admits_4_within_one_second", func(t *testing.T) {
		tc := auditLoad(t, &Rule{Resource: "audit-throttle-3", MetricType: QPS, ControlBehavior: Throttling,
			ParamIndex: 0, Threshold: 3, DurationInSec: 1, MaxQueueingTimeMs: 0})
		start := clk.ms()
		passedAt := []int64{}
		for _, off := range []int64{0, 333, 666, 999} {
			clk.advance(start + off - clk.ms())
			if res := tc.PerformChecking("hot", 1); res == nil {
				passedAt = append(passedAt, off)
			}
		}
		if len(passedAt) > 3 {
			t.Errorf("throttling rule threshold=3/1s: requests of ONE value at +%v ms were all admitted without waiting: %d admissions inside 999ms, spaced 333ms; "+
				"the property demands a spacing of at least batch*duration/threshold = 333.33ms (so at most 3 per second). "+
				"Cause: intervalCostTime = 1000/3 truncated to 333", passedAt, len(passedAt))
		}
	})
}

// Finding 2: in reject mode the decision "the window has passed, refill" (made from the time counter) and the
// refill itself (a CAS on the token counter) are not one atomic step, and the CAS does not cover the time that
// was read. Several concurrent callers that read the old refill time each add a full refill.
// (The throttling controller has the sibling problem, see the second sub-test: between its CAS(last->now) and
// the following Store(expected) another caller reads "now" as the last scheduled pass time.)
func TestAuditConcurrentCallersRefillOrScheduleTwice(t *testing.T) {
	if runtime.GOMAXPROCS(0) < 8 {
		defer runtime.GOMAXPROCS(runtime.GOMAXPROCS(8))
	}
	clk := auditInstallClock(t)
	defer auditRestoreClock()

	t.Run("reject_refills_more_than_threshold_per_duration", func(t *testing.T) {
		const threshold, burst, goroutines, perGoroutine = 10, 10, 8, 10
		deadline := time.Now().Add(30 * time.Second)
		for round := 0; time.Now().Before(deadline); round++ {
			r := &Rule{Resource: "audit-race-reject", MetricType: QPS, ControlBehavior: Reject,
				Threshold: threshold, BurstCount: burst, DurationInSec: 1}
			tc := tcGenFuncMap[Reject](r, nil)
			if res := tc.PerformChecking("hot", threshold+burst); res != nil {
				t.Fatalf("the first batch of threshold+burst tokens of a new value must pass")
			}
			clk.advance(1001) // the value is idle for a bit more than one duration: exactly 10 tokens are due
			var admitted int64
			var wg sync.WaitGroup
			start := make(chan struct{})
			for g := 0; g < goroutines; g++ {
				wg.Add(1)
				go func() {
					defer wg.Done()
					<-start
					for i := 0; i < perGoroutine; i++ {
						if res := tc.PerformChecking("hot", 1); res == nil {
							atomic.AddInt64(&admitted, 1)
						}
					}
				}()
			}
			close(start)
			wg.Wait()
			total := int64(threshold+burst) + admitted
			// (threshold+burst) + threshold per elapsed duration, elapsed = 1.001 durations
			bound := int64(threshold+burst) + int64(threshold*1001/1000)
			if total > bound {
				t.Fatalf("reject rule threshold=%d burst=%d duration=1s (round %d): value first seen at t=0 took %d tokens, then at t=1001ms %d concurrent callers were admitted %d more tokens: "+
					"%d tokens in 1.001 durations; the property allows at most (threshold+burst) + threshold per elapsed duration = %d "+
					"(and never more than 2*(threshold+burst)=%d inside one duration). "+
					"Cause: callers that read the old lastAddTokenTime before the first refiller stores the new one each refill again",
					threshold, burst, round, threshold+burst, goroutines, admitted, total, bound, 2*(threshold+burst))
			}
		}
		t.Log("interleaving not hit within the time budget")
	})

	t.Run("throttling_schedules_two_requests_closer_than_the_interval", func(t *testing.T) {
		const goroutines, intervalMs = 8, 100
		deadline := time.Now().Add(30 * time.Second)
		for round := 0; time.Now().Before(deadline); round++ {
			r := &Rule{Resource: "audit-race-throttle", MetricType: QPS, ControlBehavior: Throttling,
				Threshold: 10, DurationInSec: 1, MaxQueueingTimeMs: 100000}
			tc := tcGenFuncMap[Throttling](r, nil)
			now := clk.ms()
			if res := tc.PerformChecking("hot", 1); res != nil {
				t.Fatalf("the first request of a new value must pass")
			}
			sched := make([]int64, goroutines)
			var wg sync.WaitGroup
			start := make(chan struct{})
			for g := 0; g < goroutines; g++ {
				wg.Add(1)
				go func(g int) {
					defer wg.Done()
					<-start
					res := tc.PerformChecking("hot", 1)
					switch {
					case res == nil:
						sched[g] = now
					case res.Status() == base.ResultStatusShouldWait:
						sched[g] = now + int64(res.NanosToWait()/time.Millisecond)
					default:
						sched[g] = -1
					}
				}(g)
			}
			close(start)
			wg.Wait()
			all := []int64{now}
			for _, s := range sched {
				if s >= 0 {
					all = append(all, s)
				}
			}
			sort.Slice(all, func(i, j int) bool { return all[i] < all[j] })
			for i := 1; i < len(all); i++ {
				if all[i]-all[i-1] < intervalMs {
					rel := make([]int64, len(all))
					for k := range all {
						rel[k] = all[k] - now
					}
					t.Fatalf("throttling rule threshold=10/1s (round %d): the admitted requests of ONE value (1 at t=0, then %d concurrent ones at t=0) were scheduled to pass at +%v ms: "+
						"two of them are %dms apart; the property demands admitted requests of a value to be scheduled at least batch*duration/threshold = %dms apart. "+
						"Cause: between CAS(lastPassTime->now) and Store(expectedTime) another caller takes 'now' as the last scheduled pass time",
						round, goroutines, rel, all[i]-all[i-1], intervalMs)
				}
			}
		}
		t.Log("interleaving not hit within the time budget")
	})
}

// Finding 3: maxCount := threshold + burst is computed without overflow protection. A value whose (specific)
// threshold is "practically unlimited" (math.MaxInt64) under a rule with a positive burst gets a negative
// bucket size and is rejected always, even its very first request and after being idle.
func TestAuditRejectThresholdPlusBurstOverflowBlocksEverything(t *testing.T) {
	clk := auditInstallClock(t)
	defer auditRestoreClock()
	defer ClearRules()

	tc := auditLoad(t, &Rule{Resource: "audit-overflow", MetricType: QPS, ControlBehavior: Reject,
		ParamIndex: 0, Threshold: 10, BurstCount: 5, DurationInSec: 1,
		SpecificItems: map[interface{}]int64{"vip": math.MaxInt64}})

	if res := tc.PerformChecking("plain", 1); res != nil {
		t.Fatalf("sanity: first request of an ordinary value must pass")
	}
	blocked := 0
	for i := 0; i < 5; i++ {
		if res := tc.PerformChecking("vip", 1); res != nil && res.IsBlocked() {
			blocked++
		}
		clk.advance(5000) // idle for five durations before the next try
	}
	if blocked > 0 {
		t.Errorf("reject rule threshold=10 burst=5 duration=1s specificItems{vip: MaxInt64}: %d of 5 single-token requests for value \"vip\" (never seen before, 5s idle between them) were BLOCKED; "+
			"the property demands that the value's specific threshold is used and that a value idle for longer than the duration is always granted a batch up to its threshold. "+
			"Cause: maxCount = MaxInt64 + 5 wraps to a negative number, so 'batchCount > maxCount' rejects every request", blocked)
	}
}
