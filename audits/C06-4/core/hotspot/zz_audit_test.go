package hotspot_test

import (
	"fmt"
	"sync"
	"testing"
	"time"

	sentinel "github.com/alibaba/sentinel-golang/api"
	"github.com/alibaba/sentinel-golang/core/base"
	"github.com/alibaba/sentinel-golang/core/hotspot"
	"github.com/alibaba/sentinel-golang/util"
)

// auditPausingClock is a mock clock whose first Sleep parks the sleeper until the test lets it go on:
// it stands for the real time a request spends asleep in hotspot.Slot.Check (throttling rule of the
// same resource), during which other requests are served.
type auditPausingClock struct {
	*util.MockClock
	mu       sync.Mutex
	armed    bool
	sleeping chan struct{}
	wake     chan struct{}
}

func (c *auditPausingClock) Sleep(d time.Duration) {
	c.mu.Lock()
	park := c.armed
	c.armed = false
	c.mu.Unlock()
	if park {
		close(c.sleeping)
		<-c.wake
	}
	c.MockClock.Sleep(d)
}

// Finding 1: the counter of a value is created (with 0) by the CHECK and looked up again by the stat
// slot, which only then increments it. In between it is an ordinary zero counter of the LRU and the
// checks of OTHER values evict it. The request is then admitted and never counted.
// Only the public API and the default slot chain are used. The window between check and count is the
// sleep that hotspot.Slot.Check itself performs for a throttling rule of the same resource.
func TestAuditAdmittedEntryNotCountedWhenOtherValuesArriveBeforeItIsCounted(t *testing.T) {
	const res = "audit-c06-4-pending"
	clock := &auditPausingClock{MockClock: util.NewMockClock(), sleeping: make(chan struct{}), wake: make(chan struct{})}
	util.SetClock(clock)
	defer util.SetClock(util.NewRealClock())
	defer hotspot.ClearRulesOfResource(res)

	if _, err := hotspot.LoadRulesOfResource(res, []*hotspot.Rule{
		// at most ONE request in flight per value of argument 0 (default cache capacity, 4000 values)
		{ID: "conc", Resource: res, MetricType: hotspot.Concurrency, ControlBehavior: hotspot.Reject, ParamIndex: 0, Threshold: 1},
		// and the requests of a value are spaced one second apart, queueing up to 10 s
		{ID: "pace", Resource: res, MetricType: hotspot.QPS, ControlBehavior: hotspot.Throttling, ParamIndex: 0, Threshold: 1, DurationInSec: 1, MaxQueueingTimeMs: 10000},
	}); err != nil {
		t.Fatal(err)
	}

	// a first request for "a" comes and goes
	e0, b := sentinel.Entry(res, sentinel.WithArgs("a"))
	if b != nil {
		t.Fatalf("setup: first request for a blocked: %v", b)
	}
	e0.Exit()

	// the second request for "a" passes the concurrency check (nothing in flight) and is put to sleep
	// for one second by the throttling rule, inside hotspot.Slot.Check
	clock.mu.Lock()
	clock.armed = true
	clock.mu.Unlock()
	var e1 *base.SentinelEntry
	var b1 *base.BlockError
	done := make(chan struct{})
	go func() {
		defer close(done)
		e1, b1 = sentinel.Entry(res, sentinel.WithArgs("a"))
	}()
	select {
	case <-clock.sleeping:
	case <-time.After(10 * time.Second):
		t.Fatal("setup: the second request for a was not put to sleep by the throttling rule")
	}
	// while it sleeps, requests for 4000 other values are served and finished
	for i := 0; i < 4000; i++ {
		e, b := sentinel.Entry(res, sentinel.WithArgs(fmt.Sprintf("other-%d", i)))
		if b != nil {
			t.Fatalf("setup: request for other-%d blocked: %v", i, b)
		}
		e.Exit()
	}
	close(clock.wake)
	<-done
	if b1 != nil {
		t.Fatalf("setup: the second request for a was blocked: %v", b1)
	}
	// e1 is admitted for "a" and NOT exited: one request in flight for "a", threshold 1.

	e2, b2 := sentinel.Entry(res, sentinel.WithArgs("a"))
	if b2 == nil {
		e2.Exit()
		e1.Exit()
		t.Fatalf("a request for value \"a\" was admitted while another admitted request for \"a\" is still in flight and the concurrency threshold is 1: " +
			"the first one was never counted, because requests for OTHER values evicted the (still zero) counter of \"a\" between its check and its count. " +
			"The property demands: admitted only if the entries in flight for v are fewer than the threshold, independently of every other value, " +
			"and the in-flight figure always equals the number of live entries")
	}
	e1.Exit()
}

// Finding 2: an admitted entry whose Exit runs a panicking exit handler never gives its unit back.
func TestAuditUnitNotReleasedWhenAnExitHandlerPanics(t *testing.T) {
	const res = "audit-c06-4-exit-handler"
	defer hotspot.ClearRulesOfResource(res)
	if _, err := hotspot.LoadRulesOfResource(res, []*hotspot.Rule{
		{ID: "conc", Resource: res, MetricType: hotspot.Concurrency, ControlBehavior: hotspot.Reject, ParamIndex: 0, Threshold: 1},
	}); err != nil {
		t.Fatal(err)
	}

	e, b := sentinel.Entry(res, sentinel.WithArgs("a"))
	if b != nil {
		t.Fatalf("setup: first request for a blocked: %v", b)
	}
	e.WhenExit(func(entry *base.SentinelEntry, ctx *base.EntryContext) error {
		panic("exit handler failed")
	})
	e.Exit() // returns normally: the panic is recovered (and logged) by SentinelEntry.Exit
	e.Exit() // a second Exit does nothing either

	// Every entry for "a" has exited: nothing is in flight.
	for i := 0; i < 3; i++ {
		e2, b2 := sentinel.Entry(res, sentinel.WithArgs("a"))
		if b2 != nil {
			t.Fatalf("request %d for value \"a\" was blocked (%v) although no entry for \"a\" is in flight (threshold 1): "+
				"the entry that was exited through a panicking exit handler still occupies its unit, for good. "+
				"The property demands: an admitted entry releases exactly its unit when it is exited, and the in-flight figure returns to zero when all entries have exited",
				i, b2.Error())
		}
		e2.Exit()
	}
}
