package file

import (
	"io/ioutil"
	"os"
	"path/filepath"
	"testing"
	"time"

	"github.com/alibaba/sentinel-golang/core/flow"
	"github.com/alibaba/sentinel-golang/core/hotspot"
	"github.com/alibaba/sentinel-golang/ext/datasource"
)

// Finding 1: an Initialize() that failed (the file is not there yet) latches the source as
// initialized. The next Initialize() - made after the file was written - reports success (nil) but
// neither reads the file nor watches it: the file datasource never converges to the file's content.
func TestAuditFailedInitializeIsLatchedAndTheSourceNeverConverges(t *testing.T) {
	_ = flow.ClearRules()
	defer func() { _ = flow.ClearRules() }()

	dir, err := ioutil.TempDir("", "audit-c18")
	if err != nil {
		t.Fatal(err)
	}
	defer os.RemoveAll(dir)
	path := filepath.Join(dir, "flow.json")

	ds := NewFileDataSource(path, datasource.NewFlowRulesHandler(datasource.FlowRuleJsonArrayParser))

	// the file is not provisioned yet: the first Initialize rightly fails
	if err := ds.Initialize(); err == nil {
		t.Skip("Initialize of a missing file did not fail; scenario not applicable")
	}

	// the file is written, the application tries again
	payload := []byte(`[{"resource":"audit-init","threshold":7}]`)
	if err := ioutil.WriteFile(path, payload, 0644); err != nil {
		t.Fatal(err)
	}
	err = ds.Initialize()
	if err != nil {
		// An honest "still not initialized" would be acceptable; that is not what happens.
		t.Logf("second Initialize returned an error: %v", err)
		return
	}

	inForce := func() bool {
		rs := flow.GetRulesOfResource("audit-init")
		return len(rs) == 1 && rs[0].Threshold == 7
	}
	// give the source every chance: wait, then write the file once more (a plain in-place write)
	deadline := time.Now().Add(1500 * time.Millisecond)
	for time.Now().Before(deadline) && !inForce() {
		time.Sleep(20 * time.Millisecond)
	}
	if !inForce() {
		_ = ioutil.WriteFile(path, payload, 0644)
		deadline = time.Now().Add(1500 * time.Millisecond)
		for time.Now().Before(deadline) && !inForce() {
			time.Sleep(20 * time.Millisecond)
		}
	}
	if !inForce() {
		t.Fatalf("Initialize() returned nil (success) after an earlier failed Initialize(), but the file's rule list %s "+
			"never went into force (rules in force: %+v), not even after a further write of the file. "+
			"The property demands that a file datasource converges to the file's current content after each write.",
			payload, flow.GetRules())
	}
	_ = ds.Close()
}

// Finding 2: a payload that re-publishes a rule under another id is reported as applied, but the
// rule that stays in force (flow.GetRules, BlockError.TriggeredRule) is the OLD object with the OLD id.
func TestAuditPayloadThatChangesOnlyTheRuleIdLeavesTheOldRuleInForce(t *testing.T) {
	t.Run("flow", func(t *testing.T) {
		_ = flow.ClearRules()
		defer func() { _ = flow.ClearRules() }()
		h := datasource.NewFlowRulesHandler(datasource.FlowRuleJsonArrayParser)

		if err := h.Handle([]byte(`[{"id":"cfg-v1","resource":"audit-id","threshold":10}]`)); err != nil {
			t.Fatal(err)
		}
		second := `[{"id":"cfg-v2","resource":"audit-id","threshold":10}]`
		if err := h.Handle([]byte(second)); err != nil {
			t.Fatalf("second payload rejected: %v", err)
		}
		rs := flow.GetRulesOfResource("audit-id")
		if len(rs) != 1 || rs[0].ID != "cfg-v2" {
			t.Fatalf("payload %s was handled without error, but the flow rules in force are %+v (id %q): "+
				"the property demands that exactly the payload's valid rules are in force, i.e. the rule with id \"cfg-v2\"",
				second, rs, idOfFlow(rs))
		}
	})
	t.Run("hotspot", func(t *testing.T) {
		_ = hotspot.ClearRules()
		defer func() { _ = hotspot.ClearRules() }()
		h := datasource.NewHotSpotParamRulesHandler(datasource.HotSpotParamRuleJsonArrayParser)

		if err := h.Handle([]byte(`[{"id":"cfg-v1","resource":"audit-id","metricType":1,"paramIndex":0,"threshold":10,"durationInSec":1}]`)); err != nil {
			t.Fatal(err)
		}
		second := `[{"id":"cfg-v2","resource":"audit-id","metricType":1,"paramIndex":0,"threshold":10,"durationInSec":1}]`
		if err := h.Handle([]byte(second)); err != nil {
			t.Fatalf("second payload rejected: %v", err)
		}
		rs := hotspot.GetRulesOfResource("audit-id")
		if len(rs) != 1 || rs[0].ID != "cfg-v2" {
			id := ""
			if len(rs) > 0 {
				id = rs[0].ID
			}
			t.Fatalf("payload %s was handled without error, but the hotspot rules in force are %+v (id %q): "+
				"the property demands that exactly the payload's valid rules are in force, i.e. the rule with id \"cfg-v2\"",
				second, rs, id)
		}
	})
}

func idOfFlow(rs []flow.Rule) string {
	if len(rs) == 0 {
		return ""
	}
	return rs[0].ID
}

// Finding 3: the hotspot wire format describes a float64 specific value by its decimal string; the
// parser rewrites it to 5 decimals, so the rule in force names another value than the payload. The
// hotspot slot matches arguments by plain equality (no rounding), so the value the payload names is
// not given its threshold, and a value the payload does not name is.
func TestAuditHotspotFloatSpecificItemIsRewrittenByTheParser(t *testing.T) {
	payload := `[{"resource":"audit-float","metricType":1,"paramIndex":0,"threshold":100,"durationInSec":1,` +
		`"specificItems":[{"valKind":3,"valStr":"0.1234567","threshold":1}]}]`
	v, err := datasource.HotSpotParamRuleJsonArrayParser([]byte(payload))
	if err != nil {
		t.Fatal(err)
	}
	rules := v.([]*hotspot.Rule)
	if len(rules) != 1 {
		t.Fatalf("expected one rule, got %d", len(rules))
	}
	items := rules[0].SpecificItems
	_, named := items[0.1234567]
	_, other := items[0.12346]
	if !named || other {
		t.Fatalf("payload %s describes a specific threshold for the float64 value 0.1234567; the decoded rule has "+
			"SpecificItems %v (entry for 0.1234567: %v, entry for the unnamed value 0.12346: %v). "+
			"The property demands that a rule list in the wire format decodes to exactly the rules it describes.",
			payload, items, named, other)
	}
}
