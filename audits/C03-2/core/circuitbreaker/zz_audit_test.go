package circuitbreaker_test

import (
	"errors"
	"fmt"
	"sync"
	"sync/atomic"
	"testing"
	"time"

	"github.com/alibaba/sentinel-golang/api"
	"github.com/alibaba/sentinel-golang/core/base"
	cb "github.com/alibaba/sentinel-golang/core/circuitbreaker"
	"github.com/alibaba/sentinel-golang/util"
)

// auditClock is a hand-driven clock (milliseconds), it only moves when the test moves it.
type auditClock struct{ ms int64 }

func (c *auditClock) Now() time.Time {
	return time.Unix(0, atomic.LoadInt64(&c.ms)*int64(time.Millisecond))
}
func (c *auditClock) Sleep(d time.Duration)     { atomic.AddInt64(&c.ms, int64(d/time.Millisecond)) }
func (c *auditClock) CurrentTimeMillis() uint64 { return uint64(atomic.LoadInt64(&c.ms)) }
func (c *auditClock) CurrentTimeNano() uint64 {
	return uint64(atomic.LoadInt64(&c.ms)) * uint64(time.Millisecond)
}
func (c *auditClock) advance(ms int64) { atomic.AddInt64(&c.ms, ms) }
func newAuditClock(t *testing.T) *auditClock {
	c := &auditClock{ms: 1700000000000}
	util.SetClock(c)
	t.Cleanup(func() { util.SetClock(util.NewRealClock()) })
	return c
}

// auditListener records every notification in the order in which it is delivered.
type auditListener struct {
	mu  sync.Mutex
	seq []string
}

func (l *auditListener) add(s string) { l.mu.Lock(); l.seq = append(l.seq, s); l.mu.Unlock() }
func (l *auditListener) OnTransformToClosed(prev cb.State, rule cb.Rule) {
	l.add(fmt.Sprintf("%s->Closed", prev.String()))
}
func (l *auditListener) OnTransformToOpen(prev cb.State, rule cb.Rule, snapshot interface{}) {
	l.add(fmt.Sprintf("%s->Open", prev.String()))
}
func (l *auditListener) OnTransformToHalfOpen(prev cb.State, rule cb.Rule) {
	l.add(fmt.Sprintf("%s->HalfOpen", prev.String()))
}
func (l *auditListener) events() []string {
	l.mu.Lock()
	defer l.mu.Unlock()
	return append([]string(nil), l.seq...)
}

// auditChain is the library's own circuit breaker slot pair and nothing else.
func auditChain() *base.SlotChain {
	sc := base.NewSlotChain()
	sc.AddRuleCheckSlot(cb.DefaultSlot)
	sc.AddStatSlot(cb.DefaultMetricStatSlot)
	return sc
}

func auditSetup(t *testing.T, rules ...*cb.Rule) (*auditClock, *base.SlotChain, *auditListener) {
	clock := newAuditClock(t)
	res := rules[0].Resource
	cb.ClearStateChangeListeners()
	l := &auditListener{}
	cb.RegisterStateChangeListeners(l)
	if _, err := cb.LoadRulesOfResource(res, rules); err != nil {
		t.Fatalf("loading the rules failed: %v", err)
	}
	if got := len(cb.GetRulesOfResource(res)); got != len(rules) {
		t.Fatalf("setup: %d of %d rules were accepted", got, len(rules))
	}
	t.Cleanup(func() {
		_ = cb.ClearRulesOfResource(res)
		cb.ClearStateChangeListeners()
	})
	return clock, auditChain(), l
}

// Finding 1.
// With ProbeNum >= 1 a half-open breaker admits EVERY request, not one probe: while the probe that
// moved it to half-open is still in flight, all further requests pass the breaker as well.
func TestAuditHalfOpenAdmitsEveryRequestWhenProbeNumSet(t *testing.T) {
	const res = "audit-halfopen-unlimited"
	clock, sc, l := auditSetup(t, &cb.Rule{
		Resource:         res,
		Strategy:         cb.ErrorCount,
		RetryTimeoutMs:   1000,
		MinRequestAmount: 1,
		StatIntervalMs:   10000,
		Threshold:        1,
		ProbeNum:         1, // one successful probe is required to close
	})

	// one failed request trips the breaker
	e, b := api.Entry(res, api.WithSlotChain(sc))
	if b != nil {
		t.Fatalf("setup: first request blocked")
	}
	api.TraceError(e, errors.New("biz"))
	clock.advance(5)
	e.Exit()
	if _, b = api.Entry(res, api.WithSlotChain(sc)); b == nil {
		t.Fatalf("setup: breaker did not open after the failed request; listener saw %v", l.events())
	}

	// the retry timeout elapses, the next request is the probe
	clock.advance(1000)
	probe, b := api.Entry(res, api.WithSlotChain(sc))
	if b != nil {
		t.Fatalf("setup: the probe after the retry timeout was rejected")
	}

	// the probe has NOT completed. The breaker is half-open with its one probe in flight.
	admitted := 0
	var extra []*base.SentinelEntry
	for i := 0; i < 50; i++ {
		clock.advance(1)
		if e, b := api.Entry(res, api.WithSlotChain(sc)); b == nil {
			admitted++
			extra = append(extra, e)
		}
	}
	events := l.events() // nothing has completed since the probe was admitted
	for _, e := range extra {
		e.Exit()
	}
	probe.Exit()
	if admitted != 0 {
		t.Fatalf("breaker (ProbeNum=1) is half-open with its probe still in flight, yet %d of 50 further requests were admitted "+
			"(listener so far: %v). The property demands that after the retry timeout ONE probe is admitted and that the breaker "+
			"stays shut for everybody else until the required number of successful probes closed it; the package doc says "+
			"the same (\"Half-Open: only one entry is allowed to access resource, others are blocked\"). "+
			"With ProbeNum=0 the very same history rejects all 50.", admitted, events)
	}
}

// Finding 2.
// The ratio strategies compare with a tolerance of 1e-8 (util.Float64Equals): a ratio that is BELOW the
// threshold by less than 1e-8 opens the breaker. With a threshold below 1e-8 that is error-free traffic.
func TestAuditRatioBreakerOpensBelowThreshold(t *testing.T) {
	t.Run("ErrorRatio threshold 1e-9, no error at all", func(t *testing.T) {
		const res = "audit-ratio-eps-1"
		clock, sc, l := auditSetup(t, &cb.Rule{
			Resource:         res,
			Strategy:         cb.ErrorRatio,
			RetryTimeoutMs:   1000,
			MinRequestAmount: 1,
			StatIntervalMs:   10000,
			Threshold:        1e-9, // valid: within [0,1]; "trip on any error at all"
		})
		for i := 0; i < 3; i++ {
			e, b := api.Entry(res, api.WithSlotChain(sc))
			if b != nil {
				t.Fatalf("request %d of an error-free history was rejected by the ErrorRatio breaker (threshold 1e-9): "+
					"error ratio is 0/%d = 0 and has not reached the threshold, the property lets the breaker open only when the "+
					"ratio reaches the threshold. Listener saw %v", i+1, i, l.events())
			}
			clock.advance(3)
			e.Exit() // success
			clock.advance(3)
		}
		if ev := l.events(); len(ev) != 0 {
			t.Fatalf("error-free history, ErrorRatio threshold 1e-9: listener saw %v, the property allows no transition", ev)
		}
	})
	t.Run("SlowRequestRatio threshold 0.500000004, ratio 0.5", func(t *testing.T) {
		const res = "audit-ratio-eps-2"
		clock, sc, l := auditSetup(t, &cb.Rule{
			Resource:         res,
			Strategy:         cb.SlowRequestRatio,
			RetryTimeoutMs:   1000,
			MinRequestAmount: 2,
			StatIntervalMs:   10000,
			MaxAllowedRtMs:   10,
			Threshold:        0.500000004,
		})
		// fast request, then slow request: slow ratio 1/2 = 0.5 < 0.500000004
		for _, rt := range []int64{1, 50} {
			e, b := api.Entry(res, api.WithSlotChain(sc))
			if b != nil {
				t.Fatalf("setup: request rejected")
			}
			clock.advance(rt)
			e.Exit()
			clock.advance(1)
		}
		if _, b := api.Entry(res, api.WithSlotChain(sc)); b != nil {
			t.Fatalf("SlowRequestRatio breaker with threshold 0.500000004 opened at a slow ratio of 1/2 = 0.5 (listener: %v): "+
				"0.5 < threshold, the property lets it open only when the ratio reaches the threshold", l.events())
		}
	})
}

// Finding 3.
// A request admitted while the breaker was still closed (a straggler) that completes while the breaker is
// half-open is taken for the probe: its success closes the breaker (and clears the statistics, and tells the
// listeners HalfOpen->Closed) although the one admitted probe has not completed - and then fails.
func TestAuditStragglerCompletionIsTakenForTheProbe(t *testing.T) {
	const res = "audit-straggler"
	clock, sc, l := auditSetup(t, &cb.Rule{
		Resource:         res,
		Strategy:         cb.ErrorCount,
		RetryTimeoutMs:   1000,
		MinRequestAmount: 1,
		StatIntervalMs:   60000,
		Threshold:        1,
	})
	// two requests start while closed
	straggler, b := api.Entry(res, api.WithSlotChain(sc))
	if b != nil {
		t.Fatalf("setup: rejected")
	}
	failing, b := api.Entry(res, api.WithSlotChain(sc))
	if b != nil {
		t.Fatalf("setup: rejected")
	}
	// one of them fails after 10ms: breaker opens
	clock.advance(10)
	api.TraceError(failing, errors.New("biz"))
	failing.Exit()
	if _, b = api.Entry(res, api.WithSlotChain(sc)); b == nil {
		t.Fatalf("setup: breaker did not open")
	}
	// retry timeout elapses: the probe is admitted and is in flight
	clock.advance(1000)
	probe, b := api.Entry(res, api.WithSlotChain(sc))
	if b != nil {
		t.Fatalf("setup: probe rejected after the retry timeout")
	}
	// the straggler (started 1010ms ago, before the breaker opened) now completes successfully
	clock.advance(5)
	straggler.Exit()

	// the probe is still running. Is the resource shut for everybody else?
	clock.advance(5)
	other, b := api.Entry(res, api.WithSlotChain(sc))
	events := l.events()
	if other != nil {
		other.Exit()
	}
	api.TraceError(probe, errors.New("still broken"))
	probe.Exit()
	if b == nil {
		t.Fatalf("the breaker was closed by the successful completion of a request that had been admitted BEFORE it opened, "+
			"while its one probe was still in flight (and then failed): listener saw %v and a further request was admitted. "+
			"The property: only the required number of successful PROBES closes a half-open breaker, "+
			"also for histories with stragglers completing after the breaker changed state.", events)
	}
}
