package hotspot

import (
	"sync"
	"testing"
	"time"

	"github.com/alibaba/sentinel-golang/core/base"
	"github.com/alibaba/sentinel-golang/core/hotspot/cache"
	"github.com/alibaba/sentinel-golang/util"
)

// auditPausingCache is a cache of the library with one addition: after AddIfAbsent has returned (the
// lock of the cache is released again) the calling goroutine can be held up. It changes nothing in
// what the cache stores; it only decides when the caller goes on, i.e. it pins down one goroutine
// interleaving.
type auditPausingCache struct {
	cache.ConcurrentCounterCache
	mux   sync.Mutex
	after func(key interface{})
}

func (c *auditPausingCache) AddIfAbsent(key interface{}, value *int64) *int64 {
	prior := c.ConcurrentCounterCache.AddIfAbsent(key, value)
	c.mux.Lock()
	f := c.after
	c.mux.Unlock()
	if f != nil {
		f(key)
	}
	return prior
}

func auditCheck(res string, arg interface{}) *base.TokenResult {
	return auditCheckBatch(res, arg, 1)
}

func auditCheckBatch(res string, arg interface{}, batch uint32) *base.TokenResult {
	ctx := base.NewEmptyEntryContext()
	ctx.Resource = base.NewResourceWrapper(res, base.ResTypeCommon, base.Inbound)
	ctx.Input = &base.SentinelInput{BatchCount: batch, Args: []interface{}{arg}}
	ctx.RuleCheckResult = base.NewTokenResultPass()
	return DefaultSlot.Check(ctx)
}

// auditIdleValueScenario: rule "1 request per second for every value of argument 0", room for 2 values.
//
//	t = 0 ms     value "a" and value "b" make their first request (both admitted, both budgets used up)
//	t = 1 ms     value "c" makes its first request (third live value: one value has to leave the caches)
//	t = 5001 ms  value "a" - idle for five seconds - makes a request of batch 1
//
// With interleave, the two first requests at t = 0 come from two goroutines and the one for "b" runs
// between the two cache operations (refill time, then tokens) of the one for "a".
func auditIdleValueScenario(t *testing.T, res string, interleave bool) (blocked bool, msg string) {
	clock := util.NewMockClock()
	util.SetClock(clock)
	defer util.SetClock(util.NewRealClock())

	rule := &Rule{
		Resource:          res,
		MetricType:        QPS,
		ControlBehavior:   Reject,
		ParamIndex:        0,
		Threshold:         1,
		BurstCount:        0,
		DurationInSec:     1,
		ParamsMaxCapacity: 2,
	}
	if _, err := LoadRulesOfResource(res, []*Rule{rule}); err != nil {
		t.Fatal(err)
	}
	defer ClearRulesOfResource(res)
	tcs := getTrafficControllersFor(res)
	if len(tcs) != 1 {
		t.Fatalf("expected one controller, got %d", len(tcs))
	}
	timeCache := &auditPausingCache{ConcurrentCounterCache: tcs[0].BoundMetric().RuleTimeCounter}
	tcs[0].BoundMetric().RuleTimeCounter = timeCache

	// t = 0
	if interleave {
		var once sync.Once
		timeCache.mux.Lock()
		timeCache.after = func(key interface{}) {
			if key != "a" {
				return
			}
			once.Do(func() {
				// the goroutine serving "a" has registered a's refill time and has not yet touched a's
				// tokens; meanwhile another goroutine serves the first request of "b" completely
				done := make(chan *base.TokenResult)
				go func() { done <- auditCheck(res, "b") }()
				if r := <-done; r != nil && r.IsBlocked() {
					t.Errorf("first request of b blocked")
				}
			})
		}
		timeCache.mux.Unlock()
		if r := auditCheck(res, "a"); r != nil && r.IsBlocked() {
			t.Fatalf("first request of a blocked")
		}
		timeCache.mux.Lock()
		timeCache.after = nil
		timeCache.mux.Unlock()
	} else {
		if r := auditCheck(res, "a"); r != nil && r.IsBlocked() {
			t.Fatalf("first request of a blocked")
		}
		if r := auditCheck(res, "b"); r != nil && r.IsBlocked() {
			t.Fatalf("first request of b blocked")
		}
	}

	// t = 1 ms
	clock.Sleep(time.Millisecond)
	if r := auditCheck(res, "c"); r != nil && r.IsBlocked() {
		t.Fatalf("first request of c blocked")
	}

	// t = 5001 ms
	clock.Sleep(5 * time.Second)
	r := auditCheck(res, "a")
	if r != nil && r.IsBlocked() {
		return true, r.BlockError().BlockMsg()
	}
	return false, ""
}

func TestAuditIdleValueJudgedOnTokensOfAnEarlierLife(t *testing.T) {
	// control: the same requests one after the other
	if blocked, msg := auditIdleValueScenario(t, "audit-idle-seq", false); blocked {
		t.Fatalf("control run (no interleaving): the idle value was blocked: %s", msg)
	}
	// the first requests of a and b overlap
	if blocked, msg := auditIdleValueScenario(t, "audit-idle-conc", true); blocked {
		t.Fatalf("rule: 1 request per 1 s for each value, capacity 2 values. a and b were first seen at t=0 "+
			"(the request for b ran between the two cache operations of the request for a), c at t=1 ms. "+
			"At t=5001 ms value a, idle for 5 s, asked for batch 1 = its threshold and was BLOCKED (%q). "+
			"The property demands: a value idle for longer than the duration is always granted a batch up to its threshold. "+
			"(c pushed a's refill time out of one cache but b's tokens out of the other, so a is treated as "+
			"seen for the first time, and yet charged to the exhausted token counter of its earlier life.)", msg)
	}
}

// auditBurstScenario: rule "1 per second plus a burst of 100" for every value of argument 0.
//
//	t = 0 ms     value "v" takes its whole budget: a batch of 101
//	t = 10 ms    (with reloads) the burst is lowered to 0
//	t = 1011 ms  v asks for 1 (its window has passed: granted)
//	t = 1012 ms  (with reloads) the burst is restored to 100
//	t = 1012 ms  v asks for a batch of 100
//
// It returns the tokens admitted for v.
func auditBurstScenario(t *testing.T, res string, reloads bool) (admitted int64) {
	clock := util.NewMockClock()
	util.SetClock(clock)
	defer util.SetClock(util.NewRealClock())

	ruleWithBurst := func(burst int64) []*Rule {
		return []*Rule{{ID: "r1", Resource: res, MetricType: QPS, ControlBehavior: Reject, ParamIndex: 0,
			Threshold: 1, BurstCount: burst, DurationInSec: 1}}
	}
	if _, err := LoadRulesOfResource(res, ruleWithBurst(100)); err != nil {
		t.Fatal(err)
	}
	defer ClearRulesOfResource(res)
	ask := func(batch uint32) {
		if r := auditCheckBatch(res, "v", batch); r == nil || !r.IsBlocked() {
			admitted += int64(batch)
		}
	}
	ask(101) // t = 0
	clock.Sleep(10 * time.Millisecond)
	if reloads {
		if _, err := LoadRulesOfResource(res, ruleWithBurst(0)); err != nil {
			t.Fatal(err)
		}
	}
	clock.Sleep(1001 * time.Millisecond)
	ask(1) // t = 1011
	clock.Sleep(time.Millisecond)
	if reloads {
		if _, err := LoadRulesOfResource(res, ruleWithBurst(100)); err != nil {
			t.Fatal(err)
		}
	}
	ask(100) // t = 1012
	return admitted
}

func TestAuditBurstLoweredAndRestoredAcrossAWindowIsHandedOutAgain(t *testing.T) {
	// control: the rule stays as it is
	if got := auditBurstScenario(t, "audit-burst-const", false); got != 102 {
		t.Fatalf("control run (no reloads): %d tokens admitted, expected 102 (101 at t=0, 1 at t=1011 ms, the batch of 100 rejected)", got)
	}
	got := auditBurstScenario(t, "audit-burst-reload", true)
	// the most generous rule that was ever in force: threshold 1, burst 100, duration 1 s
	const bound = 101 + 1*2 // (threshold+burst) + threshold per elapsed duration, 1012 ms rounded UP to 2 durations
	if got > bound {
		t.Fatalf("rule: 1 per 1 s + burst 100 for each value. v took 101 at t=0; burst lowered to 0 at t=10 ms; v took 1 at "+
			"t=1011 ms; burst restored to 100 at t=1012 ms; v then took a batch of 100 at t=1012 ms. %d tokens were admitted for "+
			"v within 1012 ms. The property demands: never more than (threshold+burst) plus threshold per elapsed duration "+
			"since the value was first seen = 101 + 1*1.012 (at most %d) - under every rule that was in force. A burst of 100 "+
			"takes 100 s to come back at 1 per second; the two reloads handed it out again after one second.", got, bound)
	}
}
