package base

import (
	"sync/atomic"
	"testing"
	"time"

	"github.com/alibaba/sentinel-golang/core/base"
	"github.com/alibaba/sentinel-golang/util"
)

// auditClock is a settable millisecond clock (time only ever moves forward in these tests).
type auditClock struct{ ms uint64 }

func (c *auditClock) Now() time.Time            { return time.Unix(0, int64(atomic.LoadUint64(&c.ms))*1e6) }
func (c *auditClock) Sleep(time.Duration)       {}
func (c *auditClock) CurrentTimeMillis() uint64 { return atomic.LoadUint64(&c.ms) }
func (c *auditClock) CurrentTimeNano() uint64   { return atomic.LoadUint64(&c.ms) * 1e6 }
func (c *auditClock) set(ms uint64)             { atomic.StoreUint64(&c.ms, ms) }

func auditUseClock(t *testing.T, ms uint64) *auditClock {
	old := util.CurrentClock()
	t.Cleanup(func() { util.SetClock(old) })
	c := &auditClock{ms: ms}
	util.SetClock(c)
	return c
}

// Finding 1: a recorded response time of 0 ms is reported as a minimum of 1 ms by the window view.
// This is exactly what BaseStatNode does: array with the global geometry, view with the metric geometry,
// and what stat.Slot.OnCompleted records for a call that finishes within the millisecond it started in.
func TestAudit_MinRTFloor_ZeroMsResponseReportedAsOne(t *testing.T) {
	const T = uint64(1700000000000)
	clk := auditUseClock(t, T)
	arr := NewBucketLeapArray(20, 10000)
	view, err := NewSlidingWindowMetric(2, 1000, arr)
	if err != nil {
		t.Fatal(err)
	}
	clk.set(T + 100)
	arr.AddCount(base.MetricEventRt, 0) // rt = now - start = 0
	arr.AddCount(base.MetricEventComplete, 1)
	clk.set(T + 200)
	arr.AddCount(base.MetricEventRt, 7)
	arr.AddCount(base.MetricEventComplete, 1)
	clk.set(T + 300)

	gotMin := view.MinRT()
	arrMin := arr.MinRt()
	avg := view.AvgRT()
	if gotMin != 0 {
		t.Errorf("view(2x1000ms over 20x10000ms) at T+300: response times {0ms@T+100, 7ms@T+200} are both inside the window, "+
			"but MinRT()=%v (the array itself says MinRt()=%d, AvgRT()=%v); the property demands the minimum of the recorded events in the window, i.e. 0",
			gotMin, arrMin, avg)
	}

	// only the 0 ms event: the reported minimum is larger than the reported average.
	clk.set(T + 5000)
	arr.AddCount(base.MetricEventRt, 0)
	arr.AddCount(base.MetricEventComplete, 1)
	if m, a := view.MinRT(), view.AvgRT(); m > a {
		t.Errorf("window holding the single response time 0ms: MinRT()=%v > AvgRT()=%v; a minimum above the average is the minimum of no multiset of events", m, a)
	}
}

// Finding 2: a response time above 60000 ms never becomes the minimum: the bucket's "no data yet" marker
// (DefaultStatisticMaxRt) doubles as an upper bound, so the window reports a minimum that no recorded
// event has.
func TestAudit_MinRTCeiling_ResponseAbove60sReportedAs60000(t *testing.T) {
	const T = uint64(1700000000000)
	clk := auditUseClock(t, T)
	arr := NewBucketLeapArray(20, 10000)
	view, err := NewSlidingWindowMetric(2, 1000, arr)
	if err != nil {
		t.Fatal(err)
	}
	clk.set(T + 100)
	arr.AddCount(base.MetricEventRt, 75000) // a call that took 75 s
	arr.AddCount(base.MetricEventComplete, 1)
	clk.set(T + 200)
	arr.AddCount(base.MetricEventRt, 90000)
	arr.AddCount(base.MetricEventComplete, 1)
	clk.set(T + 300)

	if got := view.MinRT(); got != 75000 {
		t.Errorf("view at T+300: recorded response times in the window are {75000ms, 90000ms} (GetSum(Rt)=%d, AvgRT()=%v), "+
			"but MinRT()=%v, a value below every recorded event; the property demands the minimum of the events in the window, 75000",
			view.GetSum(base.MetricEventRt), view.AvgRT(), got)
	}
	if got := arr.MinRt(); got != 75000 {
		t.Errorf("array at T+300: MinRt()=%d for recorded response times {75000, 90000}; the property demands 75000", got)
	}
}

// Finding 3: per-second metric items attribute an event to the second in which its BUCKET starts, not to
// the second the event happened in. With a bucket length that does not divide 1000 ms (valid for
// CheckValidityForStatistic / CheckValidityForReuseStatistic and for the config check: 10 x 3000 ms gives
// 300 ms buckets) an item carries events of another second.
func TestAudit_SecondItems_EventReportedUnderAnotherSecond(t *testing.T) {
	const T = uint64(1700000001000) // a whole second and a multiple of the 300 ms bucket length
	if err := base.CheckValidityForReuseStatistic(1, 3000, 10, 3000); err != nil {
		t.Fatalf("geometry rejected: %v", err)
	}
	clk := auditUseClock(t, T)
	arr := NewBucketLeapArray(10, 3000) // buckets of 300 ms: ..., [T+900, T+1200), ...
	view, err := NewSlidingWindowMetric(1, 3000, arr)
	if err != nil {
		t.Fatal(err)
	}
	clk.set(T + 1100) // second T+1000, bucket [T+900, T+1200)
	arr.AddCount(base.MetricEventPass, 5)
	clk.set(T + 1300)

	items := view.SecondMetricsOnCondition(func(uint64) bool { return true })
	var atEventSecond, atOtherSecond uint64
	var other uint64
	for _, it := range items {
		if it.Timestamp == T+1000 {
			atEventSecond += it.PassQps
		} else if it.PassQps > 0 {
			atOtherSecond += it.PassQps
			other = it.Timestamp
		}
	}
	if atEventSecond != 5 || atOtherSecond != 0 {
		t.Errorf("array 10x3000ms, 5 passes recorded at T+1100 (second T+1000), read at T+1300: the item of second T+1000 holds %d passes "+
			"and the item of second T+%d holds %d; the property demands that the per-second item equals the events of the window that fall in that second "+
			"(5 under T+1000, 0 elsewhere)", atEventSecond, other-T, atOtherSecond)
	}
}
