package gear

import (
	"io/ioutil"
	"log"
	"net/http"
	"net/http/httptest"
	"testing"
	"time"

	sentinel "github.com/alibaba/sentinel-golang/api"
	"github.com/alibaba/sentinel-golang/core/stat"
	"github.com/teambition/gear"
)

// Property: "when it is admitted the handler runs exactly once and the entry is exited exactly once on
// every path, including handler errors (which are traced) and handler panics".
//
// The gear adapter does not hold the entry in a defer: it hands entry.Exit to gear as an "end hook"
// (ctx.OnEnd). gear runs the end hooks of a request in one goroutine, last registered first, under ONE
// recover for the whole list (tryRunHooks). The adapter registers its hook first (it is the first
// middleware), so it is the last to run: when a hook that the handler registered panics, gear recovers,
// logs - and drops the hooks that were still to run. The entry of the admitted request is never exited.
func TestAuditGearEntryNeverExitedWhenHandlerEndHookPanics(t *testing.T) {
	if err := sentinel.InitDefault(); err != nil {
		t.Fatal(err)
	}
	const resource = "GET:/audit-end-hook"

	run := func(hookPanics bool) int32 {
		hookRan := make(chan struct{}, 1)
		app := gear.New()
		app.Set(gear.SetLogger, log.New(ioutil.Discard, "", 0))
		router := gear.NewRouter()
		router.Use(SentinelMiddleware())
		router.Get("/audit-end-hook", func(ctx *gear.Context) error {
			// what gear's own logging middleware does too: work that is to be done once the response is out
			ctx.OnEnd(func() {
				hookRan <- struct{}{}
				if hookPanics {
					panic("the handler's end hook panics")
				}
			})
			return ctx.End(http.StatusOK, []byte("ok"))
		})
		app.UseHandler(router)

		w := httptest.NewRecorder()
		app.ServeHTTP(w, httptest.NewRequest(http.MethodGet, "/audit-end-hook", nil))
		if w.Code != http.StatusOK {
			t.Fatalf("setup: the request was expected to be admitted, got status %d", w.Code)
		}
		select {
		case <-hookRan:
		case <-time.After(2 * time.Second):
			t.Fatal("setup: gear did not run the end hooks")
		}
		// the hooks run in a goroutine of their own, after the response: give the adapter's hook its time
		node := stat.GetResourceNode(resource)
		if node == nil {
			t.Fatal("setup: no statistics node, the adapter asked for no entry")
		}
		deadline := time.Now().Add(time.Second)
		for node.CurrentConcurrency() != 0 && time.Now().Before(deadline) {
			time.Sleep(5 * time.Millisecond)
		}
		return node.CurrentConcurrency()
	}

	if c := run(false); c != 0 {
		t.Fatalf("setup: with a well-behaved end hook the entry is expected to be exited, concurrency of the resource is %d", c)
	}
	if c := run(true); c != 0 {
		t.Fatalf("admitted request, handler ran once and answered 200, an end hook registered by the handler panicked (gear recovered it): "+
			"one second later the entry of the request has still not been exited (concurrency of %q is %d, expected 0); "+
			"the property demands that the entry is exited exactly once on every path, handler panics included", resource, c)
	}
}
