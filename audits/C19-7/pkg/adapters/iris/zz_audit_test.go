package iris

import (
	"net/http"
	"net/http/httptest"
	"sync/atomic"
	"testing"

	sentinel "github.com/alibaba/sentinel-golang/api"
	"github.com/alibaba/sentinel-golang/core/flow"
	"github.com/kataras/iris/v12"
)

// Property: "when the request is blocked the handler is not invoked and the configured fallback
// (or the default rejection) is produced".
//
// iris has a documented switch, Party.SetExecutionRules(ExecutionRules{Begin: {Force: true}}), under
// which the handlers of a route run one after another WITHOUT ctx.Next(); the only way to stop the chain
// then is ctx.StopExecution(). The adapter's default rejection stops the execution, but after a configured
// fallback the adapter only returns: a fallback that just writes its response lets iris go on to the
// route handler of the blocked request.
func TestAuditIrisBlockedRequestRunsHandlerUnderForcedExecution(t *testing.T) {
	if err := sentinel.InitDefault(); err != nil {
		t.Fatal(err)
	}
	if _, err := flow.LoadRules([]*flow.Rule{{
		Resource:               "GET:/audit-blocked",
		Threshold:              0,
		TokenCalculateStrategy: flow.Direct,
		ControlBehavior:        flow.Reject,
		StatIntervalInMs:       1000,
	}}); err != nil {
		t.Fatal(err)
	}
	defer flow.ClearRules()

	var handlerRuns, fallbackRuns int32
	app := iris.New()
	app.SetExecutionRules(iris.ExecutionRules{Begin: iris.ExecutionOptions{Force: true}})
	app.Use(SentinelMiddleware(WithBlockFallback(func(ctx iris.Context) {
		atomic.AddInt32(&fallbackRuns, 1)
		ctx.StatusCode(http.StatusTooManyRequests)
		_, _ = ctx.WriteString("blocked")
	})))
	app.Get("/audit-blocked", func(ctx iris.Context) {
		atomic.AddInt32(&handlerRuns, 1)
		_, _ = ctx.WriteString("handler ran")
	})
	if err := app.Build(); err != nil {
		t.Fatal(err)
	}

	w := httptest.NewRecorder()
	app.ServeHTTP(w, httptest.NewRequest(http.MethodGet, "/audit-blocked", nil))

	if n := atomic.LoadInt32(&fallbackRuns); n != 1 {
		t.Fatalf("setup: the request was expected to be blocked and the fallback to run once, it ran %d times", n)
	}
	if n := atomic.LoadInt32(&handlerRuns); n != 0 {
		t.Fatalf("request blocked by a flow rule of threshold 0 (fallback ran, status %d, body %q): the route handler ran %d time(s); "+
			"the property demands that the handler of a blocked request is not invoked", w.Code, w.Body.String(), n)
	}
}
