package gear

import (
	"io"
	"log"
	"net/http"
	"net/http/httptest"
	"testing"
	"time"

	sentinel "github.com/alibaba/sentinel-golang/api"
	"github.com/alibaba/sentinel-golang/core/flow"
	"github.com/alibaba/sentinel-golang/core/stat"
	"github.com/teambition/gear"
)

func auditInit(t *testing.T, rules ...*flow.Rule) {
	t.Helper()
	if err := sentinel.InitDefault(); err != nil {
		t.Fatal(err)
	}
	if _, err := flow.LoadRules(rules); err != nil {
		t.Fatal(err)
	}
}

// A blocked request, and a configured fallback that answers the gear way without ending the response
// itself: it sets the status (and a header) and returns nil - gear sends that status when the middleware
// chain is over ("try to ensure respond" in App.ServeHTTP). The adapter returns the fallback's nil to gear,
// which goes on to the next middleware: the route handler of the blocked request.
func TestAuditGearBlockedRequestRunsHandlerAfterFallback(t *testing.T) {
	auditInit(t, &flow.Rule{
		Resource:               "GET:/audit-blocked",
		Threshold:              0,
		TokenCalculateStrategy: flow.Direct,
		ControlBehavior:        flow.Reject,
		StatIntervalInMs:       1000,
	})

	fallbackRuns, handlerRuns := 0, 0
	fallback := func(ctx *gear.Context) error {
		fallbackRuns++
		ctx.SetHeader("Retry-After", "1")
		ctx.Status(http.StatusServiceUnavailable)
		return nil
	}

	// control: the fallback alone produces a complete answer in gear
	{
		app := gear.New()
		app.Use(func(ctx *gear.Context) error { return fallback(ctx) })
		w := httptest.NewRecorder()
		app.ServeHTTP(w, httptest.NewRequest(http.MethodGet, "/audit-blocked", nil))
		if w.Code != http.StatusServiceUnavailable || w.Header().Get("Retry-After") != "1" {
			t.Fatalf("control: the fallback alone answered %d (Retry-After %q), want 503 and 1", w.Code, w.Header().Get("Retry-After"))
		}
		fallbackRuns = 0
	}

	app := gear.New()
	router := gear.NewRouter()
	router.Use(SentinelMiddleware(WithBlockFallback(fallback)))
	router.Handle(http.MethodGet, "/audit-blocked", func(ctx *gear.Context) error {
		handlerRuns++
		return ctx.End(http.StatusOK, []byte("handled"))
	})
	app.UseHandler(router)

	w := httptest.NewRecorder()
	app.ServeHTTP(w, httptest.NewRequest(http.MethodGet, "/audit-blocked", nil))

	if fallbackRuns != 1 {
		t.Fatalf("the request was expected to be blocked (threshold 0) and the fallback to run once, it ran %d times", fallbackRuns)
	}
	if handlerRuns != 0 || w.Code != http.StatusServiceUnavailable {
		t.Fatalf("gear SentinelMiddleware: the request was BLOCKED and the configured fallback ran, yet the wrapped route "+
			"handler was invoked %d time(s) and the client got %d %q; the property demands that the handler of a blocked "+
			"request is not invoked and that the configured fallback (503) is what is produced",
			handlerRuns, w.Code, w.Body.String())
	}
}

func auditWaitConcurrencyZero(resource string, d time.Duration) int32 {
	deadline := time.Now().Add(d)
	for {
		n := stat.GetResourceNode(resource)
		if n != nil && n.CurrentConcurrency() == 0 {
			return 0
		}
		if time.Now().After(deadline) {
			if n == nil {
				return -1
			}
			return n.CurrentConcurrency()
		}
		time.Sleep(5 * time.Millisecond)
	}
}

// An admitted request whose handler code panics in gear's end phase: the handler registers an end hook
// (ctx.OnEnd - gear's place for work after the response) and that hook panics. gear recovers the panic
// (tryRunHooks / catchErr) - and with it abandons the remaining end hooks, which run in LIFO order: the
// adapter's hook, registered before the handler ran, is the last one and is never reached. The entry of the
// request is never exited.
func TestAuditGearEntryNeverExitedWhenHandlerEndHookPanics(t *testing.T) {
	auditInit(t)

	serve := func(path string, hookPanics bool) int {
		app := gear.New()
		app.Set(gear.SetLogger, log.New(io.Discard, "", 0))
		router := gear.NewRouter()
		router.Use(SentinelMiddleware())
		router.Handle(http.MethodGet, path, func(ctx *gear.Context) error {
			ctx.OnEnd(func() {
				if hookPanics {
					panic("handler's end hook failed")
				}
			})
			return ctx.End(http.StatusOK, []byte("ok"))
		})
		app.UseHandler(router)
		w := httptest.NewRecorder()
		app.ServeHTTP(w, httptest.NewRequest(http.MethodGet, path, nil))
		return w.Code
	}

	// control: without the panic the entry is exited (asynchronously, by the end hook) soon after the request
	if code := serve("/audit-hook-ok", false); code != http.StatusOK {
		t.Fatalf("control: status %d", code)
	}
	if c := auditWaitConcurrencyZero("GET:/audit-hook-ok", 2*time.Second); c != 0 {
		t.Fatalf("control: concurrency of GET:/audit-hook-ok is %d two seconds after the request", c)
	}

	if code := serve("/audit-hook-panic", true); code != http.StatusOK {
		t.Fatalf("status %d", code)
	}
	if c := auditWaitConcurrencyZero("GET:/audit-hook-panic", 2*time.Second); c != 0 {
		t.Fatalf("gear SentinelMiddleware: an admitted request whose handler registered an end hook that panics (gear "+
			"recovered the panic and the request completed with 200) still counts as in flight two seconds later: "+
			"concurrency of GET:/audit-hook-panic is %d, the entry was never exited; the property demands that the "+
			"entry is exited exactly once on every path, including panics of the handler's code", c)
	}
}
