package kratos

import (
	"context"
	"testing"

	"github.com/go-kratos/kratos/v2/errors"
	"github.com/go-kratos/kratos/v2/registry"
	"github.com/go-kratos/kratos/v2/selector"
	"github.com/go-kratos/kratos/v2/selector/random"
	"github.com/go-kratos/kratos/v2/transport"

	sentinel "github.com/alibaba/sentinel-golang/api"
	"github.com/alibaba/sentinel-golang/core/base"
	"github.com/alibaba/sentinel-golang/core/stat"
)

type auditHeader map[string][]string

func (h auditHeader) Get(k string) string {
	if v := h[k]; len(v) > 0 {
		return v[0]
	}
	return ""
}
func (h auditHeader) Set(k, v string) { h[k] = []string{v} }
func (h auditHeader) Add(k, v string) { h[k] = append(h[k], v) }
func (h auditHeader) Keys() []string {
	ks := make([]string, 0, len(h))
	for k := range h {
		ks = append(ks, k)
	}
	return ks
}
func (h auditHeader) Values(k string) []string { return h[k] }

// what the kratos client transports (grpc and http) put into the context of a call made through service discovery
type auditTransport struct {
	endpoint string
	hdr      auditHeader
}

func (t *auditTransport) Kind() transport.Kind            { return transport.KindHTTP }
func (t *auditTransport) Endpoint() string                { return t.endpoint }
func (t *auditTransport) Operation() string               { return "/audit.Greeter/SayHello" }
func (t *auditTransport) RequestHeader() transport.Header { return t.hdr }
func (t *auditTransport) ReplyHeader() transport.Header   { return t.hdr }

// auditCall drives SentinelClientMiddleware the way kratos' transport/http client does (client.invoke and
// client.do of kratos v2.8.0): transport and an empty selector.Peer go into the context, the middleware chain
// runs, and the innermost handler asks the selector for a node (with the node filters of the client) before
// it sends the request. The request itself always fails here with `sendErr` (the server answers 503).
func auditCall(t *testing.T, service string, nodes []selector.Node, outlier bool) (errCount int64, callErr error) {
	t.Helper()
	sel := random.NewBuilder().Build()
	sel.Apply(nodes)

	sendErr := errors.ServiceUnavailable("UNAVAILABLE", "the server answered 503")
	handlerRuns := 0
	inner := func(ctx context.Context, req interface{}) (interface{}, error) {
		handlerRuns++
		_, done, err := sel.Select(ctx, selector.WithNodeFilter(OutlierClientFilter))
		if err != nil {
			// (kratos: errors.ServiceUnavailable("NODE_NOT_FOUND", err.Error()))
			return nil, errors.ServiceUnavailable("NODE_NOT_FOUND", err.Error())
		}
		done(ctx, selector.DoneInfo{Err: sendErr})
		return nil, sendErr
	}

	mw := SentinelClientMiddleware(
		WithEnableOutlier(func(ctx context.Context) bool { return outlier }),
		WithResourceExtract(func(ctx context.Context, req interface{}) string { return service }),
	)
	ctx := transport.NewClientContext(context.Background(), &auditTransport{
		endpoint: "discovery:///" + service, hdr: auditHeader{},
	})
	var p selector.Peer
	ctx = selector.NewPeerContext(ctx, &p)

	_, callErr = mw(inner)(ctx, "request")
	if handlerRuns != 1 {
		t.Fatalf("the wrapped handler ran %d times for an admitted request, want exactly once", handlerRuns)
	}
	node := stat.GetResourceNode(service)
	if node == nil {
		t.Fatalf("no statistics for resource %q: the middleware did not ask Sentinel for an entry", service)
	}
	if c := node.CurrentConcurrency(); c != 0 {
		t.Fatalf("resource %q: concurrency %d after the call, the entry was not exited", service, c)
	}
	return node.GetSum(base.MetricEventError), callErr
}

// An admitted call made through kratos' SentinelClientMiddleware with outlier ejection enabled fails
// before a node was picked (no instance of the service is available: none registered, or all of them
// filtered away). The wrapped handler returns that error; the property demands that it is traced on the entry.
func TestAuditKratosOutlierErrorWithoutPeerNotTraced(t *testing.T) {
	if err := sentinel.InitDefault(); err != nil {
		t.Fatal(err)
	}
	one := []selector.Node{selector.NewNode("http", "10.0.0.1:8000", &registry.ServiceInstance{
		ID: "1", Name: "svc", Endpoints: []string{"http://10.0.0.1:8000"},
	})}

	// controls: the same failing call is traced (a) without outlier ejection and (b) with it when a node was picked
	if n, err := auditCall(t, "audit-kratos-plain-nonode", nil, false); err == nil || n != 1 {
		t.Fatalf("control (outlier off, no node): call error %v, %d errors recorded, want an error and 1", err, n)
	}
	if n, err := auditCall(t, "audit-kratos-outlier-node", one, true); err == nil || n != 1 {
		t.Fatalf("control (outlier on, node picked): call error %v, %d errors recorded, want an error and 1", err, n)
	}

	n, err := auditCall(t, "audit-kratos-outlier-nonode", nil, true)
	if err == nil {
		t.Fatalf("the call was expected to fail (no node available)")
	}
	if n != 1 {
		t.Fatalf("kratos SentinelClientMiddleware, outlier mode: the admitted call failed with %q, but the entry "+
			"completed with %d errors recorded on the resource; the property demands that a handler error is traced "+
			"on the entry on every path (the same failure IS traced with outlier ejection off, and with it on once "+
			"a node was picked)", err, n)
	}
}
